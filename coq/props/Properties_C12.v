(* C12 — A Task does nothing until started, then behaves like the same eager pipeline.
   Statements only; proofs are in proofs/LazyProofs.v (over proofs/PipeProofs.v).

   model/Lazy.v: a Task object is [TUnstarted chain | TCompleted chain result | TGone]; operations TThen (attach a core),
   TStart s (ToFuture / ToFuture(e) / Get / Detach / Detach(e) / returned from a continuation / co_await), TAwait
   (co_await Await(task): the object stays valid), TDestroy (~Task).  A started chain runs core by core with
   Pipe.step_result, i.e. exactly the implementation-shaped semantics C02 is about.  Heads: MakeTask, Schedule,
   LazyContract, coroutine.  Chains, callback bodies, lengths, executors are universally quantified. *)
From Coq Require Import List ZArith Bool.
Import ListNotations.
From YV Require Import model.Pipe model.PipeObs model.Lazy model.LazyObs proofs.PipeProofs proofs.LazyProofs.

(* Nothing runs while a Task is being built: after any number of Then / ThenInline no callback was invoked, no functor
   destroyed, no result delivered, and the object holds the chain *)
Theorem c12_inert : forall h steps,
  exists w, trun (tinit h) (map TThen steps) = Some w /\
            w_state w = TUnstarted (Task h steps) /\ w_evs w = [] /\ w_freed w = [] /\ w_results w = [].
Proof. exact inert. Qed.
Print Assumptions c12_inert.

(* ... from any state: operations that only attach never add an invocation *)
Theorem c12_only_starting_runs : forall ops w w',
  trun w ops = Some w' -> (forall o, In o ops -> exists s, o = TThen s) ->
  w_evs w' = w_evs w /\ w_freed w' = w_freed w /\ w_results w' = w_results w.
Proof. exact only_then_before_start. Qed.
Print Assumptions c12_only_starting_runs.

(* Started on its own executor (ToFuture(), Get(), Detach(), returned from a continuation, co_await task, Await(task)):
   the whole outcome — final Result, every invocation with its argument and executor, in order — is that of the same
   pipeline written eagerly (Run for Schedule, AsyncContract for LazyContract, a ready FutureOn for MakeTask, a
   coroutine returning Future), and the functors destroyed are exactly those of the chain, each once, in order *)
Theorem c12_twin : forall p tk,
  build p = Some tk -> run_task SOwn tk = with_ids (task_ids tk) (core_run (eager p)).
Proof. exact twin_own. Qed.
Print Assumptions c12_twin.

(* Started on another executor e (ToFuture(e), Detach(e)): the eager twin whose first core is handed to e
   (Run(e,f) / AsyncContract(e,f) / a ready FutureOn(e) when e is alive) *)
Theorem c12_twin_on : forall e h steps src,
  twin_on e (Task h []) = Some src ->
  run_task (SOn e) (Task h steps) = with_ids (task_ids (Task h steps)) (core_run (chain_of src steps)).
Proof. exact twin_started_on. Qed.
Print Assumptions c12_twin_on.

(* Once started, every core contributes at most one invocation (followed by those of the chain it returned), after
   all earlier ones, and its functor is destroyed exactly once *)
Theorem c12_each_step_at_most_once_in_order : forall s h steps st oq fq o fr,
  run_task s (Task h steps) = Some (oq, fq) ->
  run_task s (Task h (steps ++ [st])) = Some (o, fr) ->
  fr = fq ++ [l_id st] /\
  (o_evs o = o_evs oq \/
   exists i, invoked (l_par st) (arrives (l_att st) oq) = Some i /\
     (o_evs o = o_evs oq ++ [Ev (l_id st) (exec_of (l_att st) oq) (is_call (l_att st)) i] \/
      exists k p' oi, l_body st i = RetAsync k p' /\ core_run p' = Some oi /\
        o_evs o = o_evs oq ++ Ev (l_id st) (exec_of (l_att st) oq) (is_call (l_att st)) i :: o_evs oi)).
Proof. exact step_once_in_order_lazy. Qed.
Print Assumptions c12_each_step_at_most_once_in_order.

Theorem c12_every_functor_released_once : forall s tk o fr, run_task s tk = Some (o, fr) -> fr = task_ids tk.
Proof. exact freed_exactly_the_chain. Qed.
Print Assumptions c12_every_functor_released_once.

(* Destroying a Task that was never started cancels the chain with StopError: either nothing at all is invoked and the
   chain ends in StopError, or the first callback invoked is one taking Result / E and it receives StopError; every
   functor of the chain is destroyed exactly once *)
Theorem c12_cancel : forall w tk w',
  w_state w = TUnstarted tk -> tstep w TDestroy = Some w' ->
  exists o, cancel tk = Some (o, task_ids tk) /\ cancelled o /\
            w_evs w' = w_evs w ++ o_evs o /\ w_freed w' = w_freed w ++ task_ids tk /\ w_results w' = w_results w /\
            w_state w' = TGone.
Proof. exact destroy_unstarted. Qed.
Print Assumptions c12_cancel.

(* the function given to Schedule (unless it takes Result / E), to LazyContract, and a coroutine body never run *)
Theorem c12_cancel_head_not_run : forall h o fr,
  head_recovers h = false -> run_head (SOn XStopped) h = Some (o, fr) -> o_evs o = [] /\ o_res o = Err EStop.
Proof. exact cancel_head_not_run. Qed.
Print Assumptions c12_cancel_head_not_run.

(* no callback taking Result / E anywhere in the chain: no callback — in particular no value callback — is invoked *)
Theorem c12_cancel_no_value_callback : forall h steps o fr,
  head_recovers h = false -> forallb (fun s => negb (recovers (l_par s))) steps = true ->
  cancel (Task h steps) = Some (o, fr) -> o_evs o = [] /\ o_res o = Err EStop.
Proof. exact cancel_silent. Qed.
Print Assumptions c12_cancel_no_value_callback.

(* The literal reading "destroying a never-started Task invokes no value callback" does not hold for chains that
   contain a recovery callback — by design: cancellation is StopError travelling down the chain (C02).  Witness
   (replayed on the library by checks/c12.py): Schedule(f).ThenInline(g(Result) -> d+5).ThenInline(h(int)) dropped:
   f not run, g(StopError), h(104). *)
Local Open Scope Z_scope.
Definition cancel_witness : prog :=
  PThen (PThen (PRun WT XInline 1 PNone TInt (hb (BRetI 2))) 2 PResult AInline TInt (hb (BRetI 5)))
        3 PValue AInline TInt (hb (BRetI 1)).

Theorem c12_cancel_no_value_callback_literal_refuted :
  exists tk o fr e, build cancel_witness = Some tk /\ cancel tk = Some (o, fr) /\
                    In e (o_evs o) /\ ev_id e = 3%nat /\ ev_in e = IVal (VInt 104).
Proof.
  eexists. eexists. eexists. eexists. split; [reflexivity|]. split; [vm_compute; reflexivity|].
  split; [right; left; reflexivity|]. split; reflexivity.
Qed.
Print Assumptions c12_cancel_no_value_callback_literal_refuted.

(* Destroying a Task that already completed (after co_await Await(task)) just releases it: no callback, no functor
   destruction, no result — whatever cores the chain has (since ac7df75; see Lazy.drop_completed_before_ac7df75) *)
Theorem c12_drop_completed : forall w tk o w',
  w_state w = TCompleted tk o -> tstep w TDestroy = Some w' ->
  w_evs w' = w_evs w /\ w_freed w' = w_freed w /\ w_results w' = w_results w /\ w_state w' = TGone.
Proof. exact destroy_completed. Qed.
Print Assumptions c12_drop_completed.

Theorem c12_await_then_destroy : forall h steps w1 w2,
  tstep (TW (TUnstarted (Task h steps)) [] [] []) TAwait = Some w1 -> tstep w1 TDestroy = Some w2 ->
  exists o, run_task SOwn (Task h steps) = Some (o, task_ids (Task h steps)) /\
            w_evs w2 = o_evs o /\ w_freed w2 = task_ids (Task h steps) /\ w_results w2 = [o_res o] /\ w_state w2 = TGone.
Proof. exact await_then_destroy. Qed.
Print Assumptions c12_await_then_destroy.

(* ---- non-vacuity (programs run by harness/h_c12 on the real library) *)

(* Schedule(f).ThenInline(g(Result)).ThenInline(h(int)) started with ToFuture(): f, g, h run once each in order *)
Example c12_witness_started :
  lazy_obs [TStart SOwn] cancel_witness = [1; 1; 1; 1; 0; 8; 3; 1; 4; 1; 0; 2; 0; 0; 2; 3; 1; 0; 7; 3; 1; 2; 3].
Proof. vm_compute. reflexivity. Qed.

(* the same dropped unstarted: f not run, g(StopError), h(104); functors 1, 2, 3 destroyed once each; no result *)
Example c12_witness_dropped :
  lazy_obs [TDestroy] cancel_witness = [1; 1; 1; 0; 2; 2; 0; 2; -1; 3; 1; 0; 104; 3; 1; 2; 3].
Proof. vm_compute. reflexivity. Qed.

(* co_await Await(task) then ~Task on the completed object: as started, nothing more *)
Example c12_witness_await_destroy :
  lazy_obs [TAwait; TDestroy] cancel_witness = lazy_obs [TStart SOwn] cancel_witness.
Proof. vm_compute. reflexivity. Qed.

(* the old rule (before ac7df75) for that program: the last core is a Then-core, ~Task ran Drop() on it again *)
Example c12_old_rule_was_undefined :
  option_map drop_completed_before_ac7df75 (build cancel_witness) = Some DUndefined.
Proof. vm_compute. reflexivity. Qed.

(* a chain of value callbacks dropped unstarted: silence *)
Example c12_witness_silent_cancel :
  lazy_obs [TDestroy] (PThen (PRun WT (XManual 0) 1 PNone TInt (hb (BRetI 2))) 2 PValue (AOn (XManual 1)) TInt (hb (BRetI 1)))
  = [1; 1; 1; 0; 0; 2; 1; 2].
Proof. vm_compute. reflexivity. Qed.
