(* C13 — Coroutines resume once, after the awaited event, with its outcome, where asked.
   Statements only; proofs are in proofs/AwaitProofs.v, AwaitSteps.v, AwaitThms.v (an inductive invariant of the Await
   transition system).

   [os cs nx] range over every configuration (any number of awaited objects — unique, shared, lazy — of coroutines, each
   with any list of co_awaits, of executors); [tr] over every sequence of atomic operations and harness markers of every
   thread, i.e. every schedule; [c co] over the coroutines of the state reached.  Values enter through the events.
   Each resumption leaves a record (rrec) in [resumes co]; what a record says is fixed when the resumption happens. *)
From Coq Require Import List Arith Bool.
Import ListNotations.
From YV Require Import gen.Gen_ready_c13 model.Await model.AwaitObs proofs.AwaitProofs proofs.AwaitSteps proofs.AwaitThms.

(* The readiness rule (and PromiseType::Impl) were read from the source, recognised, and the rule is the sound one
   (await_ready <-> word == kResult). *)
Example c13_ready_rule_from_source : c13_ready_rule_recognised = true /\ c13_ready_is_result = true.
Proof. split; reflexivity. Qed.

(* Exactly once, only after: one record per co_await passed, in order (so no co_await is resumed twice and none is
   skipped); when a record was made every object awaited there was complete (word kResult, Result constructed) and the
   body had not ended; and those objects are complete ever after. *)
Theorem c13_resume_once_after :
  forall os cs nx tr s, run (init os cs nx) tr = Some s ->
  forall c co, nth_error (cos s) c = Some co ->
    map rk (resumes co) = seq 0 (pc co) /\
    Forall (fun r => rok r = true /\ rlive r = true) (resumes co) /\
    forall r a, In r (resumes co) -> nth_error (prog co) (rk r) = Some a ->
                forall o, In o (aobjs a) -> ocomplete (objs s) o = true.
Proof. intros os cs nx tr s H c co Hc. exact (resume_once_after os cs nx tr s H c co Hc). Qed.
Print Assumptions c13_resume_once_after.

(* ... and at least once: a suspended coroutine still has its callback in an object it awaits (registered, or taken out
   by that object's exchange and about to be fired); a submitted one is in that executor's queue.  Hence, when nothing
   is in flight, a coroutine that has not resumed awaits something that was never fulfilled. *)
Theorem c13_never_lost :
  forall os cs nx tr s, run (init os cs nx) tr = Some s ->
  forall c co, nth_error (cos s) c = Some co ->
    (cst co = AWait ->
       exists a o ob, capt co = Some a /\ In o (aobjs a) /\ nth_error (objs s) o = Some ob /\
                      match ow ob with WStack l => In c l | WRes => In c (opend ob) end) /\
    (forall x, cst co = AQueued x -> exists q, nth_error (qs s) x = Some q /\ In c q) /\
    (quiescent s = true -> cst co = AWait ->
       exists a o, capt co = Some a /\ In o (aobjs a) /\ ocomplete (objs s) o = false).
Proof.
  intros os cs nx tr s H c co Hc. destruct (never_lost os cs nx tr s H c co Hc) as [A B].
  split; [exact A|]. split; [exact B|]. exact (quiescent_waits os cs nx tr s H c co Hc).
Qed.
Print Assumptions c13_never_lost.

(* The value: what await_resume read is the awaited object's Result (which exists). *)
Theorem c13_outcome_value :
  forall os cs nx tr s, run (init os cs nx) tr = Some s ->
  forall c co, nth_error (cos s) c = Some co ->
  forall r a, In r (resumes co) -> nth_error (prog co) (rk r) = Some a ->
    match aconsume a with
    | Some (o, _) => exists ob v, nth_error (objs s) o = Some ob /\ oslot ob = Some v /\ rval r = Some (Some v)
    | None => rval r = None
    end.
Proof. intros os cs nx tr s H c co Hc. exact (outcome_value os cs nx tr s H c co Hc). Qed.
Print Assumptions c13_outcome_value.

(* co_return, an escaping exception and Drop become the coroutine's own Result: once the body has ended its core holds
   the value returned / the failure rethrown by the last co_await (uncaught) / StopError; a body that returned passed
   every co_await; a finished coroutine has published (word kResult). *)
Theorem c13_outcome :
  forall os cs nx tr s, run (init os cs nx) tr = Some s ->
  forall c co, nth_error (cos s) c = Some co ->
    (cend co = Running <-> (cst co <> AFinal /\ cst co <> ADone)) /\
    (cend co <> Running ->
       exists ob, nth_error (objs s) (own co) = Some ob /\
         oslot ob = Some (match cend co with Returned r => r | Threw e => e | _ => RStop end)) /\
    (forall r, cend co = Returned r -> pc co = length (prog co)) /\
    (forall e, cend co = Threw e ->
       exists l r a o, resumes co = l ++ [r] /\ rval r = Some (Some e) /\ (e = RStop \/ exists n, e = RErr n) /\
                       nth_error (prog co) (rk r) = Some a /\ aconsume a = Some (o, false)) /\
    (cst co = ADone -> exists ob, nth_error (objs s) (own co) = Some ob /\ ow ob = WRes).
Proof. intros os cs nx tr s H c co Hc. exact (outcome_own os cs nx tr s H c co Hc). Qed.
Print Assumptions c13_outcome.

(* Await(fs...), AwaitSticky(fs...), AwaitOn(e, fs...) (and every other form) leave each future ready: word kResult and
   the Result constructed, from the resumption on. *)
Theorem c13_await_leaves_ready :
  forall os cs nx tr s, run (init os cs nx) tr = Some s ->
  forall c co, nth_error (cos s) c = Some co ->
  forall r a, In r (resumes co) -> nth_error (prog co) (rk r) = Some a ->
  forall o, In o (aobjs a) ->
    exists ob v, nth_error (objs s) o = Some ob /\ ow ob = WRes /\ oslot ob = Some v.
Proof. intros os cs nx tr s H c co Hc. exact (await_leaves_ready os cs nx tr s H c co Hc). Qed.
Print Assumptions c13_await_leaves_ready.

(* Where.  rhow: BySelf = not suspended at all; ByFire o = resumed inline by the thread that completed object o (it is
   the thread that did o's exchange, and the thread the coroutine continues on); ByExec x = inside executor x's Call
   (x = 0: Inline, which calls inside Submit).  rown: promise._executor when the co_await began, rexec: afterwards. *)
Theorem c13_where :
  forall os cs nx tr s, run (init os cs nx) tr = Some s ->
  forall c co, nth_error (cos s) c = Some co ->
  forall r a, In r (resumes co) -> nth_error (prog co) (rk r) = Some a ->
    match a with
    | PCurrent => rhow r = BySelf /\ rexec r = rown r
    | POn e => rhow r = ByExec e /\ rexec r = e
    | PYield => rhow r = ByExec (rown r) /\ rexec r = rown r
    | PAwait1 (FOn e) _ | PAwaitN (FOn e) _ => rhow r = ByExec e /\ rexec r = e
    | PAwait1 FSticky _ | PAwaitN FSticky _ => (rhow r = BySelf \/ rhow r = ByExec (rown r)) /\ rexec r = rown r
    | _ => (rhow r = BySelf /\ rexec r = rown r) \/
           exists o ob, In o (aobjs a) /\ rhow r = ByFire o /\ nth_error (objs s) o = Some ob /\ othr ob = Some (rthr r)
    end.
Proof. intros os cs nx tr s H c co Hc r a Hi Ha. exact (where_resumed os cs nx tr s H c co Hc r a Hi Ha). Qed.
Print Assumptions c13_where.

(* A stopped executor: the Drop marks the coroutine at once; a dropped coroutine is completed with StopError (its core
   holds it; the final exchange is enabled; once done the word is kResult); it never resumes again (every record was made
   while the body was running: c13_resume_once_after); local and frame are destroyed at most once, the frame only after
   the coroutine is done, and when the owner has let go both have been destroyed exactly once. *)
Theorem c13_stopped_executor :
  forall os cs nx tr s, run (init os cs nx) tr = Some s ->
  (forall t x c s', step s (EDrop t x c) = Some s' ->
     exists co', nth_error (cos s') c = Some co' /\ cend co' = Dropped /\ cst co' = AFinal) /\
  forall c co, nth_error (cos s) c = Some co ->
    (cend co = Dropped ->
       (cst co = AFinal \/ cst co = ADone) /\
       (exists ob, nth_error (objs s) (own co) = Some ob /\ oprod ob = Some c /\ oslot ob = Some RStop /\
                   (cst co = ADone -> ow ob = WRes) /\ (cst co = AFinal -> exists l, ow ob = WStack l)) /\
       (cst co = AFinal -> exists s', step s (EXchg (on co) (own co)) = Some s')) /\
    (ldtors co <= 1 /\ ffrees co <= 1 /\ (llive co = true <-> ldtors co = 0) /\ (fowner co = true <-> ffrees co = 0) /\
     (fowner co = false -> ffrees co = 1 /\ ldtors co = 1 /\ llive co = false /\ cst co = ADone)).
Proof.
  intros os cs nx tr s H. split.
  - intros t x c s' Hd. exact (drop_drops s t x c s' Hd).
  - intros c co Hc. split.
    + intros E. destruct (dropped_completed os cs nx tr s H c co Hc E) as [A B]. split; [exact A|]. split; [exact B|].
      exact (dropped_progress os cs nx tr s H c co Hc E).
    + exact (frame_once os cs nx tr s H c co Hc).
Qed.
Print Assumptions c13_stopped_executor.

(* await_ready of the single-future awaiters answers true only when the Result is published. *)
Theorem c13_await_ready_sound :
  forall os cs nx tr s, run (init os cs nx) tr = Some s ->
  forall c co, nth_error (cos s) c = Some co ->
    Forall (fun p => fst p = true -> snd p = true) (readys co).
Proof. intros os cs nx tr s H c co Hc. exact (await_ready_sound os cs nx tr s H c co Hc). Qed.
Print Assumptions c13_await_ready_sound.

(* With the rule the source had before commit a483768 (Empty() <-> word == kEmpty) the property fails: two coroutines
   co_await one SharedFuture; the second one's await_ready sees the first one's callback, answers true, the coroutine
   does not suspend and reads a Result that was never constructed.  (The trace is the one the pre-fix library produces.) *)
Example c13_await_ready_sound_old_rule_refuted :
  exists tr s co r,
    run_g false true (init [OX true false 0; OC false false 0; OC false false 1]
                      [CO [PCo 0 false] 1; CO [PCo 0 false] 2] 1) tr = Some s /\
    nth_error (cos s) 1 = Some co /\ resumes co = [r] /\
    rhow r = BySelf /\ rok r = false /\ rval r = Some None /\ readys co = [(true, false)].
Proof.
  exists [ESpawn 0 0; EBegin 0 0; ELd 0 0 OE; ELd 0 0 OE; ECas 0 0 true;
          ESpawn 0 1; EBegin 0 1; ELd 0 0 OL; ERes 0 1].
  eexists. eexists. eexists. vm_compute. repeat split.
Qed.

(* S5 (DESIGN 6; the property text names no executor for the inline forms, so this is an observation, not a C13 clause).
   Two coroutines co_await one RunShared(x1, ...) future.  With the PromiseType::Impl the source had before commit f1ffb7c
   (`_executor = std::move(caller._executor)`, a swap: [sw = true]) the callback fired first takes x1 and leaves its own
   Inline behind, which the second one then takes: CurrentExecutor() = x1 and Inline.  (Trace of the library at 86343e2.) *)
Example c13_s5_swap_observation :
  exists s c0 c1 r0 r1,
    run_g true true
        (init [OX true false 1; OC false false 0; OC false false 1] [CO [PCo 0 false] 1; CO [PCo 0 false] 2] 2)
        [ESpawn 0 0; EBegin 0 0; ELd 0 0 OE; ELd 0 0 OE; ECas 0 0 true; ESpawn 0 1; EBegin 0 1; ELd 0 0 OL; ELd 0 0 OL;
         ECas 0 0 true; ESet 0 0 (RVal 7); EXchg 0 0; ERes 0 1; ERet 0 1 (RVal 101); ELocal 0 1; EXchg 0 2; ERes 0 0;
         ERet 0 0 (RVal 100); ELocal 0 0; EXchg 0 1; EFree 0 0; EFree 0 1] = Some s /\
    nth_error (cos s) 0 = Some c0 /\ nth_error (cos s) 1 = Some c1 /\ resumes c0 = [r0] /\ resumes c1 = [r1] /\
    rown r0 = 0 /\ rown r1 = 0 /\ rexec r1 = 1 /\ rexec r0 = 0 /\ quiescent s = true.
Proof. do 5 eexists. vm_compute. repeat split. Qed.

(* Decided at the rule found in the source (gen/Gen_ready_c13.c13_impl_swaps_executor, read from PromiseType::Impl on every
   run): an inline resumption gives the coroutine the executor of the core that completed AND leaves that core's executor
   as it was, so every coroutine resumed from one shared state inherits the same executor and the awaited future is not
   changed.  With the swap (`_executor = std::move(caller._executor)`) neither holds: this theorem and the example
   below stop compiling, and c13_s5_swap_observation above is the witness. *)
Theorem c13_handover_keeps_awaited_executor :
  forall c o s co ob, nth_error (cos s) c = Some co -> nth_error (objs s) o = Some ob ->
  exists co' ob', nth_error (cos (swap_exec c13_impl_swaps_executor c o s)) c = Some co' /\
                  nth_error (objs (swap_exec c13_impl_swaps_executor c o s)) o = Some ob' /\
                  cexec co' = oexec ob /\ oexec ob' = oexec ob /\
                  (forall o1, o1 <> o -> nth_error (objs (swap_exec c13_impl_swaps_executor c o s)) o1 = nth_error (objs s) o1).
Proof. exact handover_keeps_awaited_executor. Qed.
Print Assumptions c13_handover_keeps_awaited_executor.

(* The same run as above at the rule of the current source: both coroutines continue with the shared state's executor
   (1), and the state still has it. *)
Example c13_s5_current_source :
  exists s c0 c1 r0 r1 ob,
    run (init [OX true false 1; OC false false 0; OC false false 1] [CO [PCo 0 false] 1; CO [PCo 0 false] 2] 2)
        [ESpawn 0 0; EBegin 0 0; ELd 0 0 OE; ELd 0 0 OE; ECas 0 0 true; ESpawn 0 1; EBegin 0 1; ELd 0 0 OL; ELd 0 0 OL;
         ECas 0 0 true; ESet 0 0 (RVal 7); EXchg 0 0; ERes 0 1; ERet 0 1 (RVal 101); ELocal 0 1; EXchg 0 2; ERes 0 0;
         ERet 0 0 (RVal 100); ELocal 0 0; EXchg 0 1; EFree 0 0; EFree 0 1] = Some s /\
    nth_error (cos s) 0 = Some c0 /\ nth_error (cos s) 1 = Some c1 /\ resumes c0 = [r0] /\ resumes c1 = [r1] /\
    rexec r1 = 1 /\ rexec r0 = 1 /\ nth_error (objs s) 0 = Some ob /\ oexec ob = 1 /\ quiescent s = true.
Proof. do 6 eexists. vm_compute. repeat split. Qed.

(* Non-vacuity: complete runs of the real implementation (FIBER backend), replayed. *)
Example c13_witness_future_resumed_by_producer :
  exists s co r,
    run (init [OX false false 0; OC false false 0] [CO [PCo 0 false] 1] 1)
        [ESpawn 0 0; EBegin 0 0; ELd 0 0 OE; ELd 0 0 OE; ECas 0 0 true; ESet 10 0 (RVal 7); EXchg 10 0; ELd 10 0 OR;
         ERes 10 0; ERet 10 0 (RVal 100); ELocal 10 0; EXchg 10 1; ELd 0 1 OR; EFree 0 0] = Some s /\
    nth_error (cos s) 0 = Some co /\ resumes co = [r] /\ rhow r = ByFire 0 /\ rthr r = 10 /\
    rval r = Some (Some (RVal 7)) /\ cend co = Returned (RVal 100) /\ ffrees co = 1 /\ ldtors co = 1 /\ quiescent s = true.
Proof. do 3 eexists. vm_compute. repeat split. Qed.

Example c13_witness_await_two_last_completion_resumes :
  exists s co r,
    run (init [OX false false 0; OX true false 0; OC false false 0] [CO [PAwaitN FInl [0; 1]] 2] 1)
        [ESpawn 0 0; EBegin 0 0; ELd 0 0 OE; ECas 0 0 true; ELd 0 1 OE; ECas 0 1 true; ECSub 0 0 3; ECLd 0 0 3;
         ECSub 0 0 2; ESet 10 0 (RVal 7); EXchg 10 0; ECSub 10 0 1; ESet 11 1 (RVal 8); EXchg 11 1; ECSub 11 0 0;
         ERes 11 0; ELd 11 0 OR; ELd 11 1 OR; ERet 11 0 (RVal 100); ELocal 11 0; EXchg 11 2; EFree 0 0] = Some s /\
    nth_error (cos s) 0 = Some co /\ resumes co = [r] /\ rhow r = ByFire 1 /\ rthr r = 11 /\ rok r = true /\
    quiescent s = true.
Proof. do 3 eexists. vm_compute. repeat split. Qed.

Example c13_witness_stopped_executor_drops :
  exists s co,
    run (init [OX false false 0; OC false false 0] [CO [PAwait1 (FOn 1) 0] 1] 2)
        [ESpawn 0 0; EBegin 0 0; ELd 0 0 OE; ECas 0 0 true; ESet 10 0 (RVal 7); EXchg 10 0; ECSub 10 0 0;
         ESubmit 10 1 0; EDrop 10 1 0; EXchg 10 1; ELd 0 1 OR; ELocal 0 0; EFree 0 0] = Some s /\
    nth_error (cos s) 0 = Some co /\ cend co = Dropped /\ resumes co = [] /\ cst co = ADone /\
    ldtors co = 1 /\ ffrees co = 1 /\
    (exists ob, nth_error (objs s) 1 = Some ob /\ oslot ob = Some RStop /\ ow ob = WRes) /\ quiescent s = true.
Proof. do 2 eexists. vm_compute. repeat split. eexists. repeat split. Qed.

Example c13_witness_failure_rethrown_twice :
  exists s c0 c1,
    run (init [OX false false 0; OC false false 0; OC true false 1] [CO [PCo 0 false] 1; CO [PCo 1 false] 2] 1)
        [ESpawn 0 0; EBegin 0 0; ELd 0 0 OE; ELd 0 0 OE; ECas 0 0 true; ESpawn 0 1; EBegin 0 1; ELd 0 1 OE; ELd 0 1 OE;
         ECas 0 1 true; ESet 10 0 (RErr 3); EXchg 10 0; ELd 10 0 OR; ERes 10 0; ELocal 10 0; EXchg 10 1; ELd 10 1 OR;
         EFree 10 0; ERes 10 1; ELocal 10 1; EXchg 10 2; EFree 0 1] = Some s /\
    nth_error (cos s) 0 = Some c0 /\ nth_error (cos s) 1 = Some c1 /\
    cend c0 = Threw (RErr 3) /\ cend c1 = Threw (RErr 3) /\ quiescent s = true.
Proof. do 3 eexists. vm_compute. repeat split. Qed.

Example c13_witness_on_then_sticky :
  exists s co r0 r1,
    run (init [OX false false 0; OC false false 0] [CO [POn 1; PAwait1 FSticky 0] 1] 2)
        [ESet 10 0 (RVal 7); EXchg 10 0; ESpawn 40 0; EBegin 40 0; ESubmit 40 1 0; ECall 40 1 0; ERes 40 0; EBegin 40 0;
         ELd 40 0 OR; ERes 40 0; ERet 40 0 (RVal 100); ELocal 40 0; EXchg 40 1; EFree 0 0] = Some s /\
    nth_error (cos s) 0 = Some co /\ resumes co = [r0; r1] /\ rhow r0 = ByExec 1 /\ rexec r0 = 1 /\
    rhow r1 = BySelf /\ rexec r1 = 1 /\ rown r1 = 1 /\ quiescent s = true.
Proof. do 4 eexists. vm_compute. repeat split. Qed.
