(* C19 — yaclib_std::atomic computes exactly what std::atomic computes.

   Statements only; proofs are in proofs/AtomicProofs.v.  They are about gen/Gen_fiber_atomic.v, which
   tools/translate_fiber_atomic.py regenerates from the fiber atomics and the fault wrapper of the tree under
   check on every run, and about model/AtomicStd.v (the std::atomic contract).

   Vocabulary:  [impl_of BFiber k] / [impl_of BThread k] : the overload set of yaclib_std::atomic<T> for T of kind k
   (integral, bool, pointer, floating, atomic_flag) in the FIBER / THREAD backend; an operation maps
   semantics -> T -> spurious choice -> stored value -> arg1 -> arg2 to Some (new stored, returned, expected')
   or None (undefined);  [std_of k] : what std::atomic<T> does;  [ok T x] : x is a value of T;
   [S] with [strict S = false] : the compiled behaviour (signed overflow of plain arithmetic wraps);
   arbitrary [S] : also the strict abstract machine where it is undefined. *)
From Coq Require Import ZArith List Bool.
Import ListNotations.
Open Scope Z_scope.
From YV Require Import model.AtomicCSem model.AtomicStd gen.Gen_fiber_atomic model.AtomicObs proofs.AtomicProofs.

(* Every operation std::atomic<T> has exists on yaclib_std::atomic<T> (both cv-overloads) in the FIBER backend and,
   on all representable values, returns the same value, leaves the same stored value and the same [expected]. *)
Theorem c19_fiber_operations :
  forall k o vol f, std_of k o = Some f ->
  exists g, impl_of BFiber k o vol = Some g /\
  forall S T spur v a1 a2, strict S = false -> no_guard o T v a1 -> ty_of k T = true ->
    ok T v = true -> ok (arg_ty T o) a1 = true -> ok T a2 = true ->
    g S T spur v a1 a2 = f S T spur v a1 a2.
Proof. exact fiber_operations. Qed.
Print Assumptions c19_fiber_operations.

(* The same for the THREAD backend (the wrapper around std::atomic<T>), for every reading of the arithmetic. *)
Theorem c19_thread_operations :
  forall k o vol f, std_of k o = Some f ->
  exists g, impl_of BThread k o vol = Some g /\
  forall S T spur v a1 a2, True -> no_guard o T v a1 -> ty_of k T = true ->
    ok T v = true -> ok (arg_ty T o) a1 = true -> ok T a2 = true ->
    g S T spur v a1 a2 = f S T spur v a1 a2.
Proof. exact thread_operations. Qed.
Print Assumptions c19_thread_operations.

(* The signed-overflow guard, explicitly: under the strict reading of C++ the integral FIBER operations are defined
   and equal to std whenever the mathematical result of the arithmetic fits the signed type
   ([no_signed_overflow]; trivially true for unsigned and narrow types and for the non-arithmetic operations).
   The overflow case itself is [c19_fiber_operations] (compiled reading: it wraps like std) and
   Properties_C19_ub.v (strict reading: defined only if the code computes in the unsigned counterpart). *)
Theorem c19_fiber_int_strict_guarded :
  forall o vol f, std_of KInt o = Some f ->
  exists g, impl_of BFiber KInt o vol = Some g /\
  forall S T spur v a1 a2, True -> no_signed_overflow o T v a1 -> ty_of KInt T = true ->
    ok T v = true -> ok (arg_ty T o) a1 = true -> ok T a2 = true ->
    g S T spur v a1 a2 = f S T spur v a1 a2.
Proof. exact fiber_int_strict_guarded. Qed.
Print Assumptions c19_fiber_int_strict_guarded.

(* Lifted to every single-threaded history (operations of std::atomic<T> with representable arguments, fences):
   step by step the same returned values, stored values and expected values as std::atomic. *)
Theorem c19_sequences_fiber :
  forall k S T cs v0, strict S = false -> ty_of k T = true -> ok T v0 = true -> Forall (call_ok k T) cs ->
  run_backend BFiber k S T cs v0 = run_backend BStd k S T cs v0.
Proof. exact fiber_sequences. Qed.
Print Assumptions c19_sequences_fiber.

Theorem c19_sequences_thread :
  forall k S T cs v0, ty_of k T = true -> ok T v0 = true -> Forall (call_ok k T) cs ->
  run_backend BThread k S T cs v0 = run_backend BStd k S T cs v0.
Proof. exact thread_sequences. Qed.
Print Assumptions c19_sequences_thread.

(* ... and the reference run is total (so the two equalities say something for every such history). *)
Theorem c19_std_run_total :
  forall k S T cs v0, ty_of k T = true -> ok T v0 = true -> Forall (call_ok k T) cs ->
  exists l, run_backend BStd k S T cs v0 = Some l /\ length l = length cs.
Proof. exact std_run_total. Qed.
Print Assumptions c19_std_run_total.

(* An injected spurious failure of compare_exchange_weak follows the std contract: returns false, stores the
   current value into expected, changes nothing. *)
Theorem c19_weak_spurious :
  forall b k o vol g S T v e d,
  b <> BStd -> has_cas k = true -> is_weak o = true -> impl_of b k o vol = Some g ->
  strict S = false -> ty_of k T = true -> ok T v = true -> ok T e = true -> ok T d = true ->
  g S T true v e d = Some (v, 0, v).
Proof. exact backend_weak_spurious. Qed.
Print Assumptions c19_weak_spurious.

(* Without injection the weak form is the plain compare-and-exchange ... *)
Theorem c19_weak_not_spurious :
  forall b k o vol g S T v e d,
  b <> BStd -> has_cas k = true -> is_weak o = true -> impl_of b k o vol = Some g ->
  strict S = false -> ty_of k T = true -> ok T v = true -> ok T e = true -> ok T d = true ->
  g S T false v e d = if v =? e then Some (d, 1, e) else Some (v, 0, v).
Proof. exact backend_weak_not_spurious. Qed.
Print Assumptions c19_weak_not_spurious.

(* ... and compare_exchange_strong never fails spuriously, whatever the fault layer would inject. *)
Theorem c19_strong_never_spurious :
  forall b k o vol g S T spur v e d,
  b <> BStd -> has_cas k = true -> is_strong o = true -> impl_of b k o vol = Some g ->
  strict S = false -> ty_of k T = true -> ok T v = true -> ok T e = true -> ok T d = true ->
  g S T spur v e d = if v =? e then Some (d, 1, e) else Some (v, 0, v).
Proof. exact backend_strong_never_spurious. Qed.
Print Assumptions c19_strong_never_spurious.

(* Memory orders: whatever orders std::atomic accepts for an operation, every call the wrapper makes on the
   implementation underneath gets orders that implementation accepts (a load is never release / acq_rel, a store
   never acquire / consume / acq_rel, a failure order never release / acq_rel); every wrapper function is covered. *)
Theorem c19_wrapper_orders_valid :
  forall o vol f ms, In (o, vol, f) wrap_orders -> std_orders_ok o ms = true ->
  exists cs, f ms = Some cs /\ forallb call_orders_ok cs = true.
Proof. exact wrap_orders_valid. Qed.
Print Assumptions c19_wrapper_orders_valid.

Theorem c19_wrapper_orders_complete :
  forallb (fun k => forallb (fun o => forallb (fun vol =>
     match wrapped_of k (fun _ _ => None) o vol with Some _ => has_entry o vol | None => true end) [false; true]) all_opn)
     [KInt; KBool; KPtr; KFlt; KFlag] = true.
Proof. exact wrap_orders_complete. Qed.
Print Assumptions c19_wrapper_orders_complete.

(* The fences of the FIBER backend touch nothing; the value constructor stores its argument. *)
Theorem c19_fences : forall sg v, fence_of BFiber sg v = v.
Proof. exact fiber_fences. Qed.
Print Assumptions c19_fences.

Theorem c19_constructor :
  forall k S T spur v a1 a2, ty_of k T = true -> ok T a1 = true -> fiber_init S T spur v a1 a2 = Some (a1, 0, a1).
Proof. exact init_stores. Qed.
Print Assumptions c19_constructor.

(* Non-vacuity: concrete runs (the same sequences the harness executes on the real library). *)
Example c19_witness_fetch_and_pre_post_inc :
  run_backend BFiber KInt (sem_eval false) (CInt 32 true)
    [Call FAnd false false 3 0; Call PreInc false false 0 0; Call PostInc false false 0 0; Call PostDec true false 0 0] 6
  = Some [(2, 6, 3); (3, 3, 0); (4, 3, 0); (3, 4, 0)].
Proof. vm_compute. reflexivity. Qed.

Example c19_witness_signed_wrap :
  run_backend BFiber KInt (sem_eval false) (CInt 32 true) [Call FAdd false false 1 0; Call SubA true false 1 0] 2147483647
  = Some [(-2147483648, 2147483647, 1); (2147483647, 2147483647, 1)].
Proof. vm_compute. reflexivity. Qed.

Example c19_witness_narrow_promotion :
  run_backend BFiber KInt (sem_eval true) (CInt 8 true) [Call FAdd false false 127 0; Call PreDec false false 0 0] 127
  = Some [(-2, 127, 127); (-3, -3, 0)].
Proof. vm_compute. reflexivity. Qed.

Example c19_witness_pointer_scaled :
  run_backend BFiber KPtr (sem_eval false) (CPtr 4 4) [Call FAdd false false (-2) 0; Call PostInc false false 0 0; Call PreDec false false 0 0] 400
  = Some [(392, 400, -2); (396, 392, 0); (392, 392, 0)].
Proof. vm_compute. reflexivity. Qed.

(* an atomic pointer to pointers-to-int: the step is the size of a pointer (8), not sizeof(int) *)
Example c19_witness_pointer_to_pointer :
  run_backend BFiber KPtr (sem_eval false) (CPtr 8 4) [Call FAdd false false 1 0; Call SubA true false 2 0; Call PreInc false false 0 0] 400
  = Some [(408, 400, 1); (392, 392, 2); (400, 400, 0)].
Proof. vm_compute. reflexivity. Qed.

Example c19_witness_spurious_then_success :
  run_backend BThread KInt (sem_eval false) (CInt 16 false)
    [Call Cew1 false true 7 9; Call Cew1 false false 7 9; Call Ces2 true true 9 1] 7
  = Some [(7, 0, 7); (9, 1, 7); (1, 1, 9)].
Proof. vm_compute. reflexivity. Qed.

Example c19_witness_flag :
  run_backend BFiber KFlag (sem_eval false) CBool [Call TAS false false 0 0; Call TAS true false 0 0; Call Clear false false 0 0; Fence false] 0
  = Some [(1, 0, 0); (1, 1, 0); (0, 0, 0); (0, 0, 0)].
Proof. vm_compute. reflexivity. Qed.

(* the single-order weak compare_exchange with order = release / acq_rel: the load that replaces a spuriously
   failed exchange is relaxed / acquire *)
Example c19_witness_failure_order :
  exists f, In (Cew1, false, f) wrap_orders /\
            f [Rel] = Some [(Load, [Rlx]); (Cew1, [Rel])] /\ f [AcqRel] = Some [(Load, [Acq]); (Cew1, [AcqRel])].
Proof.
  eexists. split.
  - unfold wrap_orders. repeat (first [left; reflexivity | right]).
  - split; reflexivity.
Qed.
