From Coq Require Import ZArith.
From YV Require Import model.AtomicObs.
