(* C02 — statements only (draft). *)
From Coq Require Import List ZArith Bool.
Import ListNotations.
From YV Require Import model.Pipe proofs.PipeProofs.

Theorem c02_refines_prog : forall p o, core_run p = Some o -> o = seq_eval p.
Proof. exact refines_all. Qed.
Print Assumptions c02_refines_prog.
