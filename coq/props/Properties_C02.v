(* C02 — A pipeline computes what its steps say: routing, recovery, unwrapping.
   Statements only; proofs are in proofs/PipeProofs.v.

   [core_run] (model/Pipe.v) mirrors the implementation: dispatch by invocability in the order of
   Tag / CallImpl / CallResolveState, CallImpl's function-try-block, CallResolveAsync + re-entry through Impl /
   async_done, Done, executor transfer, Submit on an alive / stopped executor, PromiseCore, ReadyCore,
   coroutine promise.  [seq_eval] is the sequential reading of the property text.  Programs [p], callback bodies
   (arbitrary total functions [input -> outcome]), chain lengths, nesting depth of returned chains, values,
   errors and exceptions are all universally quantified. *)
From Coq Require Import List ZArith Bool.
Import ListNotations.
From YV Require Import model.Pipe model.PipeObs proofs.PipeProofs.

(* The final Result, the ordered list of callback invocations (id, executor, submitted?, argument), the executor
   the last core holds and the static value type: everything the implementation-shaped run produces is what
   the sequential reading produces.  [chain src steps] = src followed by the steps, any length. *)
Theorem c02_refines :
  forall src steps o, core_run (chain src steps) = Some o -> o = seq_eval (chain src steps).
Proof. exact refines_chain. Qed.
Print Assumptions c02_refines.

(* the same for every program shape (conversions, chains returned by callbacks of chains returned by ...) *)
Theorem c02_refines_prog : forall p o, core_run p = Some o -> o = seq_eval p.
Proof. exact refines. Qed.
Print Assumptions c02_refines_prog.

(* in the vocabulary of the property: final Result and ordered list of (callback id, argument) *)
Theorem c02_refines_observables : forall p o, core_run p = Some o -> obs o = obs (seq_eval p).
Proof. exact refines_obs. Qed.
Print Assumptions c02_refines_observables.

(* core_run is None only where the C++ does not compile: every program accepted by the typing of Pipe.v (the rules
   the generated table is built from, every cell of which is compiled) runs ... *)
Theorem c02_typed_programs_run : forall p, wt p -> exists o, core_run p = Some o.
Proof. exact typed_runs. Qed.
Print Assumptions c02_typed_programs_run.

(* ... and ends with a Result of the handle's static value type ("a recovery callback must keep the value type"
   is what makes the pass-through branch of CallResolveState type-correct) *)
Theorem c02_type_sound : forall p o, wt p -> core_run p = Some o ->
  (exists w, prog_ty p = Some (w, o_ty o)) /\ res_has_ty (o_ty o) (o_res o) = true.
Proof. exact type_sound. Qed.
Print Assumptions c02_type_sound.

(* ---- the clauses, one by one, about a step [PThen q id par a rt body] whose predecessor chain q produced oq.
   [arrives a oq] is the Result that reaches the step: oq's, or StopError when the step was handed to a stopped
   executor; [exec_of a oq] the executor its core holds. *)

(* a callback taking the value runs only on success (with that value); otherwise the failure passes through
   unchanged and nothing is invoked *)
Theorem c02_value_cb_only_on_success_failure_passes_unchanged :
  forall q id par a rt body oq o,
  value_class par -> core_run q = Some oq -> core_run (PThen q id par a rt body) = Some o ->
  match arrives a oq with
  | Val v => exists i rest, o_evs o = o_evs oq ++ Ev id (exec_of a oq) (is_call a) i :: rest /\
                            (i = IVal v \/ i = INone \/ i = IUnit)
  | r => o_res o = r /\ o_evs o = o_evs oq
  end.
Proof. exact value_cb. Qed.
Print Assumptions c02_value_cb_only_on_success_failure_passes_unchanged.

(* a callback taking the error type / std::exception_ptr runs only on that kind of failure; otherwise the Result
   (value or the other kind of failure) passes through *)
Theorem c02_recovery_only_on_its_kind :
  forall q id par a rt body oq o,
  par = PError \/ par = PExc -> core_run q = Some oq -> core_run (PThen q id par a rt body) = Some o ->
  match par, arrives a oq with
  | PError, Err e => exists rest, o_evs o = o_evs oq ++ Ev id (exec_of a oq) (is_call a) (IErr e) :: rest
  | PExc, Exc x => exists rest, o_evs o = o_evs oq ++ Ev id (exec_of a oq) (is_call a) (IExc x) :: rest
  | _, r => o_res o = r /\ o_evs o = o_evs oq
  end.
Proof. exact recovery_cb. Qed.
Print Assumptions c02_recovery_only_on_its_kind.

(* a callback taking Result (or a generic one) always runs, with the Result that arrived *)
Theorem c02_result_cb_always_runs :
  forall q id par a rt body oq o,
  result_class par -> core_run q = Some oq -> core_run (PThen q id par a rt body) = Some o ->
  exists rest, o_evs o = o_evs oq ++ Ev id (exec_of a oq) (is_call a) (IRes (arrives a oq)) :: rest.
Proof. exact result_cb. Qed.
Print Assumptions c02_result_cb_always_runs.

(* whatever a callback throws becomes the Exception state; a returned value / Result is stored as is; a returned
   Future, SharedFuture or Task — however it was built: [p'] is any program — is flattened: the step completes with
   the inner result, and the inner chain's callbacks run right after this callback *)
Theorem c02_throw_stored_flatten :
  forall q id par a rt body oq o i,
  core_run q = Some oq -> core_run (PThen q id par a rt body) = Some o ->
  invoked par (arrives a oq) = Some i ->
  match body i with
  | Throw x => o_res o = Exc x
  | RetV v => o_res o = Val v
  | RetVoid => o_res o = Val VUnit
  | RetRes r => o_res o = r
  | RetAsync k p' =>
      exists oi, core_run p' = Some oi /\ o_res o = o_res oi /\
                 o_evs o = o_evs oq ++ Ev id (exec_of a oq) (is_call a) i :: o_evs oi
  end.
Proof. exact invoked_outcome. Qed.
Print Assumptions c02_throw_stored_flatten.

(* every step contributes no invocation, or exactly one followed by the invocations of the chain it returned,
   after everything its predecessors contributed: at most once, in pipeline order *)
Theorem c02_each_step_at_most_once_in_order :
  forall q id par a rt body oq o,
  core_run q = Some oq -> core_run (PThen q id par a rt body) = Some o ->
  o_evs o = o_evs oq \/
  exists i, invoked par (arrives a oq) = Some i /\
    (o_evs o = o_evs oq ++ [Ev id (exec_of a oq) (is_call a) i] \/
     exists k p' oi, body i = RetAsync k p' /\ core_run p' = Some oi /\
       o_evs o = o_evs oq ++ Ev id (exec_of a oq) (is_call a) i :: o_evs oi).
Proof. exact step_once_in_order. Qed.
Print Assumptions c02_each_step_at_most_once_in_order.

(* what "arrives" means: the predecessor's Result, except on a stopped executor *)
Theorem c02_stopped_executor_sees_stop :
  forall a oq, is_call a = true -> alive (exec_of a oq) = false -> arrives a oq = Err EStop.
Proof. exact stopped_sees_stop. Qed.
Print Assumptions c02_stopped_executor_sees_stop.

Theorem c02_otherwise_sees_predecessor :
  forall a oq, is_call a = false \/ alive (exec_of a oq) = true -> arrives a oq = o_res oq.
Proof. exact alive_sees_result. Qed.
Print Assumptions c02_otherwise_sees_predecessor.

(* the compile-time dispatch of the implementation (by invocability, in Tag's priority order) selects exactly
   the reading by parameter class, in every world where the class compiles *)
Theorem c02_dispatch_by_invocability_is_dispatch_by_class :
  forall p t r, call_impl p t r =
    if par_ok p t then Some (match invoked p r with Some i => Invoke i | None => Pass r end) else None.
Proof. exact call_impl_class. Qed.
Print Assumptions c02_dispatch_by_invocability_is_dispatch_by_class.

(* One shared source, several users: a SharedFuture built once (its Result is [o_res os]) and returned from callbacks
   of any number of pipelines is flattened to that same Result by every one of them, whatever ran before; a direct
   read is the same Result by definition of [handle_of].  That reading the shared state does not change it is an
   assumption of the model, checked on the library by the (share ...) cases of checks/c02.py. *)
Theorem c02_shared_handle_same_result_for_every_user :
  forall os q id par a rt body oq o i,
  core_run q = Some oq -> core_run (PThen q id par a rt body) = Some o ->
  invoked par (arrives a oq) = Some i -> body i = RetAsync KShared (handle_of os) ->
  o_res o = o_res os /\ o_evs o = o_evs oq ++ [Ev id (exec_of a oq) (is_call a) i].
Proof. exact shared_handle_same_result. Qed.
Print Assumptions c02_shared_handle_same_result_for_every_user.

(* ---- non-vacuity: programs run on the real library by harness/h_c02 (final Result and calls as observed there) *)
Local Open Scope Z_scope.

(* MakeFuture<int>(Err{3}).ThenInline(f1(int)).ThenInline(f2(Err)): f1 skipped, f2 recovers *)
Example c02_witness_skip_then_recover :
  obs_z (PThen (PThen (PReady WF TInt (Err 3)) 1 PValue AInline TInt (hb (BRetI 5))) 2 PError AInline TInt (hb (BRetI 7)))
  = [1; 1; 1; 0; 110; 1; 2; 2; 2; 3].
Proof. vm_compute. reflexivity. Qed.

(* Run(stopped, f1).Then(f2(Result)).Then(manual, f3(exception_ptr)): f1 dropped, f2 sees StopError, f3 skipped *)
Example c02_witness_stopped :
  obs_z (PThen (PThen (PRun WO XStopped 1 PNone TInt (hb (BRetI 2))) 2 PResult AInherit TInt (hb (BRetI 1)))
               3 PExc (AOn (XManual 1)) TInt (hb (BRetI 0)))
  = [1; 1; 1; 0; 100; 1; 2; 0; 2; -1].
Proof. vm_compute. reflexivity. Qed.

(* the program of finding S8 (fixed by 898bf94): a callback returning a Schedule()-built Task is flattened *)
Example c02_witness_flatten_schedule_task :
  obs_z (PThen (PReady WF TInt (Val (VInt 1))) 1 PValue AInline TInt
               (hb (BAsync KTask (PRun WT XInline 9 PNone TInt (hb (BRetI 2))))))
  = [1; 1; 1; 0; 2; 2; 1; 1; 0; 1; 9; 4; 1; 0].
Proof. vm_compute. reflexivity. Qed.

(* a callback that throws after a LazyContract Task was unwrapped on a manual executor, then a generic callback *)
Example c02_witness_flatten_lazycontract_then_auto :
  obs_z (PThen (PThen (PReady WF TInt (Val (VInt 1))) 1 PValue (AOn (XManual 0)) TInt
                      (hb (BAsync KTask (PProm WT TInt XInline 9 (PBSet false (Val (VInt 4)))))))
               2 PAuto AInherit TVoid (hb BRetV))
  = [1; 1; 1; 1; 0; 3; 1; 1; 0; 1; 9; 4; 1; 0; 2; 0; 0; 4].
Proof. vm_compute. reflexivity. Qed.

(* the model refuses what the compiler refuses: f() on a Future<int>, f(int) on a Future<void> *)
Example c02_witness_does_not_compile :
  core_run (PThen (PReady WF TInt (Val (VInt 1))) 1 PNone AInline TInt (hb (BRetI 5))) = None /\
  core_run (PThen (PReady WF TVoid (Val VUnit)) 1 PValue AInline TInt (hb (BRetI 5))) = None.
Proof. split; vm_compute; reflexivity. Qed.
