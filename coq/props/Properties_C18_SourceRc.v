(* C18 at the tree under test, part 2: yaclib_std::recursive_mutex, recursive_timed_mutex.  Compiles exactly
   when RecursiveMutex::unlock notifies and RecursiveMutex::lock / RecursiveTimedMutex::TimedWaitHelper re-check. *)
From Coq Require Import List Arith Bool.
Import ListNotations.
From YV Require Import model.FiberSync gen.FiberSyncSource proofs.FiberSyncRcProofs props.Properties_C18.

Lemma source_recursive_repaired : good source_variant.
Proof. repeat split; reflexivity. Qed.

Theorem c18_source_recursive_holders_compatible :
  forall tr s, Rc.run source_variant Rc.init tr = Some s ->
  (forall f g, In f (Rc.holders s) -> In g (Rc.holders s) -> f = g) /\
  (forall f, In f (Rc.holders s) ->
     Rc.owner s = f /\ Rc.cnt s = count_occ Nat.eq_dec (Rc.holders s) f /\ Rc.cnt s <> 0).
Proof. intros tr s. exact (c18_recursive_holders_compatible source_variant tr s source_recursive_repaired). Qed.
Print Assumptions c18_source_recursive_holders_compatible.

Theorem c18_source_recursive_results_justified :
  forall tr s, Rc.run source_variant Rc.init tr = Some s -> Forall ok_res (Rc.log s).
Proof. intros tr s. exact (c18_recursive_results_justified source_variant tr s source_recursive_repaired). Qed.
Print Assumptions c18_source_recursive_results_justified.

Theorem c18_source_recursive_blocked_eventually_woken :
  forall tr s f, Rc.run source_variant Rc.init tr = Some s ->
  (forall g, Rc.resumable s g = false) -> Rc.pcs s f = Rc.InLock -> exists h, In h (Rc.holders s) /\ h <> f.
Proof.
  intros tr s f. exact (c18_recursive_blocked_eventually_woken source_variant tr s f source_recursive_repaired).
Qed.
Print Assumptions c18_source_recursive_blocked_eventually_woken.
