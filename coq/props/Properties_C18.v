(* C18 — yaclib_std locks, condition variables, threads and thread-local pointers keep the std contracts
   under the FIBER backend.  Statements only; proofs are in proofs/FiberSync{Mx,Rc,Sh,Misc}Proofs.v.

   [tr] ranges over every sequence of atomic pieces of operations of any number of fibers, i.e. over every
   schedule, every notify_one pick, every timeout value and every virtual-time advance.  [v] is the text
   variant of the nine places of the sources that model/FiberSync.v parameterises (false = pinned text,
   true = repaired text); Properties_C18_Source.v instantiates everything at the variant read from the tree
   under test.  For every flag there is a [_refuted] theorem: with that single place back at its pinned text
   the corresponding clause of the property is FALSE (witness by vm_compute; each witness is a schedule of a
   harness scenario, named in the comment, that fails on the real library when that fix is missing). *)
From Coq Require Import List Arith Bool Lia.
Import ListNotations.
From YV Require Import model.FiberSync proofs.FiberSyncLemmas
  proofs.FiberSyncMxProofs proofs.FiberSyncRcProofs proofs.FiberSyncShProofs proofs.FiberSyncMiscProofs.

(* ================================================================== mutex, timed_mutex, condition_variable *)

(* holders_compatible: never two holders; the _occupied flag says exactly whether a client holds the mutex;
   a holder is not at the same time blocked in a lock operation *)
Theorem c18_mutex_holders_compatible :
  forall v tr s, v_tm_while v = true -> Mx.run v Mx.init tr = Some s ->
  length (Mx.holders s) <= 1 /\ (Mx.occ s = false <-> Mx.holders s = []).
Proof.
  intros v tr s Hv H. pose proof (FiberSyncMxProofs.reach_inv v tr s Hv H) as I. split.
  - exact (FiberSyncMxProofs.holders_compatible s I).
  - exact (FiberSyncMxProofs.free_iff_no_holder s I).
Qed.
Print Assumptions c18_mutex_holders_compatible.

(* the same for the text as pinned, as long as no try_lock_for / try_lock_until is used: plain Mutex and
   ConditionVariable are correct as they are *)
Theorem c18_plain_mutex_holders_compatible :
  forall v tr s, Forall FiberSyncMxProofs.untimed tr -> Mx.run v Mx.init tr = Some s ->
  length (Mx.holders s) <= 1 /\ (Mx.occ s = false <-> Mx.holders s = []) /\
  Forall FiberSyncMxProofs.ok_res (Mx.log s).
Proof.
  intros v tr s HU H. pose proof (FiberSyncMxProofs.reach_inv_untimed v tr s HU H) as I. repeat split.
  - exact (FiberSyncMxProofs.holders_compatible s I).
  - apply (FiberSyncMxProofs.free_iff_no_holder s I).
  - apply (FiberSyncMxProofs.free_iff_no_holder s I).
  - exact (FiberSyncMxProofs.results_ok s I).
Qed.
Print Assumptions c18_plain_mutex_holders_compatible.

(* try_success_holds_in_mode: whenever a step reports that fiber g acquired the mutex (lock, try_lock,
   try_lock_for/until returned true, or a condition-variable wait returned), g is THE holder afterwards *)
Theorem c18_mutex_success_really_holds :
  forall v tr s e s' r g, v_tm_while v = true -> Mx.run v Mx.init tr = Some s -> Mx.step v s e = Some s' ->
  Mx.log s' = r :: Mx.log s -> FiberSyncMxProofs.winner r = Some g ->
  Mx.holders s' = [g] /\ Mx.occ s' = true.
Proof.
  intros v tr s e s' r g Hv H S L W.
  pose proof (FiberSyncMxProofs.reach_inv v tr s Hv H) as I.
  pose proof (FiberSyncMxProofs.step_inv v s e s' (or_introl Hv) I S) as I'.
  apply (FiberSyncMxProofs.holder_really_holds s' g I').
  exact (FiberSyncMxProofs.step_winner v s e s' r g S L W).
Qed.
Print Assumptions c18_mutex_success_really_holds.

(* try_failure_justified + timed_wait_not_early, over the whole history: a failed try_lock had another holder;
   a failed try_lock_for/until, a wait that reports timeout and a sleep end at or after their deadline; an
   untimed wait never reports a timeout *)
Theorem c18_mutex_results_justified :
  forall v tr s, v_tm_while v = true -> Mx.run v Mx.init tr = Some s ->
  Forall (fun r => match r with
                   | Mx.RTry _ false justified => justified = true
                   | Mx.RTimed _ false dl t => dl <= t
                   | Mx.RCv _ false None _ => False
                   | Mx.RCv _ false (Some dl) t => dl <= t
                   | Mx.RSleep _ dl t => dl <= t
                   | _ => True
                   end) (Mx.log s).
Proof.
  intros v tr s Hv H. exact (FiberSyncMxProofs.results_ok s (FiberSyncMxProofs.reach_inv v tr s Hv H)).
Qed.
Print Assumptions c18_mutex_results_justified.

(* blocked_eventually_woken: when no fiber inside an operation can run (nobody notified, no timer pending),
   a fiber parked in lock() (also the re-lock at the end of a condition-variable wait) is parked because
   ANOTHER client holds the mutex *)
Theorem c18_mutex_blocked_eventually_woken :
  forall v tr s f k, v_tm_while v = true -> Mx.run v Mx.init tr = Some s ->
  (forall g, Mx.resumable s g = false) -> Mx.pcs s f = Mx.InLock k ->
  exists h, Mx.holders s = [h] /\ h <> f.
Proof.
  intros v tr s f k Hv H Q P.
  exact (FiberSyncMxProofs.blocked_woken s f k (FiberSyncMxProofs.reach_inv v tr s Hv H) Q P).
Qed.
Print Assumptions c18_mutex_blocked_eventually_woken.

(* notify_wakes_blocked_waiter: notify_one with a non-empty queue takes a fiber that was blocked in wait out of
   the queue and makes it resumable (and is enabled for every pick); notify_all does so for all of them; a
   fiber blocked in an untimed wait is in the queue or already notified *)
Theorem c18_condvar_notify_wakes_blocked_waiter :
  forall v tr s, v_tm_while v = true -> Mx.run v Mx.init tr = Some s ->
  (forall f pick s', Mx.step v s (Mx.EOp f (Mx.ONotifyOne pick)) = Some s' -> Mx.cvq s <> [] ->
     exists w, In w (Mx.cvq s) /\ (exists dl, Mx.pcs s w = Mx.InCv dl) /\ ~ In w (Mx.cvq s') /\ Mx.resumable s' w = true) /\
  (forall f pick, Mx.pcs s f = Mx.Idle -> pick < length (Mx.cvq s) ->
     exists s', Mx.step v s (Mx.EOp f (Mx.ONotifyOne pick)) = Some s') /\
  (forall f s', Mx.step v s (Mx.EOp f Mx.ONotifyAll) = Some s' ->
     Mx.cvq s' = [] /\ forall w, In w (Mx.cvq s) -> (exists dl, Mx.pcs s w = Mx.InCv dl) /\ Mx.resumable s' w = true) /\
  (forall f, Mx.pcs s f = Mx.InCv None -> Mx.resumable s f = false -> In f (Mx.cvq s)).
Proof.
  intros v tr s Hv H. pose proof (FiberSyncMxProofs.reach_inv v tr s Hv H) as I.
  split; [|split; [|split]].
  - intros f pick s' S NE. exact (FiberSyncMxProofs.notify_one_wakes v s f pick s' I S NE).
  - intros f pick P L. exact (FiberSyncMxProofs.notify_one_enabled v s f pick P L).
  - intros f s' S. exact (FiberSyncMxProofs.notify_all_wakes v s f s' I S).
  - intros f P R. exact (FiberSyncMxProofs.cv_blocked_in_queue s f P R).
Qed.
Print Assumptions c18_condvar_notify_wakes_blocked_waiter.

(* pinned TimedWaitHelper (single `if`): two holders.  timed_mutex/LL|G *)
Theorem c18_timed_mutex_holders_compatible_refuted :
  exists tr s, Mx.run {| v_tm_while := false; v_rc_notify := true; v_rc_while := true; v_rt_while := true;
                         v_sh_while := true; v_shs_while := true; v_st_while := true; v_st_helper := true; v_shs_eq := true;
                         v_sl_guard := true |} Mx.init tr = Some s /\ length (Mx.holders s) = 2.
Proof.
  exists [Mx.EOp 1 Mx.OLock; Mx.EOp 2 (Mx.OTimed (Dur 3000)); Mx.EOp 1 (Mx.OUnlock 0); Mx.EOp 1 Mx.OLock; Mx.ERun 2 10].
  eexists. split; [vm_compute; reflexivity|reflexivity].
Qed.
Print Assumptions c18_timed_mutex_holders_compatible_refuted.

(* ================================================================== recursive_mutex, recursive_timed_mutex *)

Theorem c18_recursive_holders_compatible :
  forall v tr s, FiberSyncRcProofs.good v -> Rc.run v Rc.init tr = Some s ->
  (forall f g, In f (Rc.holders s) -> In g (Rc.holders s) -> f = g) /\
  (forall f, In f (Rc.holders s) ->
     Rc.owner s = f /\ Rc.cnt s = count_occ Nat.eq_dec (Rc.holders s) f /\ Rc.cnt s <> 0).
Proof.
  intros v tr s Hv H. pose proof (FiberSyncRcProofs.reach_inv v tr s Hv H) as I. split.
  - intros f g. exact (FiberSyncRcProofs.holders_compatible s f g I).
  - intros f. exact (FiberSyncRcProofs.holder_really_holds s f I).
Qed.
Print Assumptions c18_recursive_holders_compatible.

Theorem c18_recursive_success_really_holds :
  forall v tr s e s' r g, FiberSyncRcProofs.good v -> Rc.run v Rc.init tr = Some s -> Rc.step v s e = Some s' ->
  Rc.log s' = r :: Rc.log s -> FiberSyncRcProofs.winner r = Some g ->
  Rc.owner s' = g /\ Rc.cnt s' = count_occ Nat.eq_dec (Rc.holders s') g /\ Rc.cnt s' <> 0.
Proof.
  intros v tr s e s' r g Hv H S L W.
  pose proof (FiberSyncRcProofs.reach_inv v tr s Hv H) as I.
  pose proof (FiberSyncRcProofs.step_inv v s e s' Hv I S) as I'.
  apply (FiberSyncRcProofs.holder_really_holds s' g I').
  exact (FiberSyncRcProofs.step_winner v s e s' r g S L W).
Qed.
Print Assumptions c18_recursive_success_really_holds.

Theorem c18_recursive_results_justified :
  forall v tr s, FiberSyncRcProofs.good v -> Rc.run v Rc.init tr = Some s ->
  Forall (fun r => match r with
                   | Rc.RTry _ false justified => justified = true
                   | Rc.RTimed _ false dl t => dl <= t
                   | _ => True
                   end) (Rc.log s).
Proof.
  intros v tr s Hv H. exact (FiberSyncRcProofs.results_ok s (FiberSyncRcProofs.reach_inv v tr s Hv H)).
Qed.
Print Assumptions c18_recursive_results_justified.

Theorem c18_recursive_blocked_eventually_woken :
  forall v tr s f, FiberSyncRcProofs.good v -> Rc.run v Rc.init tr = Some s ->
  (forall g, Rc.resumable s g = false) -> Rc.pcs s f = Rc.InLock ->
  exists h, In h (Rc.holders s) /\ h <> f.
Proof.
  intros v tr s f Hv H Q P.
  exact (FiberSyncRcProofs.blocked_woken s f (FiberSyncRcProofs.reach_inv v tr s Hv H) Q P).
Qed.
Print Assumptions c18_recursive_blocked_eventually_woken.

(* pinned RecursiveMutex::unlock (no notify): a fiber stays parked in lock() on a mutex nobody holds, and
   nothing can run.  recursive_mutex/L|L *)
Theorem c18_recursive_blocked_eventually_woken_refuted :
  exists tr s, Rc.run {| v_tm_while := true; v_rc_notify := false; v_rc_while := true; v_rt_while := true;
                         v_sh_while := true; v_shs_while := true; v_st_while := true; v_st_helper := true; v_shs_eq := true;
                         v_sl_guard := true |} Rc.init tr = Some s /\
               (forall g, Rc.resumable s g = false) /\ Rc.pcs s 2 = Rc.InLock /\ Rc.holders s = [].
Proof.
  exists [Rc.EOp 1 Rc.OLock; Rc.EOp 2 Rc.OLock; Rc.EOp 1 (Rc.OUnlock 0)].
  eexists. split; [reflexivity|]. split; [|split; reflexivity].
  intros g. unfold Rc.resumable. simpl. unfold upd.
  destruct (Nat.eqb_spec g 2); [reflexivity|]. destruct (Nat.eqb_spec g 1); reflexivity.
Qed.
Print Assumptions c18_recursive_blocked_eventually_woken_refuted.

(* pinned RecursiveMutex::lock (single `if`), once unlock notifies: two owners.  recursive_mutex/LL|L *)
Theorem c18_recursive_lock_holders_compatible_refuted :
  exists tr s, Rc.run {| v_tm_while := true; v_rc_notify := true; v_rc_while := false; v_rt_while := true;
                         v_sh_while := true; v_shs_while := true; v_st_while := true; v_st_helper := true; v_shs_eq := true;
                         v_sl_guard := true |} Rc.init tr = Some s /\
               In 1 (Rc.holders s) /\ In 2 (Rc.holders s).
Proof.
  exists [Rc.EOp 1 Rc.OLock; Rc.EOp 2 Rc.OLock; Rc.EOp 1 (Rc.OUnlock 0); Rc.EOp 1 Rc.OLock; Rc.ERun 2 10].
  eexists. split; [vm_compute; reflexivity|]. simpl. auto.
Qed.
Print Assumptions c18_recursive_lock_holders_compatible_refuted.

(* pinned RecursiveTimedMutex::TimedWaitHelper (single `if`): two owners.  recursive_timed_mutex/LL|G *)
Theorem c18_recursive_timed_holders_compatible_refuted :
  exists tr s, Rc.run {| v_tm_while := true; v_rc_notify := true; v_rc_while := true; v_rt_while := false;
                         v_sh_while := true; v_shs_while := true; v_st_while := true; v_st_helper := true; v_shs_eq := true;
                         v_sl_guard := true |} Rc.init tr = Some s /\
               In 1 (Rc.holders s) /\ In 2 (Rc.holders s).
Proof.
  exists [Rc.EOp 1 Rc.OLock; Rc.EOp 2 (Rc.OTimed (Dur 3000)); Rc.EOp 1 (Rc.OUnlock 0); Rc.EOp 1 Rc.OLock; Rc.ERun 2 10].
  eexists. split; [vm_compute; reflexivity|]. simpl. auto.
Qed.
Print Assumptions c18_recursive_timed_holders_compatible_refuted.

(* ================================================================== shared_mutex, shared_timed_mutex *)

(* holders_compatible + the concrete state says what the clients believe: one writer and no reader, or readers
   only and their exact count, or nobody and the lock is free *)
Theorem c18_shared_holders_compatible :
  forall v tr s, FiberSyncShProofs.good v -> Sh.run v Sh.init tr = Some s ->
  length (Sh.xh s) <= 1 /\ (Sh.xh s <> [] -> Sh.sh s = []) /\
  (Sh.occ s = false <-> Sh.xh s = [] /\ Sh.sh s = []) /\
  (forall f, In f (Sh.xh s) -> Sh.xh s = [f] /\ Sh.sh s = [] /\ Sh.occ s = true /\ Sh.exm s = true) /\
  (forall f, In f (Sh.sh s) ->
     Sh.xh s = [] /\ Sh.occ s = true /\ Sh.exm s = false /\ Sh.cnt s = length (Sh.sh s) /\ NoDup (Sh.sh s)).
Proof.
  intros v tr s Hv H. pose proof (FiberSyncShProofs.reach_inv v tr s Hv H) as I.
  destruct (FiberSyncShProofs.holders_compatible s I) as [A B].
  split; [exact A|]. split; [exact B|]. split; [exact (FiberSyncShProofs.free_iff_no_holder s I)|]. split.
  - intros f. exact (FiberSyncShProofs.xholder_really_holds s f I).
  - intros f. exact (FiberSyncShProofs.sholder_really_holds s f I).
Qed.
Print Assumptions c18_shared_holders_compatible.

(* try_success_holds_in_mode: a reported acquisition in mode y (true = exclusive) makes g a holder in that
   mode, with the concrete state in that mode *)
Theorem c18_shared_success_holds_in_mode :
  forall v tr s e s' r g y, FiberSyncShProofs.good v -> Sh.run v Sh.init tr = Some s -> Sh.step v s e = Some s' ->
  Sh.log s' = r :: Sh.log s -> FiberSyncShProofs.winner r = Some (g, y) ->
  Sh.occ s' = true /\ Sh.exm s' = y /\ (if y then Sh.xh s' = [g] /\ Sh.sh s' = [] else In g (Sh.sh s') /\ Sh.xh s' = []).
Proof.
  intros v tr s e s' r g y Hv H S L W.
  pose proof (FiberSyncShProofs.reach_inv v tr s Hv H) as I.
  pose proof (FiberSyncShProofs.step_inv v s e s' Hv I S) as I'.
  pose proof (FiberSyncShProofs.step_winner v s e s' r g y S L W) as HH. unfold FiberSyncShProofs.holds in HH.
  destruct y.
  - destruct (FiberSyncShProofs.xholder_really_holds s' g I' HH) as [A [B [C D]]]. auto.
  - destruct (FiberSyncShProofs.sholder_really_holds s' g I' HH) as [A [B [C _]]]. auto.
Qed.
Print Assumptions c18_shared_success_holds_in_mode.

Theorem c18_shared_results_justified :
  forall v tr s, FiberSyncShProofs.good v -> Sh.run v Sh.init tr = Some s ->
  Forall (fun r => match r with
                   | Sh.RTry _ _ false justified => justified = true
                   | Sh.RTimed _ _ false dl t => dl <= t
                   | _ => True
                   end) (Sh.log s).
Proof.
  intros v tr s Hv H. exact (FiberSyncShProofs.results_ok s (FiberSyncShProofs.reach_inv v tr s Hv H)).
Qed.
Print Assumptions c18_shared_results_justified.

(* blocked_eventually_woken: in a quiescent state no fiber is parked in lock()/lock_shared() on a FREE lock:
   some other client holds it.  (A reader may stay parked behind other readers: lock_shared waits in the
   exclusive queue and unlock wakes one fiber at a time — see c18_shared_reader_behind_readers.) *)
Theorem c18_shared_blocked_eventually_woken :
  forall v tr s f, FiberSyncShProofs.good v -> Sh.run v Sh.init tr = Some s ->
  (forall g, Sh.resumable s g = false) -> Sh.pcs s f = Sh.InLockX \/ Sh.pcs s f = Sh.InLockS ->
  Sh.occ s = true /\ (Sh.xh s <> [] \/ Sh.sh s <> []) /\ ~ In f (Sh.xh s) /\ ~ In f (Sh.sh s).
Proof.
  intros v tr s f Hv H Q P.
  exact (FiberSyncShProofs.blocked_woken s f (FiberSyncShProofs.reach_inv v tr s Hv H) Q P).
Qed.
Print Assumptions c18_shared_blocked_eventually_woken.

(* pinned SharedMutex::lock (single `if`): two writers.  shared_mutex/LL|L *)
Theorem c18_shared_lock_holders_compatible_refuted :
  exists tr s, Sh.run {| v_tm_while := true; v_rc_notify := true; v_rc_while := true; v_rt_while := true;
                         v_sh_while := false; v_shs_while := true; v_st_while := true; v_st_helper := true; v_shs_eq := true;
                         v_sl_guard := true |} Sh.init tr = Some s /\ length (Sh.xh s) = 2.
Proof.
  exists [Sh.EOp 1 Sh.OLockX; Sh.EOp 2 Sh.OLockX; Sh.EOp 1 (Sh.OUnlockX true 0); Sh.EOp 1 Sh.OLockX; Sh.ERun 2 10].
  eexists. split; [vm_compute; reflexivity|reflexivity].
Qed.
Print Assumptions c18_shared_lock_holders_compatible_refuted.

(* pinned SharedMutex::lock_shared (single `if`): a writer and a reader.  shared_mutex/LL|l *)
Theorem c18_shared_lock_shared_holders_compatible_refuted :
  exists tr s, Sh.run {| v_tm_while := true; v_rc_notify := true; v_rc_while := true; v_rt_while := true;
                         v_sh_while := true; v_shs_while := false; v_st_while := true; v_st_helper := true; v_shs_eq := true;
                         v_sl_guard := true |} Sh.init tr = Some s /\ Sh.xh s = [1] /\ Sh.sh s = [2].
Proof.
  exists [Sh.EOp 1 Sh.OLockX; Sh.EOp 2 Sh.OLockS; Sh.EOp 1 (Sh.OUnlockX true 0); Sh.EOp 1 Sh.OLockX; Sh.ERun 2 10].
  eexists. split; [vm_compute; reflexivity|]. split; reflexivity.
Qed.
Print Assumptions c18_shared_lock_shared_holders_compatible_refuted.

(* blocked readers parked on _shared_queue instead of _exclusive_queue (a seeded text, never in the tree): the
   coin of unlock() wakes the timed writer, a reader barges in with try_lock_shared, the writer waits again and
   times out, the last unlock_shared notifies the empty exclusive queue, and the reader sleeps on a free lock
   with nothing left to run.  shared_timed_mutex/L|l|F|t(S) *)
Theorem c18_shared_lock_shared_queue_blocked_eventually_woken_refuted :
  exists tr s, Sh.run {| v_tm_while := true; v_rc_notify := true; v_rc_while := true; v_rt_while := true;
                         v_sh_while := true; v_shs_while := true; v_st_while := true; v_st_helper := true;
                         v_shs_eq := false; v_sl_guard := true |} Sh.init tr = Some s /\
               (forall g, Sh.resumable s g = false) /\ Sh.pcs s 2 = Sh.InLockS /\
               Sh.occ s = false /\ Sh.xh s = [] /\ Sh.sh s = [].
Proof.
  exists [Sh.EOp 1 Sh.OLockX; Sh.EOp 2 Sh.OLockS; Sh.EOp 3 (Sh.OTimedX (Dur 5)); Sh.EOp 1 (Sh.OUnlockX false 0);
          Sh.EOp 4 Sh.OTryS; Sh.ERun 3 1; Sh.ERun 3 16; Sh.EOp 4 (Sh.OUnlockS 0)].
  eexists. split; [vm_compute; reflexivity|]. split; [|repeat split; reflexivity].
  intros g. do 5 (destruct g as [|g]; [vm_compute; reflexivity|]). vm_compute. reflexivity.
Qed.
Print Assumptions c18_shared_lock_shared_queue_blocked_eventually_woken_refuted.

(* pinned SharedTimedMutex::TimedWaitHelper (single `if`): two writers.  shared_timed_mutex/LL|G *)
Theorem c18_shared_timed_holders_compatible_refuted :
  exists tr s, Sh.run {| v_tm_while := true; v_rc_notify := true; v_rc_while := true; v_rt_while := true;
                         v_sh_while := true; v_shs_while := true; v_st_while := false; v_st_helper := true; v_shs_eq := true;
                         v_sl_guard := true |} Sh.init tr = Some s /\ length (Sh.xh s) = 2.
Proof.
  exists [Sh.EOp 1 Sh.OLockX; Sh.EOp 2 (Sh.OTimedX (Dur 3000)); Sh.EOp 1 (Sh.OUnlockX true 0); Sh.EOp 1 Sh.OLockX;
          Sh.ERun 2 10].
  eexists. split; [vm_compute; reflexivity|reflexivity].
Qed.
Print Assumptions c18_shared_timed_holders_compatible_refuted.

(* pinned SharedTimedMutex::TimedWaitHelper always ends with SharedLockHelper(): a successful exclusive
   try_lock_for leaves the mutex in SHARED mode, and a try_lock_shared of another fiber succeeds.
   shared_timed_mutex/G|t *)
Theorem c18_shared_timed_success_holds_in_mode_refuted :
  exists tr s, Sh.run {| v_tm_while := true; v_rc_notify := true; v_rc_while := true; v_rt_while := true;
                         v_sh_while := true; v_shs_while := true; v_st_while := true; v_st_helper := false; v_shs_eq := true;
                         v_sl_guard := true |} Sh.init tr = Some s /\
               Sh.xh s = [1] /\ Sh.exm s = false /\ Sh.sh s = [2].
Proof.
  exists [Sh.EOp 1 (Sh.OTimedX (Dur 3000)); Sh.EOp 2 Sh.OTryS].
  eexists. split; [vm_compute; reflexivity|]. repeat split; reflexivity.
Qed.
Print Assumptions c18_shared_timed_success_holds_in_mode_refuted.

(* not a defect by the property text, recorded so that nobody reads more into the theorem above: even the
   repaired SharedMutex can leave a reader parked while only readers hold the lock (it is released when the
   last of them unlocks) *)
Example c18_shared_reader_behind_readers :
  exists tr s, Sh.run v_repaired Sh.init tr = Some s /\
               Sh.pcs s 3 = Sh.InLockS /\ In 3 (Sh.eq s) /\ Sh.xh s = [] /\ Sh.sh s = [2].
Proof.
  exists [Sh.EOp 1 Sh.OLockX; Sh.EOp 2 Sh.OLockS; Sh.EOp 3 Sh.OLockS; Sh.EOp 1 (Sh.OUnlockX true 0); Sh.ERun 2 10].
  eexists. split; [vm_compute; reflexivity|]. repeat split; simpl; auto.
Qed.

(* ================================================================== timed waits and the scheduler's sleep map *)

(* with the guarded lookup (the tree since the sleep-map fix) no timed wait dereferences _sleep_list.end() *)
Theorem c18_sleep_map_lookup_safe :
  forall v, v_sl_guard v = true ->
  (forall tr s, Mx.run v Mx.init tr = Some s -> ub (Mx.sm s) = false) /\
  (forall tr s, Rc.run v Rc.init tr = Some s -> ub (Rc.sm s) = false) /\
  (forall tr s, Sh.run v Sh.init tr = Some s -> ub (Sh.sm s) = false).
Proof.
  intros v G. repeat split; intros tr s H.
  - exact (mx_run_ub v tr G Mx.init s eq_refl H).
  - exact (rc_run_ub v tr G Rc.init s eq_refl H).
  - exact (sh_run_ub v tr G Sh.init s eq_refl H).
Qed.
Print Assumptions c18_sleep_map_lookup_safe.

(* the unguarded text: try_lock_for(0) on a held timed_mutex looks up a key that was never inserted.
   timed_mutex/L|Z  (already repaired in the tree by the sleep-map fix) *)
Theorem c18_sleep_map_lookup_safe_refuted :
  exists tr s, Mx.run {| v_tm_while := true; v_rc_notify := true; v_rc_while := true; v_rt_while := true;
                         v_sh_while := true; v_shs_while := true; v_st_while := true; v_st_helper := true; v_shs_eq := true;
                         v_sl_guard := false |} Mx.init tr = Some s /\ ub (Mx.sm s) = true.
Proof.
  exists [Mx.EOp 1 Mx.OLock; Mx.EOp 2 (Mx.OTimed (Dur 0))].
  eexists. split; [vm_compute; reflexivity|reflexivity].
Qed.
Print Assumptions c18_sleep_map_lookup_safe_refuted.

(* ================================================================== thread::join, thread-local pointers *)

(* join_after_exit: every join that returned, returned after the joined thread function had finished; and a
   fiber suspended in join on a finished thread has been scheduled (join cannot hang) *)
Theorem c18_join_after_exit :
  forall root tr s, Jn.run (Jn.init root) tr = Some s ->
  Forall (fun e => snd e = true) (Jn.log s) /\
  (forall j c, Jn.jpc s j = Some c -> Jn.ts s c = Jn.TDone -> Jn.woken s j = true).
Proof.
  intros root tr s H. split.
  - exact (JnP.join_after_exit root tr s H).
  - intros j c. exact (JnP.joiner_woken root tr s j c H).
Qed.
Print Assumptions c18_join_after_exit.

(* tls_per_fiber: what a fiber reads from its thread-local pointers is unchanged when every store and read
   of all other fibers is erased from the history; it reads back what it stored *)
Theorem c18_tls_per_fiber :
  (forall f tr, TlP.reads_of f (Tl.run Tl.init tr) = TlP.reads_of f (Tl.run Tl.init (filter (TlP.mine f) tr))) /\
  (forall s f x v, Tl.get (Tl.step s (Tl.ESet f x v)) f x = v) /\
  (forall s f g x y v, g <> f -> Tl.get (Tl.step s (Tl.ESet g y v)) f x = Tl.get s f x).
Proof.
  repeat split.
  - exact TlP.tls_per_fiber.
  - exact TlP.get_set_same.
  - exact TlP.get_set_other_fiber.
Qed.
Print Assumptions c18_tls_per_fiber.

(* own store or initialiser: at any time a fiber reads from a thread-local pointer its own last store if it stored
   at all (0 = a stored nullptr counts as a store), else the variable's initialiser; in particular after storing
   nullptr it reads nullptr even if the initialiser is non-null and whatever the other fibers store *)
Theorem c18_tls_own_store_or_default :
  (forall tr s f x,
     Tl.get (Tl.run s tr) f x =
     match TlP.last_store f x tr (Tl.tls s f x) with
     | Some v => v
     | None => TlP.last_default x tr (Tl.dflt s x)
     end) /\
  (forall s f x tr, (forall g y v, In (Tl.ESet g y v) tr -> g <> f \/ y <> x) ->
     Tl.get (Tl.run (Tl.step s (Tl.ESet f x 0)) tr) f x = 0).
Proof. split; [exact TlP.own_store_or_default|exact TlP.null_store_kept]. Qed.
Print Assumptions c18_tls_own_store_or_default.

(* distinct thread-local pointer variables occupy distinct slots of the per-fiber map, whatever their pointee
   types, when the proxies are numbered by one counter *)
Theorem c18_tls_variables_distinct : forall tys, NoDup (Tl.slots true tys).
Proof. exact TlP.slots_distinct. Qed.
Print Assumptions c18_tls_variables_distinct.

(* the pinned text numbers the proxies per pointee type: an int* and a long* variable share slot 0.
   tls/08pr|19pr *)
Theorem c18_tls_variables_distinct_refuted : exists tys, ~ NoDup (Tl.slots false tys).
Proof.
  exists [0; 1]. vm_compute. intro H. inversion H as [|x l N _]. apply N. left. reflexivity.
Qed.
Print Assumptions c18_tls_variables_distinct_refuted.

(* ================================================================== non-vacuity: traces of the real library *)

(* timed_mutex/LL|G, choices 1,1,0,1,0,1,0,1 on the repaired tree: f2's try_lock_for is notified by f1's first
   unlock, finds the mutex re-locked by f1, waits AGAIN, and succeeds after the second unlock *)
Example c18_witness_timed_mutex_rewait :
  exists s, Mx.run v_repaired Mx.init
    [Mx.ERun 0 10; Mx.ERun 2 20; Mx.ERun 1 30; Mx.EOp 1 Mx.OLock; Mx.ERun 2 40; Mx.EOp 2 (Mx.OTimed (Dur 3000));
     Mx.ERun 1 50; Mx.EOp 1 (Mx.OUnlock 0); Mx.EOp 1 Mx.OLock; Mx.ERun 2 60; Mx.ERun 1 70; Mx.EOp 1 (Mx.OUnlock 0);
     Mx.ERun 2 80] = Some s /\ Mx.holders s = [2] /\ hd_error (Mx.log s) = Some (Mx.RTimed 2 true 3080 80).
Proof. eexists. split; [vm_compute; reflexivity|]. split; reflexivity. Qed.

(* cv/W|N, choices 0,1,1,0: f1 waits, f2 sets the flag and notifies, f1 returns holding the mutex *)
Example c18_witness_condvar :
  exists s, Mx.run v_pinned Mx.init
    [Mx.ERun 0 10; Mx.ERun 1 20; Mx.ERun 2 30; Mx.ERun 1 40; Mx.EOp 1 Mx.OLock; Mx.EOp 1 (Mx.OCvWait None 0);
     Mx.ERun 2 50; Mx.EOp 2 Mx.OLock; Mx.EOp 2 (Mx.OUnlock 0); Mx.EOp 2 (Mx.ONotifyOne 0); Mx.ERun 1 60] = Some s /\
    Mx.holders s = [1] /\ hd_error (Mx.log s) = Some (Mx.RCv 1 true None 60).
Proof. eexists. split; [vm_compute; reflexivity|]. split; reflexivity. Qed.

(* shared_timed_mutex/G|t, choices 0,1,1,1 on the repaired tree: the exclusive try_lock_for holds exclusively
   and the try_lock_shared of the other fiber fails, justified *)
Example c18_witness_shared_timed :
  exists s, Sh.run v_repaired Sh.init
    [Sh.ERun 0 10; Sh.ERun 1 20; Sh.ERun 2 30; Sh.ERun 1 40; Sh.EOp 1 (Sh.OTimedX (Dur 3000)); Sh.ERun 2 50;
     Sh.EOp 2 Sh.OTryS] = Some s /\ Sh.xh s = [1] /\ Sh.exm s = true /\
    hd_error (Sh.log s) = Some (Sh.RTry 2 false false true).
Proof. eexists. split; [vm_compute; reflexivity|]. repeat split; reflexivity. Qed.

(* recursive_mutex/L(T)|L, choices 0,0,1,0,0,1 on the repaired tree: nested try_lock by the owner while f2 is
   parked; the outer unlock wakes f2 *)
Example c18_witness_recursive :
  exists s, Rc.run v_repaired Rc.init
    [Rc.ERun 0 10; Rc.ERun 1 20; Rc.EOp 1 Rc.OLock; Rc.ERun 2 30; Rc.EOp 2 Rc.OLock; Rc.ERun 1 40; Rc.EOp 1 Rc.OTry;
     Rc.EOp 1 (Rc.OUnlock 0); Rc.EOp 1 (Rc.OUnlock 0); Rc.ERun 2 50] = Some s /\
    Rc.holders s = [2] /\ Rc.owner s = 2 /\ Rc.cnt s = 1.
Proof. eexists. split; [vm_compute; reflexivity|]. repeat split; reflexivity. Qed.

(* the join projection of the first trace above *)
Example c18_witness_join :
  exists s, Jn.run (Jn.init 0)
    [Jn.ESpawn 0 1; Jn.ESpawn 0 2; Jn.EJoin 0 1; Jn.EExit 1; Jn.ERun 0; Jn.EJoin 0 2; Jn.EExit 2; Jn.ERun 0] = Some s /\
    Jn.log s = [(0, 2, true); (0, 1, true)].
Proof. eexists. split; [vm_compute; reflexivity|reflexivity]. Qed.
