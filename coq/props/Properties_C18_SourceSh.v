(* C18 at the tree under test, part 3: yaclib_std::shared_mutex, shared_timed_mutex.  Compiles exactly when
   SharedMutex::lock / lock_shared and SharedTimedMutex::TimedWaitHelper re-check, the latter takes the lock
   with LockHelper() when exclusive, and blocked lock_shared callers wait on the exclusive queue. *)
From Coq Require Import List Arith Bool.
Import ListNotations.
From YV Require Import model.FiberSync gen.FiberSyncSource proofs.FiberSyncShProofs props.Properties_C18.

Lemma source_shared_repaired : good source_variant.
Proof. repeat split; reflexivity. Qed.

Theorem c18_source_shared_holders_compatible :
  forall tr s, Sh.run source_variant Sh.init tr = Some s ->
  length (Sh.xh s) <= 1 /\ (Sh.xh s <> [] -> Sh.sh s = []) /\
  (Sh.occ s = false <-> Sh.xh s = [] /\ Sh.sh s = []) /\
  (forall f, In f (Sh.xh s) -> Sh.xh s = [f] /\ Sh.sh s = [] /\ Sh.occ s = true /\ Sh.exm s = true) /\
  (forall f, In f (Sh.sh s) ->
     Sh.xh s = [] /\ Sh.occ s = true /\ Sh.exm s = false /\ Sh.cnt s = length (Sh.sh s) /\ NoDup (Sh.sh s)).
Proof. intros tr s. exact (c18_shared_holders_compatible source_variant tr s source_shared_repaired). Qed.
Print Assumptions c18_source_shared_holders_compatible.

Theorem c18_source_shared_success_holds_in_mode :
  forall tr s e s' r g y, Sh.run source_variant Sh.init tr = Some s -> Sh.step source_variant s e = Some s' ->
  Sh.log s' = r :: Sh.log s -> winner r = Some (g, y) ->
  Sh.occ s' = true /\ Sh.exm s' = y /\ (if y then Sh.xh s' = [g] /\ Sh.sh s' = [] else In g (Sh.sh s') /\ Sh.xh s' = []).
Proof.
  intros tr s e s' r g y. exact (c18_shared_success_holds_in_mode source_variant tr s e s' r g y source_shared_repaired).
Qed.
Print Assumptions c18_source_shared_success_holds_in_mode.

Theorem c18_source_shared_results_justified :
  forall tr s, Sh.run source_variant Sh.init tr = Some s -> Forall ok_res (Sh.log s).
Proof. intros tr s. exact (c18_shared_results_justified source_variant tr s source_shared_repaired). Qed.
Print Assumptions c18_source_shared_results_justified.

Theorem c18_source_shared_blocked_eventually_woken :
  forall tr s f, Sh.run source_variant Sh.init tr = Some s ->
  (forall g, Sh.resumable s g = false) -> Sh.pcs s f = Sh.InLockX \/ Sh.pcs s f = Sh.InLockS ->
  Sh.occ s = true /\ (Sh.xh s <> [] \/ Sh.sh s <> []) /\ ~ In f (Sh.xh s) /\ ~ In f (Sh.sh s).
Proof.
  intros tr s f. exact (c18_shared_blocked_eventually_woken source_variant tr s f source_shared_repaired).
Qed.
Print Assumptions c18_source_shared_blocked_eventually_woken.
