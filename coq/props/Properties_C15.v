(* C15 — coroutine SharedMutex<FIFO, ReadersFIFO>: writers exclude all, readers share, nobody is forgotten.
   Statements only; proofs are in proofs/CoSharedMutex*.v.  [tr] ranges over every sequence of atomic operations on
   `_state` / `_readers_wait`, spinlock sections, executor events and markers of all parties, i.e. every schedule;
   [f] (FIFO) and [rf] (ReadersFIFO) over the four option combinations; [n] over any number of coroutines, each doing
   any number of rounds as a reader or a writer in any mix of the lock / unlock forms (the forms are events, not a
   fixed program). *)
From Coq Require Import List Arith Bool ZArith.
Import ListNotations.
From YV Require Import model.CoSharedMutex proofs.CoSharedMutexProofs proofs.CoSharedMutexLive
  proofs.CoSharedMutexThms proofs.CoSharedMutexPack.

(* A writer TOKEN ([wt_w]): the exclusive lock is this coroutine's (handed over / granted / inside / not yet given
   back), or it carries a hand-over of it that is in flight (RunWriter's popped node, the last reader about to run
   _writers_first, RunReaders before its store).  A reader TOKEN ([rt_w]): the shared lock is this coroutine's, or it
   is in the local list of a RunReaders that has not resumed it yet.
   - at most one writer token; a writer token excludes every reader token (readers overlap only with readers);
   - at most one coroutine is inside an exclusive critical section, and then none is inside a shared one;
   - two different coroutines never both hold writer tokens, nor a writer token and a reader token. *)
Theorem c15_exclusion :
  forall f rf n tr s, run (init f rf n) tr = Some s ->
  cnt wt_w s <= 1 /\ (cnt wt_w s = 1 -> cnt rt_w s = 0) /\
  cnt inw_w s <= 1 /\ (cnt inw_w s = 1 -> cnt inr_w s = 0) /\
  (forall c c' x x', get s c = Some x -> get s c' = Some x' -> c <> c' ->
     wt_w (pc x) + wt_w (pc x') <= 1 /\ (wt_w (pc x) = 1 -> rt_w (pc x') = 0)).
Proof. exact thm_exclusion. Qed.
Print Assumptions c15_exclusion.

(* TryLock / TryGuard (the successful strong CAS; also the fast path of Lock / Guard and the first writer that finds
   no reader) succeed only when nobody holds or is being handed the lock in either mode and the word is 0;
   TryLockShared / TryGuardShared (the successful weak CAS; also the fast path of LockShared / GuardShared) succeed
   only when no writer holds, is being handed the lock, or waits. *)
Theorem c15_try_compatible :
  forall f rf n tr s, run (init f rf n) tr = Some s ->
  forall e s', step s e = Some s' ->
  (acquires_excl e ->
     cnt wt_w s = 0 /\ cnt rt_w s = 0 /\ sw s = 0 /\ sr s = 0 /\ cnt inw_w s = 0 /\ cnt inr_w s = 0) /\
  (acquires_shared e -> cnt wt_w s = 0 /\ sw s = 0 /\ cnt inw_w s = 0).
Proof. exact thm_try_compatible. Qed.
Print Assumptions c15_try_compatible.

(* The cross-domain accounting: the halves of the word (updated outside the lock) against the fields updated under
   the spinlock.  Registered readers = reader tokens + in transit + queued; writers = owners + the first writer +
   queued (incl. the node being resumed); with no writer every reader in transit owns exactly one pass credit; while a
   writer owns there is no credit and no debt; otherwise `_readers_wait` (plus the first writer's pending add) is
   exactly the number of readers it still waits for (tokens + credits + pending decrements), positive once it is
   parked; `_writers_prio`. *)
Theorem c15_counts :
  forall f rf n tr s, run (init f rf n) tr = Some s ->
  rsize s = length (rq s) /\
  sr s = cnt rt_w s + cnt nt_w s + rsize s /\
  cnt parkr_w s = rsize s + cnt infl_w s /\
  cnt parkq_w s = length (wq s) + cnt runw_w s /\
  sw s = cnt own_w s + cnt nf_w s + cnt parkq_w s /\
  cnt nf_w s <= 1 /\
  (sw s = 0 -> rpass s = cnt nt_w s /\ rsize s = 0 /\ wq s = [] /\ cnt d_w s = 0 /\ rwait s = 0%Z) /\
  (cnt wt_w s = 1 -> rpass s = 0 /\ cnt rt_w s = 0 /\ cnt d_w s = 0 /\ rwait s = 0%Z) /\
  (cnt wt_w s = 0 -> sw s <> 0 ->
     cnt nf_w s = 1 /\ rpass s <= cnt nt_w s /\
     (rwait s + Z.of_nat (cnt addr_w s) = Z.of_nat (cnt rt_w s + rpass s + cnt d_w s))%Z /\
     (cnt parkf_w s = 1 -> (rwait s >= 1)%Z)) /\
  wprio s <= length (wq s) /\
  (fifo s = true -> rsize s = 0 -> spin s = false -> wprio s = length (wq s)) /\
  (fifo s = false -> wprio s = 0) /\
  (spin s = true <-> cnt add_w s + cnt store_w s = 1).
Proof. exact thm_counts. Qed.
Print Assumptions c15_counts.

(* Every request is granted exactly once: the log of grants has no duplicates; the grants of coroutine c are exactly
   its requests number 1 .. got (no request is granted twice, none that was not made); got + (1 if a request is
   outstanding) = requested; and when nothing runs any more every request of every coroutine has been granted. *)
Theorem c15_granted_once :
  forall f rf n tr s, run (init f rf n) tr = Some s ->
  NoDup (grants s) /\
  (forall c x, get s c = Some x ->
     (forall r, In (c, r) (grants s) <-> 1 <= r <= got x) /\ got x + pend_w (pc x) = req x) /\
  (forall c r, In (c, r) (grants s) -> exists x, get s c = Some x) /\
  length (grants s) = length (entered s) /\
  (quiescent s = true -> forall c x, get s c = Some x -> got x = req x).
Proof. exact thm_granted_once. Qed.
Print Assumptions c15_granted_once.

(* No lost wake-up, part 1 (who is where): every coroutine suspended in the mutex is in exactly one place — a reader
   exactly once in the readers' queue or in the local list of the RunReaders that is resuming it; a queued writer
   exactly once in the writers' list or the node RunWriter is resuming; the first writer is the one `_writers_first`
   points to — and nobody else is in those places.  The mutex is always in one of three situations (in particular after
   every unlock path): no writer and nobody queued; the exclusive lock is owned or is being handed over by a coroutine
   that runs; or the first writer exists and either still runs (between its two fetch_adds) or is parked with
   `_readers_wait` = the positive number of reader tokens + credits + pending decrements, each carried by a reader
   that runs. *)
Theorem c15_parked_exactly_once :
  forall f rf n tr s, run (init f rf n) tr = Some s ->
  (forall c, count_occ Nat.eq_dec (rq s) c + cnt (inflocc_w c) s =
             match get s c with Some x => parkr_w (pc x) | None => 0 end) /\
  (forall c, count_occ Nat.eq_dec (wq s) c + cnt (runwocc_w c) s =
             match get s c with Some x => parkq_w (pc x) | None => 0 end) /\
  (forall c x, get s c = Some x -> nf_w (pc x) = 1 -> wfirst s = Some c) /\ cnt nf_w s <= 1 /\
  ((sw s = 0 /\ rq s = [] /\ wq s = [] /\ cnt nf_w s = 0 /\ cnt wt_w s = 0) \/
   cnt wt_w s = 1 \/
   (cnt nf_w s = 1 /\ cnt wt_w s = 0 /\ rpass s <= cnt nt_w s /\
    (cnt add_w s = 1 \/
     (cnt parkf_w s = 1 /\ (rwait s >= 1)%Z /\ rwait s = Z.of_nat (cnt rt_w s + rpass s + cnt d_w s))))).
Proof. exact thm_parked. Qed.
Print Assumptions c15_parked_exactly_once.

(* No lost wake-up, part 2 (progress): a running or runnable coroutine's next event is always enabled — no assertion of
   the source fails, Run never resumes a coroutine that is not suspended in the mutex, no list is popped empty, no half
   of the word underflows — unless it needs the spinlock while another coroutine is between the two halves of its
   section, and then that one's next event is enabled; so as long as anybody runs some event is enabled; and when
   nothing runs and nothing is runnable (quiescent) nobody is parked: everybody has finished and the mutex is back in
   its initial state. *)
Theorem c15_no_lost_wakeup :
  forall f rf n tr s, run (init f rf n) tr = Some s ->
  (forall c x e, get s c = Some x -> co_ev s c x = Some e ->
     (needs_spin (pc x) = true -> spin s = false) -> step s e <> None) /\
  (spin s = true ->
     exists c x e, get s c = Some x /\ needs_spin (pc x) = false /\ co_ev s c x = Some e /\ step s e <> None) /\
  (quiescent s = false -> exists e s', step s e = Some s') /\
  (quiescent s = true ->
     sw s = 0 /\ sr s = 0 /\ rq s = [] /\ wq s = [] /\ rpass s = 0 /\ rwait s = 0%Z /\ spin s = false /\
     forall c x, get s c = Some x -> pc x = PDone).
Proof. exact thm_no_lost_wakeup. Qed.
Print Assumptions c15_no_lost_wakeup.

(* The packed 32 + 32 bit word and the 32 bit `_readers_wait` of the source compute what the model's pair (sw, sr) and
   integer rwait compute while the counts fit (constants taken from the source: gen/Gen_shmutex_consts.v). *)
Theorem c15_packing :
  (kR = 1 /\ kW = 2 ^ 32 /\ wordS = 2 ^ 64 /\ wordW = 2 ^ 32)%Z /\
  (forall w r, fits r -> (pack w r / kW = Z.of_nat w /\ (pack w r) mod kW = Z.of_nat r)%Z) /\
  (forall w r w' r', fits r -> fits r' -> pack w r = pack w' r' -> w = w' /\ r = r') /\
  (forall w r, fits w -> fits (S r) ->
     ((pack w r + kR) mod wordS = pack w (S r) /\ (pack w (S r) - kR) mod wordS = pack w r)%Z) /\
  (forall w r, fits (S w) -> fits r ->
     ((pack w r + kW) mod wordS = pack (S w) r /\ (pack (S w) r - kW) mod wordS = pack w r)%Z) /\
  (forall w r, fits r ->
     (pack w r = 0%Z <-> w = 0 /\ r = 0) /\ (pack w r = kW <-> w = 1 /\ r = 0) /\
     ((pack w r >= kW)%Z <-> w >= 1) /\ ((pack w r / kW)%Z = 0%Z <-> w = 0)) /\
  (forall z r, wrap (wrap z + r) = wrap (z + r) /\ wrap (wrap z - 1) = wrap (z - 1))%Z /\
  (forall z r, small z -> small (Z.of_nat r) ->
     (wrap z = wrap (- Z.of_nat r) <-> z = (- Z.of_nat r)%Z) /\ (wrap z = 1%Z <-> z = 1%Z) /\
     wrap (Z.of_nat r) = Z.of_nat r).
Proof. exact thm_packing. Qed.
Print Assumptions c15_packing.

(* ---- non-vacuity: traces of the real implementation (harness/h_c15.cpp), replayed by computation ---------------- *)

(* SharedMutex<true,false> on one worker: writer 1 holds (rescheduled inside), reader 0 queues, writer 2 queues;
   1 unlocks through SlowUnlock -> RunReaders with a next writer (store to _readers_wait, 2 becomes _writers_first);
   the reader's unlock pays the debt and runs 2; everything finishes *)
Example c15_witness_run_readers_next_writer :
  exists s, run (init true false 3)
    [EStart 1; EReqW 1; EWLoad 1 0 0; EWCas 1 true; EEnter 1; EStart 0; EReqS 0; ERSAdd 0 1 0; ERSSlow 0 false;
     EStart 2; EReqW 2; EWLoad 2 1 1; EWSlow 2 1 1; ELeave 1; EUWCas 1 false; EUWSlow 1 2 1; EUWStore 1 1%Z;
     EUWRun 1 0; EFinish 1; EStart 0; EEnter 0; ELeave 0; EUSSub 0 1 1; EUSWait 0 1%Z; EUSRun 0 2; EFinish 0;
     EStart 2; EEnter 2; ELeave 2; EUWCas 2 true; EFinish 2] = Some s /\
  quiescent s = true /\ entered s = [(1, true); (0, false); (2, true)] /\ sw s = 0 /\ sr s = 0.
Proof. eexists. vm_compute. repeat split. Qed.

(* two workers: the reader unlocks between the first writer's two fetch_adds: _readers_wait is -1 when the writer
   adds 1, so `!= -r` is false and the writer does not suspend *)
Example c15_witness_negative_readers_wait :
  exists s, run (init true false 3)
    [EStart 0; EReqS 0; ERSAdd 0 0 0; EEnter 0; ELeave 0; EUSSub 0 0 1; EFinish 0; EStart 1; EReqS 1; ERSAdd 1 0 0;
     EEnter 1; ELeave 1; EStart 2; EReqW 2; EWLoad 2 0 1; EWSlow 2 0 1; EUSSub 1 1 1; EUSWait 1 0%Z; EFinish 1;
     EWAdd 2 (-1)%Z; EEnter 2; ELeave 2; EUWCas 2 true; EFinish 2] = Some s /\
  quiescent s = true /\ rwait s = 0%Z /\ entered s = [(0, false); (1, false); (2, true)].
Proof. eexists. vm_compute. repeat split. Qed.

(* a reader registers while a writer holds, the writer's SlowUnlock finds no queued reader and leaves it a pass credit
   (PassReaders), the reader's section consumes the credit and does not suspend *)
Example c15_witness_pass_credit :
  exists s, run (init true false 3)
    [EStart 0; EReqS 0; ERSAdd 0 0 0; EEnter 0; ELeave 0; EUSSub 0 0 1; EFinish 0; EStart 1; EReqS 1; EStart 2;
     EReqW 2; EWLoad 2 0 0; EWCas 2 true; EEnter 2; ERSAdd 1 1 0; ELeave 2; EUWCas 2 false; EUWSlow 2 1 1; EFinish 2;
     ERSSlow 1 true; EEnter 1; ELeave 1; EUSSub 1 0 1; EFinish 1] = Some s /\
  quiescent s = true /\ rpass s = 0 /\ entered s = [(0, false); (2, true); (1, false)].
Proof. eexists. vm_compute. repeat split. Qed.

(* a bystander's TryLock and TryLockShared are both refused while a writer holds *)
Example c15_witness_try_refused :
  exists s, run (init true true 3)
    [EStart 0; EReqS 0; ERSAdd 0 0 0; EEnter 0; ELeave 0; EUSSub 0 0 1; EFinish 0; EStart 1; EReqW 1; EWLoad 1 0 0;
     EWCas 1 true; EEnter 1; EStart 2; ETryW 2; EWLoad 2 1 0; ETryS 2; ETSLoad 2 1 0; EFinish 2; ELeave 1;
     EUWCas 1 true; EFinish 1] = Some s /\
  quiescent s = true /\ tries s = [(2, true, false); (2, false, false)].
Proof. eexists. vm_compute. repeat split. Qed.

(* ReadersFIFO: two queued readers are resumed in arrival order by <true,true> and in reverse order by <true,false>
   (the model accepts each order only under the matching option) *)
Example c15_witness_readers_order :
  (exists s, run (init true true 4)
    [EStart 2; EReqW 2; EWLoad 2 0 0; EWCas 2 true; EEnter 2; EStart 0; EReqS 0; ERSAdd 0 1 0; ERSSlow 0 false;
     EStart 1; EReqS 1; ERSAdd 1 1 1; ERSSlow 1 false; ELeave 2; EUWCas 2 false; EUWSlow 2 1 2; EUWRun 2 0;
     EUWRun 2 1] = Some s) /\
  run (init true false 4)
    [EStart 2; EReqW 2; EWLoad 2 0 0; EWCas 2 true; EEnter 2; EStart 0; EReqS 0; ERSAdd 0 1 0; ERSSlow 0 false;
     EStart 1; EReqS 1; ERSAdd 1 1 1; ERSSlow 1 false; ELeave 2; EUWCas 2 false; EUWSlow 2 1 2; EUWRun 2 0] = None /\
  (exists s, run (init true false 4)
    [EStart 2; EReqW 2; EWLoad 2 0 0; EWCas 2 true; EEnter 2; EStart 0; EReqS 0; ERSAdd 0 1 0; ERSSlow 0 false;
     EStart 1; EReqS 1; ERSAdd 1 1 1; ERSSlow 1 false; ELeave 2; EUWCas 2 false; EUWSlow 2 1 2; EUWRun 2 1;
     EUWRun 2 0] = Some s).
Proof. split; [eexists; vm_compute; reflexivity|]. split; [vm_compute; reflexivity | eexists; vm_compute; reflexivity]. Qed.

(* the model refuses a second owner: after writer 0 acquired, a strong CAS "success" by 1, a reader's fast path that
   claims to have seen no writer, and a TryLockShared CAS "success" are not steps *)
Example c15_witness_second_owner_rejected :
  run (init true false 2)
    [EStart 0; EReqW 0; EWLoad 0 0 0; EStart 1; EReqW 1; EWLoad 1 0 0; EWCas 0 true; EWCas 1 true] = None /\
  run (init true false 2)
    [EStart 0; EReqW 0; EWLoad 0 0 0; EWCas 0 true; EStart 1; EReqS 1; ERSAdd 1 0 0] = None /\
  run (init true false 2)
    [EStart 1; ETryS 1; ETSLoad 1 0 0; EStart 0; EReqW 0; EWLoad 0 0 0; EWCas 0 true; ETSCas 1 true 0 0] = None.
Proof. vm_compute. repeat split. Qed.
