(* C16 — WaitGroup / OneShotEvent release every waiter exactly when the count hits zero.
   Statements only; proofs are in proofs/EventBase.v, proofs/EventProofs.v and proofs/EventBatch.v.

   [tr] ranges over every sequence of atomic operations of ANY NUMBER of threads doing Add/Done, of waiters of every
   kind (blocking, timed, co_await inline / sticky / on-executor, raw Job), of attached and consumed futures and their
   producers, i.e. over every schedule; [n] is the count given to the constructor.

   The documented rule of use ("Add only while the count is non-zero", Done only what was added) is the boolean
   predicate [follows_rule n tr] on the trace alone (Event.rule_from); theorems that need it say so. *)
From Coq Require Import List Arith Bool.
Import ListNotations.
From YV Require Import model.Event proofs.EventBase proofs.EventProofs proofs.EventBatch.

(* ---- release only after the count has reached zero ----------------------------------------------------------
   [rels s] records, for every release of a waiter (Wait / WaitFor-true returned, coroutine resumed inline or by
   the executor, job called), the value of the counter at that moment and whether it had been brought to zero. *)
Theorem c16_release_after_zero :
  forall n tr s, run (init n) tr = Some s -> follows_rule n tr = true ->
  Forall (fun x => snd (fst x) = 0 /\ snd x = true) (rels s) /\
  (fired s = true -> cnt s = 0) /\
  (cnt s = 0 -> uu s = 0 /\
                forall j r, nth_error (fs s) j = Some r -> holds r = false /\ (ap r <> A0 -> fw r = WR)).
Proof.
  intros n tr s H Hr. pose proof (inv_reach _ _ _ H) as I. pose proof (rule_ok _ _ _ H Hr) as Hb.
  split; [exact (rels_at_zero s I Hb)|]. split; [exact (fired_zero s I Hb)|exact (zero_all_done s I Hb)].
Qed.
Print Assumptions c16_release_after_zero.

(* zero is stable: once the count has been brought to zero it stays zero in every continuation within the rule *)
Theorem c16_zero_is_stable :
  forall n tr1 tr2 s1 s2, run (init n) tr1 = Some s1 -> run s1 tr2 = Some s2 ->
  follows_rule n (tr1 ++ tr2) = true -> fired s1 = true -> fired s2 = true /\ cnt s2 = 0.
Proof.
  intros n tr1 tr2 s1 s2 H1 H2 Hr Hf. pose proof (run_app_intro _ _ _ _ _ H1 H2) as H.
  pose proof (fired_mono _ _ _ H2 Hf) as Hf2. split; [exact Hf2|].
  exact (fired_zero s2 (inv_reach _ _ _ H) (rule_ok _ _ _ H Hr) Hf2).
Qed.
Print Assumptions c16_zero_is_stable.

(* the documented condition is enough: wherever the count is non-zero it has never been zero, so an Add there
   stays within [follows_rule] *)
Theorem c16_documented_rule_suffices :
  forall n tr s, run (init n) tr = Some s -> follows_rule n tr = true -> cnt s <> 0 -> fired s = false.
Proof. intros n tr s H Hr. exact (nonzero_not_fired s (inv_reach _ _ _ H) (rule_ok _ _ _ H Hr)). Qed.
Print Assumptions c16_documented_rule_suffices.

(* the predicate on traces is exactly the model's flag *)
Theorem c16_rule_characterised :
  forall n tr s, run (init n) tr = Some s -> follows_rule n tr = negb (broken s).
Proof. exact rule_is_not_broken. Qed.
Print Assumptions c16_rule_characterised.

(* ---- every waiter exactly once ------------------------------------------------------------------------------ *)

(* never twice, for any schedule: the number of release events of waiter w is its release counter, at most 1, and
   it is 1 exactly when the waiter has finished *)
Theorem c16_every_waiter_once :
  forall n tr s w r, run (init n) tr = Some s -> nth_error (ws s) w = Some r ->
  relc r <= 1 /\ relcount w (rels s) = relc r /\ (relc r = 1 <-> pc r = WDone).
Proof. intros n tr s w r H. exact (waiter_once s w r (inv_reach _ _ _ H)). Qed.
Print Assumptions c16_every_waiter_once.

(* registered before: when the count has reached zero and SetImpl has run to completion, every registered job has
   been called; whoever is still "parked" is a thread whose wake-up flag is set, and its return is enabled *)
Theorem c16_nobody_left_parked :
  forall n tr s w r, run (init n) tr = Some s -> follows_rule n tr = true ->
  fired s = true -> quiescent s = true -> nth_error (ws s) w = Some r ->
  is_all (head s) = true /\
  (reg r = true -> called r = true /\ (wk r = KTimed -> edec r = true)) /\
  (pc r = WParked ->
     called r = true /\ (wk r = KBlock \/ wk r = KTimed) /\
     (wk r = KBlock -> exists s', step s (ERet w) = Some s') /\
     (wk r = KTimed -> exists s', step s (ETWake w true) = Some s')).
Proof.
  intros n tr s w r H Hr Hf Hq Hn.
  destruct (quiescent_all_called s w r (inv_reach _ _ _ H) (rule_ok _ _ _ H Hr) Hf Hq Hn) as (Ha & Hreg & Hp & _).
  split; [exact Ha|]. split; [exact Hreg|]. intros Hpc. destruct (Hp Hpc) as [Hc Hk].
  split; [exact Hc|]. split; [exact Hk|]. exact (woken_can_return s w r Hn Hpc Hc).
Qed.
Print Assumptions c16_nobody_left_parked.

(* arriving after: once the head is all-done nobody registers any more, and a waiter that is inside TryAdd leaves
   it with "false" (state WPass, from which only its own release is possible) *)
Theorem c16_late_waiter_not_registered :
  forall s e s' w r', is_all (head s) = true -> step s e = Some s' ->
  nth_error (ws s') w = Some r' -> reg r' = true -> exists r, nth_error (ws s) w = Some r /\ reg r = true.
Proof. exact no_late_registration. Qed.
Print Assumptions c16_late_waiter_not_registered.

Theorem c16_late_waiter_passes :
  forall s w r e s', is_all (head s) = true -> nth_error (ws s) w = Some r ->
  (pc r = WTry \/ (exists x, pc r = WCas x) \/ (pc r = W0 /\ wk r <> KInline /\ wk r <> KSticky)) ->
  (exists v, e = ETryLd w v) \/ (exists a, e = ETryCas w a) ->
  step s e = Some s' -> exists r', nth_error (ws s') w = Some r' /\ pc r' = WPass.
Proof. exact late_waiter_passes. Qed.
Print Assumptions c16_late_waiter_passes.

(* ---- the TimedWaiter: two owners, destroyed exactly once, never touched afterwards (whichever of timeout / Set
   comes first; needs no rule of use) ---------------------------------------------------------------------- *)
Theorem c16_timed_waiter_freed_once :
  forall n tr s w r, run (init n) tr = Some s -> nth_error (ws s) w = Some r -> wk r = KTimed ->
  uaf s = false /\ frees r <= 1 /\ refs r <= 2 /\
  (reg r = true -> refs r = 2 - b2n (wdec r) - b2n (edec r) /\ frees r = b2n (wdec r && edec r)) /\
  (reg r = false -> frees r = match pc r with WDone => 1 | _ => 0 end).
Proof. intros n tr s w r H. exact (timed_lifetime s w r (inv_reach _ _ _ H)). Qed.
Print Assumptions c16_timed_waiter_freed_once.

(* ... and exactly once at the end: the waiter has returned (true or false) and SetImpl has finished *)
Theorem c16_timed_waiter_freed_at_the_end :
  forall n tr s w r, run (init n) tr = Some s -> follows_rule n tr = true ->
  fired s = true -> quiescent s = true -> nth_error (ws s) w = Some r ->
  wk r = KTimed -> pc r = WDone \/ pc r = WTmo -> frees r = 1.
Proof.
  intros n tr s w r H Hr Hf Hq Hn.
  destruct (quiescent_all_called s w r (inv_reach _ _ _ H) (rule_ok _ _ _ H Hr) Hf Hq Hn) as (_ & _ & _ & Ht).
  exact Ht.
Qed.
Print Assumptions c16_timed_waiter_freed_at_the_end.

(* ---- futures ------------------------------------------------------------------------------------------------- *)

(* consumed: the shared state is released at most once, and exactly once when both the consuming call and the
   producer have finished; [fw = WR] (the future is completed) iff the producer has exchanged *)
Theorem c16_consumed_released_once :
  forall n tr s j r, run (init n) tr = Some s -> nth_error (fs s) j = Some r ->
  frel r <= 1 /\
  (fk r = FConsume -> (ap r = AOk \/ ap r = ADone) -> pp r = PDone -> frel r = 1).
Proof.
  intros n tr s j r H Hn. destruct (future_facts s j r (inv_reach _ _ _ H) Hn) as (H1 & _ & H3 & _).
  split; [exact H1|exact H3].
Qed.
Print Assumptions c16_consumed_released_once.

(* attached: the WaitGroup never releases the state; every Ready() of the owner answered "completed" exactly
   (not Ready before the producer's exchange, Ready after it); a completed future holds a value and every value
   the owner read is the value stored by the producer *)
Theorem c16_attached_intact :
  forall n tr s, run (init n) tr = Some s ->
  (forall j r, nth_error (fs s) j = Some r -> fk r = FAttach ->
     frel r = 0 /\ (fw r = WR -> exists x, fval r = Some x /\ rd r = Some x)) /\
  Forall (fun x => snd (fst x) = snd x) (readys s) /\
  Forall (fun x => snd x = None \/
                   exists r, nth_error (fs s) (fst x) = Some r /\ fval r = snd x /\ fk r = FAttach /\ fw r = WR)
         (gots s).
Proof.
  intros n tr s H. pose proof (inv_reach _ _ _ H) as I. split.
  - intros j r Hn Hk. destruct (future_facts s j r I Hn) as (_ & H2 & _). exact (H2 Hk).
  - exact (observations_ok s I).
Qed.
Print Assumptions c16_attached_intact.

(* one Attach / Consume call for several futures: the whole batch is counted by ONE Add before the first callback is
   installed; right after it every future of the batch holds a unit of the count and none is registered yet, so
   (c16_release_after_zero: count = 0 only if no future holds a unit) no waiter can be released before every future of
   the call has completed or been given up by the call's final Done *)
Theorem c16_batch_counted_first :
  forall n tr s js v s', run (init n) tr = Some s -> broken s' = false -> step s (EFAddN js v) = Some s' ->
  (forall j, In j js -> exists r, nth_error (fs s') j = Some r /\ holds r = true /\ ap r = A1) /\
  cnt s' = cnt s + length js /\ length js <= cnt s'.
Proof. intros n tr s js v s' H. exact (batch_counted_before_registration s js v s' (inv_reach _ _ _ H)). Qed.
Print Assumptions c16_batch_counted_first.

(* ---- OneShotEvent alone: Set / Wait / TryAdd ------------------------------------------------------------------
   no counter events; Set called at most once (the rule); all of the above holds (the theorems are about the same
   machine), and "reached zero" reads "Set has been called" *)
Theorem c16_one_shot_event :
  forall tr s, run (init 0) tr = Some s -> ose_trace tr = true -> follows_rule 0 tr = true ->
  (forall w r, nth_error (ws s) w = Some r -> pc r = WDone -> In EUserSet tr) /\
  (forall w r, nth_error (ws s) w = Some r -> relc r <= 1 /\ (relc r = 1 <-> pc r = WDone)) /\
  crash s = false /\ uaf s = false.
Proof.
  intros tr s H Ho Hr. pose proof (inv_reach _ _ _ H) as I. split; [|split].
  - intros w r Hn Hp. destruct (released_fired s w r I Hn Hp) as [_ Hf].
    destruct (ose_fired tr _ _ H Ho Hf) as [Hx|Hx]; [discriminate Hx|exact Hx].
  - intros w r Hn. destruct (waiter_once s w r I Hn) as (H1 & _ & H3). split; [exact H1|exact H3].
  - pose proof (rule_ok _ _ _ H Hr) as Hb. destruct I as (G & _). unfold Gb in G. rewrite Hb in G.
    destruct (crash s), (uaf s); auto; rewrite ?andb_false_r in G; try discriminate G;
      simpl in G; rewrite ?andb_false_r in G; discriminate G.
Qed.
Print Assumptions c16_one_shot_event.

(* SetImpl never dereferences the all-done sentinel when the rule is respected *)
Theorem c16_no_crash :
  forall n tr s, run (init n) tr = Some s -> follows_rule n tr = true -> crash s = false.
Proof.
  intros n tr s H Hr. pose proof (rule_ok _ _ _ H Hr) as Hb. destruct (inv_reach _ _ _ H) as (G & _).
  unfold Gb in G. rewrite Hb in G. destruct (crash s); auto.
  rewrite ?andb_false_r in G; simpl in G; rewrite ?andb_false_r in G; discriminate G.
Qed.
Print Assumptions c16_no_crash.

(* ---- non-vacuity: these are traces of the real implementation (harness/h_c16.cpp, scenario and choices given) -- *)

(* wg/block_vs_done 0,0,1,0,0,0,0,0,0,0: the waiter registers between the final Done's fetch_sub and the exchange *)
Example c16_witness_block_registers_inside_set :
  exists s, run (init 1) [ENewW KBlock; ESub 1 0; ETryLd 0 HE; ETryCas 0 (HJ 0); EXchg (HJ 0); ECall 0; ERet 0] = Some s /\
            follows_rule 1 [ENewW KBlock; ESub 1 0; ETryLd 0 HE; ETryCas 0 (HJ 0); EXchg (HJ 0); ECall 0; ERet 0] = true /\
            rels s = [(0, 0, true)] /\ quiescent s = true.
Proof. eexists. vm_compute. repeat split. Qed.

(* wg/timed_vs_done/dl=10 0,0,0,0,1,0,0,0,0,0,0,0,1,0,0: timeout first, the event destroys the TimedWaiter *)
Example c16_witness_timeout_then_set :
  exists s r, run (init 2) [ENewW KTimed; ESub 1 1; ESub 1 0; ETryLd 0 HE; ETryCas 0 (HJ 0); EXchg (HJ 0);
                            ETWake 0 false; EDecW 0 2; ETmo 0; ECall 0; EDecE 0 1] = Some s /\
              nth_error (ws s) 0 = Some r /\ pc r = WTmo /\ frees r = 1 /\ refs r = 0 /\ rels s = [] /\ uaf s = false.
Proof. eexists. eexists. vm_compute. repeat split. Qed.

(* wg/timed_vs_done/dl=10 0,0,0,0,1,0,0,0,0,0,0,0,0,0,0,1,0,0: Set first, the waiter returns true before the event's
   DecRef, which then destroys the object *)
Example c16_witness_set_then_wake :
  exists s r, run (init 2) [ENewW KTimed; ESub 1 1; ESub 1 0; ETryLd 0 HE; ETryCas 0 (HJ 0); EXchg (HJ 0);
                            ECall 0; ETWake 0 true; EDecW 0 2; ERet 0; EDecE 0 1] = Some s /\
              nth_error (ws s) 0 = Some r /\ pc r = WDone /\ frees r = 1 /\ rels s = [(0, 0, true)] /\ uaf s = false.
Proof. eexists. eexists. vm_compute. repeat split. Qed.

(* wg/consume_vs_set 0,0,0,1,0,0,0,1,0,0,0,1,0,0: the future completes between SetCallback's load and CAS; the
   consuming thread releases the state and does the Done *)
Example c16_witness_consume_loses_race :
  exists s r, run (init 1) [ENewW KInline; ENewF FConsume; EFAdd 0 2; EFLd 0 WE; EFStore 0 100; EFXchg 0 WE;
                            EFCas 0 false; EFRelA 0; EFSubA 0 1; ESub 1 0; EReadyChk 0 HE; ETryLd 0 HE;
                            ETryCas 0 (HJ 0); EXchg (HJ 0); ECall 0] = Some s /\
              nth_error (fs s) 0 = Some r /\ frel r = 1 /\ rels s = [(0, 0, true)].
Proof. eexists. eexists. vm_compute. repeat split. Qed.

(* wg/attach_vs_set 0,0,0,0,1,0,0,1,0,1,0,0,0,1,0,0,0,0: attached future, Ready() after the producer's exchange *)
Example c16_witness_attach :
  exists s, run (init 1) [ENewW KInline; ENewF FAttach; EFAdd 0 2; EFLd 0 WE; EFCas 0 true; EFStore 0 100;
                          EFXchg 0 WC; EFReady 0 true; ESub 1 1; EFSubP 0 0; EReadyChk 0 HE; ETryLd 0 HE;
                          ETryCas 0 (HJ 0); EXchg (HJ 0); ECall 0; EFGet 0] = Some s /\
            readys s = [(0, true, true)] /\ gots s = [(0, Some 100)] /\ rels s = [(0, 0, true)].
Proof. eexists. vm_compute. repeat split. Qed.

(* wg/two_waiters 0,0,1,0,0,0,1,0,0,0,1,0: two pushers, one CAS fails and is retried; newest first *)
Example c16_witness_two_pushers :
  exists s, run (init 1) [ENewW KInline; ENewW KOn; ESub 1 0; EReadyChk 0 HE; ETryLd 0 HE; ETryLd 1 HE;
                          ETryCas 1 (HJ 1); ETryCas 0 (HJ 1); ETryCas 0 (HJ 0); EXchg (HJ 0); ECall 0; ECall 1;
                          ERun 1] = Some s /\ rels s = [(0, 0, true); (1, 0, true)].
Proof. eexists. vm_compute. repeat split. Qed.

(* ose/two_jobs 0,1,0,0,0,0,0,0 *)
Example c16_witness_one_shot_event :
  exists s, run (init 0) [ENewW KJob; ENewW KJob; EUserSet; ETryLd 0 HE; ETryCas 0 (HJ 0); ETryLd 1 (HJ 0);
                          ETryCas 1 (HJ 1); EXchg (HJ 1); ECall 1; ECall 0] = Some s /\
            ose_trace [ENewW KJob; ENewW KJob; EUserSet; ETryLd 0 HE; ETryCas 0 (HJ 0); ETryLd 1 (HJ 0);
                       ETryCas 1 (HJ 1); EXchg (HJ 1); ECall 1; ECall 0] = true /\
            rels s = [(1, 0, true); (0, 0, true)].
Proof. eexists. vm_compute. repeat split. Qed.

(* wg/on_vs_done 0,0,1,0,1,0,0: AwaitOn arriving during Set: TryAdd fails, its own Call submits *)
Example c16_witness_on_late :
  exists s, run (init 1) [ENewW KOn; ESub 1 0; ETryLd 0 HE; EXchg HE; ETryCas 0 HA; ESelfSubmit 0; ERun 0] = Some s /\
            rels s = [(0, 0, true)].
Proof. eexists. vm_compute. repeat split. Qed.

(* wg/batch_attach_seq (--pb 3): WaitGroup<0>, Attach(f0, f1) in one call, then Wait() on the same thread *)
Example c16_witness_batch_attach :
  exists s, run (init 0) [ENewW KBlock; ENewF FAttach; ENewF FAttach; EFAddN [0; 1] 2; EFLd 0 WE; EFCas 0 true;
                          EFLd 1 WE; EFCas 1 true; ETryLd 0 HE; ETryCas 0 (HJ 0); EFStore 0 100; EFXchg 0 WC;
                          EFSubP 0 1; EFStore 1 107; EFXchg 1 WC; EFSubP 1 0; EXchg (HJ 0); ECall 0; ERet 0;
                          EFGet 0; EFGet 1] = Some s /\
            rels s = [(0, 0, true)] /\ gots s = [(0, Some 100); (1, Some 107)] /\ broken s = false.
Proof. eexists. vm_compute. repeat split. Qed.

(* wg/batch3_consume_seq (--pb 2): all three futures already completed: three failed SetCallbacks, ONE Done(3) *)
Example c16_witness_batch_consume_all_ready :
  exists s, run (init 0) [ENewW KBlock; ENewF FConsume; ENewF FConsume; ENewF FConsume; EFStore 2 114; EFXchg 2 WE;
                          EFStore 1 107; EFXchg 1 WE; EFStore 0 100; EFXchg 0 WE; EFAddN [0; 1; 2] 3; EFLd 0 WR;
                          EFRelA 0; EFLd 1 WR; EFRelA 1; EFLd 2 WR; EFRelA 2; EFSubN [0; 1; 2] 0; EXchg HE;
                          ETryLd 0 HA; ERet 0] = Some s /\
            rels s = [(0, 0, true)] /\ broken s = false /\ crash s = false.
Proof. eexists. vm_compute. repeat split. Qed.

(* counting each future of the call just before its own registration instead (seed 3) is NOT this machine's batch:
   with WaitGroup<0> the first future's completion brings the count to zero between the two Adds, the second Add then
   breaks the rule, a waiter gets through while future 1 is pending and the second zero crashes SetImpl *)
Example c16_per_future_add_is_not_a_batch :
  exists tr s, run (init 0) tr = Some s /\ follows_rule 0 tr = false /\ rels s = [(0, 1, true)] /\ crash s = true.
Proof.
  exists [ENewW KBlock; ENewF FAttach; ENewF FAttach; EFAdd 0 1; EFLd 0 WE; EFCas 0 true; EFStore 0 100; EFXchg 0 WC;
          EFSubP 0 0; EXchg HE; EFAdd 1 1; EFLd 1 WE; EFCas 1 true; ETryLd 0 HA; ERet 0; EFStore 1 107; EFXchg 1 WC;
          EFSubP 1 0; EXchg HA].
  eexists. vm_compute. repeat split.
Qed.

(* the rule is needed: an Add after the count has been brought to zero lets a waiter through at count 1, and a
   second zero makes SetImpl dereference the sentinel *)
Example c16_rule_is_needed :
  exists tr s, run (init 1) tr = Some s /\ follows_rule 1 tr = false /\
               rels s = [(0, 1, true)] /\ crash s = true.
Proof.
  exists [ENewW KBlock; ESub 1 0; EAdd 1 1; EXchg HE; ETryLd 0 HA; ERet 0; ESub 1 0; EXchg HA].
  eexists. vm_compute. repeat split.
Qed.

(* the readiness rule is the one of the current source (word == Result): the answer "true" while only the group's
   callback is in the word (what the tree before the fix a483768 showed) is not a behaviour of the model *)
Example c16_old_ready_is_rejected :
  run (init 1) [ENewF FAttach; EFAdd 0 2; EFLd 0 WE; EFCas 0 true; EFReady 0 true] = None /\
  exists s, run (init 1) [ENewF FAttach; EFAdd 0 2; EFLd 0 WE; EFCas 0 true; EFReady 0 false] = Some s.
Proof. split; [vm_compute; reflexivity|eexists; vm_compute; reflexivity]. Qed.
