(* C14 — coroutine Mutex<Batching, FIFO>: mutual exclusion and no lost wake-up.
   Statements only; proofs are in proofs/CoMutexProofs.v.  [tr] ranges over every sequence of atomic operations on the
   sender word, executor events and markers of all parties, i.e. every schedule; [f] (FIFO) and [b] (Batching) over
   the four option combinations; [hs] (one home executor per coroutine) over any number of coroutines, each doing any
   number of rounds in any mix of the lock / unlock forms (the forms are events, not a fixed program); [ws] (the
   executor every worker serves) over any number of executors and workers. *)
From Coq Require Import List Arith Bool.
Import ListNotations.
From YV Require Import model.CoMutex proofs.CoMutexProofs.

(* At most one coroutine is between grant and release, counting a hand-over in flight (M1, M2):
   - the lock token (owning coroutines + release procedures that have not given the lock up) is at most one, and it
     exists exactly while the sender word is not kNotLocked;
   - at most one coroutine is inside its critical section;
   - a non-empty receiver list belongs to a token holder;
   - two different coroutines never both own / release. *)
Theorem c14_mutex :
  forall f b ws hs tr s, run (init f b ws hs) tr = Some s ->
  tokens s <= 1 /\ (tokens s = 0 <-> sender s = NotLocked) /\ sumf inside (cos s) <= 1 /\
  (receiver s <> [] -> tokens s = 1) /\
  (forall c c' x x', get s c = Some x -> get s c' = Some x' -> c <> c' -> tok x + tok x' <= 1).
Proof. exact thm_mutex. Qed.
Print Assumptions c14_mutex.

(* TryLock / TryGuard (and the two locking CASes of Lock / Guard / GuardSticky) succeed only when the mutex is free:
   nobody owns it, nobody is inside, no hand-over is in flight; afterwards exactly the caller owns it. *)
Theorem c14_try_only_free :
  forall f b ws hs tr s, run (init f b ws hs) tr = Some s ->
  forall e s', step s e = Some s' -> match e with ETCas _ true | ELCasN _ => True | _ => False end ->
  sender s = NotLocked /\ tokens s = 0 /\ sumf inside (cos s) = 0 /\ tokens s' = 1.
Proof. intros f b ws hs tr s H e s'. exact (acquire_only_free s e s' (inv_reach f b ws hs tr s H)). Qed.
Print Assumptions c14_try_only_free.

(* Each request is granted at most once and only if it was made; at most one hand-over is in flight; no coroutine is
   queued twice (so none is resumed twice: a hand-over resumes the head of the receiver list, which is suspended —
   see c14_no_lost_wakeup). *)
Theorem c14_granted_once :
  forall f b ws hs tr s, run (init f b ws hs) tr = Some s ->
  NoDup (grants s) /\
  (forall c r, In (c, r) (grants s) -> exists x, get s c = Some x /\ r <= nreq x) /\
  length (inflight s) <= 1 /\
  NoDup (waiters (sender s) ++ receiver s).
Proof.
  intros f b ws hs tr s H. exact (granted_once s (inv_reach f b ws hs tr s H) (invg_reach f b ws hs tr s H)).
Qed.
Print Assumptions c14_granted_once.

(* No lost wake-up (M3, M4):
   - every parked coroutine is in exactly one place of the sender list / receiver list, and is on no worker and in
     no executor queue;
   - a coroutine running on a worker, and a release procedure (which holds the token), always have their next step
     enabled: no null dereference in GetHead, the coroutine handed the lock is suspended, the assertion of
     TryUnlockAwait holds;
   - hence quiescent (all workers idle, all queues empty) => the mutex is free, the lists are empty and every coroutine
     has finished: every request was granted. *)
Theorem c14_no_lost_wakeup :
  forall f b ws hs tr s, run (init f b ws hs) tr = Some s ->
  (NoDup (waiters (sender s) ++ receiver s) /\
   forall c x, get s c = Some x -> (pc x = PParked <-> In c (waiters (sender s) ++ receiver s))) /\
  (forall c x, get s c = Some x -> pc x = PParked -> loc x = LNone) /\
  (forall c x e, get s c = Some x -> co_ev s c x = Some e -> step s e <> None) /\
  (forall c x e, get s c = Some x -> rel_ev s c x = Some e -> step s e <> None) /\
  (quiescent s = true ->
   sender s = NotLocked /\ receiver s = [] /\ tokens s = 0 /\ forall c x, get s c = Some x -> pc x = PDone).
Proof. exact thm_no_lost_wakeup. Qed.
Print Assumptions c14_no_lost_wakeup.

(* Nobody is dropped or overtaken inside the lists (what makes "quiescent => all granted" a statement about every
   waiter, and what bounds the wait): one step leaves the sender list and the receiver list alone, or pushes ONE new
   waiter on the sender list, or hands the lock to the HEAD of the receiver list, or - only when the receiver list is
   empty and the sender list is not - moves the whole sender list to the receiver list (reversed when FIFO). *)
Theorem c14_no_bypass :
  forall f b ws hs tr s, run (init f b ws hs) tr = Some s -> forall e s', step s e = Some s' ->
  (receiver s' = receiver s /\
   (waiters (sender s') = waiters (sender s) \/ exists c, waiters (sender s') = c :: waiters (sender s))) \/
  (exists n, receiver s = n :: receiver s' /\ waiters (sender s') = waiters (sender s)) \/
  (receiver s = [] /\ waiters (sender s) <> [] /\ waiters (sender s') = [] /\
   receiver s' = if fifo s then rev (waiters (sender s)) else waiters (sender s)).
Proof. exact thm_no_bypass. Qed.
Print Assumptions c14_no_bypass.

(* FIFO = true: the critical sections of coroutines that queued are entered in the order of their pushing CASes
   (arrival); the ones still waiting will be served in that order too (M5). *)
Theorem c14_fifo :
  forall b ws hs tr s, run (init true b ws hs) tr = Some s ->
  pushed s = entered_q s ++ inflight s ++ receiver s ++ rev (waiters (sender s)).
Proof. exact thm_fifo. Qed.
Print Assumptions c14_fifo.

(* With ONE worker: waiting occupies no worker, and unless everything has finished some step is enabled (as long as
   the coroutines are only ever sent to that worker's executor); when nothing is enabled any more every coroutine has
   finished. *)
Theorem c14_single_worker :
  forall f b e hs tr s, run (init f b [e] hs) tr = Some s ->
  wexe s = [e] /\
  (forall c x, get s c = Some x -> pc x = PParked -> loc x = LNone /\ forall w, on_worker w x = true -> rel x <> None) /\
  (quiescent s = false -> (forall c x, get s c = Some x -> loc x = LQueued -> exe x = e) ->
   exists ev s', step s ev = Some s') /\
  (quiescent s = true -> forall c x, get s c = Some x -> pc x = PDone).
Proof. exact thm_single_worker. Qed.
Print Assumptions c14_single_worker.

(* ---- non-vacuity: traces of the real implementation (harness/h_c14.cpp), replayed by computation ---------------- *)

(* Mutex<true,true> on one worker: 0 holds and hops, 1 (GuardSticky) and 2 queue; 0 hands to 1 by Submit, 1 unlocks
   through AwaitUnlockOn and hands to 2; everything finishes; the queued coroutines entered in arrival order *)
Example c14_witness_single_worker_fifo :
  exists s, run (init true true [0] [0; 0; 0])
    [EStart 0 0; EReq 0 false; ETLoad 0 PN; ETCas 0 true; EEnter 0; EHop 0 0; EStart 0 1; EReq 1 true; ETLoad 1 PL;
     ELLoad 1 PL; EPush 1; EStart 0 0; ELeave 0 UAwait; ERAssert 0 (PW 1); ERCheck 0 true; ERLoad 0 (PW 1);
     ERXchg 0 (PW 1); ERSubmitNext 0 1 0; EFinish 0; EStart 0 2; EReq 2 false; ETLoad 2 PL; ELLoad 2 PL; EPush 2;
     EStart 0 1; EEnter 1; ELeave 1 USticky; ERSelf 1 0; ERAssert 1 (PW 2); ERCheck 1 true; ERLoad 1 (PW 2);
     ERXchg 1 (PW 2); ERSubmitNext 1 2 0; EStart 0 1; EFinish 1; EStart 0 2; EEnter 2; ELeave 2 UAwait;
     ERAssert 2 PL; ERCheck 2 true; ERLoad 2 PL; ERCas 2 true; EFinish 2] = Some s /\
  quiescent s = true /\ sender s = NotLocked /\ pushed s = [1; 2] /\ entered_q s = [1; 2] /\
  map fst (entered s) = [0; 1; 2].
Proof. eexists. vm_compute. repeat split. Qed.

(* Mutex<true,true> on two workers: batched hand-over (AwaitUnlock: executor swap, Submit(curr), symmetric transfer) *)
Example c14_witness_batching_transfer :
  exists s, run (init true true [0; 0] [0; 0; 0])
    [EStart 0 1; EReq 1 true; ETLoad 1 PN; ETCas 1 true; EEnter 1; EStart 1 0; EReq 0 false; ELeave 1 USticky;
     ETLoad 0 PL; ERAssert 1 PL; ELLoad 0 PL; EPush 0; EStart 1 2; EReq 2 false; ETLoad 2 (PW 0); ELLoad 2 (PW 0);
     ERCheck 1 true; ERLoad 1 (PW 0); EPush 2; ERXchg 1 (PW 2); ERSubmitNext 1 0 0; EFinish 1; EStart 0 0; EEnter 0;
     EHop 0 0; EStart 0 0; ELeave 0 UAwait; ERAssert 0 PL; ERCheck 0 false; ERBatchSubmit 0 0; ERTransfer 0 2;
     EEnter 2; EStart 1 0; EFinish 0; ELeave 2 UAwait; ERAssert 2 PL; ERCheck 2 true; ERLoad 2 PL; ERCas 2 true;
     EFinish 2] = Some s /\
  quiescent s = true /\ pushed s = [0; 2] /\ entered_q s = [0; 2].
Proof. eexists. vm_compute. repeat split. Qed.

(* Mutex<true,false>: a bystander's TryLock is refused while the lock is held; LIFO batches: arrival 1, 2 but the
   grants go 2, 1 (so the FIFO theorem is not vacuous: it fails for FIFO = false); batched transfer in AwaitUnlockOn *)
Example c14_witness_lifo_try_refused :
  exists s, run (init false true [0; 0; 9] [0; 0; 0; 9])
    [EStart 2 3; ETryBegin 3; EStart 0 0; EReq 0 false; ETLoad 0 PN; ETCas 0 true; EEnter 0; EHop 0 0; EStart 0 2;
     EReq 2 false; ETLoad 2 PL; ETLoad 3 PL; EFinish 3; EStart 1 1; EReq 1 true; ETLoad 1 PL; ELLoad 1 PL; EPush 1;
     EStart 1 0; ELeave 0 (UOn 0); ERSelf 0 0; ERAssert 0 (PW 1); ELLoad 2 (PW 1); EPush 2; EStart 0 0; EFinish 0;
     ERCheck 0 true; ERLoad 0 (PW 2); ERXchg 0 (PW 2); ERSubmitNext 0 2 0; EStart 1 2; EEnter 2; ELeave 2 (UOn 0);
     ERSelf 2 0; ERAssert 2 PL; ERCheck 2 false; ERTransfer 2 1; EEnter 1; EStart 0 2; EFinish 2; ELeave 1 (UOn 0);
     ERSelf 1 0; ERAssert 1 PL; ERCheck 1 true; ERLoad 1 PL; EStart 0 1; EFinish 1; ERCas 1 true] = Some s /\
  quiescent s = true /\ tries s = [(3, false)] /\ pushed s = [1; 2] /\ entered_q s = [2; 1].
Proof. eexists. vm_compute. repeat split. Qed.

(* the model refuses a second owner: after 0 acquired, a strong CAS "success" by 1 is not a step *)
Example c14_witness_second_owner_rejected :
  run (init false true [0; 0] [0; 0])
    [EStart 0 0; EReq 0 false; ETLoad 0 PN; EStart 1 1; EReq 1 false; ETLoad 1 PN; ETCas 0 true; ETCas 1 true] = None.
Proof. vm_compute. reflexivity. Qed.
