(* C03 — everything the library owns is released exactly once, on every path.
   Statements only.  Three layers:
   (1) a pipeline of any length (model/Own.v): cores, functors, the teardown order of Core::Done, for every
       interleaving of the thread that builds/attaches steps with the threads that fire them, whether callbacks
       run, are skipped, throw, or the step is dropped by a rejecting executor;
   (2) the shared state of one Future/Promise pair for every consumer kind incl. dropping either side
       (model/Handoff.v, the C01 development);
   (3) reference-counted objects with any number of owners under release/acquire semantics (model/RACounter.v,
       the C04 development). *)
From Coq Require Import List Arith Bool.
Import ListNotations.
From YV Require Import model.Own proofs.OwnProofs.
From YV Require model.Handoff proofs.HandoffProofs lib.RA model.RACounter proofs.RACounterProofs.

(* (1a) nothing is touched after its release: no step reads a released caller, no functor is invoked or
        destroyed after its destruction, nothing is released twice *)
Theorem c03_pipeline_no_use_after_release :
  forall sf tr s, run (init sf) tr = Some s -> errs s = 0.
Proof. intros sf tr s H. exact (no_errors s (reach_inv sf tr s H)). Qed.
Print Assumptions c03_pipeline_no_use_after_release.

(* (1b) a core is released only after it was published (its result stored, its caller released and its functor
        destroyed — the order of Core::Done), and published only after it was built *)
Theorem c03_pipeline_release_order :
  forall sf tr s, run (init sf) tr = Some s -> freed s <= done s /\ done s <= built s.
Proof. intros sf tr s H. exact (freed_after_published s (reach_inv sf tr s H)). Qed.
Print Assumptions c03_pipeline_release_order.

(* (1c) once the pipeline is quiescent nothing remains: every core released, every functor destroyed exactly
        once (cores and functor destructions are counted; errors — double releases — are excluded by 1a) *)
Theorem c03_pipeline_quiescent_clean :
  forall sf tr s, run (init sf) tr = Some s -> terminal s = true ->
  freed s = built s /\ done s = built s /\ fn_dtors s + b2n (negb (src_fn s)) = built s /\ 1 <= built s.
Proof. intros sf tr s H. exact (terminal_clean s (reach_inv sf tr s H)). Qed.
Print Assumptions c03_pipeline_quiescent_clean.

(* (1d) no functor is invoked twice *)
Theorem c03_pipeline_functor_invoked_at_most_once :
  forall sf tr s, run (init sf) tr = Some s -> NoDup (calls s).
Proof. intros sf tr s H. exact (invoked_at_most_once s (reach_inv sf tr s H)). Qed.
Print Assumptions c03_pipeline_functor_invoked_at_most_once.

(* (2) the shared state of a Future/Promise pair: released at most once in every schedule, exactly once when
       both sides are done, whatever the consumer did (continuation, Get, Connect, dropped future) and whether
       the promise was fulfilled or dropped; and nothing read from it after the release (a read after release
       would deliver [None], which c01_delivered excludes) *)
Theorem c03_contract_state_released_once :
  forall k tr s, Handoff.run (Handoff.init k) tr = Some s ->
  Handoff.frees s <= 1 /\
  (Handoff.terminal s = true -> Handoff.frees s = 1 /\ Handoff.alive s = false) /\
  (forall v, In v (Handoff.cbs s ++ Handoff.gots s) -> exists r, v = Some r).
Proof.
  intros k tr s H. pose proof (HandoffProofs.inv_reach k tr s H) as I. split; [|split].
  - destruct (HandoffProofs.at_most_once s I) as (_ & A & _). exact A.
  - intros Ht. destruct (HandoffProofs.terminal_exact s I Ht) as (r & _ & A & B & _). auto.
  - intros v Hv. destruct (HandoffProofs.delivered_is_set s I v Hv) as (r & A & _). eauto.
Qed.
Print Assumptions c03_contract_state_released_once.

(* (3) reference counted objects (shared states, executors, combinators, coroutine frames): for any number of
       owners and every release/acquire execution, the object is destroyed at most once and the destruction
       happens after every owner's accesses; orders as in the source are checked in Properties_C04.v *)
Theorem c03_refcounted_destroyed_once_after_all_accesses :
  forall od ofe, RACounter.side_ok od ofe = true ->
  forall n tr s, 0 < n -> RACounter.run od ofe (RACounter.init n) tr = Some s ->
  RACounter.deleted s <= 1 /\ RACounter.race s = false.
Proof.
  intros od ofe Hs n tr s Hn H. split.
  - exact (RACounterProofs.destroyed_at_most_once od ofe Hs n tr s Hn H).
  - exact (RACounterProofs.race_free od ofe Hs n tr s Hn H).
Qed.
Print Assumptions c03_refcounted_destroyed_once_after_all_accesses.

(* Non-vacuity: complete runs of the real implementation (traces from harness/h_c03.cpp) *)
Example c03_witness_two_steps_get :
  exists s, run (init false)
    [ENew; ENew; EAttach true; ENew; EAttach true; EClose; EPublish 0; ECall 1; EFreeCaller 1; EFnDtor 1; EPublish 1;
     ECall 2; EFreeCaller 2; EFnDtor 2; EPublish 2; EFinalFree] = Some s /\
    terminal s = true /\ freed s = 3 /\ fn_dtors s = 2 /\ calls s = [1; 2] /\ errs s = 0.
Proof. eexists. vm_compute. repeat split. Qed.
Example c03_witness_skipped_callback_inline_attach :
  exists s, run (init false)
    [ENew; EPublish 0; ENew; EAttach false; EFreeCaller 1; EFnDtor 1; EPublish 1; EClose; EFinalFree] = Some s /\
    terminal s = true /\ freed s = 2 /\ fn_dtors s = 1 /\ calls s = [] /\ errs s = 0.
Proof. eexists. vm_compute. repeat split. Qed.
