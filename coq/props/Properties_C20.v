(* C20 — allocations: one per pipeline step, constant per combinator, none to wait.
   Statements only; proofs are in proofs/AllocProofs.v; the model (model/Alloc.v) says where the code calls the global
   operator new and is tied to the real library by exact program correspondence (checks/c20.py).
   COUNTED: calls of the global allocation functions.  A std::vector buffer is one block whatever its length. *)
From Coq Require Import List Arith Bool.
Import ListNotations.
From YV Require Import model.Alloc proofs.AllocProofs.

(* At most one block per pipeline step, for every program: any source, any number of steps, any callback signature
   (what it accepts, what it returns), any executor, any nesting of pipelines returned by callbacks (unwrapping) or
   awaited by coroutine sources.  [steps] counts the steps that are executed: the source, every attached step, and the
   steps of every inner pipeline that is actually built; conversions (ToFuture, On(nullptr)) are not steps and request nothing. *)
Theorem c20_pipeline : forall p, allocs_pipeline p <= steps p.
Proof. exact pipeline_allocs_le_steps. Qed.
Print Assumptions c20_pipeline.

(* the same against the steps written in the program (executed or not) *)
Theorem c20_pipeline_written : forall p, allocs_pipeline p <= steps_syn p.
Proof. exact pipeline_allocs_le_written_steps. Qed.
Print Assumptions c20_pipeline_written.

(* exactly one block per executed step that carries a functor, a result or a frame (all but the callback-less Detach()) *)
Theorem c20_pipeline_exact : forall p, allocs_pipeline p = length (filter allocating (sites (run p))).
Proof. exact pipeline_allocs_exact. Qed.
Print Assumptions c20_pipeline_exact.

(* "regardless of callback signature, executor or unwrapping": attaching a step costs exactly one block more, plus the
   returned pipeline's own steps when the callback runs and returns one *)
Theorem c20_then_costs_one :
  forall q a par v sh b,
  allocs_pipeline (PThen q a (Fn par v sh b)) =
  allocs_pipeline q + 1 +
  match b with
  | BAsync inner =>
      let s_in := match a with
                  | AInline => st (run q)
                  | AOn e => if stopped e then RErr else st (run q)
                  | AInherit => if stopped (cur_exec None q) then RErr else st (run q)
                  end in
      if invoked par s_in then allocs_pipeline inner else 0
  | _ => 0
  end.
Proof. exact then_costs_one. Qed.
Print Assumptions c20_then_costs_one.

Theorem c20_detach_costs_one :
  forall q a par v sh b, (forall inner, b <> BAsync inner) ->
  allocs_pipeline (PDetach q a (Fn par v sh b)) = allocs_pipeline q + 1.
Proof. exact detach_costs_one. Qed.
Print Assumptions c20_detach_costs_one.

Theorem c20_source_costs_one :
  (forall w v r, allocs_pipeline (PReady w v r) = 1) /\
  (forall w v e late r, allocs_pipeline (PContract w v e late r) = 1) /\
  (forall w v e late r th, allocs_pipeline (PProm w v e late r th) = 1) /\
  (forall w e par v sh b, (forall inner, b <> BAsync inner) -> allocs_pipeline (PRun w e (Fn par v sh b)) = 1).
Proof. exact source_costs_one. Qed.
Print Assumptions c20_source_costs_one.

Theorem c20_conversions_free :
  forall q, allocs_pipeline (PToFuture q) = allocs_pipeline q /\
            allocs_pipeline (POnNull q) = allocs_pipeline q /\
            allocs_pipeline (PDetach0 q) = allocs_pipeline q /\
            (forall e, allocs_pipeline (PStartOn q e) = blocks (sites (eval (Some e) q))).
Proof.
  intro q. destruct (conversions_cost_nothing q) as (A & B & C).
  repeat split; try assumption. intro e. apply starton_costs_nothing.
Qed.
Print Assumptions c20_conversions_free.

(* WhenAll / WhenAny / Join: for every policy, form, kind of inputs, value types, outcome and timing, the blocks requested
   (inside the call, and until the result is delivered) are bounded by K kind form inputs, which does not mention n:
   K = 4 for WhenAll (contract, combinator, the strategy's vector of cores, the result vector), 2 for WhenAny and Join,
   plus 1 for the iterator form over shared futures (a vector of callbacks). *)
Theorem c20_combinator :
  forall k pol f ik vs oc t n,
  fst (when_allocs k pol f ik vs oc t n) <= snd (when_allocs k pol f ik vs oc t n) /\
  snd (when_allocs k pol f ik vs oc t n) <= K k f ik.
Proof. exact combinator_bounded. Qed.
Print Assumptions c20_combinator.

(* on plain futures (the property's scope) the constants are 4, 2, 2 *)
Theorem c20_combinator_plain :
  forall k pol f vs oc t n,
  snd (when_allocs k pol f IUnique vs oc t n) <= match k with CAll => 4 | _ => 2 end.
Proof.
  intros. pose proof (proj2 (combinator_bounded k pol f IUnique vs oc t n)) as H.
  unfold K in H. destruct k, f; exact H.
Qed.
Print Assumptions c20_combinator_plain.

Theorem c20_combinator_tight :
  forall f ik n, 2 <= n ->
  snd (when_allocs CAll FFirst f ik VsInt OAllOk TLate n) = K CAll f ik /\
  snd (when_allocs CAny FLast f ik VsInt OAllOk TLate n) = K CAny f ik /\
  snd (when_allocs CJoin FNone f ik VsInt OAllOk TLate n) = K CJoin f ik.
Proof. exact combinator_bound_tight. Qed.
Print Assumptions c20_combinator_tight.

Theorem c20_combinator_constant_in_n :
  forall k pol f ik vs oc t n m, 2 <= n -> 2 <= m ->
  when_allocs k pol f ik vs oc t n = when_allocs k pol f ik vs oc t m.
Proof. exact combinator_constant_in_n. Qed.
Print Assumptions c20_combinator_constant_in_n.

(* Wait / WaitFor / WaitUntil over any number of futures, in both forms *)
Theorem c20_wait_zero : forall w f n, wait_allocs w f IUnique n = 0.
Proof. exact wait_plain_zero. Qed.
Print Assumptions c20_wait_zero.

Theorem c20_get_zero : forall w ready, get_allocs w ready = 0.
Proof. exact get_zero. Qed.
Print Assumptions c20_get_zero.

Theorem c20_strand_submit_zero : forall n, strand_allocs true n = 0.
Proof. exact strand_submit_zero. Qed.
Print Assumptions c20_strand_submit_zero.

(* co_await of futures (single, operator co_await, variadic Await, iterator Await) requests nothing; the coroutine call
   as a whole requests its frame *)
Theorem c20_co_await_zero : forall a n, await_allocs a IUnique n = 0 /\ coro_call_allocs a IUnique n = 1.
Proof. intros. split; [apply await_plain_zero | apply coro_call_plain_one]. Qed.
Print Assumptions c20_co_await_zero.

(* outside the property's scope ("plain futures"), recorded because the implementation does it: the iterator forms of
   Wait and Await over SHARED futures build one std::vector of helper callbacks *)
Theorem c20_shared_iterator_forms_allocate :
  (forall w n, 2 <= n -> wait_allocs w FIter IShared n = 1) /\ (forall n, await_allocs AwIter IShared n = 1).
Proof. split; [exact wait_shared_iter_one | exact await_shared_iter_one]. Qed.
Print Assumptions c20_shared_iterator_forms_allocate.

(* Non-vacuity: programs taken from the runs on the real library, with the counts it showed. *)
Example c20_witness_chain :
  allocs_pipeline (PThen (PThen (PReady WF VInt RVal) AInline (Fn PValue VInt ShPlain BRet)) (AOn XManual) (Fn PResult VInt ShResult BResErr)) = 3 /\
  steps (PThen (PThen (PReady WF VInt RVal) AInline (Fn PValue VInt ShPlain BRet)) (AOn XManual) (Fn PResult VInt ShResult BResErr)) = 3.
Proof. vm_compute. split; reflexivity. Qed.
Example c20_witness_unwrapping :
  (* Run(m, f).Then(g) with g returning a two-step pipeline, then a step on a stopped executor, then DetachInline *)
  let inner := PThen (PContract WF VInt XInline true RVal) AInline (Fn PValue VInt ShPlain BRet) in
  let p := PDetach (PThen (PThen (PRun WO XManual (Fn PNone VInt ShPlain BRet)) AInherit (Fn PValue VInt (ShAsync WF) (BAsync inner)))
                          (AOn XInline) (Fn PResult VInt ShResult BResErr)) AInline (Fn PResult VVoid ShPlain BRet) in
  allocs_pipeline p = 6 /\ steps p = 6 /\ calls (run p) = 5.
Proof. vm_compute. repeat split. Qed.
Example c20_witness_skipped_callback_builds_nothing :
  let inner := PReady WF VInt RVal in
  allocs_pipeline (PThen (PReady WF VInt RErr) AInline (Fn PValue VInt (ShAsync WF) (BAsync inner))) = 2 /\
  steps_syn (PThen (PReady WF VInt RErr) AInline (Fn PValue VInt (ShAsync WF) (BAsync inner))) = 3.
Proof. vm_compute. split; reflexivity. Qed.
Example c20_witness_when_all : when_allocs CAll FFirst FIter IUnique VsInt OAllOk TLate 8 = (3, 4) /\
                               when_allocs CAll FFirst FIter IUnique VsInt OAllOk TLate 64 = (3, 4) /\
                               when_allocs CAll FFirst FIter IShared VsInt OAllOk TLate 8 = (4, 5) /\
                               when_allocs CAny FLast FIter IUnique VsInt OAllOk TLate 1 = (0, 0) /\
                               when_allocs CAny FLast FVariadic IUnique VsInt OAllOk TLate 1 = (2, 2).
Proof. vm_compute. repeat split. Qed.

(* Payloads that own heap memory (a copy of the value or of the error is one more block for the step that makes it):
   on plain futures and tasks neither is ever copied — not by a step that is skipped and merely hands a failure on, not
   when a recovery callback receives the failure (by move since d85ca6f), not by unwrapping, a lazy chain or a rejected
   submission. *)
Theorem c20_payload_not_copied : forall p, value_copies p = 0 /\ error_copies p = 0.
Proof. exact payload_never_copied. Qed.
Print Assumptions c20_payload_not_copied.

Example c20_witness_error_through_steps :
  error_copies (PThen (PThen (PReady WF VHeavy RErr) AInline (Fn PValue VHeavy ShPlain BRet)) AInline (Fn PError VHeavy ShPlain BRet)) = 0 /\
  calls (run (PThen (PThen (PReady WF VHeavy RErr) AInline (Fn PValue VHeavy ShPlain BRet)) AInline (Fn PError VHeavy ShPlain BRet))) = 1.
Proof. vm_compute. split; reflexivity. Qed.
