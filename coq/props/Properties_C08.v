(* C08 -- FairThreadPool: accepted jobs all run, rejected ones drop, Wait means done.
   Statements only; proofs are in proofs/PoolProofs.v.
   [n] = number of worker threads (any), [k] = which stop function the stopper calls (Stop | SoftStop | HardStop),
   [tr] ranges over every sequence of critical sections / condvar operations / Calls / Drops of any number of
   submitters, the n workers and the stopper, spurious wake-ups included: every schedule.
   History variables of the model: accepted / rejected (outcome of each Submit, in order), takes (jobs in the order
   they were popped), calls (in the order Call began), hdrops / rdrops (Drops by HardStop / by a rejecting Submit),
   acc_at_stop (the accepted list at the stop step), stolen_all (the queue at the HardStop step),
   stop_sets (for every step that set the stopped bit: the counter reading and the number of jobs queued or held). *)
From Coq Require Import List Arith Bool Permutation.
Import ListNotations.
From YV Require Import gen.Gen_pool_consts lib.PoolBits model.Pool proofs.PoolProofs.

Notation cnt_of := (count_occ Nat.eq_dec).

(* The encoding lemma: the word _jobs_count, updated with the literal operations of the source (+= 4, -= 4, |= 1,
   |= 2), always equals 4*cnt + 2*want + stopped, the three tests of the source (& 1, & 2, >> 2) read exactly those
   fields, and the unsigned decrement never wraps. *)
Theorem c08_encoding :
  forall n k tr s, run (init n k) tr = Some s ->
  jc s = 4 * cnt s + 2 * b2n (want s) + b2n (stopped s) /\
  was_stop s = stopped s /\ want_stop s = want s /\ no_jobs s = (cnt s =? 0) /\ bad s = false.
Proof. exact r_encoding. Qed.
Print Assumptions c08_encoding.

(* A Submit is rejected exactly when the pool is already stopped (and then the job goes to Drop), accepted otherwise. *)
Theorem c08_accept_iff_not_stopped :
  forall n k tr s j s', run (init n k) tr = Some s -> step s (ESubmit j) = Some s' ->
  (stopped s = true /\ rejected s' = rejected s ++ [j] /\ accepted s' = accepted s) \/
  (stopped s = false /\ accepted s' = accepted s ++ [j] /\ rejected s' = rejected s).
Proof. intros n k tr s j s' H. exact (submit_outcome s j s' (inv_reach n k tr s H)). Qed.
Print Assumptions c08_accept_iff_not_stopped.

(* Call xor Drop, exactly once.
   In every reachable state: no job has been Called twice, Dropped twice, or both; only accepted jobs are Called;
   Submit drops only jobs it rejected; only HardStop drops accepted jobs.
   When nothing is in flight (quiescent; HardStop's drop loop not in the middle) and the pool has a worker:
   every submitted job has been Called exactly once or Dropped exactly once -- rejected ones Dropped, and (unless the
   stop was a HardStop) accepted ones Called. *)
Theorem c08_call_xor_drop :
  forall n k tr s, run (init n k) tr = Some s ->
  ((forall j, cnt_of (calls s) j + cnt_of (drops s) j <= 1) /\
   (forall j, In j (calls s) -> In j (accepted s) /\ ~ In j (rejected s)) /\
   (forall j, In j (rdrops s) -> In j (rejected s) /\ ~ In j (accepted s)) /\
   (forall j, In j (hdrops s) -> In j (accepted s) /\ kind s = KHard)) /\
  (quiescent s -> stolen s = [] -> n > 0 ->
   forall j, In j (accepted s ++ rejected s) ->
     cnt_of (calls s) j + cnt_of (drops s) j = 1 /\
     (In j (rejected s) -> cnt_of (calls s) j = 0) /\
     (In j (accepted s) -> kind s <> KHard -> cnt_of (calls s) j = 1)).
Proof. exact r_call_xor_drop. Qed.
Print Assumptions c08_call_xor_drop.

(* Stop (and SoftStop) still run everything accepted before the stop step: the jobs accepted before it are among the
   accepted ones, after Stop nothing more is accepted, and at quiescence every accepted job has been Called exactly
   once and never Dropped. *)
Theorem c08_stop_runs_accepted :
  forall n k tr s, run (init n k) tr = Some s -> kind s <> KHard -> tpc s <> TIdle ->
  incl (acc_at_stop s) (accepted s) /\
  (kind s = KStop -> accepted s = acc_at_stop s) /\
  (quiescent s -> n > 0 -> forall j, In j (accepted s) -> cnt_of (calls s) j = 1 /\ cnt_of (drops s) j = 0).
Proof. exact r_stop_runs_accepted. Qed.
Print Assumptions c08_stop_runs_accepted.

(* HardStop: the jobs that were in the queue at the stop step are never Called, are Dropped at most once, and once
   the drop loop is over each has been Dropped exactly once. *)
Theorem c08_hardstop_drops_queued :
  forall n k tr s, run (init n k) tr = Some s -> kind s = KHard -> tpc s <> TIdle ->
  stolen_all s = hdrops s ++ stolen s /\
  incl (stolen_all s) (accepted s) /\
  (forall j, In j (stolen_all s) -> cnt_of (calls s) j = 0 /\ cnt_of (drops s) j <= 1) /\
  (stolen s = [] -> hdrops s = stolen_all s /\ forall j, In j (stolen_all s) -> cnt_of (drops s) j = 1).
Proof. intros n k tr s H. exact (hardstop_drops_queued s (inv_reach n k tr s H)). Qed.
Print Assumptions c08_hardstop_drops_queued.

(* SoftStop: the stopped bit is set (by the stopper or by a worker) only at moments where the counter reads 0 and
   no job is queued or held by a worker.  The second statement says that every step that sets the bit is recorded. *)
Theorem c08_softstop_only_when_idle :
  forall n tr s, run (init n KSoft) tr = Some s -> Forall (fun p => p = (0, 0)) (stop_sets s).
Proof. exact r_softstop_only_when_idle. Qed.
Print Assumptions c08_softstop_only_when_idle.

Theorem c08_stop_flag_is_recorded :
  forall s e s', step s e = Some s' -> stopped s = false -> stopped s' = true ->
  stop_sets s' = stop_sets s ++ [(Nat.shiftr (jc s) kShift, length (queue s) + cntp is_busy (workers s'))] \/
  exists w, e = EWork w /\ exists p, stop_sets s' = stop_sets s ++ [p].
Proof. exact stop_flag_recorded. Qed.
Print Assumptions c08_stop_flag_is_recorded.

(* Wait returns only when every worker thread has finished; from then on no job is running, nothing is left in the
   queue, and whatever happens afterwards (tr') no job is ever Called again. *)
Theorem c08_wait_means_done :
  forall n k tr s, run (init n k) tr = Some s ->
  (tpc s = TWaited -> all_exited s) /\
  (all_exited s ->
     cntp is_busy (workers s) = 0 /\ (n > 0 -> queue s = []) /\
     forall tr' s', run s tr' = Some s' -> all_exited s' /\ calls s' = calls s).
Proof. exact r_wait_means_done. Qed.
Print Assumptions c08_wait_means_done.

(* Jobs leave the queue in the order they were accepted, for any number of workers; with a single worker the order
   in which Calls begin is the acceptance order (calls is a prefix of accepted). *)
Theorem c08_fifo_one_worker :
  forall n k tr s, run (init n k) tr = Some s ->
  (exists rest, accepted s = takes s ++ rest) /\
  (n = 1 -> exists rest, accepted s = calls s ++ rest).
Proof. exact r_fifo. Qed.
Print Assumptions c08_fifo_one_worker.

(* No missed notify: when nothing is in flight and the stopper has finished its stop call, every worker has
   returned -- none is left sleeping in the condition variable. *)
Theorem c08_no_stuck_worker :
  forall n k tr s, run (init n k) tr = Some s -> quiescent s -> stopper_done s -> all_exited s.
Proof. intros n k tr s H. exact (no_stuck_worker s (inv_reach n k tr s H)). Qed.
Print Assumptions c08_no_stuck_worker.

(* ---- non-vacuity: complete runs of the real implementation (harness h_c08, mapped by checks/c08.py) ----------- *)

Definition final (s : st) :=
  (calls s, hdrops s, rdrops s, accepted s, rejected s, stop_sets s, quiescentb s,
   cntp is_exited (workers s) =? length (workers s), tpc s).

(* SoftStop while a job is queued: the worker runs it, then stops the pool itself (n1/s1x1/p0/soft) *)
Example c08_witness_softstop_worker_stops :
  exists s, run (init 1 KSoft)
    [EWork 0; ESubmit 0; ENotifyOne (Some 0); EStop; EWork 0; ECall 0 0; EWork 0; ENotifyAllW 0; EWait] = Some s /\
  final s = ([0], [], [], [0], [], [(0, 0)], true, true, TWaited).
Proof. eexists. vm_compute. split; reflexivity. Qed.

(* HardStop steals the queued job and drops it (n1/s1x1/p0/hard) *)
Example c08_witness_hardstop_drops :
  exists s, run (init 1 KHard)
    [EWork 0; ESubmit 0; ENotifyOne (Some 0); EStop; ENotifyAllT; EDropStolen 0; EWork 0; EWait] = Some s /\
  final s = ([], [0], [], [0], [], [(1, 1)], true, true, TWaited).
Proof. eexists. vm_compute. split; reflexivity. Qed.

(* Stop after the job ran (n1/s1x1/p0/stop) *)
Example c08_witness_stop :
  exists s, run (init 1 KStop)
    [ESubmit 0; EWork 0; ECall 0 0; EWork 0; ENotifyOne (Some 0); EStop; ENotifyAllT; EWork 0; EWait] = Some s /\
  final s = ([0], [], [], [0], [], [(0, 0)], true, true, TWaited).
Proof. eexists. vm_compute. split; reflexivity. Qed.

(* two workers, SoftStop with a job pending, a later Submit is rejected, both workers call Stop (n2/s1x1/p1/soft) *)
Example c08_witness_two_workers_soft :
  exists s, run (init 2 KSoft)
    [EWork 0; ESubmit 1; ENotifyOne (Some 0); EStop; EWork 0; ECall 0 1; EWork 0; ESubmit 0; EDropRej 0;
     ENotifyAllW 0; EWork 1; ENotifyAllW 1; EWait] = Some s /\
  final s = ([1], [], [0], [1], [0], [(0, 0); (0, 0)], true, true, TWaited).
Proof. eexists. vm_compute. split; reflexivity. Qed.

(* a submission rejected by a stopped pool (n1/s1x1/p0/soft, SoftStop on an idle pool stops at once) *)
Example c08_witness_rejected :
  exists s, run (init 1 KSoft) [EStop; ESubmit 0; EDropRej 0; ENotifyAllT; EWork 0; EWait] = Some s /\
  final s = ([], [], [0], [], [0], [(0, 0)], true, true, TWaited).
Proof. eexists. vm_compute. split; reflexivity. Qed.
