(* C06 — SharedFuture: every observer sees the one value once, never before it exists.
   Statements only; proofs are in proofs/SharedProofs.v.  [tr] ranges over every sequence of atomic operations and
   observations of the fulfilling thread, of ANY number of SharedFuture copies (created and destroyed on the way) and of
   the jobs they submit, i.e. every schedule of every program; [wf] over MakeSharedContract / MakeSharedPromise; the
   stored value is arbitrary (it enters through the event [ESet r]).  [run] is the model of the tree under check: its
   readiness rule is the one read from BaseCore::Empty (gen/Gen_ready.v). *)
From Coq Require Import List Arith Bool.
Import ListNotations.
From YV Require Import gen.Gen_ready gen.Gen_shared_consts model.Shared proofs.SharedProofs.

(* Every attached callback / awaiter fires exactly once, only after the value is set, and sees that value:
   - an entry of the callback table (a continuation whose attach succeeded, or a job handed to an executor by a
     failed attach) has seen nothing while it is registered, being fired or waiting in an executor, and exactly one
     invocation with the value [r] that was Set once it ran (the event of a Wait is never "invoked");
   - whatever a callback saw, it saw after the exchange published the result (the word is kResult, Store is done);
   - a callback whose attach failed runs inline: every such run saw [r], and every failed attach is accounted for
     exactly once: it ran inline, is about to (the handle is inside the inline call), or became an executor job;
   - when SetResult's walk is over, nothing is left registered or half-fired;
   - at the end of a complete run every continuation has run exactly once. *)
Theorem c06_each_once_after_set :
  forall wf tr s, run (init wf) tr = Some s ->
  (forall c e, nth_error (cs s) c = Some e ->
     match cst e with
     | CRan | CDone => if is_cb_kind (ck e) then exists r, cv e = [Some r] /\ val s = Some r else cv e = []
     | _ => cv e = []
     end) /\
  (forall c e, nth_error (cs s) c = Some e -> cv e <> [] ->
     w s = WRes /\ exists r, val s = Some r /\ fpc s <> F0 /\ fpc s <> F1) /\
  (forall v, In v (iruns s) -> exists r, v = Some r /\ val s = Some r) /\
  nfail s = length (iruns s) + count inl_pc (hs s) + count cinl (cs s) /\
  (forall c e, nth_error (cs s) c = Some e -> fpc s = FD2 \/ fpc s = FD1 \/ fpc s = FDone ->
     cst e = CHeld \/ cst e = CRan \/ cst e = CDone) /\
  (terminal s = true ->
     (forall c e, nth_error (cs s) c = Some e -> ck e <> KEvent -> exists r, cv e = [Some r] /\ val s = Some r) /\
     nfail s = length (iruns s) + count cinl (cs s)).
Proof. intros wf tr s H. exact (each_once_all s (inv_reach wf tr s H)). Qed.
Print Assumptions c06_each_once_after_set.

(* No observer ever reads an unset, moved-from or destroyed value: every Get / Touch / await_resume, every inline
   callback and every fired callback saw exactly the value that was Set.  Moving out happens only for the provably last
   observer: once the slot is moved-from every copy is consumed or destroyed and every callback is done; and at the
   two places where a move is decided (Get&&/Touch&& seeing GetRef()==1, ResultCore::Impl seeing GetRef()==2 in the
   last callback) the counter proves that nobody else holds or will hold a reference. *)
Theorem c06_no_moved_read :
  forall wf tr s, run (init wf) tr = Some s ->
  (forall v, In v (gots s ++ iruns s) -> exists r, v = Some r /\ val s = Some r) /\
  (forall c e v, nth_error (cs s) c = Some e -> In v (cv e) -> exists r, v = Some r /\ val s = Some r) /\
  (slot s = Moved ->
     (forall h pc, nth_error (hs s) h = Some pc -> pc = HSpent \/ pc = HDead) /\
     (forall c e, nth_error (cs s) c = Some e -> cst e = CDone)) /\
  (forall h, nth_error (hs s) h = Some (HOut true) ->
     refs s = 1 /\ fpc s = FDone /\ count live (hs s) = 1 /\ count held (cs s) = 0) /\
  (forall c e dc, nth_error (cs s) c = Some e -> cst e = CConn true dc ->
     refs s = 2 /\ fpc s = FLast c /\ count live (hs s) = 0 /\ count held (cs s) = 0).
Proof. intros wf tr s H. exact (no_moved_all s (inv_reach wf tr s H)). Qed.
Print Assumptions c06_no_moved_read.

(* The reference counter: it is always exactly  promise-side references (3, then 2, 1, 0 as SetResultImpl drops them)
   + live copies + jobs holding a reference;  it never underflows; nothing touches the state after it was destroyed;
   it is destroyed at most once, exactly when the counter reaches zero, only after fulfilment, and exactly once by the
   end of a complete run. *)
Theorem c06_refs :
  forall wf tr s, run (init wf) tr = Some s ->
  under s = 0 /\ uaf s = 0 /\ frees s <= 1 /\ (frees s = 1 <-> refs s = 0) /\ (alive s = false <-> refs s = 0) /\
  refs s = prom (fpc s) + count live (hs s) + count held (cs s) /\
  (alive s = false -> w s = WRes /\ fpc s = FDone) /\
  (terminal s = true -> refs s = 0 /\ alive s = false /\ frees s = 1).
Proof. intros wf tr s H. exact (refs_all s (inv_reach wf tr s H)). Qed.
Print Assumptions c06_refs.

(* Ready()==true (and await_ready()==true) implies the value can be read: at the moment of every such answer the
   slot held the constructed, not moved-from value in a live state; and whenever the word is kResult the value has
   been set. *)
Theorem c06_ready_sound :
  forall wf tr s, run (init wf) tr = Some s ->
  Forall (fun p => fst p = true -> snd p = true) (readys s) /\
  (w s = WRes -> exists r, val s = Some r /\ (slot s = SetV r \/ slot s = Moved)).
Proof. intros wf tr s H. exact (ready_ok s (inv_reach wf tr s H)). Qed.
Print Assumptions c06_ready_sound.

(* What the readiness rule before commit a483768 (Empty() = "word == kEmpty") allows, in the same model: one copy
   registers a callback, a bystander copy's Ready() then answers true before anything was Set, and its Touch() reads an
   unconstructed slot.  (S1; this is the scenario ./check replays on the pre-fix tree.) *)
Theorem c06_ready_sound_old_rule_refuted :
  exists tr s, run_g false (init true) tr = Some s /\
    In (true, false) (readys s) /\ In None (gots s) /\ slot s = Unset.
Proof. exact old_rule_witness. Qed.
Print Assumptions c06_ready_sound_old_rule_refuted.

(* The obligations on what the translators read from the source (they break when the source regresses). *)
Theorem c06_source_facts :
  (ready_rule_recognised = true /\ ready_is_result = true) /\
  kSharedRefNoFuture = 3 /\ kSharedRefWithFuture = 4 /\
  set_result_decrefs_before_last = 1 /\ set_result_decrefs_after_last = 2 /\ set_result_decrefs_empty_list = 3 /\
  impl_copy_when_ref_ge = 3 /\ impl_decref_when_ref_eq = 1 /\ get_move_when_ref_eq = 1 /\ touch_move_when_ref_eq = 1.
Proof. split; [exact ready_rule|exact source_constants]. Qed.
Print Assumptions c06_source_facts.

(* Non-vacuity: complete runs exist (these are traces of the real implementation, harness/h_c06.cpp). *)
Example c06_witness_fired_by_fulfiller :
  exists s, run (init true) [ESet 12; EAttL 0 (PCb KInl) OE; ECas 0 true; EXchg; EDecF; EFRun; EDecF; EDecF;
                             EDestroy 0; EDtor] = Some s /\
            terminal s = true /\ map cv (cs s) = [[Some 12]] /\ frees s = 1.
Proof. eexists. vm_compute. repeat split. Qed.
Example c06_witness_failed_attach_runs_inline :
  exists s, run (init true) [ESet 12; EXchg; EDecF; EDecF; EDecF; EAttL 0 (PCb KInl) OR; ECbInl 0; EDestroy 0; EDtor]
            = Some s /\ terminal s = true /\ iruns s = [Some 12] /\ nfail s = 1.
Proof. eexists. vm_compute. repeat split. Qed.
Example c06_witness_get_moves_when_last :
  exists s, run (init true) [ESet 12; EAttL 0 (PWait WRc) OE; ECas 0 true; EXchg; EDecF; EDecF; EDecF; ERcH 0 1;
                             EGot 0; EDestroy 0; EDtor] = Some s /\
            terminal s = true /\ gots s = [Some 12] /\ slot s = Moved.
Proof. eexists. vm_compute. repeat split. Qed.
Example c06_witness_last_callback_moves :
  exists s, run (init true) [ESet 12; EAttL 0 (PCb KConn) OE; ECas 0 true; EDestroy 0; EXchg; EDecF; EFRc 2; EFRun;
                             EDecF; EDecF; EDtor] = Some s /\
            terminal s = true /\ map cv (cs s) = [[Some 12]] /\ slot s = Moved.
Proof. eexists. vm_compute. repeat split. Qed.
Example c06_witness_callback_copies_while_a_copy_lives :
  exists s, run (init true) [ECopy 0; ESet 12; EAttL 0 (PCb KConn) OE; ECas 0 true; EDestroy 0;
                             EAttL 1 (PWait WRead) OL; ECas 1 true; EXchg; EDecF; EFRc 3; EFRun; EDecF; EDecF; EGot 1;
                             EDestroy 1; EDtor] = Some s /\
            terminal s = true /\ gots s = [Some 12] /\ slot s = SetV 12.
Proof. eexists. vm_compute. repeat split. Qed.
Example c06_witness_job_outlives_every_future :
  exists s, run (init true) [ESet 12; EAttL 0 (PCb KCall) OE; ECas 0 true; EDestroy 0; EXchg; EDecF; EFInc; EDecF;
                             EDecF; ECb 0; ECbDec 0; EDtor] = Some s /\
            terminal s = true /\ map cv (cs s) = [[Some 12]] /\ frees s = 1.
Proof. eexists. vm_compute. repeat split. Qed.
Example c06_witness_co_await_from_promise_only :
  exists s, run (init false) [ECopyP; ESet 12; ECopy 0; EAwaitL 1 OE; EAttL 1 (PCb KInl) OE; ECas 1 true; EXchg;
                              EDecF; EFRun; EDestroy 1; EDecF; EDecF; EDestroy 0; EDtor] = Some s /\
            terminal s = true /\ map cv (cs s) = [[Some 12]] /\ readys s = [(false, true)].
Proof. eexists. vm_compute. repeat split. Qed.
