(* C18 at the tree under test, part 5: thread-local pointer proxies are numbered by one counter. *)
From Coq Require Import List Arith Bool.
Import ListNotations.
From YV Require Import model.FiberSync gen.FiberSyncSource props.Properties_C18.

Lemma source_tls_one_counter : source_tl_one_counter = true.
Proof. reflexivity. Qed.

Theorem c18_source_tls_variables_distinct : forall tys, NoDup (Tl.slots source_tl_one_counter tys).
Proof. rewrite source_tls_one_counter. exact c18_tls_variables_distinct. Qed.
Print Assumptions c18_source_tls_variables_distinct.
