(* C19 — no undefined behaviour: under the strict reading of C++ (signed overflow of plain arithmetic undefined)
   every FIBER operation is defined and equal to the std contract — std::atomic's arithmetic "has no undefined
   results".  Holds iff the fiber atomics compute in the unsigned counterpart of T; kept apart from
   Properties_C19.v because it is exactly the finding keyed fiber-signed-overflow-ub. *)
From Coq Require Import ZArith List Bool.
Import ListNotations.
Open Scope Z_scope.
From YV Require Import model.AtomicCSem model.AtomicStd gen.Gen_fiber_atomic model.AtomicObs proofs.AtomicProofs proofs.AtomicUbProofs.

Theorem c19_fiber_operations_no_ub :
  forall k o vol f, std_of k o = Some f ->
  exists g, impl_of BFiber k o vol = Some g /\
  forall S T spur v a1 a2, True -> no_guard o T v a1 -> ty_of k T = true ->
    ok T v = true -> ok (arg_ty T o) a1 = true -> ok T a2 = true ->
    g S T spur v a1 a2 = f S T spur v a1 a2.
Proof. exact fiber_operations_no_ub. Qed.
Print Assumptions c19_fiber_operations_no_ub.

Theorem c19_sequences_fiber_no_ub :
  forall k S T cs v0, ty_of k T = true -> ok T v0 = true -> Forall (call_ok k T) cs ->
  run_backend BFiber k S T cs v0 = run_backend BStd k S T cs v0.
Proof. exact fiber_sequences_no_ub. Qed.
Print Assumptions c19_sequences_fiber_no_ub.

Example c19_witness_overflow_defined :
  run_backend BFiber KInt (sem_eval true) (CInt 32 true)
    [Call FAdd false false 1 0; Call PreInc false false 0 0; Call PostDec false false 0 0; Call SubA false false (-2147483648) 0] 2147483647
  = Some [(-2147483648, 2147483647, 1); (-2147483647, -2147483647, 0); (-2147483648, -2147483647, 0); (0, 0, -2147483648)].
Proof. vm_compute. reflexivity. Qed.
