(* C17 — fiber fault-injection runs are reproducible from (program, seed, fault configuration).
   Statements only; the proofs are in proofs/SchedProofs.v, the machine in model/Sched.v.

   [Sched.run cf draws alloc fuel s] is a Gallina FUNCTION: that the same inputs give the same trace is vacuous.  What a
   re-run (in the same process or in a new one) does NOT share with the original run is
     - the fiber ids (FiberBase::_id comes from a process-global counter that is never reset),
     - the value of the virtual clock (a Scheduler that is used again continues its clock; a restored run starts at
       another time than the point it restores),
     - how many fibers had been created before,
   and what a restore gives back is only the pair (GetFaultRandomCount(), GetInjectorState()).  The theorems say that
   none of the three matters and that the pair is enough.  They hold for every configuration, every program (fibers
   are arbitrary action lists, arbitrarily many), every engine output sequence and every number of steps. *)
From Coq Require Import List Arith Bool NArith.
Import ListNotations.
From YV Require Import model.Sched model.SchedObs proofs.SchedProofs proofs.SchedInvProofs.

(* The switch trace (resumed fibers, injection points, picks, draws, CAS results, wait results, recorded pairs) is
   equivariant under ANY injective renaming of the fiber ids, for any state whatsoever. *)
Theorem c17_id_renaming : forall rho, injective rho ->
  forall cf draws alloc fuel s,
  run cf draws (fun k => rho (alloc k)) fuel (ren_st rho s) = map (ren_obs rho) (run cf draws alloc fuel s).
Proof. exact id_renaming. Qed.
Print Assumptions c17_id_renaming.

(* Shifting _time and all absolute deadlines (sleep-map keys, deadlines of waits in progress) by D changes nothing
   but the time stamps, which move by D. *)
Theorem c17_time_shift : forall D cf draws alloc fuel s,
  run cf draws alloc fuel (shift_st D s) = map (shift_obs D) (run cf draws alloc fuel s).
Proof. exact time_shift. Qed.
Print Assumptions c17_time_shift.

(* Checkpoint: at a quiescent point (only the driver exists and runs; nothing queued, asleep, parked, locked,
   joinable) the rest of the run is determined by the driver's remaining program (and client variables: CAS / wait
   results, the recorded clock reading [epoch] absolute deadlines are counted from), the random count and the injector
   state, up to the renaming rho of ids, the offset D of the clock and the offset dn of the fiber counter. *)
Theorem c17_checkpoint : forall rho, injective rho -> forall D dn cf draws alloc1 alloc2,
  (forall k, alloc2 (k + dn) = rho (alloc1 k)) ->
  forall s1 s2 d1 r1 r2,
  quiescent_at s1 d1 r1 -> quiescent_at s2 (rho d1) r2 ->
  prog r2 = prog r1 -> lastcas r2 = lastcas r1 -> lastto r2 = lastto r1 ->
  rc s2 = rc s1 -> inj s2 = inj s1 -> now s2 = (now s1 + D)%N -> nsp s2 = nsp s1 + dn ->
  epoch s2 = (epoch s1 + D)%N ->
  forall fuel, run cf draws alloc2 fuel s2 = map (xobs rho D) (run cf draws alloc1 fuel s1).
Proof. exact checkpoint. Qed.
Print Assumptions c17_checkpoint.

(* The k-th GetRandNumber consumes engine output k: the draw indices along a run are consecutive from the random
   count of the first state to that of the last, each value is the output reduced modulo the requested bound... *)
Theorem c17_draws_counted : forall cf draws alloc fuel s,
  draw_idx (run cf draws alloc fuel s) = seq (rc s) (rc (steps cf draws alloc fuel s) - rc s) /\
  rc s <= rc (steps cf draws alloc fuel s) /\
  Forall (draw_ok draws) (run cf draws alloc fuel s).
Proof. exact draws_counted. Qed.
Print Assumptions c17_draws_counted.

(* ... and nothing before the random count is ever looked at: the recorded count identifies the position. *)
Theorem c17_draws_only_from_count : forall cf d1 d2 alloc fuel s,
  (forall k, rc s <= k -> d1 k = d2 k) -> run cf d1 alloc fuel s = run cf d2 alloc fuel s.
Proof. exact run_ext. Qed.
Print Assumptions c17_draws_only_from_count.

(* Sanity: virtual time never goes back. *)
Theorem c17_time_monotone : forall cf draws alloc fuel s, (now s <= now (steps cf draws alloc fuel s))%N.
Proof. exact time_monotone. Qed.
Print Assumptions c17_time_monotone.

(* Sanity: no fiber is in two queues.  In every state of every run of every program (started by creating the driver
   d, whose id is not one the allocator will hand out), the scheduler node of a fiber -- current fiber, run queue,
   sleep buckets -- is linked at most once, and so is its wait-queue node (FiberQueues of mutexes, condition
   variables, bare queues).  [Only a fiber inside a timed wait is linked in both kinds: clause iC of the invariant.] *)
Theorem c17_no_fiber_in_two_queues : forall cf draws alloc, (forall a b, alloc a = alloc b -> a = b) ->
  forall t d p rc0 inj0 n0, (forall k, n0 <= k -> alloc k <> d) ->
  forall fuel, NoDup (snodes (steps cf draws alloc fuel (init t d p rc0 inj0 n0))) /\
               NoDup (wnodes (steps cf draws alloc fuel (init t d p rc0 inj0 n0))).
Proof. exact two_queues_from_init. Qed.
Print Assumptions c17_no_fiber_in_two_queues.

Theorem c17_no_fiber_in_two_queues_restored : forall cf draws alloc, (forall a b, alloc a = alloc b -> a = b) ->
  forall t d p rc0 inj0 n0, (forall k, n0 <= k -> alloc k <> d) ->
  forall fuel, NoDup (snodes (steps cf draws alloc fuel (quiescent t d p rc0 inj0 n0))) /\
               NoDup (wnodes (steps cf draws alloc fuel (quiescent t d p rc0 inj0 n0))).
Proof. exact two_queues_from_quiescent. Qed.
Print Assumptions c17_no_fiber_in_two_queues_restored.

(* Sanity: a sleeper never resumes before its deadline.  Whenever the scheduler makes f the current fiber and f was in
   a plain sleep (yaclib_std::this_thread::sleep_for) with absolute deadline ns, the clock shows at least ns. *)
Theorem c17_sleeper_not_early : forall cf draws alloc, (forall a b, alloc a = alloc b -> a = b) ->
  forall t d p rc0 inj0 n0, (forall k, n0 <= k -> alloc k <> d) ->
  forall fuel s' o f ns,
  step cf draws alloc (steps cf draws alloc fuel (init t d p rc0 inj0 n0)) = Some (s', o) ->
  cur (steps cf draws alloc fuel (init t d p rc0 inj0 n0)) = None -> cur s' = Some f ->
  pendO (steps cf draws alloc fuel (init t d p rc0 inj0 n0)) f = Some (PSleep ns) ->
  (ns <= now s')%N.
Proof. exact sleeper_from_init. Qed.
Print Assumptions c17_sleeper_not_early.

(* ------------------------------------------------------------------ non-vacuity: traces of the real library *)
Local Open Scope N_scope.

Definition ex_cfg := {| freq := 3; casf := 2; pick := 2; tick := 10; slpt := 100 |}.
(* std::mt19937_64(7) *)
Definition ex_draws : list N :=
  [13915952638675311015; 17511516338625233250; 2165911192842364878; 16452894106784333046; 2606000371313139421;
   1016289395134552428; 15357338357345460609; 16615175643761230918; 4743729080978854881; 13243022433781402340;
   13941035240827299646; 10997741858636686065; 7331574580866239343; 5691350275017069054; 15350796991450887192;
   5607905465249041865; 18359340204918669677; 18329657575484428161; 15984887928209472747; 4936558332189375254;
   11447340566570368249; 5392342812574633292; 797290882164269140; 617012150084278735; 2281509786934503201;
   3112409877512856908; 6771918233857365279; 6104632262489155568; 12303327720558391815; 11845207751115688266;
   9224575002857886219; 328581187803908852; 4996329703343035885; 12969723129896619557; 8004586843546654860;
   16594028769389790614].
(* h_c17 --prog 'f0(a w a) f1(l0 t0,0,25 u0) f2(s10 l0 n0 u0) f3(a) a w j0 j1 j2 j3 p f4(Q1,20) f5(s5 k1) j4 j5'
         --place main --seed 7 --freq 3 --cas 2 --pick 2 --tick 10 --sleeptime 100 *)
Definition ex_prog : list cmd :=
  [CSpawn 0 [CAtomic; CCasW; CAtomic]; CSpawn 1 [CLock 0; CCvWaitFor 0 0 25; CUnlock 0];
   CSpawn 2 [CSleep 10; CLock 0; CCvNotifyOne 0; CUnlock 0]; CSpawn 3 [CAtomic]; CAtomic; CCasW;
   CJoin 0; CJoin 1; CJoin 2; CJoin 3; CPhase; CSpawn 4 [CQWaitFor 1 20]; CSpawn 5 [CSleep 5; CQNotifyOne 1];
   CJoin 4; CJoin 5].
Definition ex_rest : list cmd := [CPhase; CSpawn 4 [CQWaitFor 1 20]; CSpawn 5 [CSleep 5; CQNotifyOne 1]; CJoin 4; CJoin 5].

(* The model predicts, token by token, what the recorder saw on the real library (7 fibers, injected yields, two
   spurious CAS failures, a timed wait that was notified, the recorded pair (29, 1), final count 36, state 1, time 220). *)
Example c17_real_trace :
  obs_N ex_cfg ex_draws 0 0 2 0 0 2000 ex_prog =
  [3; 1; 4; 4; 1; 2; 10; 2; 2; 5; 4; 2; 2; 2; 4; 3; 3; 5; 4; 4; 1; 2; 20; 6; 2; 0; 3; 4; 4; 4; 1; 4; 30; 2; 2; 2; 2; 4;
   3; 3; 4; 4; 4; 1; 5; 40; 3; 3; 4; 4; 1; 4; 50; 4; 100; 3; 3; 4; 4; 1; 3; 60; 2; 2; 5; 4; 2; 2; 2; 4; 3; 3; 3; 4; 4;
   1; 5; 70; 2; 2; 2; 3; 1; 4; 4; 2; 4; 3; 3; 4; 4; 4; 1; 3; 80; 6; 3; 0; 2; 2; 3; 4; 4; 4; 1; 4; 90; 3; 3; 4; 4; 1; 5;
   100; 2; 3; 1; 4; 4; 2; 4; 3; 3; 4; 4; 4; 1; 2; 110; 3; 3; 4; 4; 1; 6; 120; 2; 2; 4; 3; 3; 3; 4; 4; 1; 5; 130; 3; 2;
   4; 4; 1; 6; 140; 3; 1; 4; 4; 1; 4; 150; 2; 2; 7; 4; 0; 2; 4; 3; 3; 1; 4; 4; 1; 4; 160; 2; 3; 1; 4; 4; 1; 2; 170; 9;
   29; 1; 3; 2; 4; 4; 1; 8; 180; 3; 1; 4; 4; 1; 7; 190; 4; 100; 3; 1; 4; 4; 1; 8; 200; 3; 1; 4; 4; 3; 1; 4; 4; 1; 7;
   210; 7; 7; 0; 3; 1; 4; 4; 1; 2; 220] ++ [0; 1; 0; 36; 1; 0; 220].
Proof. vm_compute. reflexivity. Qed.

(* The run restored in a fresh process from the recorded pair (h_c17 ... --from 1 --count 29 --state 1): the model
   started at the quiescent state (time 10, driver 2, rc 29, inj 1) predicts it ... *)
Example c17_real_restored_trace :
  obs_N ex_cfg ex_draws 1 10 2 29 1 2000 ex_rest =
  [9; 29; 1; 3; 2; 4; 4; 1; 4; 20; 3; 1; 4; 4; 1; 3; 30; 4; 100; 3; 1; 4; 4; 1; 4; 40; 3; 1; 4; 4; 3; 1; 4; 4; 1; 3; 50;
   7; 3; 0; 3; 1; 4; 4; 1; 2; 60] ++ [0; 1; 0; 36; 1; 0; 60].
Proof. vm_compute. reflexivity. Qed.

(* ... and the original run is indeed at a quiescent point when it records the pair: after 73 steps the state is
   quiescent with (rc, inj) = (29, 1), the clock shows 170 and four fibers have been created; so c17_checkpoint applies
   with D = 160, dn = 4 ... *)
Example c17_checkpoint_applies :
  let s := steps ex_cfg (draws_of ex_draws) (fun k => (3 + k)%nat) 73 (start 0 0 2 ex_prog 0 0) in
  quiescentb s = true /\ rc s = 29%nat /\ inj s = 1 /\ now s = 170 /\ nsp s = 4%nat /\
  option_map (fun r => prog r) (fget 2%nat (fibers s)) = Some (expand ex_rest).
Proof. vm_compute. repeat split. Qed.

(* ... and its remainder equals the restored run up to ids (+4 on the new fibers) and the clock (+160). *)
Example c17_checkpoint_instance :
  let rho := fun f : fid => if Nat.leb 3 f then (f + 4)%nat else f in
  run ex_cfg (draws_of ex_draws) (fun k => (3 + k)%nat) 2000
      (steps ex_cfg (draws_of ex_draws) (fun k => (3 + k)%nat) 73 (start 0 0 2 ex_prog 0 0)) =
  map (xobs rho 160)
      (run ex_cfg (draws_of ex_draws) (fun k => (3 + k)%nat) 2000 (start 1 10 2 ex_rest 29 1)).
Proof. vm_compute. reflexivity. Qed.

(* BiList::GetElement's wrap-around as written: with pick width 2, v = 3 means "reversed, position 1"; on a list of
   one node the position wraps to the front (index 0); with pick width 10 and 3 nodes, v = 15 (reversed, position 5)
   gives index (3 - 5 mod 3) mod 3 = 1, not the 0 a true backward walk would reach. *)
Example c17_poll_index_wrap :
  poll_index ex_cfg 1 3 = 0%nat /\
  poll_index {| freq := 3; casf := 2; pick := 10; tick := 10; slpt := 100 |} 3 15 = 1%nat /\
  poll_index {| freq := 3; casf := 2; pick := 10; tick := 10; slpt := 100 |} 3 12 = 0%nat /\
  poll_index {| freq := 3; casf := 2; pick := 10; tick := 10; slpt := 100 |} 3 4 = 1%nat.
Proof. vm_compute. repeat split. Qed.

(* The premises of c17_sleeper_not_early occur: in the real trace above, step 30 resumes fiber 5 (f2, after
   sleep_for(10) started at 40: deadline 50) at time 70, and step 81 resumes fiber 8 (f5, deadline 185) at 200. *)
Example c17_sleeper_resumed :
  let s := steps ex_cfg (draws_of ex_draws) (fun k => (3 + k)%nat) 30 (start 0 0 2 ex_prog 0 0) in
  cur s = None /\ pendO s 5%nat = Some (PSleep 50) /\
  option_map (fun r => (cur (fst r), now (fst r))) (step ex_cfg (draws_of ex_draws) (fun k => (3 + k)%nat) s) =
    Some (Some 5%nat, 70).
Proof. vm_compute. repeat split. Qed.

(* A state of that run in which fibers are spread over the run queue, a sleep bucket and two wait queues (one fiber,
   inside condition_variable::wait_for, is in a bucket AND in the condition variable's queue). *)
Example c17_queues_populated :
  let s := steps ex_cfg (draws_of ex_draws) (fun k => (3 + k)%nat) 28 (start 0 0 2 ex_prog 0 0) in
  (length (snodes s) >= 3)%nat /\ (length (wnodes s) >= 1)%nat /\
  existsb (fun f => mem f (snodes s)) (wnodes s) = true.
Proof. vm_compute. repeat split; auto. Qed.


(* Sleepers with EQUAL deadlines share one bucket of the sleep map and are woken in the order in which they went to
   sleep (std::map<deadline, BiList>: PushBack into the bucket, PushAll keeps the bucket's order) -- never in the
   order of ids or addresses: fibers 7, 3, 5 (in this order) sleep until 500, fiber 4 until 400. *)
Example c17_equal_deadlines_wake_in_insertion_order :
  let m := sm_push 500 5%nat (sm_push 400 4%nat (sm_push 500 3%nat (sm_push 500 7%nat []))) in
  m = [(400, [4%nat]); (500, [7%nat; 3%nat; 5%nat])] /\ fst (wake 510 m) = [4%nat; 7%nat; 3%nat; 5%nat] /\ snd (wake 510 m) = [].
Proof. vm_compute. repeat split. Qed.
