(* placeholder while the proofs are being written *)
From YV Require Import model.Sched.
