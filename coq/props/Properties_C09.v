(* C09 — WhenAll / Join complete once, at the right moment, with every input's value at its index.
   Statements only; the proofs are in proofs/When*.v (an inductive invariant of the transition system
   model/When.v).  Quantification: [g] over the six WhenAll/Join strategies (All<None>, All<FirstFail>,
   AllTuple<None>, AllTuple<FirstFail>, Join<None>, Join<FirstFail>), [k] over EVERY number of inputs, [tr] over
   every sequence of atomic operations of the k producers, the builder and the consume steps — i.e. every
   completion order, every race between the registration of input i and the completion of input j, every
   interleaving of consume steps on different threads — and the results enter through [EComplete i r], so over
   every success / error / exception pattern.

   Reading the state:  [outs s]  every Set of the output promise, in order: who ([oby], the input whose consume
   step performed it), whether it was the strategy destructor ([odtor]) and with what ([oval]);
   [ins s] the inputs in INDEX order, [ires x] the Result input x completed with;
   [elog s] the order in which inputs performed their exchange on `_done` (its modification order). *)
From Coq Require Import List Arith Bool NArith.
Import ListNotations.
From YV Require Import model.When proofs.WhenProofs proofs.WhenProofs2 proofs.WhenProofs3 proofs.WhenProofs4
  proofs.WhenProofs5 proofs.WhenInv proofs.WhenTheorems proofs.WhenC09.

(* The output promise is set at most once in every run, exactly once in every complete run, and no step is ever
   taken that the real code could not survive (Set on an invalid promise, Value() of a failed Result, counter
   underflow). *)
Theorem c09_once :
  forall g k tr s, k > 0 -> all_like g -> run (init g k) tr = Some s ->
  length (outs s) <= 1 /\ (terminal s = true -> length (outs s) = 1) /\ crashed s = false.
Proof. exact p09_once. Qed.
Print Assumptions c09_once.

(* WHEN, as a property of the step that sets the promise: it is either the destructor's publish — possible only
   once the reference counter is 0, in the step sequence of the decrement that took it there — or the Set
   inside the consume step of the input that was elected by `_done`. *)
Theorem c09_when_step :
  forall g k tr s e s', k > 0 -> all_like g -> run (init g k) tr = Some s -> step s e = Some s' ->
  outs s' <> outs s ->
  (exists i, e = EPublish i /\ count s = 0 /\ dt s = Some i /\ outs s = []) \/
  (exists i x, e = ESetOut i /\ nth_error (ins s) i = Some x /\ ipc x = PSet /\ win s = Some i /\ outs s = []).
Proof. exact p09_when_step. Qed.
Print Assumptions c09_when_step.

(* WHEN, as a property of the state.  Policy None, or FirstFail when no input failed: the promise was set by the
   destructor, i.e. at the last decrement, after the consume step of every input, and (FirstFail) then every
   input is a value.  FirstFail when some input failed: it was set inside the consume step of a failing input,
   the one that is first in the modification order of `_done`. *)
Theorem c09_when :
  forall g k tr s o, k > 0 -> all_like g -> run (init g k) tr = Some s -> outs s = [o] ->
  (odtor o = true ->
     count s = 0 /\ dt s = Some (oby o) /\ (forall j x, nth_error (ins s) j = Some x -> ipc x = PFin) /\
     (is_ff g = true -> forall j x, nth_error (ins s) j = Some x -> ovalue (ires x) = true)) /\
  (odtor o = false ->
     is_ff g = true /\
     exists x, nth_error (ins s) (oby o) = Some x /\ ofailing (ires x) = true /\ hd_error (elog s) = Some (oby o)) /\
  (is_ff g = false -> odtor o = true) /\
  (is_ff g = true -> forall j x, nth_error (ins s) j = Some x -> ofailing (ires x) = true -> odtor o = false).
Proof. exact p09_when. Qed.
Print Assumptions c09_when.

(* "As soon as": at the moment an input wins `_done` (its exchange returns false) no other failing input has got
   past its own check of `_done`, i.e. no failing input's consume step has ended before — and nothing was set
   before.  Hence the promise is set before the consume step of any input that completes later. *)
Theorem c09_first_in_real_time :
  forall g k tr s i s', k > 0 -> all_like g -> run (init g k) tr = Some s ->
  step s (EXchgDone i false) = Some s' ->
  win s = None /\ outs s = [] /\
  forall j x, nth_error (ins s) j = Some x -> ofailing (ires x) = true -> pre_el (ipc x) = true.
Proof. exact p09_first_in_real_time. Qed.
Print Assumptions c09_first_in_real_time.

(* WHAT, no failure / policy None: element i of the output is the Result (FirstFail: the value) of input i,
   for every completion order — the order of [ins s] is the index order, whatever the order of the events. *)
Theorem c09_value :
  forall g k tr s o, k > 0 -> all_like g -> run (init g k) tr = Some s -> outs s = [o] -> odtor o = true ->
  (match g with SJoinNone | SJoinFF => oval o = OUnit | _ => oval o = OVec (map ires (ins s)) end) /\
  (forall j x, nth_error (ins s) j = Some x -> ires x <> None).
Proof. exact p09_value. Qed.
Print Assumptions c09_value.

Corollary c09_value_order_independent :
  forall g k tr1 tr2 s1 s2 o1 o2, k > 0 -> all_like g ->
  run (init g k) tr1 = Some s1 -> run (init g k) tr2 = Some s2 ->
  outs s1 = [o1] -> outs s2 = [o2] -> odtor o1 = true -> odtor o2 = true ->
  map ires (ins s1) = map ires (ins s2) -> oval o1 = oval o2.
Proof. exact p09_value_order_independent. Qed.
Print Assumptions c09_value_order_independent.

(* WHAT, FirstFail with a failure: the error / exception of the input that won the `_done` exchange — a failing
   input, first in the modification order of `_done`. *)
Theorem c09_error :
  forall g k tr s o, k > 0 -> all_like g -> run (init g k) tr = Some s -> outs s = [o] -> odtor o = false ->
  exists x, nth_error (ins s) (oby o) = Some x /\ ofailing (ires x) = true /\ oval o = OOne (ires x) /\
            hd_error (elog s) = Some (oby o).
Proof. exact p09_error. Qed.
Print Assumptions c09_error.

(* Every input is consumed at most once and released at most once at any moment, and exactly once in every
   complete run — whether or not the output had already been decided (no hypothesis on [outs]). *)
Theorem c09_inputs_released :
  forall g k tr s, k > 0 -> all_like g -> run (init g k) tr = Some s ->
  forall j x, nth_error (ins s) j = Some x ->
  ifree x <= 1 /\ icons x <= 1 /\ (terminal s = true -> ifree x = 1 /\ icons x = 1).
Proof. exact p09_inputs_released. Qed.
Print Assumptions c09_inputs_released.

(* Nothing is lost: once every input has completed and been registered and no consume step is in progress, the run
   is complete (so by c09_once the output has been set). *)
Theorem c09_never_lost :
  forall g k tr s, k > 0 -> all_like g -> run (init g k) tr = Some s ->
  nreg s = n s ->
  (forall j x, nth_error (ins s) j = Some x -> iw x = WR /\ (ipc x = PIdle \/ ipc x = PFin)) ->
  terminal s = true.
Proof. exact p09_never_lost. Qed.
Print Assumptions c09_never_lost.

(* An empty input set yields an invalid future (and nothing else ever happens); a non-empty one a valid future. *)
Theorem c09_empty_invalid :
  forall g, ovalid (init g 0) = false /\ (forall e, step (init g 0) e = None) /\
            forall k, k > 0 -> ovalid (init g k) = true.
Proof. exact p09_empty_invalid. Qed.
Print Assumptions c09_empty_invalid.

(* ---- non-vacuity: complete runs taken from the real implementation (harness/h_c09.cpp) ------------------ *)

(* All<FirstFail>, input 1 fails before it is registered; the builder consumes it inline and sets the promise
   while input 0 is completing *)
Example c09_witness_all_ff_fail :
  exists s, run (init SAllFF 2)
    [EReg 0 true; EComplete 1 (RErr 11); EXchg 1 WE; EReg 1 false; ELdDone 1 false; EXchgDone 1 false;
     EComplete 0 (RVal 100); ESetOut 1; EDec 1 2; EXchg 0 WC; EDec 0 1; EDFree 0 0; EDFree 0 1] = Some s /\
    terminal s = true /\ outs s = [{| oby := 1; odtor := false; oval := OOne (Some (RErr 11)) |}].
Proof. eexists. vm_compute. repeat split. Qed.

(* All<FirstFail>, two failures on two threads: the second sees `_done` and is ignored *)
Example c09_witness_all_ff_two_failures :
  exists s, run (init SAllFF 2)
    [EReg 0 true; EComplete 0 (RErr 10); EComplete 1 (RErr 11); EXchg 0 WC; EReg 1 true; ELdDone 0 false;
     EXchgDone 0 false; ESetOut 0; EDec 0 2; EXchg 1 WC; ELdDone 1 true; EDec 1 1; EDFree 1 0; EDFree 1 1] = Some s /\
    terminal s = true /\ outs s = [{| oby := 0; odtor := false; oval := OOne (Some (RErr 10)) |}].
Proof. eexists. vm_compute. repeat split. Qed.

(* All<None>: both inputs complete before registration, in the order 1, 0; the vector is in index order *)
Example c09_witness_all_none :
  exists s, run (init SAllNone 2)
    [EComplete 1 (RErr 11); EXchg 1 WE; EComplete 0 (RVal 100); EXchg 0 WE; EReg 0 false; EDec 0 2; EReg 1 false;
     EDec 1 1; EDFree 1 0; EDFree 1 1; EPublish 1] = Some s /\
    terminal s = true /\
    outs s = [{| oby := 1; odtor := true; oval := OVec [Some (RVal 100); Some (RErr 11)] |}].
Proof. eexists. vm_compute. repeat split. Qed.

Example c09_witness_tuple_ff :
  exists s, run (init STupFF 2)
    [EComplete 0 (RVal 100); EReg 0 true; EReg 1 true; EXchg 0 WC; EComplete 1 (RVal 101); EFree 0; EDec 0 2;
     EXchg 1 WC; EFree 1; EDec 1 1; EPublish 1] = Some s /\
    terminal s = true /\
    outs s = [{| oby := 1; odtor := true; oval := OVec [Some (RVal 100); Some (RVal 101)] |}].
Proof. eexists. vm_compute. repeat split. Qed.

Example c09_witness_join :
  exists s, run (init SJoinNone 2)
    [EComplete 0 (RVal 0); EReg 0 true; EReg 1 true; EXchg 0 WC; EComplete 1 (RVal 0); EFree 0; EDec 0 2;
     EXchg 1 WC; EFree 1; EDec 1 1; EPublish 1] = Some s /\
    terminal s = true /\ outs s = [{| oby := 1; odtor := true; oval := OUnit |}].
Proof. eexists. vm_compute. repeat split. Qed.

Example c09_witness_join_ff :
  exists s, run (init SJoinFF 2)
    [EComplete 0 (RErr 10); EReg 0 true; EReg 1 true; EXchg 0 WC; EComplete 1 (RExc 21); EFree 0; ELdDone 0 false;
     EXchgDone 0 false; ESetOut 0; EXchg 1 WC; EDec 0 2; EFree 1; ELdDone 1 true; EDec 1 1] = Some s /\
    terminal s = true /\ outs s = [{| oby := 0; odtor := false; oval := OOne (Some (RErr 10)) |}].
Proof. eexists. vm_compute. repeat split. Qed.
