(* C05 — Executors: every job is Called xor Dropped, and steps run where they were told.
   Statements only; proofs are in proofs/PlaceProofs.v (pipelines) and proofs/ExecSimpleProofs.v (executors).

   Pipelines.  [drun pol ce s p] (model/Place.v) is Pipe.core_run (C02's mirror of core.hpp) with executors that may start
   refusing: [pol e n] says whether executor e accepts the Submit it receives after n earlier ones; [s] is the log of jobs
   handed over so far (one [job] per Submit: step id, executor, index at that executor, Call | Drop); [ce] gives the
   `co_await On(e)` segments of coroutine sources.  An invocation [Ev id e sub i] records the callback, the executor its core
   holds, whether the core was submitted to it, and the argument.  Programs, callback bodies (arbitrary total functions),
   chain lengths, nesting depth of returned chains, policies and values are universally quantified.  With the policy
   "alive executors accept, MakeInline(StopTag) refuses" and no On-segments drun is Pipe.core_run (c05_model_is_pipe), so
   every statement also holds of core_run; the most used ones are restated for it (`_pipe`).  [dlazy pol ce s e p] is the lazy
   program p started with Task::ToFuture(e) / Detach(e) / Cancel() (the `c05_lazy_*` statements).

   Executors.  Inline and Manual are the transition systems of model/ExecSimple.v; Strand is model/Strand.v (C07),
   FairThreadPool model/Pool.v (C08); [exec_contract] is IExecutor's contract read for a whole history. *)
From Coq Require Import List ZArith Bool Arith.
Import ListNotations.
From YV Require Import model.Pipe model.PipeObs proofs.PipeProofs model.Place model.PlaceObs proofs.PlaceProofs.
From YV Require Import model.ExecSimple proofs.ExecSimpleProofs.
From YV Require model.Strand model.Pool.

(* ============================================================================================ Call xor Drop *)

(* Inline (alive and stopped) and Manual, every run, any interleaving of Submit / Drain / returns, re-entrant Submits
   included: no job finished twice or both ways; only submitted jobs are finished; a Drop only by the executor whose
   Alive() is false; with nothing queued or running every submitted job has exactly one Call or exactly one Drop. *)
Theorem c05_call_xor_drop_inline_manual : forall k tr s, srun (sinit k) tr = Some s ->
  exec_contract Nat.eq_dec (s_all s) (s_called s) (s_dropped s) (kalive k = false) (squiescent s).
Proof. exact simple_contract. Qed.
Print Assumptions c05_call_xor_drop_inline_manual.

(* what each of them does with a job: Inline calls it inside Submit, the stopped Inline drops it inside Submit, Manual
   calls, in submission order, exactly what Drain has popped, and never drops *)
Theorem c05_inline_manual_shapes : forall k tr s, srun (sinit k) tr = Some s ->
  match k with
  | KInline false => s_called s = s_all s /\ s_dropped s = []
  | KInline true => s_dropped s = s_all s /\ s_called s = []
  | KManual => s_called s ++ s_queue s = s_all s /\ s_dropped s = []
  end.
Proof. exact simple_shapes. Qed.
Print Assumptions c05_inline_manual_shapes.

(* Strand, any number of submitting threads and activations, every schedule (from c07_at_most_once, c07_none_lost,
   c07_drop_only_if_refused); "refusing" = the underlying executor refused an activation *)
Theorem c05_call_xor_drop_strand : forall n tr s, Strand.run (Strand.init n) tr = Some s ->
  exec_contract sjob_dec (Strand.pushed s) (Strand.called s) (Strand.dropped s)
                (Strand.refused s > 0) (Strand.quiescent s = true).
Proof. exact strand_contract. Qed.
Print Assumptions c05_call_xor_drop_strand.

(* FairThreadPool, any number of workers > 0 and submitters, Stop | SoftStop | HardStop, every schedule (from
   c08_call_xor_drop and the pool invariant); "refusing" = the stopped bit is set *)
Theorem c05_call_xor_drop_pool : forall n k tr s, Pool.run (Pool.init n k) tr = Some s -> n > 0 ->
  exec_contract Nat.eq_dec (Pool.accepted s ++ Pool.rejected s) (Pool.calls s) (Pool.drops s)
                (Pool.stopped s = true) (Pool.quiescent s /\ Pool.stolen s = []).
Proof. exact pool_contract. Qed.
Print Assumptions c05_call_xor_drop_pool.

(* the four together *)
Theorem c05_call_xor_drop :
  (forall k tr s, srun (sinit k) tr = Some s ->
     exec_contract Nat.eq_dec (s_all s) (s_called s) (s_dropped s) (kalive k = false) (squiescent s)) /\
  (forall n tr s, Strand.run (Strand.init n) tr = Some s ->
     exec_contract sjob_dec (Strand.pushed s) (Strand.called s) (Strand.dropped s)
                   (Strand.refused s > 0) (Strand.quiescent s = true)) /\
  (forall n k tr s, Pool.run (Pool.init n k) tr = Some s -> n > 0 ->
     exec_contract Nat.eq_dec (Pool.accepted s ++ Pool.rejected s) (Pool.calls s) (Pool.drops s)
                   (Pool.stopped s = true) (Pool.quiescent s /\ Pool.stolen s = [])).
Proof. exact (conj simple_contract (conj strand_contract pool_contract)). Qed.
Print Assumptions c05_call_xor_drop.

(* in a pipeline: every Submit is one job with one fate, numbered per executor, Called iff the executor accepted that
   submission, Dropped iff it refused *)
Theorem c05_pipeline_jobs : forall pol ce p o s', drun pol ce dinit p = Some (o, s') ->
  numbered s' /\ Forall (fate_by pol) s'.
Proof. intros. split; [eapply log_numbered|eapply log_fate]; eassumption. Qed.
Print Assumptions c05_pipeline_jobs.

(* "refuses from its k-th Submit on": Dropped = went to MakeInline(StopTag), or to executor x as k-th or later submission *)
Theorem c05_rejects_from_k : forall x k j, fate_by (rejects_from x k) j ->
  (j_fate j = FDrop <-> (j_exec j = XStopped \/ (j_exec j = XManual x /\ k <= S (j_idx j)))).
Proof. exact rejects_from_fate. Qed.
Print Assumptions c05_rejects_from_k.

(* ============================================================================================ placement *)

(* Then(e, f) / Detach(e, f) after any chain q: the step hands exactly one job to e; its callback is invoked at most once,
   and that invocation carries executor e and "submitted" — inside e's Call of that job (or inside the Drop when e
   refused: c05_stopped_target) and nowhere else; everything else that appears ([contrib]'s second case) is the chain the
   callback returned.  The core holds e afterwards whatever was returned. *)
Theorem c05_placement : forall pol ce s q id par e rt body oq s0 o s',
  drun pol ce s q = Some (oq, s0) -> drun pol ce s (PThen q id par (AOn e) rt body) = Some (o, s') ->
  o_exec o = e /\
  contrib pol ce (s0 ++ [Job id e (d_cnt s0 e) (if pol e (d_cnt s0 e) then FCall else FDrop)]) (o_evs oq) e id true body o s'.
Proof. exact placement_on. Qed.
Print Assumptions c05_placement.

Theorem c05_placement_pipe : forall q id par e rt body oq o,
  core_run q = Some oq -> core_run (PThen q id par (AOn e) rt body) = Some o ->
  o_exec o = e /\
  exists s0 s', drun static_pol no_on dinit q = Some (oq, s0) /\
    contrib static_pol no_on (s0 ++ [Job id e (d_cnt s0 e) (if alive e then FCall else FDrop)]) (o_evs oq) e id true body o s'.
Proof. exact placement_pipe. Qed.
Print Assumptions c05_placement_pipe.

(* every invocation marked "submitted", anywhere in any program, belongs to a job of the same step handed to the same executor *)
Theorem c05_submitted_invocations_have_jobs : forall pol ce s p o s', drun pol ce s p = Some (o, s') ->
  exists js, s' = s ++ js /\ Forall (ev_has_job js) (o_evs o).
Proof. exact events_have_jobs. Qed.
Print Assumptions c05_submitted_invocations_have_jobs.

(* co_await On(e): the body runs segment by segment; the code after `co_await On(e)` is invoked inside e ("submitted", executor
   e) as long as the executors accept; at the first refusal the promise is Dropped: the coroutine's Result is StopError, its
   core holds the refusing executor and no later segment runs *)
Theorem c05_coroutine_on : forall pol segs s ex evs r r' ex' evs' s',
  co_segs pol s ex evs segs r = (r', ex', evs', s') ->
  exists done js, evs' = evs ++ map seg_ev done /\ s' = s ++ js /\
    ((segs = done /\ r' = r /\ ex' = last (map fst done) ex /\ Forall2 seg_job done js /\
      Forall (fun j => j_fate j = FCall) js) \/
     (exists x rest jd, segs = done ++ x :: rest /\ r' = Err EStop /\ ex' = fst x /\
        exists jc, js = jc ++ [jd] /\ Forall2 seg_job done jc /\ Forall (fun j => j_fate j = FCall) jc /\
                   seg_job x jd /\ j_fate jd = FDrop)).
Proof. exact co_segs_spec. Qed.
Print Assumptions c05_coroutine_on.

(* ============================================================================================ inheritance *)
(* What the code does (BaseCore::TransferExecutorTo, base_core.hpp:32-38, called from Core::Impl core.hpp:165): a core whose
   callback was attached without an executor takes the executor of the core it is attached to (moved from a unique
   core, copied from a shared one); a core that was given one keeps it.  When the callback returns a Future / Task the step
   is re-entered through Impl with unwrapping != 0 and goes straight to async_done (core.hpp:158-161): no transfer, the
   step's core keeps its own executor, the returned handle's executor is not inherited.  A refused step keeps the refusing
   executor in its core, so the next Then(f) inherits it and is refused as well. *)

(* Then(f): one job, handed to the executor the predecessor's core holds; the invocation carries it *)
Theorem c05_inherit : forall pol ce s q id par rt body oq s0 o s',
  drun pol ce s q = Some (oq, s0) -> drun pol ce s (PThen q id par AInherit rt body) = Some (o, s') ->
  let e := o_exec oq in
  o_exec o = e /\
  contrib pol ce (s0 ++ [Job id e (d_cnt s0 e) (if pol e (d_cnt s0 e) then FCall else FDrop)]) (o_evs oq) e id true body o s'.
Proof. exact placement_inherit. Qed.
Print Assumptions c05_inherit.

(* through any number of ThenInline(f) / Then(f) steps — unwrapping ones and refused ones included — the executor is the
   one the chain [src] ended with: the nearest upstream named executor *)
Theorem c05_inherit_through_chain : forall pol ce steps s src o s',
  Forall unnamed steps -> drun pol ce s (chain src steps) = Some (o, s') ->
  exists os ss, drun pol ce s src = Some (os, ss) /\ o_exec o = o_exec os.
Proof. exact inherit_chain. Qed.
Print Assumptions c05_inherit_through_chain.

Theorem c05_inherit_after_chain : forall pol ce steps s src id par rt body o s',
  Forall unnamed steps ->
  drun pol ce s (PThen (chain src steps) id par AInherit rt body) = Some (o, s') ->
  exists os ss oq s0, drun pol ce s src = Some (os, ss) /\ drun pol ce s (chain src steps) = Some (oq, s0) /\
    o_exec o = o_exec os /\
    contrib pol ce (s0 ++ [Job id (o_exec os) (d_cnt s0 (o_exec os))
                               (if pol (o_exec os) (d_cnt s0 (o_exec os)) then FCall else FDrop)])
            (o_evs oq) (o_exec os) id true body o s'.
Proof. exact inherit_after_chain. Qed.
Print Assumptions c05_inherit_after_chain.

(* after an unwrapping step: whatever the callback returned — a Future / Task living on any executor included — the step's
   core holds the executor the step was attached with (its own or the inherited one), never the returned handle's *)
Theorem c05_step_keeps_its_executor : forall pol ce s q id par a rt body oq s0 o s',
  drun pol ce s q = Some (oq, s0) -> drun pol ce s (PThen q id par a rt body) = Some (o, s') ->
  o_exec o = exec_of a oq.
Proof. exact step_executor. Qed.
Print Assumptions c05_step_keeps_its_executor.

(* after a refusal: the refused step's core keeps the refusing executor; if that executor keeps refusing (Stop is final), the
   next Then(f) inherits it and is refused too — and the same hypothesis holds again for the step after it *)
Theorem c05_inherit_after_refusal : forall pol ce s q id par a rt body oq s0 o1 s1,
  drun pol ce s q = Some (oq, s0) -> drun pol ce s (PThen q id par a rt body) = Some (o1, s1) ->
  (forall m, d_cnt s0 (exec_of a oq) <= m -> pol (exec_of a oq) m = false) ->
  o_exec o1 = exec_of a oq /\ accepts pol s1 (exec_of AInherit o1) = false /\
  (forall m, d_cnt s1 (exec_of AInherit o1) <= m -> pol (exec_of AInherit o1) m = false).
Proof. exact inherit_after_refusal. Qed.
Print Assumptions c05_inherit_after_refusal.

(* read off the program text: [named p] is the executor given to the last Then(e,f) / Run(e,f) / MakeContractOn(e) /
   AsyncContract(e,f) / Schedule(e,f) on the spine of p (MakeInline() if there is none) *)
Theorem c05_inherit_named : forall pol s p o s', drun pol no_on s p = Some (o, s') -> o_exec o = named p.
Proof. exact named_exec. Qed.
Print Assumptions c05_inherit_named.

Theorem c05_inherit_named_step : forall pol s q id par rt body o s',
  drun pol no_on s (PThen q id par AInherit rt body) = Some (o, s') ->
  exists oq s0, drun pol no_on s q = Some (oq, s0) /\ o_exec o = named q /\
    contrib pol no_on (s0 ++ [Job id (named q) (d_cnt s0 (named q))
                                  (if pol (named q) (d_cnt s0 (named q)) then FCall else FDrop)])
            (o_evs oq) (named q) id true body o s'.
Proof. exact inherit_named. Qed.
Print Assumptions c05_inherit_named_step.

Theorem c05_inherit_pipe : forall q id par rt body oq o,
  core_run q = Some oq -> core_run (PThen q id par AInherit rt body) = Some o ->
  o_exec o = named q /\
  exists s0 s', drun static_pol no_on dinit q = Some (oq, s0) /\
    contrib static_pol no_on (s0 ++ [Job id (named q) (d_cnt s0 (named q)) (if alive (named q) then FCall else FDrop)])
            (o_evs oq) (named q) id true body o s'.
Proof. exact inherit_pipe. Qed.
Print Assumptions c05_inherit_pipe.

(* ============================================================================================ ThenInline never submits *)

(* ThenInline(f) / DetachInline(f) after any chain: the job log grows only by what the returned chain (if any) submits;
   the invocation is marked "not submitted"; the step sees its predecessor's Result (never StopError of its own); the
   executor is handed on *)
Theorem c05_inline_never_submits : forall pol ce s q id par rt body oq s0 o s',
  drun pol ce s q = Some (oq, s0) -> drun pol ce s (PThen q id par AInline rt body) = Some (o, s') ->
  o_exec o = o_exec oq /\ darrives pol s0 AInline oq = o_res oq /\
  contrib pol ce s0 (o_evs oq) (o_exec oq) id false body o s'.
Proof. exact inline_step. Qed.
Print Assumptions c05_inline_never_submits.

(* for every program built from executor-less sources and ThenInline steps only, at every depth of returned chains: nothing
   is submitted to any executor, whatever the policy *)
Theorem c05_inline_only_programs : forall pol s p o s',
  inline_only p -> drun pol no_on s p = Some (o, s') -> s' = s /\ Forall (fun ev => ev_sub ev = false) (o_evs o).
Proof. exact inline_only_never_submits. Qed.
Print Assumptions c05_inline_only_programs.

Theorem c05_inline_pipe : forall q id par rt body oq o,
  core_run q = Some oq -> core_run (PThen q id par AInline rt body) = Some o ->
  o_exec o = o_exec oq /\ arrives AInline oq = o_res oq /\
  exists s0 s', drun static_pol no_on dinit q = Some (oq, s0) /\
    contrib static_pol no_on s0 (o_evs oq) (o_exec oq) id false body o s'.
Proof. exact inline_pipe. Qed.
Print Assumptions c05_inline_pipe.

(* ============================================================================================ a stopped target *)

(* the step handed to an executor that refuses: its job is Dropped; what reaches it is StopError whatever the
   predecessor produced; a callback that takes neither Result nor E is skipped — StopError passes on unchanged, nothing is
   invoked; one that does is invoked, with StopError, "inside" the refusing executor's Drop *)
Theorem c05_stopped_target : forall pol ce s q id par a rt body oq s0 o s',
  drun pol ce s q = Some (oq, s0) -> drun pol ce s (PThen q id par a rt body) = Some (o, s') ->
  is_call a = true -> accepts pol s0 (exec_of a oq) = false ->
  let ex := exec_of a oq in
  let s1 := s0 ++ [Job id ex (d_cnt s0 ex) FDrop] in
  match invoked par (Err EStop) with
  | None => o_res o = Err EStop /\ o_evs o = o_evs oq /\ s' = s1
  | Some i => (i = IRes (Err EStop) \/ i = IErr EStop) /\
              exists rest js, o_evs o = o_evs oq ++ Ev id ex true i :: rest /\ s' = s1 ++ js
  end.
Proof. exact refused_step. Qed.
Print Assumptions c05_stopped_target.

Theorem c05_value_callbacks_skipped : forall par, value_class par -> invoked par (Err EStop) = None.
Proof. exact value_class_skips_stop. Qed.
Print Assumptions c05_value_callbacks_skipped.

(* what "reaches" a step in general *)
Theorem c05_refused_sees_stop : forall pol s0 a oq,
  is_call a = true -> accepts pol s0 (exec_of a oq) = false -> darrives pol s0 a oq = Err EStop.
Proof. exact darrives_refused. Qed.
Print Assumptions c05_refused_sees_stop.

Theorem c05_accepted_sees_predecessor : forall pol s0 a oq,
  is_call a = false \/ accepts pol s0 (exec_of a oq) = true -> darrives pol s0 a oq = o_res oq.
Proof. exact darrives_accepted. Qed.
Print Assumptions c05_accepted_sees_predecessor.

(* the chain's final Result (and every invocation, the final executor, the job log) is the sequential reading [dseq]:
   C02's reading in which the Result that reaches a refused step has been replaced by StopError *)
Theorem c05_final_is_sequential_reading : forall pol ce s p o s',
  drun pol ce s p = Some (o, s') -> dseq pol ce s p = (o, s').
Proof. exact drefines. Qed.
Print Assumptions c05_final_is_sequential_reading.

(* the rest of the chain still completes: a program that type-checks runs to the end whichever executors refuse and
   whenever they start to, and ends with a Result of the handle's value type *)
Theorem c05_chain_still_completes : forall p pol ce s, wt p ->
  exists o s', drun pol ce s p = Some (o, s') /\ res_has_ty (o_ty o) (o_res o) = true.
Proof. exact dtyped_runs. Qed.
Print Assumptions c05_chain_still_completes.

Theorem c05_chain_completes_with_reading : forall p pol ce s, wt p ->
  exists o s', drun pol ce s p = Some (o, s') /\ dseq pol ce s p = (o, s').
Proof. exact dtyped_final. Qed.
Print Assumptions c05_chain_completes_with_reading.

(* ============================================================================================ a Task started on an executor *)
(* Task::ToFuture(e) / Detach(e) / Cancel() (= Detach(MakeInline(StopTag))): detail::Start(core, e) walks to the FIRST core of the
   lazy chain, overwrites its executor with e and submits it to e (src/lazy/task_impl.cpp:6-10).  [dlazy pol ce s e p] is that
   start of the lazy program p (a Task source followed by Then steps); ToFuture() / Detach() are [drun] of the same program. *)

(* the first core is handed to e — not to the executor it was built with (the e1 of Schedule(e1, f)) — as one job, Called iff e
   accepts; the core holds e *)
Theorem c05_lazy_head_runs_on_start_executor : forall pol ce s e p o s',
  is_head p = true -> (forall id, ce id = []) -> dlazy pol ce s e p = Some (o, s') ->
  o_exec o = e /\
  exists js, s' = s ++ Job (head_job_id p) e (d_cnt s e) (if accepts pol s e then FCall else FDrop) :: js.
Proof. exact lazy_head_on_e. Qed.
Print Assumptions c05_lazy_head_runs_on_start_executor.

(* every later step contributes what the same step contributes in an eager pipeline: one job at the executor its core holds
   (named, or inherited from the predecessor), at most one invocation carrying it *)
Theorem c05_lazy_step : forall pol ce s e q id par a rt body oq s0 o s',
  dlazy pol ce s e q = Some (oq, s0) -> dlazy pol ce s e (PThen q id par a rt body) = Some (o, s') ->
  o_exec o = exec_of a oq /\
  contrib pol ce (step_st pol s0 a id (exec_of a oq)) (o_evs oq) (exec_of a oq) id (is_call a) body o s'.
Proof. exact lazy_step_contrib. Qed.
Print Assumptions c05_lazy_step.

(* Then(e1, f): inside e1 and nowhere else, whatever executor the Task is started on *)
Theorem c05_lazy_placement : forall pol ce s e q id par e1 rt body oq s0 o s',
  dlazy pol ce s e q = Some (oq, s0) -> dlazy pol ce s e (PThen q id par (AOn e1) rt body) = Some (o, s') ->
  o_exec o = e1 /\
  contrib pol ce (s0 ++ [Job id e1 (d_cnt s0 e1) (if pol e1 (d_cnt s0 e1) then FCall else FDrop)]) (o_evs oq) e1 id true body o s'.
Proof. exact lazy_placement_on. Qed.
Print Assumptions c05_lazy_placement.

(* executor-less steps inherit e from the head down to the first step that names its own: through any number of
   ThenInline(f) / Then(f) steps after the head the core holds e *)
Theorem c05_lazy_inherits_start_executor : forall pol ce e steps s h o s',
  is_head h = true -> (forall id, ce id = []) -> Forall unnamed steps ->
  dlazy pol ce s e (chain h steps) = Some (o, s') -> o_exec o = e.
Proof. exact lazy_inherit_e. Qed.
Print Assumptions c05_lazy_inherits_start_executor.

(* read off the program text: [lnamed e p] = the executor of the last Then(e1, f) on the spine, e if there is none *)
Theorem c05_lazy_named : forall pol ce s e p o s',
  (forall id, ce id = []) -> dlazy pol ce s e p = Some (o, s') -> o_exec o = lnamed e p.
Proof. exact lazy_named. Qed.
Print Assumptions c05_lazy_named.

Theorem c05_lazy_inherit_named_step : forall pol s e q id par rt body o s',
  dlazy pol no_on s e (PThen q id par AInherit rt body) = Some (o, s') ->
  exists oq s0, dlazy pol no_on s e q = Some (oq, s0) /\ o_exec o = lnamed e q /\
    contrib pol no_on (s0 ++ [Job id (lnamed e q) (d_cnt s0 (lnamed e q))
                                  (if pol (lnamed e q) (d_cnt s0 (lnamed e q)) then FCall else FDrop)])
            (o_evs oq) (lnamed e q) id true body o s'.
Proof. exact lazy_inherit_named. Qed.
Print Assumptions c05_lazy_inherit_named_step.

(* a refusing start executor (Cancel()): the head completes with StopError and invokes nothing (a Schedule function taking
   Result / E is invoked with StopError); every step that inherits it is Dropped, sees StopError, value callbacks are skipped; the
   refusal is inherited down the chain *)
Theorem c05_lazy_head_refused : forall pol ce s e p o s',
  is_head p = true -> accepts pol s e = false -> dlazy pol ce s e p = Some (o, s') ->
  match p with
  | PRun _ _ id par _ _ =>
      match invoked par (Err EStop) with
      | None => o_res o = Err EStop /\ o_evs o = []
      | Some i => exists rest, o_evs o = Ev id e true i :: rest
      end
  | _ => o_res o = Err EStop /\ o_evs o = []
  end.
Proof. exact lazy_head_refused. Qed.
Print Assumptions c05_lazy_head_refused.

Theorem c05_lazy_stopped_target : forall pol ce s e q id par a rt body oq s0 o s',
  dlazy pol ce s e q = Some (oq, s0) -> dlazy pol ce s e (PThen q id par a rt body) = Some (o, s') ->
  is_call a = true -> accepts pol s0 (exec_of a oq) = false ->
  let ex := exec_of a oq in
  let s1 := s0 ++ [Job id ex (d_cnt s0 ex) FDrop] in
  match invoked par (Err EStop) with
  | None => o_res o = Err EStop /\ o_evs o = o_evs oq /\ s' = s1
  | Some i => (i = IRes (Err EStop) \/ i = IErr EStop) /\
              exists rest js, o_evs o = o_evs oq ++ Ev id ex true i :: rest /\ s' = s1 ++ js
  end.
Proof. exact lazy_refused_step. Qed.
Print Assumptions c05_lazy_stopped_target.

Theorem c05_lazy_refusal_inherited : forall pol ce s e q id par a rt body oq s0 o1 s1,
  dlazy pol ce s e q = Some (oq, s0) -> dlazy pol ce s e (PThen q id par a rt body) = Some (o1, s1) ->
  (forall m, d_cnt s0 (exec_of a oq) <= m -> pol (exec_of a oq) m = false) ->
  o_exec o1 = exec_of a oq /\ accepts pol s1 (exec_of AInherit o1) = false /\
  (forall m, d_cnt s1 (exec_of AInherit o1) <= m -> pol (exec_of AInherit o1) m = false).
Proof. exact lazy_refusal_inherited. Qed.
Print Assumptions c05_lazy_refusal_inherited.

(* for Schedule / LazyContract heads the start on e is exactly the pipeline whose head was built on e, started the default way:
   every statement above about drun (c05_pipeline_jobs, c05_final_is_sequential_reading, c05_chain_still_completes, ...) applies *)
Theorem c05_lazy_start_is_rebuilt_head : forall pol ce e p s,
  sched_head p = true -> dlazy pol ce s e p = drun pol ce s (rehead e p).
Proof. exact lazy_is_rehead. Qed.
Print Assumptions c05_lazy_start_is_rebuilt_head.

(* ============================================================================================ the link to C02's model *)

Theorem c05_model_is_pipe : forall p s, option_map fst (drun static_pol no_on s p) = core_run p.
Proof. exact drun_static. Qed.
Print Assumptions c05_model_is_pipe.

Theorem c05_named_pipe : forall p o, core_run p = Some o -> o_exec o = named p.
Proof. exact named_pipe. Qed.
Print Assumptions c05_named_pipe.

(* ============================================================================================ non-vacuity
   cases run on the real library by harness/h_c05 (final Result, invocations with their stamps, jobs as observed there) *)
Local Open Scope Z_scope.

(* "1:1": Run(m0, f1).Then(f2(Result)).Then(m1, f3(int)).Then(f4(Err)) with m1 refusing from its first Submit:
   f1, f2 inside m0's jobs 0 and 1; f3's job Dropped and f3 skipped; f4 inherits m1, is Dropped too and recovers from StopError *)
Example c05_witness_refused_then_inherited :
  obs_c05 (Some (1%nat, 1%nat)) []
    (PThen (PThen (PThen (PRun WO (XManual 0) 1 PNone TInt (hb (BRetI 2))) 2 PResult AInherit TInt (hb (BRetI 1)))
                  3 PValue (AOn (XManual 1)) TInt (hb (BRetI 0))) 4 PError AInherit TInt (hb (BRetI 7)))
  = [1; 1; 1; 0; 106; 11; 3;
     1; 10; 1; 4; 1; 0;   2; 10; 1; 0; 0; 2;   4; 11; 1; 2; 2; -1;
     4;  1; 10; 0; 1;  2; 10; 1; 1;  3; 11; 0; 0;  4; 11; 1; 0].
Proof. vm_compute. reflexivity. Qed.

(* a Task coroutine `co_await On(m0); co_await On(m1); co_return 5` followed by Then(f2): f2 inherits m1 *)
Example c05_witness_coroutine_on :
  obs_c05 None [(1%nat, [(XManual 0, 11%nat); (XManual 1, 12%nat)])]
    (PToFuture (PThen (PCoro WT TInt 1 (Val (VInt 5))) 2 PResult AInherit TInt (hb (BRetI 1))))
  = [1; 1; 1; 0; 6; 11; 4;
     1; 0; 0; 4; 1; 0;   11; 10; 1; 4; 1; 0;   12; 11; 1; 4; 1; 0;   2; 11; 1; 0; 0; 5;
     3;  11; 10; 0; 1;  12; 11; 0; 1;  2; 11; 1; 1].
Proof. vm_compute. reflexivity. Qed.

(* the same with m1 refusing: the coroutine is dropped at its second co_await, f2 sees StopError inside m1's Drop *)
Example c05_witness_coroutine_dropped :
  obs_c05 (Some (1%nat, 1%nat)) [(1%nat, [(XManual 0, 11%nat); (XManual 1, 12%nat)])]
    (PToFuture (PThen (PCoro WT TInt 1 (Val (VInt 5))) 2 PResult AInherit TInt (hb (BRetI 1))))
  = [1; 1; 1; 0; 100; 11; 3;
     1; 0; 0; 4; 1; 0;   11; 10; 1; 4; 1; 0;   2; 11; 1; 0; 2; -1;
     3;  11; 10; 0; 1;  12; 11; 0; 0;  2; 11; 1; 0].
Proof. vm_compute. reflexivity. Qed.

(* Schedule(m0, f1).Then(f2).Then(f3).ToFuture(m1), m1 refusing from its 2nd Submit: f1 runs inside m1 (not m0, which sees nothing),
   f2 and f3 inherit m1 and are Dropped *)
Example c05_witness_lazy_start :
  obs_c05s (Some (XManual 1)) (Some (1%nat, 2%nat)) []
    (PThen (PThen (PRun WT (XManual 0) 1 PNone TInt (hb (BRetI 2))) 2 PResult AInherit TInt (hb (BRetI 1))) 3 PResult AInherit TInt (hb (BRetI 1)))
  = [1; 1; 1; 0; 100; 11; 3;  1; 11; 1; 4; 1; 0;  2; 11; 1; 0; 2; -1;  3; 11; 1; 0; 2; -1;
     3;  1; 11; 0; 1;  2; 11; 1; 0;  3; 11; 2; 0].
Proof. vm_compute. reflexivity. Qed.

(* MakeTask(1).Then(f2).Then(m0, f3).ToFuture(m2): the ReadyCore is m2's job 0, f2 inherits m2, f3 stays on m0 *)
Example c05_witness_lazy_ready_head :
  obs_c05s (Some (XManual 2)) None []
    (PThen (PThen (PReady WT TInt (Val (VInt 1))) 2 PResult AInherit TInt (hb (BRetI 1))) 3 PResult (AOn (XManual 0)) TInt (hb (BRetI 1)))
  = [1; 1; 1; 0; 3; 10; 2;  2; 12; 1; 0; 0; 1;  3; 10; 1; 0; 0; 2;  3;  0; 12; 0; 1;  2; 12; 1; 1;  3; 10; 0; 1].
Proof. vm_compute. reflexivity. Qed.

(* the executors: a Manual run with a re-entrant Submit, and the stopped Inline *)
Example c05_witness_manual :
  exists s, srun (sinit KManual) [SSubmit 1; SSubmit 2; SPop; SSubmit 3; SRet 1; SPop; SRet 2; SPop; SRet 3] = Some s /\
            s_called s = [1; 2; 3]%nat /\ s_dropped s = [] /\ s_queue s = [] /\ s_running s = [].
Proof. eexists. vm_compute. repeat split. Qed.

Example c05_witness_stopped_inline :
  exists s, srun (sinit (KInline true)) [SSubmit 1; SSubmit 2] = Some s /\ s_called s = [] /\ s_dropped s = [1; 2]%nat.
Proof. eexists. vm_compute. repeat split. Qed.

(* the model refuses what the code cannot do: Drain on an empty queue, a job submitted twice *)
Example c05_rejects :
  srun (sinit KManual) [SPop] = None /\ srun (sinit (KInline false)) [SSubmit 1; SRet 1; SSubmit 1] = None.
Proof. split; vm_compute; reflexivity. Qed.
