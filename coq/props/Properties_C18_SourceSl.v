(* C18 at the tree under test, part 4: the sleep-map lookup after a timed wait is guarded. *)
From Coq Require Import List Arith Bool.
Import ListNotations.
From YV Require Import model.FiberSync gen.FiberSyncSource props.Properties_C18.

Lemma source_sleep_map_guarded : v_sl_guard source_variant = true.
Proof. reflexivity. Qed.

Theorem c18_source_sleep_map_lookup_safe :
  (forall tr s, Mx.run source_variant Mx.init tr = Some s -> ub (Mx.sm s) = false) /\
  (forall tr s, Rc.run source_variant Rc.init tr = Some s -> ub (Rc.sm s) = false) /\
  (forall tr s, Sh.run source_variant Sh.init tr = Some s -> ub (Sh.sm s) = false).
Proof. exact (c18_sleep_map_lookup_safe source_variant source_sleep_map_guarded). Qed.
Print Assumptions c18_source_sleep_map_lookup_safe.
