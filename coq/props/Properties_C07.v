(* C07 — Strand: one job at a time, in submission order, none lost.
   Statements only; proofs are in proofs/StrandProofs.v.  [tr] ranges over every sequence of atomic operations of
   every party (every schedule); [n] is the number of submitting threads (arbitrary); the number of activations and of
   threads of the underlying executor running them is unbounded (the activations are a multiset); the underlying
   executor starts a pending activation by Call or by Drop whenever it likes (events EStartCall / EStartDrop).
   Ghost histories: [pushed] in the order of the successful pushing CASes, [called] in the order the Calls began,
   [dropped], [droptaken] (what Drop activations took out of the word), [active] (Call begun, not ended). *)
From Coq Require Import List Arith Bool Permutation Sorted.
Import ListNotations.
From YV Require Import model.Strand model.StrandStack proofs.StrandProofs proofs.StrandStackProofs.

(* ---- (c) never two at once -------------------------------------------------------------------------- *)

(* At most one job of the strand is between the beginning and the end of its Call, at any time. *)
Theorem c07_one_job_at_a_time :
  forall n tr s, run (init n) tr = Some s -> length (active s) <= 1.
Proof. intros n tr s H. exact (one_job_at_a_time s (inv_reach n tr s H)). Qed.
Print Assumptions c07_one_job_at_a_time.

(* At most one activation is inside Strand::Call (from its entry to its release CAS / its resubmission). *)
Theorem c07_one_batch_at_a_time :
  forall n tr s, run (init n) tr = Some s -> sumf incall (acts s) <= 1.
Proof. intros n tr s H. exact (one_batch_at_a_time s (inv_reach n tr s H)). Qed.
Print Assumptions c07_one_batch_at_a_time.

(* ---- (a) order ---------------------------------------------------------------------------------------- *)

(* What has been Called, then what the running batch still has to call, then the inbox oldest first, is exactly the
   push history minus what Drop activations took: the strand is a FIFO of the surviving pushes. *)
Theorem c07_fifo :
  forall n tr s, run (init n) tr = Some s ->
  called s ++ todos (acts s) ++ rev (inbox (jobs s)) = filter (notin (droptaken s)) (pushed s).
Proof. intros n tr s H. exact (call_order_eq s (inv_reach n tr s H)). Qed.
Print Assumptions c07_fifo.

(* Jobs are Called in the order their pushing CAS succeeded. *)
Theorem c07_call_order :
  forall n tr s, run (init n) tr = Some s ->
  forall a b, before (called s) a b -> before (pushed s) a b.
Proof. intros n tr s H a b. exact (call_order s a b (inv_reach n tr s H)). Qed.
Print Assumptions c07_call_order.

(* ... and none is overtaken: once b's Call has begun, every job pushed before b was Called before b, unless a Drop
   activation took it. *)
Theorem c07_no_overtaking :
  forall n tr s, run (init n) tr = Some s ->
  forall a b, In b (called s) -> before (pushed s) a b -> before (called s) a b \/ In a (droptaken s).
Proof. intros n tr s H a b. exact (no_skip s a b (inv_reach n tr s H)). Qed.
Print Assumptions c07_no_overtaking.

(* Program order of each submitting thread: thread t's k-th Submit pushes job (t, k), its pushes are 0, 1, 2, ... in
   this order, and the jobs of t that were Called were Called in increasing k. *)
Theorem c07_program_order :
  forall n tr s, run (init n) tr = Some s -> forall t,
  map snd (filter (fun j => Nat.eqb (fst j) t) (pushed s)) = seq 0 (nseq_of s t) /\
  StronglySorted lt (map snd (filter (fun j => Nat.eqb (fst j) t) (called s))).
Proof. intros n tr s H t. exact (program_order s t (inv_reach n tr s H)). Qed.
Print Assumptions c07_program_order.

(* ---- (b) none lost, none twice ------------------------------------------------------------------------ *)

(* At any time: no job is finished twice or both Called and Dropped, only pushed jobs are finished, and a job is
   Dropped only if a Drop activation took it out of the word. *)
Theorem c07_at_most_once :
  forall n tr s, run (init n) tr = Some s ->
  NoDup (called s ++ dropped s) /\ incl (called s ++ dropped s) (pushed s) /\
  (forall j, In j (dropped s) -> In j (droptaken s)).
Proof. intros n tr s H. exact (at_most_once s (inv_reach n tr s H)). Qed.
Print Assumptions c07_at_most_once.

(* When nobody is inside Submit and no activation exists (pending or running): every pushed job has been Called or
   Dropped, exactly once in total, and the word is the idle marker again. *)
Theorem c07_none_lost :
  forall n tr s, run (init n) tr = Some s -> quiescent s = true ->
  Permutation (pushed s) (called s ++ dropped s) /\ NoDup (called s ++ dropped s) /\ jobs s = Idle.
Proof. intros n tr s H. exact (none_lost_idle s (inv_reach n tr s H)). Qed.
Print Assumptions c07_none_lost.

(* Jobs are Dropped only if the underlying executor refused (started an activation by Drop); if it never did, every
   job is Called, in exactly the push order. *)
Theorem c07_drop_only_if_refused :
  forall n tr s, run (init n) tr = Some s -> refused s = 0 ->
  dropped s = [] /\ (quiescent s = true -> called s = pushed s).
Proof. intros n tr s H. exact (drop_only_if_refused s (inv_reach n tr s H)). Qed.
Print Assumptions c07_drop_only_if_refused.

(* ---- (d) never blocks ---------------------------------------------------------------------------------- *)

(* In every reachable state, every activation that occupies a thread of the underlying executor can take its next
   step at once: no step of Call/Drop waits for another thread, and Call/Drop never dereference the marker or null
   (that is where [step] would be [None]). *)
Theorem c07_never_blocks :
  forall n tr s, run (init n) tr = Some s ->
  forall a e, In a (acts s) -> act_ev s a = Some e -> step s e <> None.
Proof. intros n tr s H a e. exact (activation_never_blocks s a e (inv_reach n tr s H)). Qed.
Print Assumptions c07_never_blocks.

(* Likewise a thread inside Strand::Submit always has an enabled step (its CAS either succeeds or reloads). *)
Theorem c07_submit_never_blocks :
  forall s t e, sub_ev s t = Some e -> step s e <> None.
Proof. exact submitter_never_blocks. Qed.
Print Assumptions c07_submit_never_blocks.

(* No deadlock: unless everything has finished, somebody can move (a pending activation can always be started). *)
Theorem c07_progress :
  forall n tr s, run (init n) tr = Some s -> quiescent s = false -> exists e s', step s e = Some s'.
Proof. intros n tr s H. exact (progress s (inv_reach n tr s H)). Qed.
Print Assumptions c07_progress.

(* The strand's own work is bounded by the number of jobs: in any run, the events other than the submitters' loads and
   failed CASes number at most 18 per pushed job (so the activations cannot spin or resubmit forever). *)
Theorem c07_bounded_work :
  forall n tr s, run (init n) tr = Some s -> own_steps tr + potential s <= 18 * length (pushed s).
Proof. exact bounded_work. Qed.
Print Assumptions c07_bounded_work.

(* ---- (e) a strand is an executor: strands over strands ---------------------------------------------------- *)

(* Seen through Submit / Call / Drop of its jobs, every run of the strand is a run of the executor-interface transition
   system [xstep] (a job is Called or Dropped only while pending, hence at most once and never both), with the same
   Call and Drop histories; and when the strand is quiescent nothing is left pending or running: given that the
   underlying executor finishes every activation it was given (by Call or Drop), the strand finishes every job it was
   given (by Call or Drop).  That is the contract the strand itself assumes of its underlying executor. *)
Theorem c07_strand_is_executor :
  forall n tr s, run (init n) tr = Some s ->
  exists x, xrun xinit (flat_map upper tr) = Some x /\
            xcalled x = called s /\ xdropped x = dropped s /\ xall x = pushed s /\
            (quiescent s = true -> xcomplete x = true).
Proof. exact strand_refines_executor. Qed.
Print Assumptions c07_strand_is_executor.

(* As a client of its underlying executor the strand hands itself over at most once at a time: it is never queued twice
   and never submitted again before the previous activation has given it up, which is what an executor with intrusive
   jobs (another strand) requires of the objects submitted to it. *)
Theorem c07_single_submission :
  forall n tr s, run (init n) tr = Some s -> must s + sumf handed (acts s) <= 1.
Proof. intros n tr s H. exact (single_submission s (inv_reach n tr s H)). Qed.
Print Assumptions c07_single_submission.

(* A strand over a strand: the two-level system (the outer strand's activations are jobs of the inner strand, its
   Call/Drop run inside the inner job's Call/Drop) — every run projects to a run of each level, the inner strand is
   never given the outer strand twice, and when the whole stack is quiescent every job given to the outer strand has been
   Called or Dropped exactly once. *)
Theorem c07_strand_over_strand :
  forall n1 n2 tr p, run2 (init2 n1 n2) tr = Some p ->
  (exists tri, run (init n1) tri = Some (inner p)) /\
  (exists tro, run (init n2) tro = Some (outer p)) /\
  proxies_pending p <= 1 /\
  (quiescent2 p = true ->
   Permutation (pushed (outer p)) (called (outer p) ++ dropped (outer p)) /\ NoDup (called (outer p) ++ dropped (outer p))).
Proof. exact strand_over_strand. Qed.
Print Assumptions c07_strand_over_strand.

(* ---- non-vacuity: complete runs of the real implementation (harness/h_c07.cpp), replayed ------------------- *)

(* man/S2J1W1/ok: a push lands between the batch's last load and its release CAS; the CAS fails, the strand is
   resubmitted and the late job runs in a second batch *)
Example c07_witness_window :
  exists s, run (init 2)
    [ELoad 0 PIdle; EPush 0 0; ESubmit 0; ELoad 1 (PJob (0, 0)); EStartCall; EXchgNull (PJob (0, 0));
     ERunBegin (0, 0); ECasFail 1 PNull; ERunEnd (0, 0); ELoadAfter PNull; EPush 1 0;
     ECasIdleFail (PJob (1, 0)); EResubmit; EStartCall; EXchgNull (PJob (1, 0)); ERunBegin (1, 0);
     ERunEnd (1, 0); ELoadAfter PNull; ECasIdleOk] = Some s /\
    quiescent s = true /\ called s = [(0, 0); (1, 0)] /\ dropped s = [] /\ jobs s = Idle.
Proof. eexists. vm_compute. repeat split. Qed.

(* man/S2J1W1/ref (and pool/S2J1W2/hard): the second activation is refused: the late job is Dropped *)
Example c07_witness_refused :
  exists s, run (init 2)
    [ELoad 0 PIdle; EPush 0 0; ESubmit 0; ELoad 1 (PJob (0, 0)); EStartCall; EXchgNull (PJob (0, 0));
     ERunBegin (0, 0); ECasFail 1 PNull; EPush 1 0; ERunEnd (0, 0); ELoadAfter (PJob (1, 0)); EResubmit;
     EStartDrop; EXchgIdle (PJob (1, 0)); EDropJob (1, 0); EDropDone] = Some s /\
    quiescent s = true /\ called s = [(0, 0)] /\ dropped s = [(1, 0)] /\ refused s = 1.
Proof. eexists. vm_compute. repeat split. Qed.

(* man/S2J1W1/ok --weak 1: a spurious failure of the weak CAS *)
Example c07_witness_spurious :
  exists s, run (init 2)
    [ELoad 0 PIdle; EPush 0 0; ESubmit 0; ELoad 1 (PJob (0, 0)); ECasFail 1 (PJob (0, 0)); EStartCall;
     EXchgNull (PJob (0, 0)); ERunBegin (0, 0); ERunEnd (0, 0); ECasFail 1 PNull; EPush 1 0;
     ELoadAfter (PJob (1, 0)); EResubmit; EStartCall; EXchgNull (PJob (1, 0)); ERunBegin (1, 0);
     ERunEnd (1, 0); ELoadAfter PNull; ECasIdleOk] = Some s /\
    quiescent s = true /\ called s = [(0, 0); (1, 0)].
Proof. eexists. vm_compute. repeat split. Qed.

(* the model does reject what the code cannot do: a second runner while one holds the token, a Call on an empty word *)
Example c07_rejects_second_runner :
  run (init 1) [ELoad 0 PIdle; EPush 0 0; ESubmit 0; EStartCall; EStartCall] = None.
Proof. vm_compute. reflexivity. Qed.
Example c07_rejects_call_on_idle :
  run (init 1) [ELoad 0 PIdle; EPush 0 0; ESubmit 0; EStartDrop; EXchgIdle (PJob (0, 0)); EXchgNull PIdle] = None.
Proof. vm_compute. reflexivity. Qed.
