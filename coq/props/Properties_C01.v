(* C01 — A fulfilled Promise is delivered to its Future exactly once, intact.
   Statements only; proofs are in proofs/HandoffProofs.v.  [tr] ranges over every sequence of atomic
   operations and observations of the two parties, i.e. every schedule; [k] over the consumer kinds; the
   stored value is arbitrary (it enters through the event [ESet r]). *)
From Coq Require Import List Arith Bool.
Import ListNotations.
From YV Require Import model.Handoff proofs.HandoffProofs.

(* Not early, not torn: whatever a continuation receives or Get returns is exactly the Result that was
   Set (so it had been set), never garbage, never read from a destroyed state. *)
Theorem c01_delivered_is_what_was_set :
  forall k tr s, run (init k) tr = Some s ->
  forall v, In v (cbs s ++ gots s) -> exists r, v = Some r /\ slot s = Some r.
Proof. intros k tr s H. exact (delivered_is_set s (inv_reach k tr s H)). Qed.
Print Assumptions c01_delivered_is_what_was_set.

(* Never duplicated: at most one callback invocation, at most one destruction of the shared state, at most
   one party ever responsible for running the continuation. *)
Theorem c01_at_most_once :
  forall k tr s, run (init k) tr = Some s ->
  length (cbs s) <= 1 /\ frees s <= 1 /\ length (tokens s) <= 1.
Proof. intros k tr s H. exact (at_most_once s (inv_reach k tr s H)). Qed.
Print Assumptions c01_at_most_once.

(* Never lost: once the producer has exchanged, an attached continuation is the producer's job, a
   continuation whose attach failed is the consumer's job, and a sleeping waiter (timed or not, even in the
   middle of resetting after a timeout) has been signalled. *)
Theorem c01_never_lost :
  forall k tr s, run (init k) tr = Some s -> ppc s = 2 ->
  match cpc s with
  | CAttached => tokens s = [P]
  | CInline | CInlineT => tokens s = [C]
  | CWaiting | CTWaiting | CReset1 | CTWaitingU => signalled s = true
  | _ => True
  end.
Proof. intros k tr s H. exact (not_lost s (inv_reach k tr s H)). Qed.
Print Assumptions c01_never_lost.

(* Exactly once, at the end of any complete run: the continuation ran once with the value set (nothing ran
   for a dropped future; Get&& returned it), and the state was released exactly once. *)
Theorem c01_exactly_once :
  forall k tr s, run (init k) tr = Some s -> terminal s = true ->
  exists r, slot s = Some r /\ frees s = 1 /\ alive s = false /\
  match kd s with
  | KAttach | KConnect => cbs s = [Some r]
  | KSilent => cbs s = []
  | KGet => cbs s = [] /\ exists l, gots s = l ++ [Some r]
  end.
Proof. intros k tr s H. exact (terminal_exact s (inv_reach k tr s H)). Qed.
Print Assumptions c01_exactly_once.

(* Ready() == true only once the Result can be read. *)
Theorem c01_ready_sound :
  forall k tr s, run (init k) tr = Some s ->
  Forall (fun p => fst p = true -> snd p = true) (readys s) /\ (w s = WR -> exists r, slot s = Some r).
Proof.
  intros k tr s H. split.
  - exact (ready_sound s (inv_reach k tr s H)).
  - exact (word_result_means_set s (inv_reach k tr s H)).
Qed.
Print Assumptions c01_ready_sound.

(* Nothing runs if the Future was dropped. *)
Theorem c01_dropped_silent :
  forall k tr s, run (init k) tr = Some s -> kd s = KSilent \/ kd s = KGet -> cbs s = [].
Proof. intros k tr s H. exact (silent_no_callback s (inv_reach k tr s H)). Qed.
Print Assumptions c01_dropped_silent.

(* Non-vacuity: complete runs exist for every kind (these are traces of the real implementation). *)
Example c01_witness_attach_producer_fires :
  exists s, run (init KAttach) [ELd C WE; ECas true; ESet 1042; EXchg WC; ECb P; ELd P WR] = Some s /\
            terminal s = true /\ cbs s = [Some 1042].
Proof. eexists. vm_compute. repeat split. Qed.
Example c01_witness_attach_consumer_fires :
  exists s, run (init KAttach) [ELd C WE; ESet 1042; EXchg WE; ECas false; ECb C; ELd C WR] = Some s /\
            terminal s = true /\ cbs s = [Some 1042].
Proof. eexists. vm_compute. repeat split. Qed.
Example c01_witness_get :
  exists s, run (init KGet) [EWaitBegin; ELd C WE; ECas true; ESet 7; EXchg WC; ELd C WR; EGot] = Some s /\
            terminal s = true /\ gots s = [Some 7].
Proof. eexists. vm_compute. repeat split. Qed.
Example c01_witness_silent :
  exists s, run (init KSilent) [ESet 7; ELd C WE; EXchg WE; ECas false; ELd C WR] = Some s /\
            terminal s = true /\ cbs s = [].
Proof. eexists. vm_compute. repeat split. Qed.
(* a timed wait that gives up leaves the future intact: the later Get&& still receives the value *)
Example c01_witness_timeout_then_get :
  exists s, run (init KGet) [ETWaitBegin; ELd C WE; ECas true; ELd C WC; ECas true; ETWaitRet false; ESet 7; EXchg WE;
                             EWaitBegin; ELd C WR; ELd C WR; EGot] = Some s /\
            terminal s = true /\ gots s = [Some 7] /\ readys s = [(false, false)].
Proof. eexists. vm_compute. repeat split. Qed.
(* the producer's exchange lands between the timed-out waiter's reset load and its CAS: the reset fails, the
   waiter waits for the signal and reports success *)
Example c01_witness_timeout_reset_race :
  exists s, run (init KGet) [ETWaitBegin; ELd C WE; ECas true; ELd C WC; ESet 7; EXchg WC; ECas false; ETWaitRet true;
                             EWaitBegin; ELd C WR; ELd C WR; EGot] = Some s /\
            terminal s = true /\ gots s = [Some 7] /\ readys s = [(true, true)].
Proof. eexists. vm_compute. repeat split. Qed.
Example c01_witness_connect :
  exists s, run (init KConnect) [ESet 7; EXchg WE; ELd C WR; ELd C WR; ELd C WR; ECb C] = Some s /\
            terminal s = true /\ cbs s = [Some 7].
Proof. eexists. vm_compute. repeat split. Qed.
