#!/bin/bash
# Runs the quick tier of every claimed check on /repo's working tree, one after another; summary at the end.
cd "$(dirname "$0")/.."
ids=$(python3 -c "import json; print(' '.join(c['property_id'] for c in json.load(open('MANIFEST.json'))['checks']))")
[ -n "$1" ] && ids="$*"
for id in $ids; do
  s=$(date +%s)
  out=$(./check $id --tier ${VERIF_TIER:-quick} 2>&1); rc=$?
  echo "$id rc=$rc $(( $(date +%s) - s ))s :: $(echo "$out" | tail -1)"
  echo "$out" | grep -E "VIOLATION|KNOWN-FINDING" | head -3
done
