"""Common flow of every ./check run:  proofs -> correspondence -> oracle -> decision -> evidence."""
import json, os, re, subprocess, sys, time, traceback

sys.path.insert(0, os.path.dirname(os.path.abspath(__file__)))
import vlib
from vlib import VERIF, COQ


class Check:
    def __init__(self, pid, tier, seed):
        self.pid = pid
        self.tier = tier
        self.seed = seed
        self.t0 = time.time()
        self.cov = dict(obligations=0, discharged=0, checker_cmd="", trusted_base=[],
                        evaluations=0, distinct_nontrivial=0, rule="", samples=[],
                        traces_validated_against_impl=0, exhaustive=False)
        self.assumptions = []
        self.hits = []          # concrete failing inputs on the implementation: dict(what, replay={...})
        self.broken = []        # proof obligations / correspondences that no longer check: dict(name, detail)
        self.notes = []
        self.known_printed = []

    # ------------------------------------------------------------ proof stage
    def prove(self, props_file, extra_targets=()):
        """(Re)compile the property file and everything it depends on; count its theorems."""
        rel = props_file
        src = os.path.join(COQ, rel)
        text = open(src).read()
        theorems = re.findall(r"^\s*(?:Theorem|Corollary)\s+([A-Za-z0-9_']+)", text, re.M)
        vo = rel[:-2] + ".vo"
        try:
            os.remove(os.path.join(COQ, vo))
        except FileNotFoundError:
            pass
        ok, log = vlib.coq_make([vo] + list(extra_targets))
        self.cov["obligations"] += len(theorems)
        self.cov["checker_cmd"] = "cd /verif/coq && coq_makefile -f _CoqProject -o Makefile && make -k -j16 " + vo + \
                                  "  (coqc 8.16.1 kernel; every property theorem followed by Print Assumptions)"
        # assumptions printed by the property file
        closed = len(re.findall(r"Closed under the global context", log))
        axioms = sorted(set(re.findall(r"^([A-Za-z0-9_.']+) :", "\n".join(
            blk for blk in re.findall(r"Axioms:\n((?:.+\n)+)", log)), re.M)))
        self.cov["print_assumptions"] = dict(closed=closed, axioms=axioms)
        if ok:
            self.cov["discharged"] += len(theorems)
        else:
            # which obligations still compiled?  Anything in a file that failed counts as not discharged.
            failed = re.findall(r'File "\./([^"]+)", line (\d+)', log)
            detail = log[-3000:]
            names = []
            for f, line in failed:
                names.append("%s:%s" % (f, line))
            thm = None
            for f, line in failed:
                try:
                    src_lines = open(os.path.join(COQ, f)).read().split("\n")
                    for i in range(int(line) - 1, -1, -1):
                        m = re.match(r"\s*(?:Theorem|Lemma|Corollary|Example|Definition|Fixpoint)\s+([A-Za-z0-9_']+)",
                                     src_lines[i])
                        if m:
                            thm = "%s (%s:%s)" % (m.group(1), f, line)
                            break
                except Exception:
                    pass
                if thm:
                    break
            self.broken.append(dict(name="proof obligation " + (thm or ", ".join(names) or props_file),
                                    detail=detail))
        self.proof_log = log
        return ok

    def gen_obligation(self, name, ok, detail=""):
        """An obligation checked outside Coq's make (translator output equalities are inside Coq; this is for
        correspondences)."""
        if not ok:
            self.broken.append(dict(name=name, detail=detail))

    # ------------------------------------------------------------ decision
    def finish(self):
        wall = time.time() - self.t0
        kf = vlib.known_findings()
        known = [k for k in kf if k[0] == "known" and k[1] == self.pid]
        new_hits = []
        for h in self.hits:
            matched = None
            for k in known:
                key = _field(k[2], "key")
                if key and key == h.get("key"):
                    matched = k
                    break
            if matched:
                line = "KNOWN-FINDING: %s" % matched[2]
                if line not in self.known_printed:
                    self.known_printed.append(line)
            else:
                new_hits.append(h)
        # a broken obligation that is explained by a known finding (same key) is not a new violation
        new_broken = []
        for b in self.broken:
            if b.get("key") and any(_field(k[2], "key") == b["key"] for k in known):
                continue
            new_broken.append(b)
        for line in self.known_printed:
            print(line)
        violations = 0
        os.makedirs(os.path.join(VERIF, "evidence", "replay"), exist_ok=True)
        out_lines = []
        if new_hits:
            for i, h in enumerate(new_hits[:1]):
                path = os.path.join(VERIF, "evidence", "replay", "%s-%d.json" % (self.pid, i))
                json.dump(dict(property=self.pid, what=h["what"], replay=h.get("replay"),
                               broken=[b["name"] for b in self.broken]), open(path, "w"), indent=1)
                out_lines.append("VIOLATION property=%s replay=%s" % (self.pid, path))
                violations += 1
        elif new_broken:
            path = os.path.join(VERIF, "evidence", "replay", "%s-broken.json" % self.pid)
            json.dump(dict(property=self.pid, failing_input=None,
                           no_longer_checks=[dict(name=b["name"], detail=b["detail"][-4000:]) for b in new_broken]),
                      open(path, "w"), indent=1)
            out_lines.append("VIOLATION property=%s replay=%s no-failing-input-found" % (self.pid, path))
            violations += 1
        self.cov["known_findings_reported"] = len(self.known_printed)
        if self.notes:
            self.cov["notes"] = self.notes
        vlib.write_evidence(self.pid, self.tier, self.seed, self.cov, wall, violations, self.assumptions)
        for b in self.broken[:4]:
            print("BROKEN: %s" % b["name"])
            print("   " + b["detail"][-1500:].replace("\n", "\n   "))
        if len(self.broken) > 4:
            print("BROKEN: ... and %d more" % (len(self.broken) - 4))
        for h in new_hits[:5]:
            print("FAIL: %s" % h["what"])
        for l in out_lines:
            print(l)
        print("%s %s: obligations %d/%d, evaluations %d, distinct non-trivial %d, %.1fs%s" % (
            self.pid, self.tier, self.cov["discharged"], self.cov["obligations"], self.cov["evaluations"],
            self.cov["distinct_nontrivial"], wall, "" if not violations else "  ** VIOLATION **"))
        return 1 if violations else 0


def _field(text, name):
    m = re.search(r"\b%s=(\S+)" % name, text)
    return m.group(1) if m else None


def run_harness(exe, args, timeout=1800, env=None):
    """Run a harness; return (list of parsed JSON lines, raw stdout, returncode)."""
    e = dict(os.environ)
    e.setdefault("ASAN_OPTIONS", "detect_leaks=1:detect_stack_use_after_return=1:abort_on_error=0:exitcode=71")
    e.setdefault("UBSAN_OPTIONS", "halt_on_error=1:exitcode=72:print_stacktrace=1")
    if env:
        e.update(env)
    try:
        r = subprocess.run([exe] + list(args), stdout=subprocess.PIPE, stderr=subprocess.PIPE, text=True,
                           timeout=timeout, env=e)
        out, err, rc = r.stdout, r.stderr, r.returncode
    except subprocess.TimeoutExpired as ex:
        out = ex.stdout.decode() if isinstance(ex.stdout, bytes) else (ex.stdout or "")
        err = "TIMEOUT"
        rc = 124
    rows = []
    for line in out.split("\n"):
        line = line.strip()
        if line.startswith("{"):
            try:
                rows.append(json.loads(line))
            except Exception:
                pass
    return rows, out, err, rc


def main(argv, modules):
    import argparse
    ap = argparse.ArgumentParser()
    ap.add_argument("pid")
    ap.add_argument("--tier", default=os.environ.get("VERIF_TIER", "quick"))
    ap.add_argument("--replay", default=None)
    a = ap.parse_args(argv)
    seed = int(os.environ.get("VERIF_SEED", "1"))
    pid = a.pid.upper()
    mod = modules(pid)
    ck = Check(pid, a.tier if a.tier in ("quick", "thorough") else "quick", seed)
    if a.replay:
        return mod.replay(ck, a.replay)
    try:
        mod.main(ck)
    except vlib.BuildError as e:
        # the tree does not build in the configuration the check needs: the property is no longer shown
        ck.broken.append(dict(name="build of /repo working tree for the check", detail=str(e)))
    except Exception:
        ck.broken.append(dict(name="check machinery raised an exception", detail=traceback.format_exc()))
    return ck.finish()
