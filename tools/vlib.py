"""Shared helpers for the /verif checks: building /repo's working tree in scratch space,
running Coq, writing evidence.  Everything is offline and rebuilt from /repo's current
working tree (never HEAD)."""
import hashlib, json, os, shutil, subprocess, sys, time, fcntl

VERIF = os.path.dirname(os.path.dirname(os.path.abspath(__file__)))
REPO = os.environ.get("VERIF_REPO", "/repo")
CACHE = os.environ.get("VERIF_CACHE", "/var/tmp/yaclib-verif-cache")
COQ = os.path.join(VERIF, "coq")
NPROC = int(os.environ.get("VERIF_JOBS", "0")) or (os.cpu_count() or 4)
if os.path.exists("/var/tmp/yaclib-verif-lowjobs"):
    NPROC = 4   # set while many engineers share the machine

CONFIGS = {
    # FIBER backend + coroutines + hooks; asserts of the library live (YACLIB_LOG=DEBUG)
    "F": dict(cmake=["-DYACLIB_FAULT=FIBER", "-DYACLIB_FLAGS=CORO", "-DYACLIB_CXX_STANDARD=20",
                     "-DYACLIB_LOG=DEBUG", "-DCMAKE_BUILD_TYPE=None",
                     "-DCMAKE_CXX_FLAGS=-DYACLIB_VERIF -O1 -g"],
              cxx=["-std=c++20", "-fcoroutines", "-DYACLIB_VERIF", "-DYACLIB_LOG_DEBUG", "-O1", "-g"]),
    # same with ASan+UBSan
    "FA": dict(cmake=["-DYACLIB_FAULT=FIBER", "-DYACLIB_FLAGS=CORO;ASAN;UBSAN", "-DYACLIB_CXX_STANDARD=20",
                      "-DYACLIB_LOG=DEBUG", "-DCMAKE_BUILD_TYPE=None",
                      "-DCMAKE_CXX_FLAGS=-DYACLIB_VERIF -O1 -g"],
               cxx=["-std=c++20", "-fcoroutines", "-DYACLIB_VERIF", "-DYACLIB_LOG_DEBUG", "-O1", "-g",
                    "-fsanitize=address,undefined", "-fno-omit-frame-pointer"]),
    # FIBER without symmetric transfer
    "FN": dict(cmake=["-DYACLIB_FAULT=FIBER", "-DYACLIB_FLAGS=CORO;DISABLE_SYMMETRIC_TRANSFER",
                      "-DYACLIB_CXX_STANDARD=20", "-DYACLIB_LOG=DEBUG", "-DCMAKE_BUILD_TYPE=None",
                      "-DCMAKE_CXX_FLAGS=-DYACLIB_VERIF -O1 -g"],
               cxx=["-std=c++20", "-fcoroutines", "-DYACLIB_VERIF", "-DYACLIB_LOG_DEBUG", "-O1", "-g"]),
    # THREAD backend (atomics wrapped around std::atomic)
    "T": dict(cmake=["-DYACLIB_FAULT=THREAD", "-DYACLIB_CXX_STANDARD=20", "-DCMAKE_BUILD_TYPE=None",
                     "-DCMAKE_CXX_FLAGS=-DYACLIB_VERIF -O1 -g"],
              cxx=["-std=c++20", "-DYACLIB_VERIF", "-O1", "-g"]),
    # the shipped configuration: no fault layer, C++17 (+ coroutines off)
    "B": dict(cmake=["-DCMAKE_BUILD_TYPE=None", "-DCMAKE_CXX_FLAGS=-O1 -g"],
              cxx=["-std=c++17", "-O1", "-g"]),
    # shipped configuration, C++20 with coroutines (allocation counts with co_await)
    "BC": dict(cmake=["-DYACLIB_FLAGS=CORO", "-DYACLIB_CXX_STANDARD=20", "-DCMAKE_BUILD_TYPE=None",
                      "-DCMAKE_CXX_FLAGS=-O1 -g"],
               cxx=["-std=c++20", "-fcoroutines", "-O1", "-g"]),
    # real threads under ThreadSanitizer (no fault layer), C++20 with coroutines
    "TS": dict(cmake=["-DYACLIB_FLAGS=TSAN;CORO", "-DYACLIB_CXX_STANDARD=20", "-DCMAKE_BUILD_TYPE=None",
                      "-DCMAKE_CXX_FLAGS=-O1 -g"],
               cxx=["-std=c++20", "-fcoroutines", "-O1", "-g", "-fsanitize=thread"]),
}

SRC_DIRS = ["include", "src", "cmake"]
SRC_FILES = ["CMakeLists.txt"]


def sh(cmd, **kw):
    kw.setdefault("stdout", subprocess.PIPE)
    kw.setdefault("stderr", subprocess.STDOUT)
    kw.setdefault("text", True)
    return subprocess.run(cmd, **kw)


def tree_files():
    out = []
    for d in SRC_DIRS:
        for root, dirs, files in os.walk(os.path.join(REPO, d)):
            dirs.sort()
            for f in sorted(files):
                out.append(os.path.join(root, f))
    for f in SRC_FILES:
        out.append(os.path.join(REPO, f))
    return out


def tree_hash():
    h = hashlib.sha1()
    for p in tree_files():
        h.update(os.path.relpath(p, REPO).encode())
        h.update(b"\0")
        with open(p, "rb") as fh:
            h.update(fh.read())
        h.update(b"\0")
    return h.hexdigest()[:16]


def _prune_cache(keep):
    try:
        ents = [os.path.join(CACHE, e) for e in os.listdir(CACHE) if not e.endswith(".lock")]
    except FileNotFoundError:
        return
    ents = [e for e in ents if os.path.isdir(e)]
    ents.sort(key=lambda e: os.path.getmtime(e), reverse=True)
    kept = 0
    for e in ents:
        if os.path.basename(e) == keep:
            continue
        kept += 1
        if kept >= 16:  # keep the current tree and some others (mutation runs and parallel agents use scratch trees)
            shutil.rmtree(e, ignore_errors=True)


def build(cfg):
    """Build /repo's working tree in configuration cfg.  Returns dict(src=, build=, lib=, cxx=[...])."""
    th = tree_hash()
    os.makedirs(CACHE, exist_ok=True)
    root = os.path.join(CACHE, th)
    lock = open(os.path.join(CACHE, th + ".lock"), "w")
    fcntl.flock(lock, fcntl.LOCK_EX)
    try:
        src = os.path.join(root, "src")
        if not os.path.isdir(src):
            tmp = src + ".tmp%d" % os.getpid()
            shutil.rmtree(tmp, ignore_errors=True)
            os.makedirs(tmp)
            for d in SRC_DIRS:
                shutil.copytree(os.path.join(REPO, d), os.path.join(tmp, d))
            for f in SRC_FILES:
                shutil.copy2(os.path.join(REPO, f), os.path.join(tmp, f))
            os.rename(tmp, src)
        os.utime(root, None)
        _prune_cache(th)
        bdir = os.path.join(root, "b_" + cfg)
        lib = os.path.join(bdir, "src", "libyaclib.a")
        if not os.path.exists(os.path.join(bdir, ".ok")):
            shutil.rmtree(bdir, ignore_errors=True)
            c = CONFIGS[cfg]
            r = sh(["cmake", "-G", "Ninja", "-S", src, "-B", bdir] + c["cmake"])
            if r.returncode != 0:
                raise BuildError("cmake configure failed for %s:\n%s" % (cfg, r.stdout[-4000:]))
            r = sh(["cmake", "--build", bdir, "-j%d" % NPROC])
            if r.returncode != 0:
                raise BuildError("library build failed for %s:\n%s" % (cfg, r.stdout[-6000:]))
            open(os.path.join(bdir, ".ok"), "w").write("ok")
    finally:
        fcntl.flock(lock, fcntl.LOCK_UN)
        lock.close()
    c = CONFIGS[cfg]
    return dict(src=src, build=bdir, lib=lib, hash=th,
                cxx=c["cxx"] + ["-I" + os.path.join(src, "include"), "-I" + os.path.join(bdir, "include"),
                                 "-I" + os.path.join(src, "src"), "-I" + os.path.join(VERIF, "harness")])


class BuildError(Exception):
    pass


def compile_harness(cfg, sources, name, extra=()):
    """Compile harness sources against the library built in cfg; cached by content hash."""
    b = build(cfg)
    h = hashlib.sha1()
    for s in sources + [os.path.join(VERIF, "harness", f) for f in sorted(os.listdir(os.path.join(VERIF, "harness")))
                        if f.endswith(".hpp")]:
        h.update(open(s, "rb").read())
    h.update(" ".join(extra).encode())
    exe = os.path.join(b["build"], "h_%s_%s" % (name, h.hexdigest()[:12]))
    if not os.path.exists(exe):
        tmp = exe + ".tmp%d" % os.getpid()
        cmd = ["g++"] + b["cxx"] + list(extra) + sources + [b["lib"], "-lpthread", "-o", tmp]
        r = sh(cmd)
        if r.returncode != 0:
            raise BuildError("harness %s failed to compile in %s:\n%s" % (name, cfg, r.stdout[-8000:]))
        os.rename(tmp, exe)
    return exe, b


# ---------------------------------------------------------------- Coq

def gen_coqproject():
    """_CoqProject lists every .v under lib/ model/ proofs/ props/ gen/ (nobody edits it by hand)."""
    files = []
    for d in ("lib", "gen", "model", "proofs", "props"):
        p = os.path.join(COQ, d)
        if os.path.isdir(p):
            files += sorted(os.path.join(d, f) for f in os.listdir(p) if f.endswith(".v"))
    text = "-Q . YV\n" + "\n".join(files) + "\n"
    cp = os.path.join(COQ, "_CoqProject")
    old = open(cp).read() if os.path.exists(cp) else ""
    if old != text:
        with open(cp + ".tmp%d" % os.getpid(), "w") as f:
            f.write(text)
        os.replace(cp + ".tmp%d" % os.getpid(), cp)
        return True
    return False


def coq_make(targets, timeout=900):
    """make the given .vo targets (paths relative to coq/). Returns (ok, log)."""
    changed = gen_coqproject()
    if changed or not os.path.exists(os.path.join(COQ, "Makefile")):
        r = sh(["coq_makefile", "-f", "_CoqProject", "-o", "Makefile"], cwd=COQ)
        if r.returncode != 0:
            return False, r.stdout
    try:
        r = sh(["make", "-k", "-j%d" % NPROC] + list(targets), cwd=COQ, timeout=timeout)
    except subprocess.TimeoutExpired as e:
        return False, "coq make timed out after %ds" % timeout
    return r.returncode == 0, r.stdout


def coqc_eval(vfile_text, name, timeout=600):
    """Compile a throw-away .v (written under coq/cases/) against the built development; return output."""
    d = os.path.join(COQ, "cases")
    os.makedirs(d, exist_ok=True)
    p = os.path.join(d, name + ".v")
    open(p, "w").write(vfile_text)
    try:
        r = sh(["coqc", "-Q", COQ, "YV", p], timeout=timeout, cwd=d)
    except subprocess.TimeoutExpired:
        return False, "coqc timed out"
    finally:
        pass
    for ext in (".v", ".vo", ".vok", ".vos", ".glob"):
        try:
            os.remove(os.path.join(d, name + ext))
        except FileNotFoundError:
            pass
    try:
        os.remove(os.path.join(d, "." + name + ".aux"))
    except FileNotFoundError:
        pass
    return r.returncode == 0, r.stdout


# ---------------------------------------------------------------- evidence

def write_evidence(pid, tier, seed, coverage, wall_s, violations, assumptions, level="proof"):
    os.makedirs(os.path.join(VERIF, "evidence"), exist_ok=True)
    ev = dict(property_id=pid, tier=tier, seed=seed, level=level, coverage=coverage,
              assumptions=assumptions, wall_s=round(wall_s, 2), violations=violations)
    p = os.path.join(VERIF, "evidence", pid + ".json")
    with open(p + ".tmp", "w") as f:
        json.dump(ev, f, indent=1, sort_keys=False)
        f.write("\n")
    os.replace(p + ".tmp", p)
    return p


def known_findings():
    """Parse known_findings.txt -> list of (kind, property, text)."""
    out = []
    p = os.path.join(VERIF, "known_findings.txt")
    if not os.path.exists(p):
        return out
    for line in open(p):
        line = line.strip()
        if not line or line.startswith("#"):
            continue
        kind, _, rest = line.partition(":")
        rest = rest.strip()
        prop = ""
        for tok in rest.split():
            if tok.startswith("property="):
                prop = tok[len("property="):]
        out.append((kind.strip(), prop, rest))
    return out


# ---------------------------------------------------------------- evaluating the model inside Coq

def coq_eval_cases(header, terms, name, shard=400, timeout=900):
    """Each term is a Gallina expression of type `list nat`.  Evaluates them with vm_compute in shards run in
    parallel and returns a list of int lists (None for a term whose shard failed)."""
    import concurrent.futures, re
    shards = [terms[i:i + shard] for i in range(0, len(terms), shard)]

    def run(idx_sh):
        idx, sh = idx_sh
        body = [header, "Set Printing Depth 1000000.", "Set Printing Width 1000000."]
        for t in sh:
            body.append("Eval vm_compute in (%s)." % t)
        ok, out = coqc_eval("\n".join(body) + "\n", "%s_%d_%d" % (name, os.getpid(), idx), timeout=timeout)
        res = []
        # every result looks like "     = [a; b; c]\n     : list nat"
        for m in re.finditer(r"=\s*(\[[^\]]*\]|nil)\s*:\s*list nat", out.replace("\n", " ")):
            txt = m.group(1)
            res.append([int(x) for x in re.findall(r"\d+", txt)])
        if not ok or len(res) != len(sh):
            return [None] * len(sh), out
        return res, out

    results = []
    logs = []
    with concurrent.futures.ThreadPoolExecutor(max_workers=NPROC) as ex:
        for res, out in ex.map(run, list(enumerate(shards))):
            results.extend(res)
            logs.append(out)
    return results, logs
