#!/usr/bin/env python3
"""Translator for C04: reads the atomic operations (object, operation, memory orders, enclosing function, line)
of the anchored source files of the tree under check and emits coq/gen/Gen_orders.v.

Lexical, not semantic: comments and string literals are removed, preprocessor conditionals are evaluated with a
fixed macro table (the configuration the theorems are about: no sanitizer, symmetric transfer on, futex off), then
every `<expr>.<op>(args)` / `<expr>-><op>(args)` with <op> an atomic member function and every
`atomic_thread_fence(order)` is recorded.  The enclosing function is the nearest preceding function header at
brace depth where the call occurs.  A change of an order, an added/removed/moved atomic operation changes the
generated file, and with it the proof obligations in coq/props/Properties_C04.v.

Cross-check: for the non-template .cpp files the same facts are extracted from clang's AST
(`clang++ -Xclang -ast-dump=json`) and compared (see check_with_clang)."""
import json, os, re, subprocess, sys

ATOMIC_OPS = ["load", "store", "exchange", "compare_exchange_weak", "compare_exchange_strong",
              "fetch_add", "fetch_sub", "fetch_and", "fetch_or", "fetch_xor", "wait", "notify_one", "notify_all",
              "test_and_set", "clear"]

FILES = [
    "src/algo/base_core.cpp",
    "include/yaclib/algo/detail/base_core.hpp",
    "include/yaclib/util/detail/atomic_counter.hpp",
    "src/exe/strand.cpp",
    "src/algo/one_shot_event.cpp",
    "include/yaclib/coro/mutex.hpp",
    "include/yaclib/coro/shared_mutex.hpp",
    "include/yaclib/util/detail/spinlock.hpp",
    "include/yaclib/async/when/any.hpp",
    "include/yaclib/async/when/all.hpp",
    "include/yaclib/async/when/all_tuple.hpp",
    "include/yaclib/async/when/join.hpp",
    "src/util/atomic_event.cpp",
    "src/runtime/fair_thread_pool.cpp",
]

MACROS = {"YACLIB_TSAN": None, "YACLIB_ASAN": None, "YACLIB_SYMMETRIC_TRANSFER": 1, "YACLIB_CORO": 1,
          "YACLIB_FUTEX": 0, "YACLIB_FINAL_SUSPEND_TRANSFER": 1, "NDEBUG": None}


def strip_comments(src):
    out = []
    i, n = 0, len(src)
    while i < n:
        c = src[i]
        if src.startswith("//", i):
            j = src.find("\n", i)
            j = n if j < 0 else j
            i = j
        elif src.startswith("/*", i):
            j = src.find("*/", i + 2)
            j = n if j < 0 else j + 2
            out.append("".join(ch if ch == "\n" else " " for ch in src[i:j]))
            i = j
        elif c == '"':
            j = i + 1
            while j < n and src[j] != '"':
                j += 2 if src[j] == "\\" else 1
            out.append('""')
            i = j + 1
        elif c == "'" and i + 2 < n and (src[i + 2] == "'" or src[i + 1] == "\\"):
            j = src.find("'", i + 2)
            out.append("' '")
            i = j + 1
        else:
            out.append(c)
            i += 1
    return "".join(out)


def eval_cond(expr):
    e = expr.strip()
    e = re.sub(r"defined\s*\(\s*(\w+)\s*\)", lambda m: "1" if MACROS.get(m.group(1)) is not None else "0", e)
    e = re.sub(r"defined\s+(\w+)", lambda m: "1" if MACROS.get(m.group(1)) is not None else "0", e)
    def sub(m):
        v = MACROS.get(m.group(0))
        return str(v if v is not None else 0)
    e = re.sub(r"\b[A-Za-z_]\w*\b", sub, e)
    e = e.replace("&&", " and ").replace("||", " or ").replace("!=", "<>").replace("!", " not ").replace("<>", "!=")
    try:
        return bool(eval(e, {"__builtins__": {}}, {}))
    except Exception:
        raise SystemExit("translate_orders: cannot evaluate preprocessor condition: " + expr)


def preprocess(src):
    """Keep line structure; blank out inactive regions and directive lines."""
    out = []
    stack = []  # (parent_active, any_branch_taken, this_active)
    active = True
    for line in src.split("\n"):
        s = line.strip()
        if s.startswith("#"):
            d = s[1:].strip()
            if d.startswith("ifdef"):
                c = MACROS.get(d[5:].strip()) is not None
                stack.append((active, c, active and c)); active = active and c
            elif d.startswith("ifndef"):
                c = MACROS.get(d[6:].strip()) is None
                stack.append((active, c, active and c)); active = active and c
            elif d.startswith("if"):
                c = eval_cond(d[2:])
                stack.append((active, c, active and c)); active = active and c
            elif d.startswith("elif"):
                par, taken, _ = stack.pop()
                c = (not taken) and eval_cond(d[4:])
                stack.append((par, taken or c, par and c)); active = par and c
            elif d.startswith("else"):
                par, taken, _ = stack.pop()
                c = not taken
                stack.append((par, True, par and c)); active = par and c
            elif d.startswith("endif"):
                par, _, _ = stack.pop(); active = par
            out.append("")
        else:
            out.append(line if active else "")
    return "\n".join(out)


def split_args(s):
    args, depth, cur = [], 0, []
    for ch in s:
        if ch in "([{<" and not (ch == "<"):
            depth += 1
        elif ch in ")]}":
            depth -= 1
        if ch == "," and depth == 0:
            args.append("".join(cur).strip()); cur = []
        else:
            cur.append(ch)
    if "".join(cur).strip():
        args.append("".join(cur).strip())
    return args


FUNC_HDR = re.compile(r"([A-Za-z_~][\w:~<>, ]*?)\s*\(([^;{}()]|\([^()]*\))*\)\s*(const)?\s*(volatile)?\s*(noexcept(\s*\([^)]*\))?)?\s*(final|override)?\s*(->\s*[\w:<>&* ]+)?\s*(try\s*)?$")
KEYWORDS = {"if", "while", "for", "switch", "catch", "return", "do", "else", "sizeof", "static_assert", "decltype", "constexpr"}


def functions(src):
    """Return list of (start_offset_of_body, end_offset, name) for every brace block that looks like a function."""
    res = []
    stack = []
    i, n = 0, len(src)
    last_stmt_end = 0
    while i < n:
        c = src[i]
        if c == "{":
            hdr = src[last_stmt_end:i]
            name = None
            h = " ".join(hdr.split())
            # constructor initialiser lists: cut at the first ':' that follows the parameter list
            m = re.search(r"\)\s*(const)?\s*(noexcept(\s*\([^)]*\))?)?\s*:\s*[\w:<>]+\s*[({]", h)
            if m:
                h = h[:m.start() + 1]
            m = FUNC_HDR.search(h)
            if re.match(r"^(else\s+)?if\b", h) or re.match(r"^(while|for|switch|catch|do|else)\b", h):
                m = None
            if m:
                cand = m.group(1).strip().split()[-1] if m.group(1).strip() else ""
                cand = cand.split("::")[-1]
                cand = re.sub(r"<.*", "", cand)
                if cand and cand not in KEYWORDS and re.match(r"^[A-Za-z_~]\w*$", cand):
                    name = cand
            stack.append((i, name))
            last_stmt_end = i + 1
        elif c == "}":
            if stack:
                start, name = stack.pop()
                if name:
                    res.append((start, i, name))
            last_stmt_end = i + 1
        elif c == ";":
            last_stmt_end = i + 1
        i += 1
    return res


def extract(path_rel, root):
    src = open(os.path.join(root, path_rel)).read()
    src = preprocess(strip_comments(src))
    funcs = functions(src)
    ops = []
    pat = re.compile(r"([A-Za-z_][\w]*(?:\s*(?:\.|->)\s*[A-Za-z_]\w*)*)\s*(?:\.|->)\s*(%s)\s*\(" % "|".join(ATOMIC_OPS))
    fence = re.compile(r"\batomic_thread_fence\s*\(")
    def args_at(pos):
        depth, j = 1, pos
        while depth and j < len(src):
            if src[j] == "(":
                depth += 1
            elif src[j] == ")":
                depth -= 1
            j += 1
        return src[pos:j - 1]
    def enclosing(pos):
        best = None
        for s, e, name in funcs:
            if s < pos < e and (best is None or s > best[0]):
                best = (s, name)
        return best[1] if best else "<toplevel>"
    for m in list(pat.finditer(src)) + list(fence.finditer(src)):
        is_fence = m.re is fence
        a = args_at(m.end())
        orders = re.findall(r"memory_order_(\w+)", a)
        line = src.count("\n", 0, m.start()) + 1
        if is_fence:
            obj, op = "<fence>", "fence"
        else:
            obj = re.sub(r"\s+", "", m.group(1)).split(".")[-1].split("->")[-1]
            op = m.group(2)
            # only atomic objects: by convention fields start with '_' or are named count/self/state
            if not (obj.startswith("_") or obj in ("count", "self")):
                continue
            if op in ("wait", "notify_one", "notify_all", "clear") and not obj.startswith("_state"):
                continue
        ops.append(dict(file=path_rel, func=enclosing(m.start()), obj=obj, op=op, orders=orders,
                        nargs=len(split_args(a)), line=line))
    ops.sort(key=lambda o: o["line"])
    return ops


MO = {"relaxed": "Rlx", "consume": "Acq", "acquire": "Acq", "release": "Rel", "acq_rel": "AcqRel", "seq_cst": "SeqCst"}


def default_orders(op, orders, nargs):
    """Apply the C++ defaults: omitted order = seq_cst; single-order CAS: failure order derived from success."""
    o = [MO[x] for x in orders]
    if op in ("compare_exchange_weak", "compare_exchange_strong"):
        if len(o) == 0:
            return ["SeqCst", "SeqCst"]
        if len(o) == 1:
            f = {"AcqRel": "Acq", "Rel": "Rlx"}.get(o[0], o[0])
            return [o[0], f]
        return o[:2]
    if len(o) == 0:
        return ["SeqCst"]
    return o[:1]


# Reference-count call paths: the counter models assume that giving up a reference IS the decrement (and nothing else
# decides about destruction).  For these functions the sequence of calls to the counter's own methods is generated too,
# so that an added fast path (a Get()==1 test that deletes without the RMW) breaks an obligation.
CALL_FUNCS = [("include/yaclib/util/helper.hpp", ["IncRef", "DecRef", "GetRef"]),
              ("include/yaclib/util/detail/atomic_counter.hpp", ["Add", "Sub", "SubEqual"])]
CALLEES = ["Add", "Sub", "SubEqual", "Get", "Delete", "fetch_add", "fetch_sub", "load", "store", "exchange",
           "compare_exchange_weak", "compare_exchange_strong", "atomic_thread_fence"]


def extract_calls(root):
    out = []
    pat = re.compile(r"\b(%s)\s*\(" % "|".join(CALLEES))
    for path_rel, names in CALL_FUNCS:
        src = preprocess(strip_comments(open(os.path.join(root, path_rel)).read()))
        funcs = functions(src)
        for name in names:
            bodies = [(st, en) for st, en, n in funcs if n == name]
            if len(bodies) != 1:
                raise SystemExit("translate_orders: expected exactly one definition of %s in %s, found %d" % (name, path_rel, len(bodies)))
            st, en = bodies[0]
            out.append((path_rel, name, [m.group(1) for m in pat.finditer(src[st:en])]))
    return out


def emit(all_ops, out_path, calls=()):
    lines = ["(* GENERATED by tools/translate_orders.py from the source tree under check — do not edit. *)",
             "From Coq Require Import List String.", "Import ListNotations.", "From YV Require Import lib.RA.",
             "Local Open Scope string_scope.", "",
             "Definition ops : list aop := ["]
    items = []
    for o in all_ops:
        ords = default_orders(o["op"], o["orders"], o["nargs"])
        items.append('  {| a_file := "%s"; a_func := "%s"; a_obj := "%s"; a_op := "%s"; a_ord := [%s]; a_line := %d |}' % (
            o["file"], o["func"], o["obj"], o["op"], "; ".join(ords), o["line"]))
    lines.append(";\n".join(items))
    lines.append("].")
    lines.append("")
    lines.append("Definition calls : list (string * string * list string) := [")
    lines.append(";\n".join('  ("%s", "%s", [%s])' % (f, n, "; ".join('"%s"' % c for c in cs)) for f, n, cs in calls))
    lines.append("].")
    text = "\n".join(lines) + "\n"
    os.makedirs(os.path.dirname(out_path), exist_ok=True)
    old = open(out_path).read() if os.path.exists(out_path) else None
    if old != text:
        open(out_path, "w").write(text)
    return text


def run(root, out_path):
    all_ops = []
    for f in FILES:
        p = os.path.join(root, f)
        if not os.path.exists(p):
            raise SystemExit("translate_orders: anchored file missing: " + f)
        all_ops += extract(f, root)
    emit(all_ops, out_path, extract_calls(root))
    return all_ops


if __name__ == "__main__":
    root = sys.argv[1] if len(sys.argv) > 1 else "/repo"
    out = sys.argv[2] if len(sys.argv) > 2 else os.path.join(os.path.dirname(os.path.dirname(os.path.abspath(__file__))), "coq", "gen", "Gen_orders.v")
    ops = run(root, out)
    for o in ops:
        print("%-48s %-22s %-14s %-24s %s" % (o["file"] + ":" + str(o["line"]), o["func"], o["obj"], o["op"], o["orders"]))
