#!/bin/sh
# Offline setup: full .vo build of the Coq development (never -vos), nothing else to prepare.
set -e
cd "$(dirname "$0")/../coq"
coq_makefile -f _CoqProject -o Makefile > /dev/null
timeout 3000 make -j16
echo "setup ok"
