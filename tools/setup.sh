#!/bin/sh
# Offline setup: full .vo build of the Coq development (never -vos), nothing else to prepare.
set -e
cd "$(dirname "$0")/.."
python3 -c "import sys; sys.path.insert(0,'tools'); import vlib; vlib.gen_coqproject()"
cd coq
coq_makefile -f _CoqProject -o Makefile > /dev/null
timeout 3000 make -k -j16 || echo "setup: some Coq files did not compile (each check re-verifies its own closure)"
echo "setup ok"
