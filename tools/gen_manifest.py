#!/usr/bin/env python3
"""Regenerates MANIFEST.json from the table below (one entry per claimed property)."""
import json, os
HERE = os.path.dirname(os.path.dirname(os.path.abspath(__file__)))

TB = ("Trusted: Coq 8.16.1 kernel (+ vm_compute for trace replay and witnesses), no axioms (Print Assumptions: closed) unless "
      "named; the hand-written model is tied to the code by replaying implementation traces/programs through the model's "
      "executable step function inside Coq; harness oracle, trace mapping, YACLIB_VERIF hooks and the FIBER backend "
      "(sequentially consistent, cooperative) are trusted; C++ below the modelled protocol is exercised, not modelled.")

CLAIMED = {
    "C01": dict(
        text="Machine-checked invariant of the Handoff transition system (one atomic operation per step) proves, for every "
             "schedule, consumer kind and stored value: delivered values are exactly what was Set, at most one callback / "
             "release / responsible party, nothing lost once both sides passed their RMW, exactly-once at termination, "
             "Ready()=true only with a constructed Result, nothing runs for a dropped future. Tied to the code by an "
             "exhaustive enumeration of all interleavings of the real Future/Promise code (48 producer x consumer cells) whose "
             "every trace is replayed through the model in Coq and must be accepted with equal observables.",
        design="DESIGN.md §5 C01",
        technique="Coq invariant proof over an executable LTS + exhaustive trace correspondence (vm_compute replay)"),
    "C04": dict(
        text="Release/acquire view machine (lib/RA.v) with three protocol models proved race free for EVERY execution of the machine "
             "(not only sequentially consistent ones): the callback word (Set/attach/Ready/Get, unique and shared observers), the "
             "reference/event counter for any number of holders (last decrement frees after all accesses, destroyed at most once), "
             "and ownership transfer through any hand-off word for any number of threads (Strand inbox, OneShotEvent head, coroutine "
             "Mutex sender word, Spinlock, SharedMutex state, When flags), each under side conditions on memory orders that are shown "
             "necessary by racy witness executions. The orders and the operation skeleton are regenerated from the source on every run "
             "by a translator, and the theorems instantiate the side conditions on the generated file, so a weakened order or a moved "
             "atomic operation breaks a proof obligation. Search for a concrete failing run: necessity witnesses re-evaluated under the "
             "current orders, and 11 multi-threaded client programs on real threads under ThreadSanitizer.",
        design="DESIGN.md §5 C04",
        technique="Coq proofs in a release/acquire view machine over memory orders translated from the source + TSan search",
        note="Trusted: Coq kernel + vm_compute; the lexical translator tools/translate_orders.py; the RA machine is promise-free (no "
             "load buffering), stores append to the modification order; the ownership discipline given to RAOwn comes from the SC "
             "protocol models; hardware/compiler behaviour is not observed; TSan is used only to look for a failing run. Partial: "
             "covers the hand-off words named in the property's anchors, not arbitrary client programs over the whole API."),
    "C03": dict(
        text="Lifetime model of a pipeline of any length (Own.v: construction, attach, functor call, caller release, functor "
             "destruction, publication, final release, for every interleaving of the chain-building consumer with the firing chain, "
             "whether callbacks run, are skipped, throw or are dropped by a rejecting executor): proved that nothing is touched after "
             "release, cores are released only after publication, at quiescence every core is released and every functor destroyed "
             "exactly once, no functor invoked twice; plus the Future/Promise state layer (released exactly once for every consumer "
             "kind, nothing read after release: Handoff) and the reference-count layer (any number of owners, destroyed at most once "
             "and after all accesses under release/acquire: RACounter). Tied to the code by replaying every distinct trace of real "
             "pipelines of instrumented functors/values (4 sources x 4 endings x 3 attach modes x 3 functor kinds per step, producer "
             "racing the consumer; exhaustive for one step) through Own.run and comparing counts; the harness oracle checks instance "
             "construction/destruction balance, use-after-destruction and allocation balance at quiescence on every execution; the "
             "thorough tier repeats under ASan/UBSan.",
        design="DESIGN.md §5 C03, §10",
        technique="Coq invariant proofs over lifetime/ownership models + trace correspondence + sanitizer-backed exploration",
        note="Trusted: Coq kernel + vm_compute; trace mapping and instrumentation of harness/h_c03.cpp; FIBER backend; ASan/UBSan. "
             "Partial: the harness covers unique-future pipelines; combinators, shared states, coroutine frames and executor jobs are "
             "covered by the Handoff/RACounter theorems and by the oracles of the C06/C07/C08/C09/C13 checks, not re-run here; heap "
             "misuse invisible to instance tracking, allocation balance and ASan is not detected."),
}

PENDING = {}

def main():
    props = [json.loads(l) for l in open(os.path.join(HERE, "properties.jsonl"))]
    checks, na = [], []
    for p in props:
        pid = p["id"]
        if pid in CLAIMED:
            c = CLAIMED[pid]
            checks.append(dict(
                property_id=pid,
                quick_cmd="./check %s --tier quick" % pid,
                thorough_cmd="./check %s --tier thorough" % pid,
                evidence_file="/verif/evidence/%s.json" % pid,
                replay_cmd_template="./check %s --replay {path}" % pid,
                engine="coq-lts",
                level_claimed=dict(category=c.get("category", "proof"), text=c["text"], design_ref=c["design"]),
                level_note=c.get("note", TB),
                technique=c["technique"]))
        else:
            na.append(dict(property_id=pid, reason=PENDING.get(pid, "not claimed yet: the Coq model, proofs and correspondence harness for this property are not built in this commit (plan in DESIGN.md §5); no check is registered rather than a weaker technique")))
    m = dict(
        version=1,
        setup_cmd="cd /verif && ./tools/setup.sh",
        hooks=dict(guard="YACLIB_VERIF",
                   enable="checks copy /repo's working tree to /var/tmp/yaclib-verif-cache/<tree-hash>/ and build it with "
                          "-DYACLIB_FAULT=FIBER -DYACLIB_FLAGS=CORO -DYACLIB_CXX_STANDARD=20 -DCMAKE_CXX_FLAGS='-DYACLIB_VERIF -O1 -g' (tools/vlib.py)",
                   baseline_off_cmd="cmake --build /repo/_build -j16 && ctest --test-dir /repo/_build -j8 --timeout 900",
                   source_commits=json.load(open(os.path.join(HERE, "hooks.json")))["source_commits"],
                   add_only=True),
        engines=[dict(name="coq-lts", path="/verif/coq", serves_properties=sorted(CLAIMED),
                      kind_free_text="Coq 8.16.1 development: executable transition-system models (coq/model), invariant proofs "
                                     "(coq/proofs), property theorems (coq/props); ./check replays implementation traces through "
                                     "the models with vm_compute")],
        checks=checks,
        notes="Every check rebuilds /repo's working tree (not HEAD) in scratch space and re-compiles its property file. "
              "known_findings.txt lists recorded genuine defects (KNOWN-FINDING lines) and fixed ones.",
        not_applicable=na)
    json.dump(m, open(os.path.join(HERE, "MANIFEST.json"), "w"), indent=1)
    print("MANIFEST.json: %d checks, %d not claimed" % (len(checks), len(na)))

if __name__ == "__main__":
    main()
