#!/usr/bin/env python3
"""Regenerates MANIFEST.json from the table below (one entry per claimed property)."""
import json, os
HERE = os.path.dirname(os.path.dirname(os.path.abspath(__file__)))

TB = ("Trusted: Coq 8.16.1 kernel (+ vm_compute for trace replay and witnesses), no axioms (Print Assumptions: closed) unless "
      "named; the hand-written model is tied to the code by replaying implementation traces/programs through the model's "
      "executable step function inside Coq; harness oracle, trace mapping, YACLIB_VERIF hooks and the FIBER backend "
      "(sequentially consistent, cooperative) are trusted; C++ below the modelled protocol is exercised, not modelled.")

CLAIMED = {
    "C01": dict(
        text="Machine-checked invariant of the Handoff transition system (one atomic operation per step) proves, for every "
             "schedule, consumer kind and stored value: delivered values are exactly what was Set, at most one callback / "
             "release / responsible party, nothing lost once both sides passed their RMW, exactly-once at termination, "
             "Ready()=true only with a constructed Result, nothing runs for a dropped future. Tied to the code by an "
             "exhaustive enumeration of all interleavings of the real Future/Promise code (48 producer x consumer cells) whose "
             "every trace is replayed through the model in Coq and must be accepted with equal observables.",
        design="DESIGN.md §5 C01",
        technique="Coq invariant proof over an executable LTS + exhaustive trace correspondence (vm_compute replay)"),
    "C04": dict(
        text="Release/acquire view machine (lib/RA.v) with three protocol models proved race free for EVERY execution of the machine "
             "(not only sequentially consistent ones): the callback word (Set/attach/Ready/Get, unique and shared observers), the "
             "reference/event counter for any number of holders (last decrement frees after all accesses, destroyed at most once), "
             "and ownership transfer through any hand-off word for any number of threads (Strand inbox, OneShotEvent head, coroutine "
             "Mutex sender word, Spinlock, SharedMutex state, When flags), each under side conditions on memory orders that are shown "
             "necessary by racy witness executions. The orders and the operation skeleton are regenerated from the source on every run "
             "by a translator, and the theorems instantiate the side conditions on the generated file, so a weakened order or a moved "
             "atomic operation breaks a proof obligation. Search for a concrete failing run: necessity witnesses re-evaluated under the "
             "current orders, and 11 multi-threaded client programs on real threads under ThreadSanitizer.",
        design="DESIGN.md §5 C04",
        technique="Coq proofs in a release/acquire view machine over memory orders translated from the source + TSan search",
        note="Trusted: Coq kernel + vm_compute; the lexical translator tools/translate_orders.py; the RA machine is promise-free (no "
             "load buffering), stores append to the modification order; the ownership discipline given to RAOwn comes from the SC "
             "protocol models; hardware/compiler behaviour is not observed; TSan is used only to look for a failing run. Partial: "
             "covers the hand-off words named in the property's anchors, not arbitrary client programs over the whole API."),
    "C03": dict(
        text="Lifetime model of a pipeline of any length (Own.v: construction, attach, functor call, caller release, functor "
             "destruction, publication, final release, for every interleaving of the chain-building consumer with the firing chain, "
             "whether callbacks run, are skipped, throw or are dropped by a rejecting executor): proved that nothing is touched after "
             "release, cores are released only after publication, at quiescence every core is released and every functor destroyed "
             "exactly once, no functor invoked twice; plus the Future/Promise state layer (released exactly once for every consumer "
             "kind, nothing read after release: Handoff) and the reference-count layer (any number of owners, destroyed at most once "
             "and after all accesses under release/acquire: RACounter). Tied to the code by replaying every distinct trace of real "
             "pipelines of instrumented functors/values (4 sources x 4 endings x 3 attach modes x 3 functor kinds per step, producer "
             "racing the consumer; exhaustive for one step) through Own.run and comparing counts; the harness oracle checks instance "
             "construction/destruction balance, use-after-destruction and allocation balance at quiescence on every execution, and reports "
             "any instrumented object used or destroyed inside a block released during the execution (released blocks are poisoned and "
             "kept); oracle-only families cover SharedFuture sources and unwrapping steps whose inner future is still pending and is "
             "completed by a third fiber; every DFS suite runs with the fiber switch offered before and after each operation; the "
             "thorough tier repeats under ASan/UBSan.",
        design="DESIGN.md §5 C03, §10",
        technique="Coq invariant proofs over lifetime/ownership models + trace correspondence + sanitizer-backed exploration",
        note="Trusted: Coq kernel + vm_compute; trace mapping and instrumentation of harness/h_c03.cpp; FIBER backend; ASan/UBSan. "
             "Partial: the harness covers unique-future pipelines; combinators, shared states, coroutine frames and executor jobs are "
             "covered by the Handoff/RACounter theorems and by the oracles of the C06/C07/C08/C09/C13 checks, not re-run here; heap "
             "misuse invisible to instance tracking, allocation balance and ASan is not detected."),
    "C07": dict(
        text="Machine-checked invariant of the Strand transition system (one atomic operation on the jobs word per step; N submitting "
             "threads with weak-CAS loops, unbounded anonymous activations/workers, underlying executor free to Call or Drop) proves for "
             "every schedule: at most one job between begin and end and at most one batch; Call order = order of the pushing CASes "
             "(FIFO equation, no overtaking, per-submitter program order); no job finished twice or both ways, at quiescence every pushed "
             "job Called or Dropped exactly once, Dropped only if the underlying executor refused; no strand step blocks or dereferences "
             "null/marker, global progress, <= 18 own steps per job; the strand refines the executor-interface LTS it requires "
             "(forward simulation) and a strand over a strand (two-level product) keeps all of it. Happens-before between jobs is C04's. "
             "Tied to the code by exploring the real MakeStrand over an instrumented manual executor with worker fibers (exhaustive DFS "
             "up to 2 submitters x 1 job x 1 worker incl. refusals; preemption-bounded DFS for 2x1x2, 2x2x1, 2x2x2; seeded random for "
             "3x3), FairThreadPool(1|2) with Stop/HardStop/SoftStop, and strand over strand; every distinct trace is replayed through "
             "Strand.run (and StrandStack.run2) in Coq and must be accepted with equal Call/Drop histories.",
        design="DESIGN.md §5 C07, Appendix A.2, Appendix B, §10",
        technique="Coq invariant + simulation proofs over an executable LTS; exhaustive/bounded/random trace correspondence (vm_compute replay)"),
    "C08": dict(
        text="Machine-checked invariant of the Pool transition system (one step per critical section of the pool mutex, per condvar "
             "notify / spurious wake-up, per Call/Drop; any number of workers, submitters and jobs; one stopper doing Stop|SoftStop|"
             "HardStop then Wait) proves for every schedule: the counter word, computed with the literal operations extracted from "
             "fair_thread_pool.cpp, always encodes (queued+running, want-stop, stopped) and never wraps; a Submit is rejected iff the "
             "pool is stopped; no job is ever Called twice, Dropped twice or both, and at quiescence every submitted job was Called "
             "xor Dropped exactly once; Stop/SoftStop still Call everything accepted and Stop accepts nothing afterwards; HardStop drops "
             "exactly the jobs queued at its step, once each, never Called; under SoftStop the stop bit is only ever set with counter 0 "
             "and nothing queued or held; Wait returns only when all workers exited, after which no job runs in any continuation; jobs "
             "are dequeued in acceptance order and with one worker Calls begin in acceptance order; no worker is left sleeping once the "
             "stop call is over (no missed notify). Tied to the code by replaying in Coq every explored interleaving of the real "
             "FairThreadPool (exhaustive DFS for 1 worker x 1 submitter x each stop kind; exhaustive with atomic critical sections for "
             "larger cases; preemption-bounded DFS and seeded random up to 3 workers x 3 submitters), comparing _jobs_count, queue "
             "contents, waiter count after every critical section and the Call order / Drop set.",
        design="DESIGN.md §5 C08, §10",
        technique="Coq invariant proof over an executable LTS with the source's bit layout (literals translated from the .cpp) + exhaustive/bounded/random trace correspondence"),
    "C02": dict(
        text="Pipe.core_run, which mirrors core.hpp's dispatch by invocability in Tag order, CallImpl's try-block, CallResolveState "
             "routing, CallResolveAsync/unwrapping, executor transfer and stopped-executor Drop, is proved equal to the sequential reading "
             "seq_eval for every program, every callback body and every length or nesting, with per-clause corollaries (value callback "
             "only on success, failures pass unchanged, recovery only on its kind, Result callback always runs, throw becomes Exception, "
             "Result stored as is, flatten of Future/SharedFuture/Task however built, at most once in order), plus typing soundness. "
             "Tied to the code by running the same typed programs on the real library through a generated table of all 1404 then-cells "
             "and 300 run-cells and comparing final Result and ordered (callback, argument) lists with core_run/seq_eval inside Coq "
             "(39k programs quick / 512k thorough), with an in-process oracle written from the property text. Payloads are move-marking "
             "(a moved-from value or error reads -7777, a moved-from exception_ptr is reported), and a case form shares one SharedFuture "
             "between two successive pipelines and direct reads (theorem c02_shared_handle_same_result_for_every_user).",
        design="DESIGN.md §5 C02, §10",
        technique="Coq refinement proof between two executable semantics + program correspondence over a generated instantiation table",
        note="Trusted: Coq kernel + vm_compute; tools/gen_pipeline_table.py and checks/pipelib.py (program printers), the harness "
             "interpreter; shipped configuration with coroutines (BC), single thread. Timing of hand-off is C01's subject; Result::Empty, "
             "Detach-type final steps and Split/Share/Connect are outside the program alphabet."),
    "C12": dict(
        text="Lazy.v Task-object machine over Pipe: building runs nothing; started (10 start kinds: ToFuture, ToFuture(e), Get, Detach, "
             "Detach(e), returned as inner Task, co_await, Await, ...) equals the eager twin with every core at most once in order and "
             "every functor released exactly once; dropping an unstarted Task is StopError through the chain (nothing runs without a "
             "recovery-capable callback, the first callback invoked sees StopError; the literal 'no value callback' reading is refuted "
             "by design with a witness and not flagged); dropping a completed Task releases only. Tied by replaying every lazy program x "
             "start/abandon kind through Lazy.trun (41k cases quick / 330k thorough) with counters on every functor.",
        design="DESIGN.md §5 C12, §10",
        technique="Coq proofs over an object state machine on the C02 semantics + program correspondence",
        note="Trusted: as C02. Partial: a coroutine head started on another executor (ToFuture(e)) has correspondence only, no theorem."),
    "C17": dict(
        text="Executable model of the FIBER scheduler + injector (Sched.v: run queue, sleep map, virtual clock, PollRandomElementFromList/"
             "GetElement wrap-around, injector counter, weak-CAS failures, FiberQueue park/notify, timed waits, spawn/join/exit; engine outputs "
             "and id allocator are Section variables). Machine-checked for all programs/configurations/steps: the trace is equivariant under "
             "any injective renaming of fiber ids, invariant under a shift of the clock and all deadlines, after a quiescent point determined "
             "by (random count, injector state) alone up to those two and the fiber counter (what ForwardToFaultRandomCount/SetInjectorState "
             "restore), draws are consumed consecutively from the recorded count and nothing before it is read; clock monotone, no fiber linked "
             "in two queues, no sleeper resumed before its deadline (structural invariant). Tied to the code without taking any decision: a "
             "recorder (resume hook + choose hook returning -1) on the real library, Sched.run fed with std::mt19937_64(seed) outputs must "
             "predict every token, recorded (count,state) pair, virtual time and result; oracle = pairwise trace equality of reruns in the same "
             "process, in a fresh process and restored from every recorded pair, on DSL programs and 5 real clients.",
        design="DESIGN.md §5 C17, §10",
        technique="Coq simulation + invariant proofs over an executable scheduler model; observation-only trace prediction (vm_compute) + "
                  "rerun/restore differential oracle on the real library",
        note="Trusted: Coq kernel + vm_compute; the recorder harness; partial by design: ucontext, libstdc++'s mt19937_64 and the clients' own "
             "determinism (the harness never frees memory so pointer-CAS retries cannot depend on heap history) are outside the model."),
    "C14": dict(
        text="Machine-checked invariant of the CoMutex transition system (one atomic operation on the sender word per step; any number of "
             "coroutines, rounds, executors and workers; the four <Batching,FIFO> options as parameters) proves: at most one lock token (owner, "
             "hand-over in flight or release in progress) and it exists iff the word is not kNotLocked; TryLock and the locking CASes succeed "
             "only when the mutex is free; each request granted at most once, nobody queued or handed twice; every parked coroutine is in "
             "exactly one place of sender/receiver list and on no worker; every running coroutine and release procedure has its next step "
             "enabled (GetHead never returns null, the resumed coroutine is suspended); quiescent implies free, lists empty, all finished; "
             "nobody is bypassed in the lists; FIFO=true implies entries in arrival order; progress with a single worker. Tied to the code by "
             "exploring the real yaclib::Mutex used by coroutines on FairThreadPool(1|2) and an instrumented manual executor plus a bystander "
             "TryLock thread (exhaustive DFS for k=2,r=1 and k=3 on one worker incl. a spurious weak-CAS failure, named-yield exhaustive on two "
             "workers for selected forms, preemption-bounded DFS and seeded random programs otherwise); every distinct trace is replayed "
             "through the model in Coq and must be accepted with equal critical-section order, TryLock answers and final quiescence.",
        design="DESIGN.md §5 C14, Appendix A.3, §10",
        technique="Coq invariant proof over an executable LTS + trace correspondence (vm_compute replay) + in-harness oracle",
        note="Trusted: as C01. Temporal liveness (fair scheduling implies eventual grant) is stated as deadlock-freedom + enabledness + "
             "no-bypass invariants, not as a temporal theorem; two-worker exploration is exhaustive only for named yield points / selected "
             "form pairs; visibility between critical sections is C04's."),
    "C06": dict(
        text="Shared.v LTS (one fulfiller, lists of SharedFuture handles and callback entries created at run time, one atomic operation per "
             "step: push loop with real and spurious weak-CAS failures, inline run after a failed attach, SetResultImpl's walk with its "
             "DecRef placement, the reference counter with the 4/3 initial values, slot Unset|Set r|Moved) with one inductive invariant proves "
             "for every schedule and any number of copies/callbacks: every attached callback/awaiter fires exactly once, only after Set, with "
             "the value set; no Get/Touch/await_resume/copy ever reads an unset, moved-from or freed value; a move happens only when the "
             "counter proves exclusivity (refs==1 for Get&&/Touch&&, refs==2 in the last callback); refs = promise side + live copies + jobs "
             "holding a reference, never underflows, freed exactly once after all accesses; Ready()/await_ready true implies readable (proved "
             "for the readiness rule and thresholds READ FROM THE SOURCE by a translator, with a refutation witness for the old rule). Tied to "
             "the code by replaying event by event in Coq every distinct trace of the real code (exhaustive DFS for 1+1 fibers x <= 2 ops and "
             "1+2 x 1 op incl. a spurious weak-CAS failure; preemption-bounded DFS for 1+2 x 2 ops; seeded random for 1+3..4 x <= 4 ops; "
             "every DFS suite with the fiber switch offered before and after each operation; the op alphabet includes co_await and a "
             "continuation of another future returning this SharedFuture so that the library unwraps it).",
        design="DESIGN.md §5 C06, §10",
        technique="Coq invariant proof (all schedules, unbounded copies) + translator for readiness rule/thresholds + exhaustive/bounded/random trace correspondence",
        note="Trusted: as C01, plus checks/c06_translate.py. Not modelled: promise-side Connect/Share, SharedCore::Retire, When*/Join on "
             "shared futures (C09/C10), the Wait event's mutex/condvar, use of a future after Get&&/Touch&&."),
    "C16": dict(
        text="Machine-checked invariant of the Event transition system (OneShotEvent head word Stack|AllDone with CAS-weak push and "
             "exchange+ordered calls, AtomicCounter with SetDeleter; any number of Add/Done threads, of blocking / timed (heap TimedWaiter, two "
             "references) / co_await inline / sticky / on-executor / raw-Job waiters, of attached and consumed futures with their producers) "
             "proves for every schedule, under the documented rule of use given as a boolean predicate on traces (shown implied by 'Add only "
             "while non-zero'): every release happens with the count at zero and zero is stable; zero means every Add was matched and every "
             "added future completed; each waiter released at most once; after all-done nobody registers and a late waiter passes; at "
             "quiescence nobody is parked; the TimedWaiter is destroyed exactly once and never touched afterwards whichever of timeout/Set "
             "comes first; consumed states are released exactly once, attached ones never, an owner's Ready() answers exactly 'completed' and "
             "reads the stored value; SetImpl never dereferences the sentinel; OneShotEvent alone: released only after Set. Tied to the code "
             "by replaying in Coq every distinct trace of the real WaitGroup/OneShotEvent (exhaustive DFS for one waiter of each kind vs the "
             "final Done/Set, timed waiters for several deadlines, two pushers with spurious weak-CAS failures, Attach/Consume vs the producer; "
             "seeded random for 3 workers + 3 mixed waiters + futures; thorough tier also under ASan). One Attach/Consume call for several futures is counted by one Add before the first registration (batch operations proved as runs of unit steps, replayed from real multi-future calls racing producers).",
        design="DESIGN.md §5 C16, §10",
        technique="Coq invariant proof over an executable LTS (per-waiter boolean invariant + frame lemma) + exhaustive/random trace correspondence + ASan",
        note="Trusted: as C01. Partial: OneShotEvent::Call/Reset, multi-future or NeedAdd=false Attach/Consume and counter wrap-around are outside "
             "the model; mutex/condvar internals are C18's, memory orders C04's."),
    "C18": dict(
        text="Machine-checked invariants of five transition systems transcribed from the FIBER backend (Mutex/TimedMutex/"
             "ConditionVariable/sleep, RecursiveMutex/RecursiveTimedMutex, SharedMutex/SharedTimedMutex, Thread join/detach, "
             "thread-local pointers; one event = an operation from its call or wake-up to its next Wait; any number of fibers, "
             "every notify pick, every timeout and virtual-time advance) prove for every schedule: never incompatible holders and the "
             "concrete flags/owner/counts equal what the clients believe; a reported acquisition holds in the requested mode; a failed "
             "try had an incompatible holder, failed timed locks / timed-out waits / sleeps end at or after their deadline; in a "
             "quiescent state nobody is parked on a lock no client holds; notify_one/notify_all wake fibers that were blocked in wait; "
             "no end() dereference in the sleep map; join returns after the thread function finished and a joiner is never lost; "
             "thread-local reads depend only on the fiber's own stores and distinct variables have distinct slots. Ten places of the "
             "sources are variant flags read from the tree on every run (the theorems are instantiated at that variant) and each has "
             "a vm_compute witness that the pinned text refutes its clause; eight genuine defects were found this way and fixed "
             "(c18-1..8). Tied to the code by replaying every explored trace of real yaclib_std objects (exhaustive DFS for 2 fibers, "
             "3 in the thorough tier, seeded random for 3-4) through the machines inside Coq with equal results, times, wake-ups.",
        design="DESIGN.md §5 C18, §12",
        technique="Coq invariant proofs over executable LTSs with source-derived variant flags + exhaustive trace correspondence (vm_compute prefix-tree replay)",
        note="Trusted: Coq kernel + vm_compute; checks/c18.py variant_of_source (text patterns) and the syntactic trace mapping; "
             "FiberSyncObs decoders; harness oracle and its marker hooks; FIBER scheduler below the modelled operations. Partial: "
             "run-queue order, contexts, condition_variable_any, the THREAD wrappers are not modelled; a reader can stay parked "
             "behind readers (Example c18_shared_reader_behind_readers), which the property text does not forbid."),
    "C19": dict(
        text="For every kind of T (signed/unsigned 8-64-bit, bool, pointer with any element size, floating as shape, atomic_flag), every "
             "operation std::atomic has, both cv-overloads, all representable values and every single-threaded operation sequence incl. "
             "fences, the FIBER backend (fault wrapper over the fiber re-implementation) and the THREAD backend (wrapper over std::atomic) "
             "return the same value and leave the same stored and expected value as the std::atomic contract; an injected spurious "
             "compare_exchange_weak failure returns false, loads expected and changes nothing; compare_exchange_strong never fails "
             "spuriously; every memory order the wrapper hands down is admissible; no operation is undefined under the strict C++ reading. "
             "Proved in Coq over a model REGENERATED from the sources on every run by a statement-level translator. Tied to the compiled "
             "code by translation validation: the same boundary/random/order/NaN/overflow sequences run on yaclib_std::atomic and "
             "std::atomic in configs F, T (libstdc++ assertions) and FA (UBSan) and are evaluated by the generated models inside Coq step "
             "by step; all 8-bit (value, argument) pairs are swept exhaustively against std::atomic.",
        design="DESIGN.md §5 C19, §10",
        technique="Coq proofs over a source-translated model with typed C++ scalar semantics + differential translation-validation harness (three build configs, UBSan, exhaustive 8-bit sweep)",
        category="proof",
        note="Trusted: Coq kernel + vm_compute; AtomicCSem.v (meaning of the statement vocabulary, x86-64 integer widths); AtomicStd.v (validated "
             "against libstdc++ on every run); tools/translate_fiber_atomic.py (validated on every run); harness and choose hook; UBSan. "
             "Floating arithmetic uninterpreted; wait/notify, default construction, is_lock_free and the meaning of memory orders beyond "
             "preconditions not covered."),
    "C20": dict(
        text="Sequential allocation model (Alloc.v): proved for pipelines of any length/nesting that the blocks requested never exceed the "
             "executed steps (exactly one per step carrying a functor/result/frame, none for Detach() and conversions, unwrapping free), an "
             "explicit n-independent constant per combinator (4 WhenAll, 2 WhenAny/Join, +1 iterator form over shared futures; tight, equal "
             "for all n>=2), zero for Wait/WaitFor/WaitUntil, Get, Strand::Submit(job) and co_await on futures. Tied to the code by exact "
             "program correspondence in the shipped configurations B and BC: counting operator new, typed cell table (1092 then / 126 "
             "detach / 180 run cells, variadic forms n=1..64), every program's blocks, steps, callbacks, final state and per-API-call "
             "block multiset equal to the model evaluated in Coq; independent oracle from the property text. A second family of handle types "
             "with heap-owning value/error payloads (copy allocates, move does not) runs the whole cell table: theorem "
             "c20_payload_not_copied and a strict oracle (zero payload copies on plain-future pipelines).",
        design="DESIGN.md §5 C20, §10",
        technique="Coq proofs over an executable allocation model + exact program correspondence with a counting operator new (B, BC)",
        note="Trusted: Coq kernel + vm_compute; the two printers in checks/c20.py; harness/h_c20.cpp (new-replacement, interpreter, step "
             "counter). Counts operator new calls only (exceptions use malloc; coroutine frame = 1 block per call). Not covered: thread "
             "pools, never-started Task cancellation, steps inheriting the executor of an awaiting coroutine (skipped, oracle still applied)."),
    "C05": dict(
        text="Place.drun (Pipe.core_run with a refusing-executor policy, a job log and co_await On segments) proved for all programs, "
             "callback bodies, lengths, nesting and policies: one job per Call-type step at the named/inherited executor with at most one "
             "invocation carrying it and nowhere else; inheritance through inline, unwrapping and refused steps (= the syntactic nearest "
             "named executor); ThenInline/DetachInline submit nothing at any depth; a refused step sees StopError, value callbacks are "
             "skipped, the final Result equals the sequential reading with that input replaced and the chain still completes; the Call xor "
             "Drop contract (at most one finish per job, only submitted jobs, Drop only if refusing, exactly one at quiescence) for Inline "
             "and Manual (own LTS), Strand (from C07) and FairThreadPool (from C08). Tied to the code by program correspondence: C02's "
             "typed table with instrumented executor wrappers (per-job Submit/Call/Drop counters, executor stamp around Call/Drop, reject "
             "from the k-th Submit) over programs x executor assignment x every rejection position, coroutine co_await On sources, "
             "Detach/Subscribe (11k cases quick / 122k thorough); oracle written from the property text. Lazy Task start forms ToFuture(e)/Detach(e)/Cancel are modelled (dlazy/dstart, ten c05_lazy_* theorems) and driven; the C07 and C08 explorations run here too and their Call/Drop-count verdicts count for C05.",
        design="DESIGN.md §5 C05, §10",
        technique="Coq refinement proofs over the C02 semantics + program correspondence with instrumented executors",
        note="Trusted: as C02. Shipped configuration with coroutines (BC), single thread; Stop-vs-Submit interleavings are C07/C08's (explored "
             "there, cited in the evidence). Several consumers per SharedFuture only in 4 regression scenarios (S5)."),
    "C11": dict(
        text="Machine-checked invariant of the WaitEv transition system (WaitRange of wait_impl.hpp, one atomic/mutex/condvar operation per "
             "step, ANY number n of futures, the timeout available at any moment): true (or return of an untimed Wait) => every word is "
             "Result with its slot stored; false => timed call and the timeout fired; every producer operation on the stack event happens "
             "before the return; the counter never underflows; no lost wake-up; after the return each future is Empty/not exchanged or "
             "Result/stored and its projection satisfies the C01 invariant, so by HandoffProofs.inv_run any later consumer gets all C01 "
             "guarantees, with the value that was stored. Tied to the code by DFS/random exploration of the real Wait/WaitFor/WaitUntil "
             "(variadic, iterator, fast path; unique, shared, mixed; 4 deadlines in virtual time; 3 later-consumer kinds); every distinct "
             "trace is replayed through WaitEv.run and each future's post-return suffix through Handoff.run from the projected state in Coq; "
             "touch-after-return checked on traces and under ASan stack-use-after-return.",
        design="DESIGN.md §5 C11, §10",
        technique="Coq invariant proof over an executable LTS (counting argument, unbounded n) + composition with the C01 model + trace correspondence + ASan",
        note="Trusted: as C01. n=1 exhaustive; n=2 exhaustive for 4 scenarios, preemption-bounded for the rest; n=3 seeded random. Memory orders, "
             "spurious cv wake-ups and AtomicEvent are not modelled; shared words are modelled as E/C/R (only the waiter queued)."),
    "C13": dict(
        text="Machine-checked invariant of the Await transition system (one atomic operation per step, threads explicit, any number of "
             "coroutines / awaited unique, shared and lazy objects / executors) proves for every schedule: one resumption per co_await, in "
             "order, only when everything awaited is complete and never after the body ended; a suspended coroutine always still has a "
             "callback in an awaited object or a queue entry (nothing lost); the value read is the awaited Result; co_return, an escaping "
             "failure and Drop become the coroutine's own Result; awaited futures stay ready; resumption happens where the form says "
             "(On/AwaitOn: that executor's Call; Sticky/Yield: the coroutine's own; inline: the completer's thread or not suspended); a "
             "dropped coroutine is completed with StopError, local and frame are destroyed at most once and exactly once when released; "
             "await_ready true only with a published Result. The readiness rule and PromiseType::Impl are read from the source on every run "
             "(old rule refuted by a witness that is the pre-fix library's own trace). Tied to the code by coroutines interpreting generated "
             "co_await lists on the real library (FIBER; also without symmetric transfer and under ASan): every distinct trace of the "
             "exhaustive small configurations and of seeded random mixes is replayed through the model in Coq with equal observables "
             "(fiber switch offered before and after each operation; awaited cores bound to the AwaitOn target executor and completed from "
             "outside it, hard-stopped executors; oracle: submitted exactly once to the executor named).",
        design="DESIGN.md §5 C13, §10",
        technique="Coq invariant proof over an executable thread-explicit LTS + source-derived readiness/hand-over rules + exhaustive/random trace correspondence",
        note="Trusted: Coq kernel + vm_compute; checks/c13_translate.py, c13_map.py; harness oracle; hooks and FIBER backend. Not modelled: "
             "reference counting of cores (ASan watches it), executors' Call-xor-Drop contract (C05/C07/C08), memory orders (C04)."),
    "C15": dict(
        text="Machine-checked invariant of the CoSharedMutex transition system (one event per atomic operation on _state/_readers_wait outside "
             "the spinlock, one per spinlock section, the two sections with a second shared atomic split) proves for any number of "
             "reader/writer coroutines, rounds, lock/unlock forms, every schedule and all four <FIFO,ReadersFIFO> options: at most one writer "
             "token and none together with a reader token; Try* and every non-waiting acquisition only when compatible; the cross-domain "
             "accounting (word halves vs readers_pass/readers_wait/readers_size/writers_prio/queues); every request granted exactly once; "
             "every parked coroutine in exactly one queue/role; every next step enabled (no source assertion fails, Run only resumes a "
             "suspended coroutine); quiescent => everybody finished. 32+32 packing and uint32 wrap-around proved equivalent below 2^31 with "
             "constants translated from the source. Tied to the code by exhaustive DFS of the real SharedMutex (1r+1w all forms, 2r+1w, "
             "1r+2w; manual executor and FairThreadPool, 1-2 workers) and seeded random walks up to 3r+2w x 2 rounds, every distinct trace "
             "replayed through the model in Coq with equal observables.",
        design="DESIGN.md §5 C15, Appendix A.4, §10",
        technique="Coq invariant proof over an executable LTS (weighted counts + phase disjunction) + exhaustive/random trace correspondence",
        note="Trusted: as C01. Memory orders are C04's; counts >= 2^31, the spinlock's own exchange loop and coroutine frames are outside the model."),
    "C09": dict(
        text="Machine-checked layered invariant of the When transition system (one atomic operation per step; ANY number of inputs; "
             "All<None|FirstFail>, AllTuple<None|FirstFail>, Join<None|FirstFail>) proves for every schedule and result pattern: the "
             "output promise is set at most once and exactly once in every complete run, never by a step the code cannot survive; "
             "under None / no failure it is set by the strategy destructor at the last decrement, after every consume step, with "
             "element i = Result/value of input i for every completion order; under FirstFail with a failure it is set inside the "
             "consume step of the failing input that is first in the modification order of _done, before any other failing input has "
             "passed its check, carrying that input's error/exception; every input is consumed and released at most once always and "
             "exactly once in complete runs regardless of the output; nothing is lost; an empty input set gives an invalid future. "
             "Tied to the code by running the public WhenAll/Join (iterator/variadic, Future/SharedFuture/mixed, value/void/tuple, n<=4) "
             "against racing producers, mapping every explored execution to model events and replaying it (model must accept every "
             "event and predict the output); oracle from the property text judges every execution; ASan/UBSan pass in the thorough tier.",
        design="DESIGN.md §5 C09, §10",
        technique="Coq invariant proof over an executable LTS (unbounded inputs) + trace correspondence (extracted-model replay cross-checked by vm_compute) + exhaustive/bounded/random schedule exploration",
        note="Trusted additionally: OCaml extraction (ExtrOcamlBasic only) + ocamlopt for bulk replay (a sample is re-evaluated inside Coq with "
             "vm_compute on every run and must agree); operator-new based naming of the combinator's words. Exhaustive for n<=2 with Future "
             "inputs; SharedFuture/mixed inputs and three-fiber races are bounded; n=3,4 random."),
    "C10": dict(
        text="Same transition system, strategies Any<None> (_done), Any<FirstFail> (three-state word, saved error, destructor) and "
             "Any<LastFail> (packed counter 2*n with parity bit, exact size_t arithmetic modulo 2^64, hypothesis 2n<2^64): for every "
             "number of inputs, schedule and result pattern the output is set exactly once; None: the input first in the modification "
             "order of _done; FirstFail: the first value in the modification order of _state, or, only if every input failed, the "
             "failure whose compare-exchange Empty->Error succeeded, published by the destructor; LastFail: the first value in the "
             "modification order, or, only if every input failed, the input whose fetch_sub read 2 = last element of the modification "
             "order, with the invariant even state => state = 2*(n - failures that have subtracted) ruling out a second Set; later "
             "completions have no effect and complete runs admit no further step; inputs consumed/released exactly once. Tied to the "
             "code as C09 (public WhenAny, all forms including variant output, value-vs-value and value-vs-last-failure races "
             "exhaustively for n=2, size_t wrap-around observed on the real code).",
        design="DESIGN.md §5 C10, §10",
        technique="Coq invariant proof over an executable LTS (unbounded inputs, N arithmetic) + trace correspondence + schedule exploration",
        note="As C09. A mutant that replaces the exchange's result by a non-atomic _p.Valid() check is not distinguishable on the cooperative "
             "sequentially consistent backend; that race is C04's subject."),
}

PENDING = {}

def main():
    props = [json.loads(l) for l in open(os.path.join(HERE, "properties.jsonl"))]
    checks, na = [], []
    for p in props:
        pid = p["id"]
        if pid in CLAIMED:
            c = CLAIMED[pid]
            checks.append(dict(
                property_id=pid,
                quick_cmd="./check %s --tier quick" % pid,
                thorough_cmd="./check %s --tier thorough" % pid,
                evidence_file="/verif/evidence/%s.json" % pid,
                replay_cmd_template="./check %s --replay {path}" % pid,
                engine="coq-lts",
                level_claimed=dict(category=c.get("category", "proof"), text=c["text"], design_ref=c["design"]),
                level_note=c.get("note", TB),
                technique=c["technique"]))
        else:
            na.append(dict(property_id=pid, reason=PENDING.get(pid, "not claimed yet: the Coq model, proofs and correspondence harness for this property are not built in this commit (plan in DESIGN.md §5); no check is registered rather than a weaker technique")))
    m = dict(
        version=1,
        setup_cmd="cd /verif && ./tools/setup.sh",
        hooks=dict(guard="YACLIB_VERIF",
                   enable="checks copy /repo's working tree to /var/tmp/yaclib-verif-cache/<tree-hash>/ and build it with "
                          "-DYACLIB_FAULT=FIBER -DYACLIB_FLAGS=CORO -DYACLIB_CXX_STANDARD=20 -DCMAKE_CXX_FLAGS='-DYACLIB_VERIF -O1 -g' (tools/vlib.py)",
                   baseline_off_cmd="cmake --build /repo/_build -j16 && ctest --test-dir /repo/_build -j8 --timeout 900",
                   source_commits=json.load(open(os.path.join(HERE, "hooks.json")))["source_commits"],
                   add_only=True),
        engines=[dict(name="coq-lts", path="/verif/coq", serves_properties=sorted(CLAIMED),
                      kind_free_text="Coq 8.16.1 development: executable transition-system models (coq/model), invariant proofs "
                                     "(coq/proofs), property theorems (coq/props); ./check replays implementation traces through "
                                     "the models with vm_compute")],
        checks=checks,
        notes="Every check rebuilds /repo's working tree (not HEAD) in scratch space and re-compiles its property file. "
              "known_findings.txt lists recorded genuine defects (KNOWN-FINDING lines) and fixed ones.",
        not_applicable=na)
    json.dump(m, open(os.path.join(HERE, "MANIFEST.json"), "w"), indent=1)
    print("MANIFEST.json: %d checks, %d not claimed" % (len(checks), len(na)))

if __name__ == "__main__":
    main()
