#!/usr/bin/env python3
"""C19 translator: the fault-layer atomics of the tree under check  ->  coq/gen/Gen_fiber_atomic.v

Reads (from vlib.REPO, i.e. $VERIF_REPO or /repo):
    include/yaclib/fault/detail/fiber/atomic_wait.hpp   fiber::AtomicWait<T>       (the plain field, operator=)
    include/yaclib/fault/detail/fiber/atomic.hpp        fiber::AtomicBase / AtomicFloatingBase / AtomicIntegralBase
                                                        / Atomic<T> / Atomic<U*>
    include/yaclib/fault/detail/fiber/atomic_flag.hpp   fiber::AtomicFlag
    include/yaclib/fault/detail/atomic_wait.hpp, atomic.hpp, atomic_flag.hpp
                                                        the wrapper detail::Atomic<Impl, T> used by BOTH backends
                                                        (Impl = fiber::Atomic<T> or std::atomic<T>)
    include/yaclib_std/detail/atomic_fence.hpp          the FIBER fences
and emits, for every member function (both cv-overloads), a Gallina definition of type AtomicCSem.opfun that is a
statement-by-statement translation of its body, the overload tables obtained by resolving the class hierarchy
(default template arguments are evaluated per kind of T), and the memory orders every wrapper function passes on.

Vocabulary (anything else raises Untranslatable -> the check reports the obligation as broken):
  statements   return e; | auto [*]x = e; | e; | if (c) {..} [else {..}] | YACLIB_INJECT_FAULT(statement);
               | constructor member-initialiser _value(e)
  expressions  _value | this->_value | parameters | locals | integer literals | true | false
               | e + e | e - e | e & e | e | e | e ^ e | e == e | e != e | c ? a : b
               | a && b | a || b (short-circuit) | !a
               | x = e | x += e | x -= e | x &= e | x |= e | x ^= e | ++x | x++ | --x | x--      (x an lvalue name)
               | static_cast<T|U|alias>(e) | reinterpret_cast<U*|std::uintptr_t>(e) | e * sizeof(U | std::remove_pointer_t<U>)
               | std::exchange(x, e) | std::memcmp(&a, &b, sizeof(T)) == 0
               | std::memcpy(&x, &e, sizeof(T))   (assignment of the object representation)
               | f(args) for a member function f of the same class hierarchy (reference parameters written back)
               | Impl::f(args), ++static_cast<Impl&>(*this), static_cast<Impl&>(*this)++ (and --)  [wrapper]
               | ShouldFailAtomicWeak()                                                             [wrapper]
  memory-order expressions: parameters, std::memory_order_xxx, ==, ?:, calls of translated constexpr helpers
  types        T, T&, U*, bool, void, int (postfix dummy), std::ptrdiff_t, std::memory_order,
               class-level aliases  using X = <type expression over std::conditional_t / std::make_unsigned[_t] /
               std::common_type<T> / std::common_type<T, long double> (a wider floating intermediate) /
               std::is_integral_v / typename ..::type>
Not translated (named explicitly, reported in the header of the generated file): wait / notify_one / notify_all /
is_lock_free (no effect on the value; C17/C18 are about blocking), constructors other than the value constructor.
"""
import os, re, sys

sys.path.insert(0, os.path.dirname(os.path.abspath(__file__)))
import vlib


class Untranslatable(Exception):
    pass


SKIP_METHODS = {"wait", "notify_one", "notify_all", "is_lock_free"}

FILES = dict(
    fwait="include/yaclib/fault/detail/fiber/atomic_wait.hpp",
    fatomic="include/yaclib/fault/detail/fiber/atomic.hpp",
    fflag="include/yaclib/fault/detail/fiber/atomic_flag.hpp",
    wwait="include/yaclib/fault/detail/atomic_wait.hpp",
    watomic="include/yaclib/fault/detail/atomic.hpp",
    wflag="include/yaclib/fault/detail/atomic_flag.hpp",
    fence="include/yaclib_std/detail/atomic_fence.hpp",
)

PP_DEFS = {"YACLIB_FUTEX": 1, "YACLIB_FAULT_ATOMIC_FENCE": 2}

# ------------------------------------------------------------------------------------------------ lexer

TOK = re.compile(r"""
    (?P<ws>\s+)
  | (?P<id>[A-Za-z_][A-Za-z_0-9]*)
  | (?P<num>\d+[uUlL]*)
  | (?P<op>::|->|\+\+|--|\+=|-=|&=|\|=|\^=|==|!=|&&|\|\||\[\[|\]\]|[{}()\[\];,<>=+\-*&|^!~?:.%/])
""", re.X)


def preprocess(text, path):
    """Remove comments; evaluate the few #if conditions; drop the other directives.  Keeps line numbers."""
    text = re.sub(r"/\*.*?\*/", lambda m: re.sub(r"[^\n]", " ", m.group(0)), text, flags=re.S)
    text = re.sub(r"//[^\n]*", "", text)
    out, stack = [], []  # stack of (taken_now, any_taken_before)
    for ln in text.split("\n"):
        s = ln.strip()
        if s.startswith("#"):
            d = re.sub(r"#\s*", "#", s)
            m = re.match(r"#(if|elif)\s+(\w+)\s*(==|!=)\s*(\d+)\s*$", d)
            if m:
                name = m.group(2)
                if name not in PP_DEFS:
                    raise Untranslatable("%s: preprocessor condition on unknown macro %s" % (path, name))
                val = (PP_DEFS[name] == int(m.group(4))) == (m.group(3) == "==")
                if m.group(1) == "if":
                    stack.append([val, val])
                else:
                    stack[-1][0] = val and not stack[-1][1]
                    stack[-1][1] = stack[-1][1] or val
            elif d.startswith("#if"):
                raise Untranslatable("%s: preprocessor condition not understood: %s" % (path, s))
            elif d.startswith("#else"):
                stack[-1][0] = not stack[-1][1]
                stack[-1][1] = True
            elif d.startswith("#endif"):
                stack.pop()
            out.append("")
            continue
        out.append(ln if all(t[0] for t in stack) else "")
    return "\n".join(out)


def lex(text, path):
    toks, pos, line = [], 0, 1
    while pos < len(text):
        m = TOK.match(text, pos)
        if not m:
            raise Untranslatable("%s:%d: cannot tokenize %r" % (path, line, text[pos:pos + 20]))
        if m.lastgroup != "ws":
            toks.append((m.group(0), line))
        line += m.group(0).count("\n")
        pos = m.end()
    return toks


# ------------------------------------------------------------------------------------------------ declarations

class Method:
    def __init__(self):
        self.cls = None
        self.name = None        # C++ name: store, operator=, operator++, operator T ...
        self.ret = None         # 'T' | 'bool' | 'void' | 'mo'
        self.params = []        # list of dict(kind='val'|'ref'|'mo'|'dummy'|'diff', name, default)
        self.volatile = False
        self.body = None        # token list between the braces
        self.init = None        # constructor initialisers [(member, tokens)]
        self.line = 0
        self.path = ""
        self.is_ctor = False


class Class:
    def __init__(self):
        self.name = None
        self.tparams = []       # [(name, default_tokens or None)]
        self.spec = None        # specialisation argument strings or None
        self.base = None        # (name, [arg strings])
        self.methods = []
        self.aliases = {}       # using X = <tokens>
        self.path = ""
        self.line = 0


def tstr(toks):
    return " ".join(t[0] for t in toks)


def match_close(toks, i, op, cl):
    """toks[i] is `op`; return index of the matching `cl`."""
    depth = 0
    while i < len(toks):
        if toks[i][0] == op:
            depth += 1
        elif toks[i][0] == cl:
            depth -= 1
            if depth == 0:
                return i
        i += 1
    raise Untranslatable("unbalanced %s" % op)


def split_top(toks, sep=","):
    parts, cur, depth = [], [], 0
    for t in toks:
        if t[0] in "(<[{":
            depth += 1
        elif t[0] in ")>]}":
            depth -= 1
        if t[0] == sep and depth == 0:
            parts.append(cur)
            cur = []
        else:
            cur.append(t)
    if cur or parts:
        parts.append(cur)
    return parts


TYPE_SPELLINGS = [
    ("std :: memory_order", "mo"), ("std :: ptrdiff_t", "diff"), ("std :: uintptr_t", "uptr"), ("T &", "ref"), ("U *", "val"),
    ("T", "val"),
    ("int", "dummy"), ("bool", "bool"), ("void", "void"), ("std :: uint32_t", "other"),
]


def parse_param(toks, where):
    default = None
    for i, t in enumerate(toks):
        if t[0] == "=":
            default = toks[i + 1:]
            toks = toks[:i]
            break
    s = tstr(toks)
    for sp, kind in TYPE_SPELLINGS:
        if s == sp or s.startswith(sp + " "):
            rest = s[len(sp):].strip()
            if rest and not re.match(r"^[A-Za-z_]\w*$", rest):
                continue
            return dict(kind=kind, name=rest or None, default=default)
    raise Untranslatable("%s: parameter type not in the vocabulary: %s" % (where, s))


def parse_function(head, body, init, path, cls):
    """head: tokens before '{' (or before ':' of the initialiser list)."""
    m = Method()
    m.path, m.line, m.cls = path, head[0][1], cls
    where = "%s:%d" % (path, m.line)
    # strip attributes and specifiers
    toks = []
    i = 0
    while i < len(head):
        if head[i][0] == "[[":
            i = match_close(head, i, "[[", "]]") + 1
            continue
        toks.append(head[i])
        i += 1
    toks = [t for t in toks if t[0] not in ("constexpr", "inline", "static", "explicit")]
    # parameter list = last top-level (...) group that is followed only by qualifiers
    par = None
    depth = 0
    for i, t in enumerate(toks):
        if t[0] == "(":
            if depth == 0:
                par = i
            depth += 1
        elif t[0] == ")":
            depth -= 1
    # the first top-level '(' after the name is the parameter list; find it properly
    depth = 0
    par = None
    for i, t in enumerate(toks):
        if t[0] == "(" and depth == 0:
            par = i
            break
        if t[0] == "<":
            depth += 1
        elif t[0] == ">":
            depth -= 1
    if par is None:
        raise Untranslatable("%s: not a function: %s" % (where, tstr(head)))
    if toks[par - 1][0] == "operator":  # operator()(...) is outside the vocabulary
        raise Untranslatable("%s: operator() not in the vocabulary" % where)
    close = match_close(toks, par, "(", ")")
    quals = [t[0] for t in toks[close + 1:]]
    for q in quals:
        if q not in ("const", "volatile", "noexcept"):
            raise Untranslatable("%s: function qualifier not in the vocabulary: %s" % (where, q))
    m.volatile = "volatile" in quals
    pre = toks[:par]
    names = [t[0] for t in pre]
    if "operator" in names:
        k = names.index("operator")
        m.name = "operator" + "".join(names[k + 1:]) if names[k + 1:] != ["T"] else "operator T"
        rett = pre[:k]
    else:
        m.name = names[-1]
        rett = pre[:-1]
    if cls is not None and m.name == cls.name:
        m.is_ctor = True
        m.ret = "void"
    elif m.name == "operator T":
        m.ret = "T"
    else:
        rs = tstr(rett)
        m.ret = {"T": "T", "U *": "T", "bool": "bool", "void": "void", "std :: memory_order": "mo"}.get(rs)
        if m.ret is None:
            raise Untranslatable("%s: return type not in the vocabulary: %s" % (where, rs))
    for p in split_top(toks[par + 1:close]):
        if p:
            m.params.append(parse_param(p, where))
    m.body = body
    m.init = init
    return m


def parse_class_body(toks, cls, path):
    i = 0
    n = len(toks)
    while i < n:
        t = toks[i][0]
        if t in ("public", "protected", "private") and toks[i + 1][0] == ":":
            i += 2
            continue
        if t == ";":
            i += 1
            continue
        # read a member up to ';' or '{' at depth 0
        j, depth = i, 0
        while j < n:
            x = toks[j][0]
            if x in "(<[":
                depth += 1
            elif x in ")>]":
                depth -= 1
            elif depth == 0 and x in (";", "{"):
                break
            j += 1
        head = toks[i:j]
        if toks[j][0] == ";":
            hs = [h[0] for h in head]
            if len(hs) > 3 and hs[0] == "using" and hs[2] == "=":     # using X = <type>;  (not  using Base::operator=;)
                cls.aliases[hs[1]] = head[3:]
            # other declarations (using Base::x, fields, defaulted constructors, constants) carry no statement
            i = j + 1
            continue
        end = match_close(toks, j, "{", "}")
        body = toks[j + 1:end]
        init = None
        # constructor initialiser list:  Name(params) noexcept : _value(desired) {
        depth = 0
        for k, h in enumerate(head):
            if h[0] in "(<":
                depth += 1
            elif h[0] in ")>":
                depth -= 1
            elif h[0] == ":" and depth == 0:
                init = []
                for part in split_top(head[k + 1:]):
                    o = [x[0] for x in part].index("(")
                    init.append((part[0][0], part[o + 1:match_close(part, o, "(", ")")]))
                head = head[:k]
                break
        m = parse_function(head, body, init, path, cls)
        cls.methods.append(m)
        i = end + 1


def parse_file(path_rel):
    path = os.path.join(vlib.REPO, path_rel)
    text = preprocess(open(path).read(), path_rel)
    toks = lex(text, path_rel)
    classes, funcs = [], []
    i, n = 0, len(toks)
    tparams = None
    while i < n:
        t = toks[i][0]
        if t == "namespace":
            while toks[i][0] != "{":
                i += 1
            i += 1
            continue
        if t == "}" or t == ";":
            i += 1
            continue
        if t == "template":
            close = match_close(toks, i + 1, "<", ">")
            tparams = []
            for p in split_top(toks[i + 2:close]):
                names = [x[0] for x in p]
                if "=" in names:
                    k = names.index("=")
                    tparams.append((names[k - 1], p[k + 1:]))
                else:
                    tparams.append((names[-1], None))
            i = close + 1
            continue
        if t in ("class", "struct"):
            c = Class()
            c.path, c.line = path_rel, toks[i][1]
            c.name = toks[i + 1][0]
            c.tparams = tparams or []
            tparams = None
            i += 2
            if toks[i][0] == ";":      # forward declaration
                i += 1
                continue
            if toks[i][0] == "<":
                close = match_close(toks, i, "<", ">")
                c.spec = [tstr(p) for p in split_top(toks[i + 1:close])]
                i = close + 1
            if toks[i][0] == ":":
                i += 1
                if toks[i][0] in ("public", "protected", "private"):
                    i += 1
                bname = toks[i][0]
                i += 1
                bargs = []
                if toks[i][0] == "<":
                    close = match_close(toks, i, "<", ">")
                    bargs = [tstr(p) for p in split_top(toks[i + 1:close])]
                    i = close + 1
                c.base = (bname, bargs)
            if toks[i][0] != "{":
                raise Untranslatable("%s:%d: class head not understood" % (path_rel, toks[i][1]))
            end = match_close(toks, i, "{", "}")
            parse_class_body(toks[i + 1:end], c, path_rel)
            classes.append(c)
            i = end + 1
            continue
        # namespace-scope declaration or function
        j, depth = i, 0
        while j < n:
            x = toks[j][0]
            if x in "(<[":
                depth += 1
            elif x in ")>]":
                depth -= 1
            elif depth == 0 and x in (";", "{"):
                break
            j += 1
        if j >= n:
            break
        if toks[j][0] == ";":
            i = j + 1
            tparams = None
            continue
        end = match_close(toks, j, "{", "}")
        funcs.append(parse_function(toks[i:j], toks[j + 1:end], None, path_rel, None))
        tparams = None
        i = end + 1
    return classes, funcs


# ------------------------------------------------------------------------------------------------ bodies: AST

class P:
    """Recursive-descent parser of statements/expressions over a token list."""

    def __init__(self, toks, where):
        self.t, self.i, self.where = toks, 0, where

    def peek(self, k=0):
        return self.t[self.i + k][0] if self.i + k < len(self.t) else None

    def eat(self, x=None):
        if self.i >= len(self.t):
            raise Untranslatable("%s: unexpected end of body" % self.where)
        tok = self.t[self.i]
        if x is not None and tok[0] != x:
            raise Untranslatable("%s:%d: expected '%s', found '%s'" % (self.where, tok[1], x, tok[0]))
        self.i += 1
        return tok[0]

    def err(self, what):
        ln = self.t[min(self.i, len(self.t) - 1)][1] if self.t else 0
        ctx = tstr(self.t[max(0, self.i - 3):self.i + 6])
        raise Untranslatable("%s:%d: %s (near: %s)" % (self.where, ln, what, ctx))

    # ---- statements
    def stmts(self):
        out = []
        while self.i < len(self.t):
            out.append(self.stmt())
        return out

    def block(self):
        self.eat("{")
        out = []
        while self.peek() != "}":
            out.append(self.stmt())
        self.eat("}")
        return out

    def stmt(self, need_semi=True):
        p = self.peek()
        if p == "return":
            self.eat()
            e = None if self.peek() == ";" else self.expr()
            if need_semi:
                self.eat(";")
            return ("return", e)
        if p == "auto":
            self.eat()
            if self.peek() == "*":
                self.eat()
            name = self.eat()
            self.eat("=")
            e = self.expr()
            if need_semi:
                self.eat(";")
            return ("decl", name, e)
        if p == "if":
            self.eat()
            self.eat("(")
            c = self.expr()
            self.eat(")")
            a = self.block()
            b = []
            if self.peek() == "else":
                self.eat()
                b = self.block()
            return ("if", c, a, b)
        if p == "YACLIB_INJECT_FAULT":
            self.eat()
            self.eat("(")
            s = self.stmt(need_semi=False)
            self.eat(")")
            if need_semi:
                self.eat(";")
            return ("inject", s)
        if p in ("while", "for", "do", "switch", "goto", "try", "throw", "using", "const", "static"):
            self.err("statement '%s' is not in the vocabulary" % p)
        e = self.expr()
        if need_semi:
            self.eat(";")
        return ("expr", e)

    # ---- expressions
    def expr(self):
        lhs = self.ternary()
        p = self.peek()
        if p in ("=", "+=", "-=", "&=", "|=", "^="):
            self.eat()
            rhs = self.expr()
            return ("assign", p, lhs, rhs)
        return lhs

    def ternary(self):
        c = self.lor()
        if self.peek() == "?":
            self.eat()
            a = self.expr()
            self.eat(":")
            b = self.ternary()
            return ("cond", c, a, b)
        return c

    def lor(self):
        a = self.land()
        while self.peek() == "||":
            self.eat()
            a = ("lor", a, self.land())
        return a

    def land(self):
        a = self.eq()
        while self.peek() == "&&":
            self.eat()
            a = ("land", a, self.eq())
        return a

    def eq(self):
        a = self.bor()
        while self.peek() in ("==", "!="):
            op = self.eat()
            b = self.bor()
            a = ("bin", op, a, b)
        return a

    def bor(self):
        a = self.bxor()
        while self.peek() == "|":
            self.eat()
            a = ("bin", "|", a, self.bxor())
        return a

    def bxor(self):
        a = self.band()
        while self.peek() == "^":
            self.eat()
            a = ("bin", "^", a, self.band())
        return a

    def band(self):
        a = self.add()
        while self.peek() == "&":
            self.eat()
            a = ("bin", "&", a, self.add())
        return a

    def mul(self):
        a = self.unary()
        while self.peek() == "*":
            self.eat()
            a = ("bin", "*", a, self.unary())
        return a

    def add(self):
        a = self.mul()
        while self.peek() in ("+", "-"):
            op = self.eat()
            a = ("bin", op, a, self.mul())
        if self.peek() in ("/", "%", "<", ">"):
            self.err("operator '%s' is not in the vocabulary" % self.peek())
        return a

    def unary(self):
        p = self.peek()
        if p in ("++", "--"):
            self.eat()
            return ("pre", p, self.unary())
        if p == "&":
            self.eat()
            return ("addr", self.unary())
        if p == "*":
            self.eat()
            return ("deref", self.unary())
        if p == "!":
            self.eat()
            return ("not", self.unary())
        if p in ("~", "-", "+"):
            self.err("unary '%s' is not in the vocabulary" % p)
        return self.postfix()

    def postfix(self):
        e = self.primary()
        while True:
            p = self.peek()
            if p in ("++", "--"):
                self.eat()
                e = ("post", p, e)
            elif p == "(":
                self.eat()
                args = []
                while self.peek() != ")":
                    args.append(self.expr())
                    if self.peek() == ",":
                        self.eat()
                self.eat(")")
                e = ("call", e, args)
            else:
                return e

    def primary(self):
        p = self.peek()
        if p is None:
            self.err("expression expected")
        if p == "(":
            self.eat()
            e = self.expr()
            self.eat(")")
            return e
        if re.match(r"^\d", p):
            self.eat()
            return ("lit", int(re.sub(r"[uUlL]", "", p)))
        if p in ("true", "false"):
            self.eat()
            return ("bool", p == "true")
        if p == "this":
            self.eat()
            if self.peek() == "->":
                self.eat()
                return ("name", self.eat())
            return ("this",)
        if p in ("static_cast", "reinterpret_cast"):
            self.eat()
            self.eat("<")
            ty = []
            depth = 1
            while True:
                x = self.eat()
                if x == "<":
                    depth += 1
                elif x == ">":
                    depth -= 1
                    if depth == 0:
                        break
                ty.append(x)
            self.eat("(")
            e = self.expr()
            self.eat(")")
            return ("cast", " ".join(ty), e)
        if p == "sizeof":
            self.eat()
            self.eat("(")
            ty, depth = [], 0
            while not (self.peek() == ")" and depth == 0):
                x = self.eat()
                depth += (x in "(<") - (x in ")>")
                ty.append(x)
            self.eat(")")
            return ("sizeof", " ".join(ty))
        if re.match(r"^[A-Za-z_]", p):
            name = self.eat()
            while self.peek() == "::":
                self.eat()
                nxt = self.eat()
                if nxt == "operator":
                    op = self.eat()
                    nxt = "operator" + op
                name += "::" + nxt
            return ("name", name)
        self.err("token '%s' is not in the vocabulary" % p)


# ------------------------------------------------------------------------------------------------ Gallina emission

OPN = {
    "operator=": "Assign", "store": "Store", "load": "Load", "operator T": "Conv", "exchange": "Xchg",
    "fetch_add": "FAdd", "fetch_sub": "FSub", "operator+=": "AddA", "operator-=": "SubA",
    "fetch_and": "FAnd", "fetch_or": "FOr", "fetch_xor": "FXor",
    "operator&=": "AndA", "operator|=": "OrA", "operator^=": "XorA",
    "clear": "Clear", "test_and_set": "TAS", "test": "Test",
}
BOP = {"+": "BAdd", "-": "BSub", "&": "BAnd", "|": "BOr", "^": "BXor"}
MO = {"relaxed": "Rlx", "consume": "Csm", "acquire": "Acq", "release": "Rel", "acq_rel": "AcqRel", "seq_cst": "SeqCst"}
KEYWORDS = {"val": "val", "_value": "value_", "order": "order", "end": "end_", "at": "at_", "in": "in_"}


def opn_of(name, n_mo, has_dummy, where):
    if name in ("compare_exchange_weak", "compare_exchange_strong"):
        if n_mo not in (1, 2):
            raise Untranslatable("%s: %s with %d memory-order arguments" % (where, name, n_mo))
        return ("Cew" if name.endswith("weak") else "Ces") + str(n_mo)
    if name in ("operator++", "operator--"):
        return ("Post" if has_dummy else "Pre") + ("Inc" if name.endswith("++") else "Dec")
    if name in OPN:
        return OPN[name]
    return None


def method_opn(m):
    n_mo = sum(1 for p in m.params if p["kind"] == "mo")
    dummy = any(p["kind"] == "dummy" for p in m.params)
    return opn_of(m.name, n_mo, dummy, "%s:%d" % (m.path, m.line))


def sani(name):
    return KEYWORDS.get(name, name if not name.startswith("_") else name[1:] + "_")


def ident_of(m, prefix):
    nm = m.name
    table = {"operator=": "assign", "operator T": "conv", "operator+=": "add_assign", "operator-=": "sub_assign",
             "operator&=": "and_assign", "operator|=": "or_assign", "operator^=": "xor_assign"}
    if nm in ("operator++", "operator--"):
        dummy = any(p["kind"] == "dummy" for p in m.params)
        nm = ("post" if dummy else "pre") + ("_inc" if nm.endswith("++") else "_dec")
    elif nm in table:
        nm = table[nm]
    elif nm in ("compare_exchange_weak", "compare_exchange_strong"):
        nm = nm + str(sum(1 for p in m.params if p["kind"] == "mo"))
    if m.is_ctor:
        nm = "init"
    cname = m.cls.name if m.cls else ""
    if m.cls is not None and m.cls.spec:
        cname += "_" + "_".join(re.sub(r"\W+", "", "ptr" if "*" in s else s) for s in m.cls.spec if s not in ("T", "Impl"))
    cname = cname.rstrip("_")
    return "%s_%s_%s%s" % (prefix, cname, nm, "_v" if m.volatile else "") if cname else "%s_%s" % (prefix, nm)


class Emit:
    """Translate one member function into a Gallina term of type opfun (continuation-passing over statements)."""

    def __init__(self, m, world, wrapper):
        self.m, self.world, self.wrapper = m, world, wrapper
        self.where = "%s:%d (%s)" % (m.path, m.line, m.name)
        self.tmp = 0
        self.vars = {"_value"}      # names bound to typed values
        self.refs = set()
        self.p1 = None
        self.value_params = []
        for p in m.params:
            if p["kind"] in ("val", "ref", "diff", "bool", "uptr") and p["name"]:
                self.value_params.append(p)
                self.vars.add(p["name"])
        if len(self.value_params) > 2:
            raise Untranslatable("%s: more than two value parameters" % self.where)
        self.mo_params = [p["name"] for p in m.params if p["kind"] == "mo" and p["name"]]

    def fresh(self, base="t"):
        self.tmp += 1
        return "%s%d" % (base, self.tmp)

    def ty(self, spelling):
        """Gallina cty expression of a C++ type spelling."""
        s = spelling.strip()
        if s in ("T", "T &", "U *"):
            return "T"
        if s == "bool":
            return "CBool"
        if s in ("std :: ptrdiff_t",):
            return "ptrdiff_t"
        if s in ("std :: uintptr_t", "std :: size_t"):
            return "uintptr_t"
        if s == "int":
            return "int_t"
        cls = self.m.cls
        c = cls
        while c is not None:
            if s in c.aliases:
                return "(%s)" % type_expr(c.aliases[s], self.where)
            c = self.world.base_of(c, None)
        raise Untranslatable("%s: type '%s' is not in the vocabulary" % (self.where, s))

    def sizeof(self, spelling):
        """Gallina Z expression of sizeof(X) for the instantiated T = U*."""
        t = spelling.replace(" ", "")
        if self.m.cls is None or not (self.m.cls.spec and any("*" in x for x in self.m.cls.spec)):
            raise Untranslatable("%s: sizeof(%s) outside the pointer specialisation" % (self.where, t))
        if t == "U":
            return "sizeof_pointee T"
        if t in ("std::remove_pointer_t<U>", "typenamestd::remove_pointer<U>::type"):
            return "sizeof_rp_pointee T"
        if t in ("U*", "T", "void*", "std::uintptr_t"):
            return "8"
        raise Untranslatable("%s: sizeof(%s) is not in the vocabulary" % (self.where, t))

    def ret_ty(self):
        return {"T": "T", "bool": "CBool", "void": None}[self.m.ret]

    def param_ty(self, p):
        return {"val": "T", "ref": "T", "diff": "ptrdiff_t", "bool": "CBool", "uptr": "uintptr_t"}[p["kind"]]

    # ---- top
    def definition(self, name):
        m = self.m
        lines = []
        args = "(S : sem) (T : cty) (spur : bool) (v0 a1 a2 : Z)"
        if self.wrapper:
            args = "(I : impl) " + args
        lines.append("Definition %s %s : option (Z * Z * Z) :=" % (name, args))
        lines.append("  let value_ := (T, v0) in")
        for k, p in enumerate(self.value_params):
            lines.append("  let %s := cast %s (%s, a%d) in" % (sani(p["name"]), self.param_ty(p), self.param_ty(p), k + 1))
        stmts = []
        if m.is_ctor and m.init:
            for member, toks in m.init:
                if member != "_value":
                    raise Untranslatable("%s: initialiser of member %s" % (self.where, member))
                stmts.append(("expr", ("assign", "=", ("name", "_value"), P(toks, self.where).expr())))
        stmts += P(m.body, self.where).stmts()
        lines.append(self.seq(stmts, 1))
        return "\n".join(lines) + ".\n"

    def finish(self, ret, ind):
        p1 = "snd %s" % sani(self.value_params[0]["name"]) if self.value_params else "a1"
        return "%sSome (snd value_, snd %s, %s)" % ("  " * ind, ret, p1)

    def seq(self, stmts, ind):
        pad = "  " * ind
        if not stmts:
            return self.finish("cvoid", ind)
        s, rest = stmts[0], stmts[1:]
        kind = s[0]
        if kind == "inject":       # InjectFault(); statement; InjectFault()  -- the injection points do not touch the value
            return self.seq([s[1]] + rest, ind)
        if kind == "return":
            if s[1] is None:
                return self.finish("cvoid", ind)
            rt = self.ret_ty()
            if rt is None:
                raise Untranslatable("%s: value returned from a void function" % self.where)
            return self.expr(s[1], ind, lambda x: "%slet ret := cast %s %s in\n%s" % (pad, rt, x, self.finish("ret", ind)))
        if kind == "decl":
            name = s[1]
            self.vars.add(name)

            def k(x, name=name):
                return "%slet %s := %s in\n%s" % (pad, sani(name), x, self.seq(rest, ind))
            if self.wrapper and s[2][0] in ("call", "pre", "post"):
                # auto r = Impl::f(..): r has the type the enclosing function returns
                rt = self.ret_ty() or "CBool"
                return self.expr(s[2], ind, lambda x: "%slet %s := cast %s %s in\n%s" % (pad, sani(name), rt, x, self.seq(rest, ind)))
            return self.expr(s[2], ind, k)
        if kind == "expr":
            return self.expr(s[1], ind, lambda x: self.seq(rest, ind))
        if kind == "if":
            def k(c):
                a = self.seq(s[2] + rest, ind + 1)
                b = self.seq(s[3] + rest, ind + 1)
                return "%sif truth %s then\n%s\n%selse\n%s" % (pad, c, a, pad, b)
            return self.expr(s[1], ind, k)
        raise Untranslatable("%s: statement %s" % (self.where, kind))

    def lvalue(self, e):
        if e[0] == "name" and e[1] in self.vars:
            return e[1]
        raise Untranslatable("%s: assignment target is not a known object: %r" % (self.where, e))

    # ---- expressions: expr(e, ind, k) -> code; k receives a Gallina term (a variable or closed term) of type cv
    def expr(self, e, ind, k):
        pad = "  " * ind
        kind = e[0]
        if kind == "name":
            n = e[1]
            if n in self.vars:
                return k(sani(n))
            raise Untranslatable("%s: name '%s' is not in the vocabulary" % (self.where, n))
        if kind == "lit":
            return k("(clit %d)" % e[1])
        if kind == "bool":
            return k("ctrue" if e[1] else "cfalse")
        if kind == "cast":
            if e[1].replace(" ", "") == "Impl&":
                raise Untranslatable("%s: static_cast<Impl&> outside ++/--" % self.where)
            t = self.ty(e[1])
            x = self.fresh()
            return self.expr(e[2], ind, lambda a: "%slet %s := cast %s %s in\n%s" % (pad, x, t, a, k(x)))
        if kind == "bin":
            op = e[1]
            if op in ("==", "!="):
                cmpf = "ceq S"
                lhs, rhs = e[2], e[3]
                # std::memcmp(&a, &b, sizeof(T)) == 0 : comparison of the object representations
                if lhs[0] == "call" and lhs[1] == ("name", "std::memcmp"):
                    a = lhs[2]
                    if not (rhs == ("lit", 0) and len(a) == 3 and a[0][0] == "addr" and a[1][0] == "addr" and a[2][0] == "sizeof"):
                        raise Untranslatable("%s: memcmp form not in the vocabulary" % self.where)
                    cmpf, lhs, rhs = "beq", a[0][1], a[1][1]
                x = self.fresh("c")
                neg = "negb " if op == "!=" else ""

                def k2(a, b):
                    return "%sobind (%s %s %s) (fun %s_ => let %s := (CBool, if %s%s_ then 1 else 0) in\n%s)" % (
                        pad, cmpf, a, b, x, x, neg, x, k(x))
                return self.expr(lhs, ind, lambda a: self.expr(rhs, ind, lambda b: k2(a, b)))
            if op == "*":
                # only  e * sizeof(X)  /  sizeof(X) * e : scaling by an object size, computed in std::size_t
                lhs, rhs = (e[2], e[3]) if e[3][0] == "sizeof" else (e[3], e[2])
                if rhs[0] != "sizeof" or lhs[0] == "sizeof":
                    raise Untranslatable("%s: '*' other than e * sizeof(X) is not in the vocabulary" % self.where)
                x = self.fresh()
                return self.expr(lhs, ind, lambda a: "%slet %s := mul_sizeof %s (%s) in\n%s" % (pad, x, a, self.sizeof(rhs[1]), k(x)))
            x = self.fresh()
            return self.expr(e[2], ind, lambda a: self.expr(e[3], ind, lambda b:
                             "%sobind (binop S %s %s %s) (fun %s =>\n%s)" % (pad, BOP[op], a, b, x, k(x))))
        if kind == "not":
            x = self.fresh("n")
            return self.expr(e[1], ind, lambda a: "%slet %s := (CBool, if truth %s then 0 else 1) in\n%s" % (pad, x, a, k(x)))
        if kind in ("land", "lor"):
            # short-circuit: the right operand (and its effects) only when the left one does not decide
            x = self.fresh("b")

            def rhs(a):
                both = self.expr(e[2], ind + 1, lambda b: "%s  let %s := (CBool, if truth %s then 1 else 0) in\n%s" % (pad, x, b, k(x)))
                short = "%s  let %s := %s in\n%s" % (pad, x, "cfalse" if kind == "land" else "ctrue", k(x))
                if kind == "land":
                    return "%sif truth %s then\n%s\n%selse\n%s" % (pad, a, both, pad, short)
                return "%sif truth %s then\n%s\n%selse\n%s" % (pad, a, short, pad, both)
            return self.expr(e[1], ind, rhs)
        if kind == "cond":
            raise Untranslatable("%s: ?: on values is not in the vocabulary" % self.where)
        if kind == "assign":
            lv = self.lvalue(e[2])
            n = sani(lv)
            if e[1] == "=":
                return self.expr(e[3], ind, lambda a: "%slet %s := cast (fst %s) %s in\n%s" % (pad, n, n, a, k(n)))
            op = BOP[e[1][0]]
            x = self.fresh()
            return self.expr(e[3], ind, lambda a:
                             "%sobind (binop S %s %s %s) (fun %s =>\n%slet %s := cast (fst %s) %s in\n%s)" % (
                                 pad, op, n, a, x, pad, n, n, x, k(n)))
        if kind in ("pre", "post"):
            op = "BAdd" if e[1] == "++" else "BSub"
            tgt = e[2]
            if tgt[0] == "cast" and tgt[1].replace(" ", "") == "Impl&" and tgt[2] == ("deref", ("this",)):
                if not self.wrapper:
                    raise Untranslatable("%s: Impl outside the wrapper" % self.where)
                o = ("Pre" if kind == "pre" else "Post") + ("Inc" if e[1] == "++" else "Dec")
                return self.icall(o, False, [], ind, k)     # Impl& is not volatile-qualified
            lv = sani(self.lvalue(tgt))
            x = self.fresh()
            if kind == "pre":
                return "%sobind (binop S %s %s (clit 1)) (fun %s =>\n%slet %s := cast (fst %s) %s in\n%s)" % (
                    pad, op, lv, x, pad, lv, lv, x, k(lv))
            old = self.fresh("old")
            return "%slet %s := %s in\n%sobind (binop S %s %s (clit 1)) (fun %s =>\n%slet %s := cast (fst %s) %s in\n%s)" % (
                pad, old, lv, pad, op, lv, x, pad, lv, lv, x, k(old))
        if kind == "call":
            f = e[1]
            if f[0] != "name":
                raise Untranslatable("%s: call of a computed function" % self.where)
            fn, args = f[1], e[2]
            if fn == "std::exchange":
                if len(args) != 2:
                    raise Untranslatable("%s: std::exchange arity" % self.where)
                lv = sani(self.lvalue(args[0]))
                old = self.fresh("old")
                return self.expr(args[1], ind, lambda a: "%slet %s := %s in\n%slet %s := cast (fst %s) %s in\n%s" % (
                    pad, old, lv, pad, lv, lv, a, k(old)))
            if fn == "std::memcpy":
                # std::memcpy(&x, &y, sizeof(T)): assignment of the whole object representation
                if not (len(args) == 3 and args[0][0] == "addr" and args[1][0] == "addr" and args[2][0] == "sizeof"):
                    raise Untranslatable("%s: memcpy form not in the vocabulary" % self.where)
                return self.expr(("assign", "=", args[0][1], args[1][1]), ind, k)
            if fn == "ShouldFailAtomicWeak":
                if not self.wrapper or args:
                    raise Untranslatable("%s: ShouldFailAtomicWeak outside the wrapper" % self.where)
                return k("(CBool, if spur then 1 else 0)")
            if fn.startswith("Impl::"):
                if not self.wrapper:
                    raise Untranslatable("%s: Impl outside the wrapper" % self.where)
                name = fn[len("Impl::"):]
                vals = [a for a in args if not self.is_mo_expr(a)]
                n_mo = len(args) - len(vals)
                o = opn_of(name, n_mo, False, self.where)
                if o is None:
                    raise Untranslatable("%s: Impl::%s is not an atomic operation of the vocabulary" % (self.where, name))
                return self.icall(o, self.m.volatile, vals, ind, k)
            if "::" in fn:
                raise Untranslatable("%s: call of %s is not in the vocabulary" % (self.where, fn))
            # member function of the same class hierarchy
            vals = [a for a in args if not self.is_mo_expr(a)]
            callee = self.world.lookup(self.m.cls, fn, self.m.volatile, len(vals), len(args) - len(vals))
            if callee is None:
                raise Untranslatable("%s: call of unknown function %s" % (self.where, fn))
            cm, cname = callee
            cps = [p for p in cm.params if p["kind"] in ("val", "ref", "diff", "bool", "uptr") and p["name"]]
            rty = {"T": "T", "bool": "CBool", "void": "CBool"}[cm.ret]
            r = self.fresh("r")
            pre = "I " if self.wrapper else ""

            def done(vs):
                a = ["(snd (cast %s %s))" % ({"val": "T", "ref": "T", "diff": "ptrdiff_t", "bool": "CBool", "uptr": "uintptr_t"}[p["kind"]], x)
                     for p, x in zip(cps, vs)]
                while len(a) < 2:
                    a.append("0")
                code = "%sobind (%s %sS T spur (snd value_) %s %s) (fun %s =>\n" % (pad, cname, pre, a[0], a[1], r)
                code += "%slet value_ := (fst value_, r_st %s) in\n" % (pad, r)
                if cps and cps[0]["kind"] == "ref":
                    lv = sani(self.lvalue(vals[0]))
                    code += "%slet %s := (fst %s, r_a1 %s) in\n" % (pad, lv, lv, r)
                x = self.fresh()
                code += "%slet %s := (%s, r_ret %s) in\n%s)" % (pad, x, rty, r, k(x))
                return code
            return self.many(vals, ind, done)
        raise Untranslatable("%s: expression form '%s' is not in the vocabulary" % (self.where, kind))

    def many(self, es, ind, k, acc=None):
        acc = acc or []
        if not es:
            return k(acc)
        return self.expr(es[0], ind, lambda a: self.many(es[1:], ind, k, acc + [a]))

    def is_mo_expr(self, e):
        if e[0] == "name":
            return e[1] in self.mo_params or "memory_order" in e[1]
        if e[0] == "call" and e[1][0] == "name":
            return e[1][1] in self.world.mo_funcs
        if e[0] == "cond":
            return self.is_mo_expr(e[2])
        return False

    def icall(self, o, vol, vals, ind, k):
        pad = "  " * ind
        r = self.fresh("r")

        def done(vs):
            a = ["(snd %s)" % x for x in vs]
            while len(a) < 2:
                a.append("0" if a else "a1")
            if not vs:
                a = ["a1", "a2"]
            # Impl::op is not told the wrapper's ShouldFailAtomicWeak() answer: its own spurious choice is `false`
            code = "%sobind (icall I %s %s S T false (snd value_) %s %s) (fun %s =>\n" % (
                pad, o, "true" if vol else "false", a[0], a[1], r)
            code += "%slet value_ := (fst value_, r_st %s) in\n" % (pad, r)
            if vals and vals[0][0] == "name" and vals[0][1] in self.vars and vals[0][1] != "_value":
                lv = sani(vals[0][1])   # by-reference parameter of the callee (compare_exchange); a no-op otherwise
                code += "%slet %s := (fst %s, r_a1 %s) in\n" % (pad, lv, lv, r)
            x = self.fresh()
            code += "%slet %s := (T, r_ret %s) in\n%s)" % (pad, x, r, k(x))
            return code
        return self.many(vals, ind, done)

    # ---- memory orders handed on by a wrapper function
    def mo_expr(self, e):
        if e[0] == "name":
            n = e[1]
            if n in self.mo_params:
                return sani(n)
            mm = re.match(r"^std::memory_order(?:_|::)(\w+)$", n)
            if mm and mm.group(1) in MO:
                return MO[mm.group(1)]
            raise Untranslatable("%s: memory order '%s'" % (self.where, n))
        if e[0] == "cond":
            c = e[1]
            if not (c[0] == "bin" and c[1] == "=="):
                raise Untranslatable("%s: memory-order condition" % self.where)
            return "(if mo_eqb %s %s then %s else %s)" % (self.mo_expr(c[2]), self.mo_expr(c[3]),
                                                           self.mo_expr(e[2]), self.mo_expr(e[3]))
        if e[0] == "call" and e[1][0] == "name" and e[1][1] in self.world.mo_funcs:
            return "(%s %s)" % (self.world.mo_funcs[e[1][1]], " ".join(self.mo_expr(a) for a in e[2]))
        raise Untranslatable("%s: memory-order expression not in the vocabulary: %r" % (self.where, e))

    def calls_with_orders(self):
        """[(opn, [mo expr])] for every Impl:: / own-member call in the body, in source order."""
        out = []

        def walk(e):
            if isinstance(e, tuple):
                if e and e[0] == "call" and e[1][0] == "name":
                    fn, args = e[1][1], e[2]
                    for a in args:
                        walk(a)
                    mos = [a for a in args if self.is_mo_expr(a)]
                    name = fn[len("Impl::"):] if fn.startswith("Impl::") else fn
                    if fn.startswith("Impl::"):
                        o = opn_of(name, len(mos), False, self.where)
                        out.append((o, [self.mo_expr(a) for a in mos]))
                    elif fn not in ("ShouldFailAtomicWeak", "std::exchange", "std::memcmp", "std::memcpy") and "::" not in fn:
                        vals = [a for a in args if not self.is_mo_expr(a)]
                        callee = self.world.lookup(self.m.cls, fn, self.m.volatile, len(vals), None)
                        if callee is not None:
                            cm = callee[0]
                            cmo = [p for p in cm.params if p["kind"] == "mo"]
                            given = [self.mo_expr(a) for a in mos]
                            for p in cmo[len(given):]:
                                if p["default"] is None:
                                    raise Untranslatable("%s: call of %s without an order and no default" % (self.where, fn))
                                given.append(Emit(cm, self.world, True).mo_expr(P(p["default"], self.where).expr()))
                            out.append((method_opn(cm), given))
                    return
                if e and e[0] in ("pre", "post") and e[2][0] == "cast":
                    out.append((("Pre" if e[0] == "pre" else "Post") + ("Inc" if e[1] == "++" else "Dec"), []))
                    return
                for x in e:
                    walk(x)
            elif isinstance(e, list):
                for x in e:
                    walk(x)
        walk(P(self.m.body, self.where).stmts())
        return out


def type_expr(toks, where):
    """Class-level alias  ->  Gallina cty expression over T."""
    s = "".join(t[0] if isinstance(t, tuple) else t for t in toks)
    s = s.replace("typename", "")

    def ty(x):
        x = x.strip()
        if x == "T":
            return "T"
        m = re.match(r"^std::make_unsigned_t<(.*)>$", x)
        if m:
            return "unsigned_of (%s)" % ty(m.group(1))
        m = re.match(r"^std::make_unsigned<(.*)>::type$", x)
        if m:
            return "unsigned_of (%s)" % ty(m.group(1))
        m = re.match(r"^std::common_type<(.*)>::type$", x) or re.match(r"^std::common_type_t<(.*)>$", x)
        if m:
            args = split_str(m.group(1))
            if len(args) == 1:
                return ty(args[0])
            if len(args) == 2 and sorted(args) == ["T", "longdouble"]:
                # the common type of a floating T and long double: a wider floating intermediate (integral T does not
                # reach here in the sources: the alias is selected for floating T only; widen_flt is the identity there)
                return "widen_flt (T)"
            raise Untranslatable("%s: std::common_type of %s is not in the vocabulary" % (where, ", ".join(args)))
        m = re.match(r"^std::(?:type_identity|enable_if<true,)<?(.*)>::type$", x)
        if m:
            return ty(m.group(1).rstrip(">"))
        m = re.match(r"^std::conditional_t<(.*)>(::type)?$", x)
        if m:
            parts = split_str(m.group(1))
            if len(parts) != 3:
                raise Untranslatable("%s: conditional_t arity in %s" % (where, s))
            suffix = "::type" if m.group(2) else ""
            return "if %s then %s else %s" % (cond(parts[0]), ty(parts[1] + suffix), ty(parts[2] + suffix))
        raise Untranslatable("%s: type expression not in the vocabulary: %s" % (where, x))

    def cond(x):
        x = x.strip()
        if x == "std::is_integral_v<T>":
            return "is_integral T"
        raise Untranslatable("%s: type condition not in the vocabulary: %s" % (where, x))
    return ty(s)


def split_str(s):
    parts, cur, depth = [], "", 0
    for ch in s:
        if ch == "<":
            depth += 1
        elif ch == ">":
            depth -= 1
        if ch == "," and depth == 0:
            parts.append(cur)
            cur = ""
        else:
            cur += ch
    parts.append(cur)
    return parts


# ------------------------------------------------------------------------------------------------ class hierarchy

KINDS = {  # truth of the type traits used in default template arguments, per kind of T
    "int": {"std::is_integral_v<T>": True, "std::is_same_v<T,bool>": False, "std::is_floating_point_v<T>": False},
    "bool": {"std::is_integral_v<T>": True, "std::is_same_v<T,bool>": True, "std::is_floating_point_v<T>": False},
    "flt": {"std::is_integral_v<T>": False, "std::is_same_v<T,bool>": False, "std::is_floating_point_v<T>": True},
    "ptr": {"std::is_integral_v<T>": False, "std::is_same_v<T,bool>": False, "std::is_floating_point_v<T>": False},
}


def eval_bool(toks, kind, where):
    s = "".join(t[0] for t in toks)
    parts = s.split("&&")
    val = True
    for p in parts:
        neg = p.startswith("!")
        p = p.lstrip("!")
        if p in ("true", "false"):
            v = p == "true"
        elif p in KINDS[kind]:
            v = KINDS[kind][p]
        else:
            raise Untranslatable("%s: default template argument not in the vocabulary: %s" % (where, s))
        val = val and (v != neg)
    return val


class World:
    def __init__(self, classes, prefix, mo_funcs):
        self.classes, self.prefix, self.mo_funcs = classes, prefix, mo_funcs
        self.names = {}

    def find(self, name, args, kind):
        """Class template `name` instantiated with argument strings `args` for a T of `kind`."""
        cands = [c for c in self.classes if c.name == name]
        if not cands:
            return None
        primary = [c for c in cands if c.spec is None]
        if kind is None:
            # no kind: only explicitly written arguments can select a specialisation
            for c in cands:
                if c.spec is not None and len(c.spec) == len(args) and any(x in ("true", "false") for x in c.spec) and \
                        all(x == a for x, a in zip(c.spec, args) if x in ("true", "false")):
                    return c
            return primary[0] if primary else cands[0]
        prim = primary[0] if primary else None
        full = list(args)
        if prim is not None:
            for (pn, dflt) in prim.tparams[len(full):]:
                if dflt is None:
                    raise Untranslatable("%s: missing template argument %s" % (name, pn))
                full.append("true" if eval_bool(dflt, kind, "%s:%d" % (prim.path, prim.line)) else "false")
        for c in cands:
            if c.spec is None:
                continue
            ok = True
            for s, a in zip(c.spec, full):
                if s in ("true", "false"):
                    ok = ok and s == a
                elif "*" in s:
                    ok = ok and kind == "ptr"
            if len(c.spec) == len(full) and ok:
                return c
        return prim

    def base_of(self, c, kind):
        if c.base is None:
            return None
        bname, bargs = c.base
        if bname == "Impl":
            return None
        # explicit (non-defaulted) arguments only: drop the ones naming the class's own parameters Impl/T/U*
        return self.find(bname, bargs, kind)

    def chain(self, top, kind):
        out, c = [], top
        while c is not None:
            out.append(c)
            c = self.base_of(c, kind)
        return out

    def lookup(self, cls, fn, vol, n_val, n_mo):
        """Name lookup from inside class `cls` (kind-independent: up the primary chain), overload by cv then arity."""
        c = cls
        seen = []
        while c is not None:
            ms = [m for m in c.methods if m.name == fn]
            if ms:
                def score(m):
                    vals = sum(1 for p in m.params if p["kind"] in ("val", "ref", "diff", "bool", "uptr"))
                    mos = sum(1 for p in m.params if p["kind"] == "mo")
                    return (m.volatile == vol, vals == n_val, n_mo is None or mos >= n_mo, -mos)
                ms.sort(key=score, reverse=True)
                m = ms[0]
                return m, self.names[id(m)]
            seen.append(c)
            c = self.base_of(c, None)
        return None


def translate_tree():
    parsed = {k: parse_file(v) for k, v in FILES.items()}
    out = []
    notes = []
    out.append("(* GENERATED by tools/translate_fiber_atomic.py from the tree %s -- do not edit.\n" % vlib.REPO)
    for k, v in FILES.items():
        out.append("     %s\n" % v)
    out.append("   Every definition is the statement-by-statement translation of the C++ function named in the comment above it. *)\n")
    out.append("From Coq Require Import ZArith List Bool.\nImport ListNotations.\nOpen Scope Z_scope.\n")
    out.append("From YV Require Import model.AtomicCSem.\n\n")

    # ---- memory-order helper functions of the wrapper header (constexpr functions returning std::memory_order)
    mo_funcs = {}
    for f in parsed["watomic"][1]:
        if f.ret == "mo":
            gname = "gen_" + f.name
            em = Emit(f, World([], "", mo_funcs), True)
            st = P(f.body, em.where).stmts()
            if len(st) != 1 or st[0][0] != "return":
                raise Untranslatable("%s: memory-order helper must be a single return" % em.where)
            out.append("(* %s:%d  %s *)\n" % (f.path, f.line, f.name))
            out.append("Definition %s %s : mo :=\n  %s.\n\n" % (
                gname, " ".join("(%s : mo)" % sani(p) for p in em.mo_params), em.mo_expr(st[0][1])))
            mo_funcs[f.name] = gname
        elif f.name in ("ShouldFailAtomicWeak", "SetAtomicWeakFailFrequency"):
            pass
        else:
            raise Untranslatable("%s:%d: free function %s is not in the vocabulary" % (f.path, f.line, f.name))

    # ---- fences
    for f in parsed["fence"][1]:
        if f.name in ("atomic_thread_fence", "atomic_signal_fence"):
            st = P(f.body, f.name).stmts()
            if st:
                raise Untranslatable("%s:%d: fence %s has a body; only the empty fence is in the vocabulary" % (f.path, f.line, f.name))
            out.append("(* %s:%d  %s: empty body *)\nDefinition gen_%s (v : Z) : Z := v.\n\n" % (f.path, f.line, f.name, f.name))
        else:
            raise Untranslatable("%s:%d: unexpected function %s" % (f.path, f.line, f.name))

    def emit_world(classes, prefix, wrapper):
        w = World(classes, prefix, mo_funcs)
        for c in classes:
            for m in c.methods:
                w.names[id(m)] = ident_of(m, prefix)
        # helpers first (so that callers find them defined): emit in dependency order = callee before caller
        emitted = set()
        order = []

        def deps(m):
            names = set()
            for t in m.body:
                names.add(t[0])
            return names

        def visit(c, m):
            if id(m) in emitted:
                return
            emitted.add(id(m))
            for n in deps(m):
                cc = c
                while cc is not None:
                    for mm in cc.methods:
                        if mm.name == n and mm is not m:
                            visit(cc, mm)
                    cc = w.base_of(cc, None)
            order.append((c, m))
        # bases before derived classes
        def depth(c):
            return len(w.chain(c, None))
        for c in sorted(classes, key=depth):
            for m in c.methods:
                if m.name in SKIP_METHODS:
                    continue
                if m.is_ctor and not m.init:
                    continue
                visit(c, m)
        for c, m in order:
            if m.name in SKIP_METHODS:
                continue
            name = w.names[id(m)]
            em = Emit(m, w, wrapper)
            quals = (" volatile" if m.volatile else "")
            out.append("(* %s:%d  %s%s::%s(%s)%s *)\n" % (
                m.path, m.line, c.name, ("<" + ", ".join(c.spec) + ">") if c.spec else "", m.name,
                ", ".join(p["kind"] + (" " + p["name"] if p["name"] else "") for p in m.params), quals))
            out.append(em.definition(name))
            out.append("\n")
        return w

    fiber_classes = parsed["fwait"][0] + parsed["fatomic"][0] + parsed["fflag"][0]
    wrap_classes = parsed["wwait"][0] + parsed["watomic"][0] + parsed["wflag"][0]
    fw = emit_world(fiber_classes, "gen", False)
    ww = emit_world(wrap_classes, "wrap", True)

    gen_names = [w.names[id(m)] for w, cls in ((fw, fiber_classes), (ww, wrap_classes)) for c in cls for m in c.methods
                 if m.name not in SKIP_METHODS and not (m.is_ctor and not m.init)]
    out.append("(* every generated function, for [autounfold with c19gen] *)\n")
    for i in range(0, len(gen_names), 6):
        out.append("Global Hint Unfold %s : c19gen.\n" % " ".join(gen_names[i:i + 6]))
    out.append("\n")

    # ---- overload tables per kind of T, by resolving the hierarchy the way the compiler does
    def table(w, top, targs, kind, name, wrapper):
        c = w.find(top, targs, kind)
        if c is None:
            raise Untranslatable("class %s not found" % top)
        ch = w.chain(c, kind)
        rows, seen = [], set()
        for cl in ch:
            hidden = set()
            for m in cl.methods:
                if m.name in SKIP_METHODS or m.is_ctor:
                    continue
                o = method_opn(m)
                if o is None:
                    continue   # helper, not an operation of the interface
                key = (o, m.volatile)
                if m.name in seen:
                    continue   # hidden by a declaration of the same name in a more derived class
                hidden.add(m.name)
                rows.append((o, m.volatile, w.names[id(m)]))
            seen |= hidden
        lines = ["(* overload set of %s for T of kind %s: %s *)" % (top, kind, " -> ".join(
            x.name + ("<" + ",".join(x.spec) + ">" if x.spec else "") for x in ch))]
        if wrapper:
            lines.append("Definition %s (I : impl) : impl := fun o vol =>\n  match o, vol with" % name)
        else:
            lines.append("Definition %s : impl := fun o vol =>\n  match o, vol with" % name)
        done = set()
        for o, vol, nm in rows:
            if (o, vol) in done:
                raise Untranslatable("ambiguous overload %s %s in %s" % (o, vol, name))
            done.add((o, vol))
            lines.append("  | %s, %s => Some (%s%s)" % (o, "true" if vol else "false", nm, " I" if wrapper else ""))
        lines.append("  | _, _ => None\n  end.\n")
        out.append("\n".join(lines) + "\n")
        return ch

    for kind in ("int", "bool", "flt", "ptr"):
        table(fw, "Atomic", ["U*"] if kind == "ptr" else ["T"], kind, "fiber_" + kind, False)
        table(ww, "Atomic", ["Impl", "U*"] if kind == "ptr" else ["Impl", "T"], kind, "wrapped_" + kind, True)
    table(fw, "AtomicFlag", [], "bool", "fiber_flag", False)
    table(ww, "AtomicFlag", ["Impl"], "bool", "wrapped_flag", True)

    # ---- value constructor
    ctor = [m for c in fiber_classes for m in c.methods if m.is_ctor and m.init]
    if len(ctor) != 1:
        raise Untranslatable("expected exactly one value constructor in the fiber atomics, found %d" % len(ctor))
    out.append("Definition fiber_init : opfun := %s.\n\n" % fw.names[id(ctor[0])])

    # ---- memory orders passed on by every wrapper function
    rows = []
    for c in wrap_classes:
        for m in c.methods:
            if m.name in SKIP_METHODS or m.is_ctor:
                continue
            o = method_opn(m)
            if o is None:
                continue
            em = Emit(m, ww, True)
            calls = em.calls_with_orders()
            pat = "[%s]" % "; ".join(sani(p) for p in em.mo_params)
            body = "[%s]" % "; ".join("(%s, [%s])" % (co, "; ".join(ms)) for co, ms in calls)
            rows.append("  (* %s:%d %s::%s%s *)\n  (%s, %s, fun ms => match ms with %s => Some %s | _ => None end)" % (
                m.path, m.line, c.name, m.name, " volatile" if m.volatile else "", o, "true" if m.volatile else "false",
                pat, body))
    out.append("(* for every wrapper function: the calls it makes and the memory orders it hands to them, as a function of\n"
               "   the orders it was given *)\n")
    out.append("Definition wrap_orders : list (opn * bool * (list mo -> option (list (opn * list mo)))) := [\n%s\n].\n" % ";\n".join(rows))
    return "".join(out)


def generate(path=None):
    path = path or os.path.join(vlib.COQ, "gen", "Gen_fiber_atomic.v")
    text = translate_tree()
    os.makedirs(os.path.dirname(path), exist_ok=True)
    old = open(path).read() if os.path.exists(path) else None
    if old != text:
        tmp = path + ".tmp%d" % os.getpid()
        open(tmp, "w").write(text)
        os.replace(tmp, path)
    return path, text


if __name__ == "__main__":
    try:
        p, t = generate(sys.argv[1] if len(sys.argv) > 1 else None)
        print("wrote %s (%d definitions)" % (p, t.count("\nDefinition ")))
    except Untranslatable as e:
        print("UNTRANSLATABLE: %s" % e)
        sys.exit(2)
