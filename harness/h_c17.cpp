// C17 harness: reproducibility of FIBER runs from (program, seed, fault configuration).
//
// IMPORTANT: unlike the other harnesses the explorer does NOT decide anything here.  The library's own seeded engine
// (src/fault/util.cpp) takes every decision; the YACLIB_VERIF hooks are used only to OBSERVE:
//   gHooks.resume  -> "R<fiber id>@<virtual time>"
//   gHooks.choose  -> records the request and returns -1 (= original random behaviour):
//        Y      Injector::NeedInject reached (an injection point, injector not paused)
//        P<n>   PollRandomElementFromList on a list of n elements
//        W      ShouldFailAtomicWeak
//        D<max> GetRandNumber(max)    (one per draw of the engine, in order)
// verif_rt's deciding hooks are never installed (no vrt::Install()).
//
// Two families of client programs:
//  * DSL programs (--prog "<text>"): fibers with statically known action lists built from the real yaclib_std
//    primitives; the check feeds the same text + the engine's raw outputs to the Coq model Sched.run which must predict
//    the trace token by token.
//        a            yaclib_std::atomic<int>::fetch_add            (2 injection points)
//        w            compare_exchange_weak on a fiber-private atomic whose expected value is right (ShouldFailAtomicWeak
//                     draw, then 2 injection points); logs c<fiber>:<1 ok|0 spurious failure>
//        y            yaclib_std::this_thread::yield
//        s<d>         yaclib_std::this_thread::sleep_for(d ns)
//        e            epoch = steady_clock::now() (a shared variable)      S<d>  this_thread::sleep_until(epoch + d ns)
//        U<q>,<d>     raw FiberQueue::Wait(time_point epoch + d)           T<v>,<m>,<d>  condition_variable::wait_until(epoch + d)
//                     (several fibers can so sleep until ONE common absolute deadline)
//        l<m> u<m>    yaclib_std::mutex lock / unlock
//        c<v>,<m>     condition_variable::wait(lock on m)                t<v>,<m>,<d>  wait_for(d ns); logs t<fiber>:<1 timeout|0>
//        n<v> N<v>    notify_one / notify_all
//        q<q> Q<q>,<d> raw FiberQueue::Wait(NoTimeoutTag) / Wait(d ns) (logs t<fiber>:<1|0>)     k<q> K<q>  NotifyOne / NotifyAll
//        r<m>         a FRESH yaclib_std::random_device: v = rd(); logs v<fiber>:<v>; then v % m yields
//        R<m>         the fiber's own long-lived device (constructed at its first use in this fiber): v = rd(); logs it;
//                     then lock (v % m); fetch_add; unlock (v % m)
//        G            the driver's long-lived device: rd.reset(); v = rd(); logs it; appends v % 3 atomic operations
//                     (the stream of a device is mt19937_64(GetSeed()): a function of the seed alone)
//        f<slot>( ... )   yaclib_std::thread in handle <slot> running the nested list     j<slot> join     d<slot> detach
//        p            phase boundary (driver only, must be a quiescent point): records (random count, injector state)
//  * real clients (--client pool|strand|timed|coro|mix), each a sequence of phases separated by quiescent points.
//
// One invocation = one (program, seed, configuration); it performs --runs runs in this process and prints one JSON line
// per run.  --from k --count c --state s runs only the phases >= k after restoring the recorded pair.
// The ORACLE (pairwise comparison of traces) is in checks/c17.py and is written from the property text only.
#include <deque>
#include <new>

#include "vrt_all.hpp"

#include <yaclib_std/random>

// The client programs must themselves be deterministic functions of the schedule.  Lock-free pushes that CAS on
// POINTERS (Strand::Submit, coroutine Mutex) succeed or retry depending on whether malloc handed out a freed node's
// address again (benign ABA), so the number of injection points would depend on the history of the heap -- which a
// restored run (fresh process, only the remainder executed) does not share.  By default nothing is ever freed here,
// so addresses are never reused; --heap-reuse restores the normal allocator (to show the effect).
static bool gHeapNoReuse = true;
void* operator new(std::size_t n) {
  void* p = std::malloc(n != 0 ? n : 1);
  if (p == nullptr) {
    throw std::bad_alloc{};
  }
  return p;
}
void* operator new(std::size_t n, std::align_val_t al) {
  std::size_t a = static_cast<std::size_t>(al);
  void* p = std::aligned_alloc(a, (n + a - 1) / a * a);
  if (p == nullptr) {
    throw std::bad_alloc{};
  }
  return p;
}
void operator delete(void* p) noexcept {
  if (!gHeapNoReuse) {
    std::free(p);
  }
}
void operator delete(void* p, std::size_t) noexcept {
  if (!gHeapNoReuse) {
    std::free(p);
  }
}
void operator delete(void* p, std::align_val_t) noexcept {
  if (!gHeapNoReuse) {
    std::free(p);
  }
}
void operator delete(void* p, std::size_t, std::align_val_t) noexcept {
  if (!gHeapNoReuse) {
    std::free(p);
  }
}

namespace {

using Id = std::uint64_t;

struct Rec {
  std::string trace;
  bool on = false;
  std::vector<std::string> asserts;
  yaclib::fault::Scheduler* sched = nullptr;
  void Tok(const std::string& s) {
    if (on) {
      trace += s;
      trace += ' ';
    }
  }
};
Rec rec;

std::int64_t ChooseRec(int kind, std::uint64_t n) {
  switch (kind) {
    case yaclib::verif::kYield:
      rec.Tok("Y");
      break;
    case yaclib::verif::kPick:
      rec.Tok("P" + std::to_string(n));
      break;
    case yaclib::verif::kWeakFail:
      rec.Tok("W");
      break;
    default:
      rec.Tok("D" + std::to_string(n));
      break;
  }
  return -1;  // never decide
}

bool gShowAddr = false;  // debugging aid: print the address of every resumed fiber object (stderr)
void ResumeRec(std::uint64_t id) {
  if (gShowAddr) {
    std::fprintf(stderr, "fiber %llu at %p (sizeof FiberBase %zu)\n", static_cast<unsigned long long>(id),
                 static_cast<void*>(yaclib::fault::Scheduler::Current()), sizeof(yaclib::detail::fiber::FiberBase));
  }
  rec.Tok("R" + std::to_string(id) + "@" + std::to_string(rec.sched != nullptr ? rec.sched->_time : 0));
}

void OnAssertRec(std::string_view file, std::size_t line, std::string_view, std::string_view cond,
                 std::string_view msg) noexcept {
  auto slash = file.rfind('/');
  std::string f{slash == std::string_view::npos ? file : file.substr(slash + 1)};
  std::string s = "assert(" + std::string{cond} + ") " + std::string{msg} + " at " + f + ":" + std::to_string(line);
  rec.asserts.push_back(s);
  rec.Tok("!ASSERT");
}

char gCrashBuf[512];
void CrashHandler(int sig) {
  int n = std::snprintf(gCrashBuf, sizeof(gCrashBuf), "CRASH signal=%d\n", sig);
  (void)!write(1, gCrashBuf, static_cast<std::size_t>(n));
  // best effort: what was recorded so far
  (void)!write(1, "PARTIAL ", 8);
  (void)!write(1, rec.trace.data(), rec.trace.size());
  (void)!write(1, "\n", 1);
  _exit(70);
}

Id Me() {
  return yaclib::fault::Scheduler::GetId();
}
void Ev(const std::string& s) {
  rec.Tok("x" + std::to_string(Me()) + ":" + s);
}

// ------------------------------------------------------------------------------------------------ configuration
struct Cfg {
  std::uint32_t seed = 1239, freq = 16, cas = 13, pick = 10, tick = 10, sleeptime = 100;
  std::string place = "driver";    // where SetSeed/SetInjectorState(0) are called: "driver" (inside the driver fiber) | "main"
  std::string rplace;              // where the restore calls are made (default: same place as the seeding)
  bool fresh_sched = true;         // a new fault::Scheduler object for every run in this process
  int from = 0;
  std::uint64_t count = 0;
  std::uint32_t state = 0;
  bool have_restore = false;
};
Cfg cfg;

void ApplyCfg() {
  yaclib::SetFaultFrequency(cfg.freq);
  yaclib::SetAtomicFailFrequency(cfg.cas);
  yaclib::SetFaultSleepTime(cfg.sleeptime);
  yaclib::fiber::SetFaultRandomListPick(cfg.pick);
  yaclib::fiber::SetFaultTickLength(cfg.tick);
  yaclib::fiber::SetHardwareConcurrency(4);
}

struct Checkpoint {
  int phase;
  std::uint64_t count;
  std::uint32_t state;
  std::size_t pos;  // offset in the trace string
};
std::vector<Checkpoint> checkpoints;

// Called by the driver fiber at every phase boundary (a quiescent point).  Returns whether phase k is to be executed.
bool Phase(int k) {
  bool quiescent = rec.sched->_queue.Empty() && rec.sched->_sleep_list.empty();
  checkpoints.push_back({k, yaclib::fiber::GetFaultRandomCount(), yaclib::fiber::GetInjectorState(), rec.trace.size()});
  rec.Tok("|" + std::to_string(k) + ":" + std::to_string(checkpoints.back().count) + ":" +
          std::to_string(checkpoints.back().state) + (quiescent ? "" : "!notquiescent"));
  return true;
}

// ------------------------------------------------------------------------------------------------ DSL programs
struct Op {
  char kind = 0;
  std::uint64_t a = 0, b = 0, c = 0;
  std::vector<Op> body;
};

struct Parser {
  const std::string& s;
  std::size_t i = 0;
  std::uint64_t Num() {
    std::uint64_t v = 0;
    bool any = false;
    while (i < s.size() && std::isdigit(static_cast<unsigned char>(s[i]))) {
      v = v * 10 + static_cast<std::uint64_t>(s[i] - '0');
      ++i;
      any = true;
    }
    if (!any) {
      std::fprintf(stderr, "program syntax: number expected at %zu\n", i);
      std::exit(2);
    }
    return v;
  }
  void Comma() {
    if (i < s.size() && s[i] == ',') {
      ++i;
    } else {
      std::fprintf(stderr, "program syntax: ',' expected at %zu\n", i);
      std::exit(2);
    }
  }
  std::vector<Op> List() {
    std::vector<Op> out;
    while (i < s.size()) {
      char ch = s[i];
      if (ch == ' ') {
        ++i;
        continue;
      }
      if (ch == ')') {
        break;
      }
      ++i;
      Op op;
      op.kind = ch;
      switch (ch) {
        case 'a':
        case 'w':
        case 'y':
        case 'p':
        case 'e':
        case 'G':
          break;
        case 's':
        case 'S':
        case 'r':
        case 'R':
        case 'l':
        case 'u':
        case 'n':
        case 'N':
        case 'q':
        case 'k':
        case 'K':
        case 'j':
        case 'd':
          op.a = Num();
          break;
        case 'c':
        case 'Q':
        case 'U':
          op.a = Num();
          Comma();
          op.b = Num();
          break;
        case 't':
        case 'T':
          op.a = Num();
          Comma();
          op.b = Num();
          Comma();
          op.c = Num();
          break;
        case 'f':
          op.a = Num();
          if (i >= s.size() || s[i] != '(') {
            std::fprintf(stderr, "program syntax: '(' expected at %zu\n", i);
            std::exit(2);
          }
          ++i;
          op.body = List();
          if (i >= s.size() || s[i] != ')') {
            std::fprintf(stderr, "program syntax: ')' expected at %zu\n", i);
            std::exit(2);
          }
          ++i;
          break;
        default:
          std::fprintf(stderr, "program syntax: unknown op '%c' at %zu\n", ch, i - 1);
          std::exit(2);
      }
      out.push_back(std::move(op));
    }
    return out;
  }
};

// Shared objects of one run.  Heap allocated and deliberately leaked when the run ends with parked fibers.
struct World {
  std::deque<yaclib_std::mutex> mtx;
  std::deque<yaclib_std::condition_variable> cvs;
  std::deque<yaclib::detail::fiber::FiberQueue> qs;
  std::deque<yaclib_std::thread> slots;
  yaclib_std::atomic<int> shared{0};
  yaclib_std::chrono::steady_clock::time_point epoch{};
  std::optional<yaclib_std::random::random_device> device;  // the driver's long-lived device (op G)
  int phase = 0;
  World() : mtx(8), cvs(8), qs(8), slots(64) {
  }
};

void Exec(World& w, const std::vector<Op>& ops, bool driver);

using FiberDevice = std::optional<yaclib_std::random::random_device>;

void LogVal(std::uint64_t v) {
  rec.Tok("v" + std::to_string(Me()) + ":" + std::to_string(v));
}

void ExecOp(World& w, const Op& op, bool driver, FiberDevice& mine) {
  switch (op.kind) {
    case 'r': {
      yaclib_std::random::random_device rd;
      std::uint64_t v = rd();
      LogVal(v);
      for (std::uint64_t k = v % op.a; k != 0; --k) {
        yaclib_std::this_thread::yield();
      }
      break;
    }
    case 'R': {
      if (!mine) {
        mine.emplace();
      }
      std::uint64_t v = (*mine)();
      LogVal(v);
      auto& m = w.mtx[v % op.a];
      m.lock();
      w.shared.fetch_add(1, std::memory_order_relaxed);
      m.unlock();
      break;
    }
    case 'G': {
      if (!w.device) {
        w.device.emplace();
      }
      w.device->reset();
      std::uint64_t v = (*w.device)();
      LogVal(v);
      for (std::uint64_t k = v % 3; k != 0; --k) {
        w.shared.fetch_add(1, std::memory_order_relaxed);
      }
      break;
    }
    case 'a':
      w.shared.fetch_add(1, std::memory_order_relaxed);
      break;
    case 'w': {
      yaclib_std::atomic<int> priv{5};
      int expected = 5;
      bool ok = priv.compare_exchange_weak(expected, 6);
      rec.Tok("c" + std::to_string(Me()) + ":" + (ok ? "1" : "0"));
      break;
    }
    case 'y':
      yaclib_std::this_thread::yield();
      break;
    case 's':
      yaclib_std::this_thread::sleep_for(std::chrono::nanoseconds(op.a));
      break;
    case 'l':
      w.mtx[op.a].lock();
      break;
    case 'u':
      w.mtx[op.a].unlock();
      break;
    case 'c': {
      std::unique_lock<yaclib_std::mutex> lk(w.mtx[op.b], std::adopt_lock);
      w.cvs[op.a].wait(lk);
      lk.release();
      break;
    }
    case 't': {
      std::unique_lock<yaclib_std::mutex> lk(w.mtx[op.b], std::adopt_lock);
      // the overload without predicate does not link outside the library (CVStatusFrom is constexpr in a .cpp);
      // a predicate that is false exactly once gives exactly one WaitImpl; it is called twice after a timeout and
      // three times after a notification
      int calls = 0;
      (void)w.cvs[op.a].wait_for(lk, std::chrono::nanoseconds(op.c), [&calls] {
        return ++calls > 1;
      });
      lk.release();
      rec.Tok("t" + std::to_string(Me()) + ":" + (calls == 2 ? "1" : "0"));
      break;
    }
    case 'n':
      w.cvs[op.a].notify_one();
      break;
    case 'N':
      w.cvs[op.a].notify_all();
      break;
    case 'q':
      w.qs[op.a].Wait(yaclib::detail::fiber::NoTimeoutTag{});
      break;
    case 'e':
      w.epoch = yaclib_std::chrono::steady_clock::now();
      break;
    case 'S':
      yaclib_std::this_thread::sleep_until(w.epoch + std::chrono::nanoseconds(op.a));
      break;
    case 'U': {
      auto st = w.qs[op.a].Wait(w.epoch + std::chrono::nanoseconds(op.b));
      rec.Tok("t" + std::to_string(Me()) + ":" + (st == yaclib::detail::WaitStatus::Timeout ? "1" : "0"));
      break;
    }
    case 'T': {
      std::unique_lock<yaclib_std::mutex> lk(w.mtx[op.b], std::adopt_lock);
      int calls = 0;
      (void)w.cvs[op.a].wait_until(lk, w.epoch + std::chrono::nanoseconds(op.c), [&calls] {
        return ++calls > 1;
      });
      lk.release();
      rec.Tok("t" + std::to_string(Me()) + ":" + (calls == 2 ? "1" : "0"));
      break;
    }
    case 'Q': {
      auto st = w.qs[op.a].Wait(std::chrono::nanoseconds(op.b));
      rec.Tok("t" + std::to_string(Me()) + ":" + (st == yaclib::detail::WaitStatus::Timeout ? "1" : "0"));
      break;
    }
    case 'k':
      w.qs[op.a].NotifyOne();
      break;
    case 'K':
      w.qs[op.a].NotifyAll();
      break;
    case 'f': {
      const Op* self = &op;
      World* wp = &w;
      w.slots[op.a] = yaclib_std::thread([wp, self] {
        Exec(*wp, self->body, false);
      });
      break;
    }
    case 'j':
      w.slots[op.a].join();
      break;
    case 'd':
      w.slots[op.a].detach();
      break;
    case 'p':
      break;  // handled by Exec
  }
}

void Exec(World& w, const std::vector<Op>& ops, bool driver) {
  FiberDevice mine;
  for (const auto& op : ops) {
    if (op.kind == 'p') {
      if (driver) {
        ++w.phase;
        Phase(w.phase);
      }
      continue;
    }
    if (driver && w.phase < cfg.from) {
      continue;  // restored run: the prefix is not executed
    }
    ExecOp(w, op, driver, mine);
  }
}

// ------------------------------------------------------------------------------------------------ real clients
// Every phase starts and ends at a quiescent point: only the driver fiber exists.

void PhasePool(int jobs, int threads) {
  auto tp = yaclib::MakeFairThreadPool(static_cast<std::uint64_t>(threads));
  yaclib_std::atomic<int> order{0};
  std::vector<yaclib::FutureOn<int>> fs;
  for (int i = 0; i < jobs; ++i) {
    fs.push_back(yaclib::Run(*tp, [i, &order] {
      int k = order.fetch_add(1, std::memory_order_acq_rel);
      Ev("job" + std::to_string(i) + "#" + std::to_string(k));
      return i * 2;
    }));
  }
  int sum = 0;
  for (auto& f : fs) {
    sum += std::move(f).Get().Ok();
  }
  Ev("sum" + std::to_string(sum));
  tp->Stop();
  tp->Wait();
}

void PhaseStrand(int producers, int per) {
  auto tp = yaclib::MakeFairThreadPool(2);
  auto strand = yaclib::MakeStrand(tp);
  yaclib::WaitGroup<> wg;
  std::vector<yaclib_std::thread> ts;
  int inside = 0;
  wg.Add(static_cast<std::size_t>(producers * per));
  for (int p = 0; p < producers; ++p) {
    ts.emplace_back([&, p] {
      for (int i = 0; i < per; ++i) {
        yaclib::Submit(*strand, [&, p, i] {
          ++inside;
          Ev("s" + std::to_string(p) + "." + std::to_string(i) + (inside == 1 ? "" : "!overlap"));
          --inside;
          wg.Done();
        });
      }
    });
  }
  wg.Wait();
  for (auto& t : ts) {
    t.join();
  }
  tp->Stop();
  tp->Wait();
}

void PhaseTimed(int n) {
  auto tp = yaclib::MakeFairThreadPool(2);
  yaclib_std::mutex m;
  yaclib_std::condition_variable cv;
  bool flag = false;
  // (1) futures that finish after a virtual sleep, waited for with a timeout
  std::vector<yaclib::FutureOn<int>> fs;
  for (int i = 0; i < n; ++i) {
    fs.push_back(yaclib::Run(*tp, [i] {
      yaclib_std::this_thread::sleep_for(std::chrono::nanoseconds(40 * (i + 1)));
      Ev("slept" + std::to_string(i));
      return i;
    }));
  }
  for (int i = 0; i < n; ++i) {
    bool ready = yaclib::WaitFor(std::chrono::nanoseconds(55), fs[static_cast<std::size_t>(i)]);
    Ev("waitfor" + std::to_string(i) + (ready ? "=ready" : "=timeout"));
  }
  yaclib::Wait(fs.begin(), fs.end());
  // (2) condition_variable::wait_for against a notifier
  yaclib_std::thread notifier([&] {
    yaclib_std::this_thread::sleep_for(std::chrono::nanoseconds(120));
    {
      std::lock_guard lock{m};
      flag = true;
    }
    cv.notify_one();
    Ev("notified");
  });
  {
    std::unique_lock lock{m};
    int rounds = 0;
    while (!flag) {
      bool ok = cv.wait_for(lock, std::chrono::nanoseconds(70), [&] {
        return flag;
      });
      ++rounds;
      Ev(std::string("cv") + (ok ? "=set" : "=timeout"));
    }
    Ev("rounds" + std::to_string(rounds));
  }
  notifier.join();
  tp->Stop();
  tp->Wait();
}

#if YACLIB_CORO != 0
void PhaseCoro(int n) {
  auto tp = yaclib::MakeFairThreadPool(3);
  yaclib::Mutex<> m;
  int inside = 0;
  int counter = 0;
  auto coro = [&](int i) -> yaclib::Future<int> {
    co_await On(*tp);
    for (int r = 0; r < 2; ++r) {
      auto g = co_await m.Guard();
      ++inside;
      ++counter;
      Ev("cs" + std::to_string(i) + "." + std::to_string(r) + "#" + std::to_string(counter) +
         (inside == 1 ? "" : "!overlap"));
      --inside;
    }
    co_return i;
  };
  std::vector<yaclib::Future<int>> fs;
  for (int i = 0; i < n; ++i) {
    fs.push_back(coro(i));
  }
  int sum = 0;
  for (auto& f : fs) {
    sum += std::move(f).Get().Ok();
  }
  Ev("sum" + std::to_string(sum) + "c" + std::to_string(counter));
  tp->Stop();
  tp->Wait();
}
#else
void PhaseCoro(int) {
}
#endif

// n threads do a different amount of work each and then all sleep until ONE common deadline (they enter the sleep in
// scheduling order, not in creation order); after waking they contend on a counter.
void PhaseUntil(int n) {
  yaclib_std::atomic<int> counter{0};
  const auto deadline = yaclib_std::chrono::steady_clock::now() + std::chrono::nanoseconds{3000};
  std::vector<std::unique_ptr<yaclib_std::thread>> ts;
  for (int i = 0; i < n; ++i) {
    ts.push_back(std::make_unique<yaclib_std::thread>([&, i] {
      for (int k = 0; k < (n - i) % 3 + 1; ++k) {
        counter.fetch_add(1, std::memory_order_relaxed);
      }
      if (i % 2 == 1) {
        yaclib_std::this_thread::sleep_for(std::chrono::nanoseconds(20 * (n - i)));
      }
      yaclib_std::this_thread::sleep_until(deadline);
      int v = counter.fetch_add(1, std::memory_order_acq_rel);
      Ev("woke" + std::to_string(i) + "#" + std::to_string(v));
    }));
  }
  for (auto& t : ts) {
    t->join();
  }
  Ev("until" + std::to_string(counter.load(std::memory_order_relaxed)));
}

// randomised stress workload (the shape of a typical test): every worker seeds a private PRNG from
// yaclib_std::random_device and lets it decide how often it yields and what it appends to the shared log; one
// long-lived device of the driver is reset() and read at the end
void PhaseRand(int n) {
  static yaclib_std::random::random_device* sLongLived = nullptr;  // lives across phases and runs
  yaclib_std::mutex m;
  yaclib_std::atomic<int> ops{0};
  std::string log;
  std::vector<yaclib_std::thread> ts;
  for (int i = 0; i < n; ++i) {
    ts.emplace_back([&, i] {
      yaclib_std::random::random_device rd;
      std::mt19937_64 rng{rd()};
      for (int s = 0; s < 3; ++s) {
        for (auto y = rng() % 3; y != 0; --y) {
          ops.fetch_add(1, std::memory_order_relaxed);
          yaclib_std::this_thread::yield();
        }
        std::lock_guard lock{m};
        log += static_cast<char>('A' + i);
        log += std::to_string(rng() % 10);
      }
    });
  }
  for (auto& t : ts) {
    t.join();
  }
  if (sLongLived == nullptr) {
    sLongLived = new yaclib_std::random::random_device();
  }
  sLongLived->reset();
  Ev("rand:" + log + ":" + std::to_string((*sLongLived)() % 1000));
}

void RunClient(const std::string& name, int size) {
  std::vector<std::function<void()>> phases;
  auto pool = [size] {
    PhasePool(3 + size, 3);
  };
  auto strand = [size] {
    PhaseStrand(2 + size % 2, 2 + size / 2);
  };
  auto timed = [size] {
    PhaseTimed(2 + size);
  };
  auto coro = [size] {
    PhaseCoro(2 + size);
  };
  auto until = [size] {
    PhaseUntil(3 + size);
  };
  auto rnd = [size] {
    PhaseRand(2 + size);
  };
  if (name == "pool") {
    phases = {pool, pool, pool};
  } else if (name == "strand") {
    phases = {strand, strand};
  } else if (name == "timed") {
    phases = {timed, timed};
  } else if (name == "coro") {
    phases = {coro, coro};
  } else if (name == "until") {
    phases = {until, until, until};
  } else if (name == "rand") {
    phases = {rnd, pool, rnd};
  } else if (name == "mix") {
    phases = {pool, until, strand, rnd, timed, coro, until, rnd};
  } else {
    std::fprintf(stderr, "unknown client %s\n", name.c_str());
    std::exit(2);
  }
  for (std::size_t k = 0; k < phases.size(); ++k) {
    Phase(static_cast<int>(k));
    if (static_cast<int>(k) < cfg.from) {
      continue;
    }
    phases[k]();
  }
  Phase(static_cast<int>(phases.size()));
}

// ------------------------------------------------------------------------------------------------ one run
std::string JsonEscape(const std::string& s) {
  std::string o;
  for (char ch : s) {
    if (ch == '"' || ch == '\\') {
      o += '\\';
      o += ch;
    } else if (ch == '\n') {
      o += "\\n";
    } else {
      o += ch;
    }
  }
  return o;
}

void SeedAndReset() {
  yaclib::SetSeed(cfg.seed);
  yaclib::fiber::SetInjectorState(0);
}

void Restore() {
  if (!cfg.have_restore) {
    return;
  }
  yaclib::fiber::ForwardToFaultRandomCount(cfg.count);
  yaclib::fiber::SetInjectorState(cfg.state);
}

// Perturbation of the allocation history: before a run, blocks of about the size of a fiber object are allocated and
// every second one is really freed (std::free, not the no-op operator delete) in a seeded random order, so that the
// fiber objects created afterwards get addresses whose order has nothing to do with their creation order and differs
// from run to run.  Nothing the fault layer decides may depend on that.
std::uint64_t gPerturb = 0;
int gPerturbFrom = 0;
std::vector<void*> gPerturbKeep;  // global: the compiler must not elide the allocations
void* volatile gPerturbSink = nullptr;
void PerturbHeap(std::uint64_t seed) {
  std::mt19937_64 r{seed * 0x9E3779B97F4A7C15ULL + 12345};
  const std::size_t base = sizeof(yaclib::detail::fiber::FiberBase);
  std::vector<void*> victims;
  for (std::size_t k = 0; k != 24; ++k) {
    const std::size_t size = base + 8 * k;
    const std::size_t n = 12 + r() % 24;
    for (std::size_t i = 0; i != n; ++i) {
      void* a = std::malloc(size);
      void* keep = std::malloc(size);  // stays allocated: the freed neighbours cannot coalesce
      std::memset(a, 0x5a, size);
      std::memset(keep, 0xa5, size);
      gPerturbSink = a;
      gPerturbKeep.push_back(keep);
      victims.push_back(a);
    }
  }
  std::shuffle(victims.begin(), victims.end(), r);
  for (void* v : victims) {
    gPerturbSink = v;
    std::free(v);
  }
}

void OneRun(int run_index, const std::string& label, const std::vector<Op>* prog, const std::string& client, int size,
            yaclib::fault::Scheduler* shared_sched) {
  rec.trace.clear();
  rec.asserts.clear();
  checkpoints.clear();
  if (gPerturb != 0 && run_index >= gPerturbFrom) {
    PerturbHeap(gPerturb + static_cast<std::uint64_t>(run_index));
  }
  ApplyCfg();
  std::unique_ptr<yaclib::fault::Scheduler> own;
  yaclib::fault::Scheduler* sched = shared_sched;
  if (sched == nullptr) {
    own = std::make_unique<yaclib::fault::Scheduler>();
    sched = own.get();
  }
  yaclib::fault::Scheduler::Set(sched);
  rec.sched = sched;
  auto* world = new World();
  bool finished = false;
  auto injected0 = yaclib::GetInjectedCount();
  std::uint64_t rand_seeded = 0;  // GetFaultRandomCount() right after SetSeed
  std::uint64_t time0 = sched->_time;
  if (cfg.place == "main") {
    SeedAndReset();
    rand_seeded = yaclib::fiber::GetFaultRandomCount();
    if (cfg.rplace == "main") {
      Restore();
    }
  }
  rec.on = true;
  {
    yaclib_std::thread driver([&] {
      if (cfg.place == "driver") {
        rec.on = false;
        SeedAndReset();
        rand_seeded = yaclib::fiber::GetFaultRandomCount();
        if (cfg.rplace == "driver") {
          Restore();
        }
        rec.on = true;
      } else if (cfg.rplace == "driver") {
        rec.on = false;
        Restore();
        rec.on = true;
      }
      rec.Tok("B" + std::to_string(Me()));
      if (prog != nullptr) {
        Exec(*world, *prog, true);
      } else {
        RunClient(client, size);
      }
      rec.Tok("E" + std::to_string(Me()));
      finished = true;
    });
    rec.on = false;
    if (finished) {
      driver.join();
    } else {
      driver.detach();
    }
  }
  bool leftover = !sched->_queue.Empty() || !sched->_sleep_list.empty();
  std::uint64_t time_end = sched->_time;
  yaclib::fault::Scheduler::Set(nullptr);
  rec.sched = nullptr;
  if (finished) {
    delete world;
  }
  std::printf("{\"label\": \"%s\", \"run\": %d, \"seed\": %u, \"finished\": %s, \"leftover\": %s, \"rand_seeded\": %llu, "
              "\"rand_end\": %llu, \"inj_end\": %u, \"injected\": %llu, \"time0\": %llu, \"time_end\": %llu, \"asserts\": [",
              JsonEscape(label).c_str(), run_index, cfg.seed, finished ? "true" : "false", leftover ? "true" : "false",
              static_cast<unsigned long long>(rand_seeded),
              static_cast<unsigned long long>(yaclib::fiber::GetFaultRandomCount()), yaclib::fiber::GetInjectorState(),
              static_cast<unsigned long long>(yaclib::GetInjectedCount() - injected0),
              static_cast<unsigned long long>(time0), static_cast<unsigned long long>(time_end));
  for (std::size_t i = 0; i < rec.asserts.size(); ++i) {
    std::printf("%s\"%s\"", i ? ", " : "", JsonEscape(rec.asserts[i]).c_str());
  }
  std::printf("], \"checkpoints\": [");
  for (std::size_t i = 0; i < checkpoints.size(); ++i) {
    std::printf("%s{\"phase\": %d, \"count\": %llu, \"state\": %u, \"pos\": %zu}", i ? ", " : "", checkpoints[i].phase,
                static_cast<unsigned long long>(checkpoints[i].count), checkpoints[i].state, checkpoints[i].pos);
  }
  std::printf("], \"trace\": \"%s\"}\n", JsonEscape(rec.trace).c_str());
  std::fflush(stdout);
}

}  // namespace

int main(int argc, char** argv) {
  std::string prog_text, client, label;
  int runs = 1, size = 1;
  std::uint64_t dump_draws = 0;
  bool same_sched = false;
  for (int i = 1; i < argc; ++i) {
    std::string a = argv[i];
    auto next = [&]() -> std::string {
      return i + 1 < argc ? argv[++i] : "";
    };
    auto num = [&]() -> std::uint64_t {
      return std::strtoull(next().c_str(), nullptr, 10);
    };
    if (a == "--prog") {
      prog_text = next();
    } else if (a == "--client") {
      client = next();
    } else if (a == "--size") {
      size = static_cast<int>(num());
    } else if (a == "--label") {
      label = next();
    } else if (a == "--runs") {
      runs = static_cast<int>(num());
    } else if (a == "--seed") {
      cfg.seed = static_cast<std::uint32_t>(num());
    } else if (a == "--freq") {
      cfg.freq = static_cast<std::uint32_t>(num());
    } else if (a == "--cas") {
      cfg.cas = static_cast<std::uint32_t>(num());
    } else if (a == "--pick") {
      cfg.pick = static_cast<std::uint32_t>(num());
    } else if (a == "--tick") {
      cfg.tick = static_cast<std::uint32_t>(num());
    } else if (a == "--sleeptime") {
      cfg.sleeptime = static_cast<std::uint32_t>(num());
    } else if (a == "--place") {
      cfg.place = next();
    } else if (a == "--rplace") {
      cfg.rplace = next();
    } else if (a == "--same-sched") {
      same_sched = true;
    } else if (a == "--from") {
      cfg.from = static_cast<int>(num());
      cfg.have_restore = true;
    } else if (a == "--count") {
      cfg.count = num();
    } else if (a == "--state") {
      cfg.state = static_cast<std::uint32_t>(num());
    } else if (a == "--show-addr") {
      gShowAddr = true;
    } else if (a == "--perturb") {
      gPerturb = num();
    } else if (a == "--perturb-from") {
      gPerturbFrom = static_cast<int>(num());
    } else if (a == "--heap-reuse") {
      gHeapNoReuse = false;
    } else if (a == "--dump-draws") {
      dump_draws = num();
    } else {
      std::fprintf(stderr, "unknown argument %s\n", a.c_str());
      return 2;
    }
  }
  if (dump_draws != 0) {
    // the raw outputs of the engine YACLib seeds (libstdc++ mt19937_64: trusted), for the Coq model's `draws`
    std::mt19937_64 mirror{cfg.seed};
    std::printf("{\"seed\": %u, \"draws\": [", cfg.seed);
    for (std::uint64_t k = 0; k < dump_draws; ++k) {
      std::printf("%s%llu", k ? ", " : "", static_cast<unsigned long long>(mirror()));
    }
    std::printf("]}\n");
    return 0;
  }
  auto& h = yaclib::verif::gHooks;
  h.choose = ChooseRec;
  h.resume = ResumeRec;
  YACLIB_INIT_DEBUG(OnAssertRec);
  for (int sig : {SIGSEGV, SIGABRT, SIGBUS, SIGFPE, SIGILL}) {
    std::signal(sig, CrashHandler);
  }
  if (cfg.rplace.empty()) {
    cfg.rplace = cfg.place;
  }
  std::vector<Op> prog;
  if (!prog_text.empty()) {
    Parser p{prog_text};
    prog = p.List();
    if (p.i != prog_text.size()) {
      std::fprintf(stderr, "program syntax: trailing input at %zu\n", p.i);
      return 2;
    }
  } else if (client.empty()) {
    std::fprintf(stderr, "need --prog or --client\n");
    return 2;
  }
  yaclib::fault::Scheduler shared;
  for (int r = 0; r < runs; ++r) {
    OneRun(r, label, prog_text.empty() ? nullptr : &prog, client, size, same_sched ? &shared : nullptr);
  }
  return 0;
}
