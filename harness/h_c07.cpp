// C07 harness: the real yaclib::Strand (MakeStrand) under concurrent submitters, over
//   man  : an instrumented manual executor whose queued activations are run (Call) or refused (Drop) by dedicated
//          worker fibers (so that batches run concurrently with the submitters),
//   pool : yaclib::FairThreadPool with 1 or 2 workers, optionally Stop()ped / HardStop()ped by another fiber,
//   ss   : a strand over a strand over the manual executor (two observed jobs words).
// Every strand under observation is a "level": its _jobs word is named j<level>, and everything that happens to it is
// reported by markers that the check maps to model events:
//   F:!sub<L> t n   fiber F enters Strand::Submit for job (t, n) of level L      F:!ret<L>   Submit returned
//   F:!xs<L>        the level-L strand submits itself to its underlying executor (_executor->Submit(*this))
//   F:!call<L>      the underlying executor starts the strand's activation by Call       F:!drop<L>  ... by Drop
//   F:!b<L> t.n / F:!e<L> t.n   job (t, n) of level L begins / ends its Call              F:!d<L> t.n  it is Dropped
// The oracle is written from the property text only.
#include <deque>

#include "vrt_all.hpp"

#include "vrt_main.hpp"

namespace {

struct Ctx;

struct JobRec {
  int t = 0, n = 0;
  long sub_begin = -1, sub_end = -1;  // logical clock around Strand::Submit
  long call_pos = -1;                 // position in the Call order of its level
  int calls = 0, drops = 0;
};

struct Level {
  int id = 0;
  yaclib::IExecutorPtr strand;
  yaclib::Strand* raw = nullptr;
  std::uint64_t mark = 0;
  std::map<std::uint64_t, std::string> names;  // address of a job's Node -> "t.n"
  std::vector<std::unique_ptr<JobRec>> jobs;
  int inside = 0;  // jobs of this level between begin and end
  long ncalled = 0;
  int refusals = 0;  // how many times the underlying executor started the activation by Drop
  std::map<int, int> next_seq;
};

struct Ctx {
  std::vector<std::unique_ptr<Level>> levels;
  long clock = 0;
  yaclib_std::atomic<int> tick{0};  // a wrapped operation = a preemption point inside every job
  std::map<std::uint64_t, int> fiber_idx;
  int Fiber() {
    auto id = yaclib::fault::Scheduler::GetId();
    auto it = fiber_idx.find(id);
    if (it == fiber_idx.end()) {
      it = fiber_idx.emplace(id, static_cast<int>(fiber_idx.size()) + 100).first;
    }
    return it->second;
  }
  void SetFiber(int idx) {
    fiber_idx[yaclib::fault::Scheduler::GetId()] = idx;
  }
};

std::string L(const char* what, int lvl) {
  return std::string(what) + std::to_string(lvl);
}

JobRec* NewJob(Level& lv, int t, int n, const yaclib::detail::Node* node) {
  lv.jobs.push_back(std::make_unique<JobRec>());
  auto* r = lv.jobs.back().get();
  r->t = t;
  r->n = n;
  lv.names[reinterpret_cast<std::uint64_t>(node)] = std::to_string(t) + "." + std::to_string(n);
  return r;
}

void Begin(Ctx& c, Level& lv, JobRec& r) {
  vrt::Event(L("b", lv.id) + " " + std::to_string(r.t) + "." + std::to_string(r.n));
  if (++lv.inside > 1) {
    vrt::Fail("two jobs of one strand run concurrently (level " + std::to_string(lv.id) + ")");
  }
  ++r.calls;
  r.call_pos = lv.ncalled++;
}

void End(Ctx& c, Level& lv, JobRec& r) {
  --lv.inside;
  vrt::Event(L("e", lv.id) + " " + std::to_string(r.t) + "." + std::to_string(r.n));
}

void Dropped(Ctx& c, Level& lv, JobRec& r) {
  vrt::Event(L("d", lv.id) + " " + std::to_string(r.t) + "." + std::to_string(r.n));
  ++r.drops;
}

// Strand::Submit of a job of level lv, bracketed by markers
void SubmitTo(Ctx& c, Level& lv, JobRec& r, yaclib::Job& job) {
  vrt::Event(L("sub", lv.id) + " " + std::to_string(r.t) + " " + std::to_string(r.n));
  r.sub_begin = c.clock++;
  lv.strand->Submit(job);
  r.sub_end = c.clock++;
  vrt::Event(L("ret", lv.id));
}

// A user job (top level)
struct TJob final : yaclib::Job {
  Ctx* c = nullptr;
  Level* lv = nullptr;
  JobRec* r = nullptr;
  std::function<void()> body;  // optional extra work inside Call
  void Call() noexcept final {
    Begin(*c, *lv, *r);
    (void)c->tick.load(std::memory_order_relaxed);  // preemption point inside the job
    if (body) {
      body();
    }
    End(*c, *lv, *r);
  }
  void Drop() noexcept final {
    Dropped(*c, *lv, *r);
  }
};

// The instrumented manual executor: Submit enqueues (or refuses at once), worker fibers start what is queued.
struct ManualExec final : yaclib::IExecutor {
  Ctx* c = nullptr;
  Level* up = nullptr;  // the strand that uses this executor
  int refuse = 0;       // 0 never, 1 a worker decides Call/Drop per activation, 2 Submit decides enqueue / Drop at once
  std::deque<yaclib::Job*> q;
  yaclib::detail::fiber::FiberQueue park;
  bool done = false;
  Type Tag() const noexcept final {
    return Type::Custom;
  }
  bool Alive() const noexcept final {
    return true;
  }
  void Submit(yaclib::Job& job) noexcept final {
    vrt::Event(L("xs", up->id));
    if (refuse == 2 && vrt::Next(2) == 1) {
      ++up->refusals;
      vrt::Event(L("drop", up->id));
      job.Drop();
      return;
    }
    q.push_back(&job);
    park.NotifyAll();
  }
  void Worker() {
    while (true) {
      while (q.empty()) {
        if (done) {
          return;
        }
        park.Wait(yaclib::detail::fiber::NoTimeoutTag{});
      }
      auto* job = q.front();
      q.pop_front();
      if (refuse == 1 && vrt::Next(2) == 1) {
        ++up->refusals;
        vrt::Event(L("drop", up->id));
        job->Drop();
      } else {
        vrt::Event(L("call", up->id));
        job->Call();
      }
    }
  }
  void Finish() {
    done = true;
    park.NotifyAll();
  }
  void IncRef() noexcept final {
  }
  void DecRef() noexcept final {
  }
  std::size_t GetRef() noexcept final {
    return 1;
  }
};

// Wraps any executor so that the activation of the strand `up` is visible; when `low` is set the wrapped executor is
// itself an observed strand and the forwarded proxy is one of its jobs.
struct Wrap final : yaclib::IExecutor {
  struct Proxy final : yaclib::Job {
    Wrap* w = nullptr;
    yaclib::Job* target = nullptr;
    JobRec* r = nullptr;  // identity as a job of the lower strand
    void Call() noexcept final {
      auto* self = this;
      Wrap* ww = w;
      if (ww->low != nullptr) {
        Begin(*ww->c, *ww->low, *r);
      }
      vrt::Event(L("call", ww->up->id));
      target->Call();
      if (ww->low != nullptr) {
        End(*ww->c, *ww->low, *self->r);
      }
    }
    void Drop() noexcept final {
      if (w->low != nullptr) {
        Dropped(*w->c, *w->low, *r);
      }
      ++w->up->refusals;
      vrt::Event(L("drop", w->up->id));
      target->Drop();
    }
  };
  Ctx* c = nullptr;
  Level* up = nullptr;
  Level* low = nullptr;
  yaclib::IExecutor* inner = nullptr;
  std::vector<std::unique_ptr<Proxy>> proxies;  // never freed before the end of the execution: no address reuse
  Type Tag() const noexcept final {
    return Type::Custom;
  }
  bool Alive() const noexcept final {
    return inner->Alive();
  }
  void Submit(yaclib::Job& job) noexcept final {
    vrt::Event(L("xs", up->id));
    proxies.push_back(std::make_unique<Proxy>());
    auto* p = proxies.back().get();
    p->w = this;
    p->target = &job;
    if (low != nullptr) {
      int t = c->Fiber();
      int n = low->next_seq[t]++;
      p->r = NewJob(*low, t, n, static_cast<yaclib::detail::Node*>(p));
      SubmitTo(*c, *low, *p->r, *p);
    } else {
      inner->Submit(*p);
    }
  }
  void IncRef() noexcept final {
  }
  void DecRef() noexcept final {
  }
  std::size_t GetRef() noexcept final {
    return 1;
  }
};

Level& AddLevel(Ctx& c, yaclib::IExecutorPtr under) {
  c.levels.push_back(std::make_unique<Level>());
  auto& lv = *c.levels.back();
  lv.id = static_cast<int>(c.levels.size()) - 1;
  lv.strand = yaclib::MakeStrand(std::move(under));
  lv.raw = static_cast<yaclib::Strand*>(lv.strand.Get());
  lv.mark = reinterpret_cast<std::uint64_t>(lv.raw->Mark());
  Level* p = &lv;
  vrt::NameLoc(&lv.raw->_jobs, "j" + std::to_string(lv.id), [p](std::uint64_t v) -> std::string {
    if (v == p->mark) {
      return "I";
    }
    if (v == 0) {
      return "N";
    }
    auto it = p->names.find(v);
    return it == p->names.end() ? std::string("L?") : "L" + it->second;
  });
  return lv;
}

// ---- oracle (property text only) ------------------------------------------------------------------------------
void Oracle(Level& lv) {
  const std::string at = " (level " + std::to_string(lv.id) + ")";
  bool any_drop = false;
  for (auto& j : lv.jobs) {
    const std::string name = std::to_string(j->t) + "." + std::to_string(j->n);
    if (j->sub_end < 0) {
      continue;  // never submitted
    }
    if (j->calls + j->drops == 0) {
      vrt::Fail("job " + name + " lost: neither Called nor Dropped" + at);
    } else if (j->calls + j->drops > 1) {
      vrt::Fail("job " + name + " finished " + std::to_string(j->calls) + " times by Call and " +
                std::to_string(j->drops) + " times by Drop" + at);
    }
    any_drop = any_drop || j->drops != 0;
  }
  if (any_drop && lv.refusals == 0) {
    vrt::Fail("a job was Dropped although the underlying executor never refused the strand" + at);
  }
  // order: if Submit(a) returned before Submit(b) was entered (in particular a before b in one submitter's program)
  // and both were Called, a was Called first
  for (auto& a : lv.jobs) {
    for (auto& b : lv.jobs) {
      if (a->calls == 1 && b->calls == 1 && a->sub_end >= 0 && b->sub_begin >= 0 && a->sub_end < b->sub_begin &&
          a->call_pos > b->call_pos) {
        vrt::Fail("order: job " + std::to_string(a->t) + "." + std::to_string(a->n) + " was submitted before " +
                  std::to_string(b->t) + "." + std::to_string(b->n) + " but Called after it" + at);
      }
    }
  }
  if (lv.inside != 0) {
    vrt::Fail("a job never finished" + at);
  }
}

struct Cfg {
  int subs = 2, jobs = 1, workers = 1;
  int refuse = 0;     // manual executor
  int kind = 0;       // 0 man, 1 pool, 2 strand over strand (manual underneath), 3 man + re-entrant submit
  int stop = 0;       // pool: 0 none, 1 Stop, 2 HardStop, 3 SoftStop
  int id = 0;         // unique per scenario
};

// once a scenario has produced this many failing executions the rest of its exploration is skipped (the verdict is
// known and the first failures are the replays)
int gFailedExecutions = 0;
int gFailedScenario = -1;
const int kMaxFailedExecutions = 50;

void RunScenarioBody(Cfg cfg);

void RunScenario(Cfg cfg) {
  if (gFailedScenario != cfg.id) {
    gFailedScenario = cfg.id;
    gFailedExecutions = 0;
  }
  if (gFailedExecutions >= kMaxFailedExecutions) {
    vrt::Fail("skipped: this scenario already failed " + std::to_string(kMaxFailedExecutions) + " times");
    return;
  }
  RunScenarioBody(cfg);
  if (!vrt::g.failures.empty()) {
    ++gFailedExecutions;
  }
}

void RunScenarioBody(Cfg cfg) {
  Ctx c;
  vrt::NameLoc(&c.tick, "t");
  ManualExec man;
  man.c = &c;
  man.refuse = cfg.refuse;
  Wrap wrap_pool, wrap_ss;
  yaclib::IntrusivePtr<yaclib::FairThreadPool> pool;
  Level* top = nullptr;
  if (cfg.kind == 0 || cfg.kind == 3) {
    top = &AddLevel(c, yaclib::IExecutorPtr{&man});
    man.up = top;
  } else if (cfg.kind == 1) {
    pool = yaclib::MakeFairThreadPool(static_cast<std::uint64_t>(cfg.workers));
    wrap_pool.c = &c;
    wrap_pool.inner = pool.Get();
    top = &AddLevel(c, yaclib::IExecutorPtr{&wrap_pool});
    wrap_pool.up = top;
  } else {
    Level& low = AddLevel(c, yaclib::IExecutorPtr{&man});
    man.up = &low;
    wrap_ss.c = &c;
    wrap_ss.low = &low;
    wrap_ss.inner = low.strand.Get();
    top = &AddLevel(c, yaclib::IExecutorPtr{&wrap_ss});
    wrap_ss.up = top;
  }
  // user jobs, preallocated (their addresses are never reused within an execution)
  std::vector<std::vector<std::unique_ptr<TJob>>> jobs(static_cast<std::size_t>(cfg.subs) + 1);
  auto make = [&](int t, int n) {
    auto j = std::make_unique<TJob>();
    j->c = &c;
    j->lv = top;
    j->r = NewJob(*top, t, n, static_cast<yaclib::detail::Node*>(j.get()));
    jobs[static_cast<std::size_t>(t)].push_back(std::move(j));
  };
  for (int t = 0; t < cfg.subs; ++t) {
    for (int n = 0; n < cfg.jobs; ++n) {
      make(t, n);
    }
  }
  if (cfg.kind == 3) {
    // job 0.0 submits one more job (of the pseudo-submitter `subs`) to the same strand from inside its Call
    make(cfg.subs, 0);
    auto* extra = jobs[static_cast<std::size_t>(cfg.subs)][0].get();
    jobs[0][0]->body = [&c, top, extra] {
      SubmitTo(c, *top, *extra->r, *extra);
    };
  }
  std::vector<yaclib_std::thread> workers;
  if (cfg.kind != 1) {
    for (int w = 0; w < cfg.workers; ++w) {
      workers.emplace_back([&, w] {
        vrt::NameThread("W" + std::to_string(w));
        c.SetFiber(cfg.subs + 1 + w);
        man.Worker();
      });
    }
  }
  std::vector<yaclib_std::thread> subs;
  for (int t = 0; t < cfg.subs; ++t) {
    subs.emplace_back([&, t] {
      vrt::NameThread("P" + std::to_string(t));
      c.SetFiber(t);
      for (auto& j : jobs[static_cast<std::size_t>(t)]) {
        SubmitTo(c, *top, *j->r, *j);
      }
    });
  }
  yaclib_std::thread stopper;
  bool has_stopper = false;
  if (cfg.kind == 1 && cfg.stop != 0) {
    has_stopper = true;
    stopper = yaclib_std::thread([&] {
      vrt::NameThread("X");
      (void)c.tick.load(std::memory_order_relaxed);  // an explored point
      if (cfg.stop == 1) {
        pool->Stop();
      } else if (cfg.stop == 2) {
        pool->HardStop();
      } else {
        pool->SoftStop();
      }
    });
  }
  for (auto& s : subs) {
    s.join();
  }
  if (has_stopper) {
    stopper.join();
  }
  if (cfg.kind == 1) {
    if (cfg.stop == 0) {
      pool->SoftStop();  // lets the workers finish what is queued, then stop
    }
    pool->Wait();
  } else {
    man.Finish();
    for (auto& w : workers) {
      w.join();
    }
  }
  for (auto& lv : c.levels) {
    Oracle(*lv);
  }
  // the strand must be idle again (its destructor asserts it in debug builds)
  for (auto& lv : c.levels) {
    if (reinterpret_cast<std::uint64_t>(lv->raw->_jobs.load(std::memory_order_relaxed)) != lv->mark) {
      vrt::Fail("strand not idle at the end (level " + std::to_string(lv->id) + ")");
    }
  }
  // release the strands top-down while the executors are alive
  for (auto it = c.levels.rbegin(); it != c.levels.rend(); ++it) {
    (*it)->strand = nullptr;
  }
}

// With --param yields=named only operations on named locations (the jobs words and the preemption point inside a
// job) are preemption points; operations on other wrapped objects (the strand's reference counter) are executed
// without offering a switch.  They are on locations the protocol never reads, so every interleaving of the named
// operations is still produced; the exhaustive runs would otherwise be dominated by equivalent schedules.
bool gNamedOnly = false;
void BeforeNamedOnly(const volatile void* obj, const char* op) {
  vrt::detail::Before(obj, op);
  if (gNamedOnly && vrt::g.active && vrt::g.locs.find(obj) == vrt::g.locs.end()) {
    vrt::g.at_before = false;
  }
}

}  // namespace

int main(int argc, char** argv) {
  vrt::Main m(argc, argv);
  int next_id = 0;
  gNamedOnly = m.Param("yields") == "named";
  yaclib::verif::gHooks.before = BeforeNamedOnly;
  const char* refuse_names[] = {"ok", "ref", "inl"};
  for (int s = 1; s <= 3; ++s) {
    for (int j = 1; j <= 3; ++j) {
      for (int w = 1; w <= 2; ++w) {
        for (int r = 0; r < 3; ++r) {
          Cfg cfg;
          cfg.subs = s;
          cfg.jobs = j;
          cfg.workers = w;
          cfg.refuse = r;
          std::string name = "man/S" + std::to_string(s) + "J" + std::to_string(j) + "W" + std::to_string(w) + "/" +
                             refuse_names[r];
          cfg.id = next_id++;
          m.Scenario(name, [=] {
            RunScenario(cfg);
          });
        }
      }
    }
  }
  const char* stop_names[] = {"run", "stop", "hard", "soft"};
  for (int s = 1; s <= 3; ++s) {
    for (int j = 1; j <= 2; ++j) {
      for (int w = 1; w <= 2; ++w) {
        for (int st = 0; st < 4; ++st) {
          Cfg cfg;
          cfg.kind = 1;
          cfg.subs = s;
          cfg.jobs = j;
          cfg.workers = w;
          cfg.stop = st;
          std::string name = "pool/S" + std::to_string(s) + "J" + std::to_string(j) + "W" + std::to_string(w) + "/" +
                             stop_names[st];
          cfg.id = next_id++;
          m.Scenario(name, [=] {
            RunScenario(cfg);
          });
        }
      }
    }
  }
  for (int s = 1; s <= 2; ++s) {
    for (int j = 1; j <= 2; ++j) {
      for (int w = 1; w <= 2; ++w) {
        for (int r = 0; r < 2; ++r) {
          Cfg cfg;
          cfg.kind = 2;
          cfg.subs = s;
          cfg.jobs = j;
          cfg.workers = w;
          cfg.refuse = r;
          std::string name = "ss/S" + std::to_string(s) + "J" + std::to_string(j) + "W" + std::to_string(w) + "/" +
                             refuse_names[r];
          cfg.id = next_id++;
          m.Scenario(name, [=] {
            RunScenario(cfg);
          });
        }
      }
    }
  }
  for (int s = 1; s <= 2; ++s) {
    for (int w = 1; w <= 2; ++w) {
      for (int r = 0; r < 2; ++r) {
        Cfg cfg;
        cfg.kind = 3;
        cfg.subs = s;
        cfg.jobs = 1;
        cfg.workers = w;
        cfg.refuse = r;
        std::string name = "re/S" + std::to_string(s) + "J1W" + std::to_string(w) + "/" + refuse_names[r];
        cfg.id = next_id++;
        m.Scenario(name, [=] {
          RunScenario(cfg);
        });
      }
    }
  }
  return m.Finish();
}
