// C10 harness: WhenAny through the public entry points, n <= 4 producers completing the inputs while a builder
// fiber calls the combinator; the three fail policies (LastFail = default, FirstFail, None), every form (iterator /
// variadic, Future / SharedFuture / mixed, value / void / heterogeneous = variant output), every success / error /
// exception pattern.  Scenario names: <kind>/<form><inputs><type>/<n>/<arrangement>/<pattern>   (see when_h.hpp)
// The oracle (when_h.hpp: Oracle, OracleReleased) is written from the property text only.
//
// Compiled in parts (-DWH_PART=0..5) so that the parts build in parallel; without WH_PART everything is in.
#include "when_h.hpp"

using namespace wh;

#ifndef WH_PART
#  define WH_PART -1
#endif

template <Kind K>
void RegisterAny2(vrt::Main& m) {
  Register<Cfg<K, kVec, kU, false, false, 2>>(m, true);
  Register<Cfg<K, kVar, kU, false, false, 2>>(m, true);
  Register<Cfg<K, kVec, kS, false, false, 2>>(m, true);
  Register<Cfg<K, kVar, kS, false, false, 2>>(m, true);
  Register<Cfg<K, kVar, kM, false, false, 2>>(m, true);
  Register<Cfg<K, kVec, kU, true, false, 2>>(m, true);
  Register<Cfg<K, kVar, kU, true, false, 2>>(m, true);
  Register<Cfg<K, kVar, kM, true, false, 2>>(m, true);
  Register<Cfg<K, kVar, kU, false, true, 2>>(m, true);
  Register<Cfg<K, kVar, kM, false, true, 2>>(m, true);
  // n = 1: the iterator form over Future returns the future itself; the others go through the combinator
  Register<Cfg<K, kVec, kU, false, false, 1>>(m, true);
  Register<Cfg<K, kVar, kU, false, false, 1>>(m, true);
  Register<Cfg<K, kVec, kS, false, false, 1>>(m, true);
}

template <Kind K>
void RegisterAny34(vrt::Main& m) {
  Register<Cfg<K, kVec, kU, false, false, 3>>(m, false);
  Register<Cfg<K, kVar, kU, false, false, 3>>(m, false);
  Register<Cfg<K, kVec, kS, false, false, 3>>(m, false);
  Register<Cfg<K, kVar, kM, false, false, 3>>(m, false);
  Register<Cfg<K, kVar, kU, true, false, 3>>(m, false);
  Register<Cfg<K, kVar, kU, false, true, 3>>(m, false);
  Register<Cfg<K, kVec, kU, false, false, 4>>(m, false);
  Register<Cfg<K, kVar, kM, false, false, 4>>(m, false);
}

#define WH_IN(p) (WH_PART == -1 || WH_PART == (p))

int main(int argc, char** argv) {
  vrt::Main m(argc, argv);
#if WH_IN(0)
  RegisterAny2<kAnyLF>(m);
#endif
#if WH_IN(1)
  RegisterAny34<kAnyLF>(m);
#endif
#if WH_IN(2)
  RegisterAny2<kAnyFF>(m);
#endif
#if WH_IN(3)
  RegisterAny34<kAnyFF>(m);
#endif
#if WH_IN(4)
  RegisterAny2<kAnyNone>(m);
#endif
#if WH_IN(5)
  RegisterAny34<kAnyNone>(m);
#endif
  return m.Finish();
}
