// C19 differential harness: yaclib_std::atomic<T> / atomic_flag / fences  vs  std::atomic<T>, single thread.
//
// Built in config F (FIBER: detail::Atomic<fiber::Atomic<T>, T>), T (THREAD: detail::Atomic<std::atomic<T>, T>,
// with -D_GLIBCXX_ASSERTIONS so that a precondition violation of std::atomic is caught) and FA (FIBER + UBSan).
//
//   h_c19 <cases-file>
//   h_c19 --sweep8      exhaustive: int8_t and uint8_t, every operation, every (stored value, argument) pair (and
//                       every (stored, expected) x 2 desired x spurious? for the compare_exchange forms): one JSON
//                       line per (type, operation, cv-overload) with the number of mismatches and the first one
// Every line of the file is one case:   <id> <type> <init> <nops> { <op> <vol> <spur> <mo> <a1> <a2> }*
//   type  b i8 u8 i16 u16 i32 u32 i64 u64 f32 f64 f80 (long double) flag
//         pointers: p1 char* p2 short* p4 int* p8 double* p8l long* p12 Node12* p16 long double*,
//         pointers to pointers: pp4 int** pp1 char** pp12 Node12**
//   values: decimal (two's complement as written for the type); floats: the bit pattern; pointers: byte offset
//           into an arena
//   vol   1 = call the volatile-qualified overload;  spur 1 = the fault layer is told to fail the weak CAS
//         spuriously (yaclib::verif::kWeakFail hook), also set around strong CAS (which must ignore it)
//   mo    0 = default argument, else o1 + 8*o2 with 1..6 = relaxed consume acquire release acq_rel seq_cst
// For every op the same call is made on yaclib_std::atomic<T> and on std::atomic<T>; one JSON line per case with
// (returned, stored afterwards, expected afterwards) of both.  For a spurious failure the std side is the std
// *contract*: returns false, expected := the current value, nothing changes.
//
// No fiber scheduler is needed: with the kYield hook answering "no" the injection points never switch, and the
// fiber atomics are plain fields.
#include <yaclib/fault/verif.hpp>
#include <yaclib_std/atomic>

#include <atomic>
#include <csignal>
#include <cstdint>
#include <cstdio>
#include <cstdlib>
#include <cstring>
#include <fstream>
#include <iostream>
#include <sstream>
#include <string>
#include <type_traits>
#include <unistd.h>
#include <vector>

namespace {

int g_spur = 0;
long g_weak_asked = 0;
long g_cur_id = -1;
int g_cur_op = -1;

std::int64_t Choose(int kind, std::uint64_t /*n*/) {
  if (kind == yaclib::verif::kWeakFail) {
    ++g_weak_asked;
    return g_spur;
  }
  return 0;  // never yield, every other random draw = 0
}

char g_buf[256];
void OnCrash(int sig) {
  int n = std::snprintf(g_buf, sizeof g_buf, "{\"crash\":%d,\"id\":%ld,\"op\":%d}\n", sig, g_cur_id, g_cur_op);
  (void)!write(1, g_buf, static_cast<std::size_t>(n));
  _exit(70);
}

alignas(64) char g_arena[1 << 16];

struct Node12 {  // 12 bytes, alignment 4
  int a, b, c;
};
static_assert(sizeof(Node12) == 12);

struct Op {
  std::string name;
  int vol = 0, spur = 0, mo = 0;
  std::string a1, a2;
};
struct Case {
  long id = 0;
  std::string type, init;
  std::vector<Op> ops;
};

std::memory_order Mo(int k) {
  switch (k) {
    case 1: return std::memory_order_relaxed;
    case 2: return std::memory_order_consume;
    case 3: return std::memory_order_acquire;
    case 4: return std::memory_order_release;
    case 5: return std::memory_order_acq_rel;
    default: return std::memory_order_seq_cst;
  }
}

template <typename T, typename = void>
struct Codec {  // integers, bool
  static T Parse(const std::string& s) {
    if constexpr (std::is_signed_v<T>) {
      return static_cast<T>(std::strtoll(s.c_str(), nullptr, 10));
    } else {
      return static_cast<T>(std::strtoull(s.c_str(), nullptr, 10));
    }
  }
  static std::string Print(T v) {
    if constexpr (std::is_signed_v<T>) {
      return std::to_string(static_cast<long long>(v));
    } else {
      return std::to_string(static_cast<unsigned long long>(v));
    }
  }
};
// long double (x87 extended): the 80 value bits as one decimal number; the 6 padding bytes are written as zero
template <>
struct Codec<long double, void> {
  static long double Parse(const std::string& s) {
    unsigned __int128 b = 0;
    for (char c : s) {
      if (c >= '0' && c <= '9') {
        b = b * 10 + static_cast<unsigned>(c - '0');
      }
    }
    alignas(16) unsigned char raw[sizeof(long double)] = {};
    std::memcpy(raw, &b, 10);
    long double v;
    std::memcpy(&v, raw, sizeof v);
    return v;
  }
  static std::string Print(long double v) {
    unsigned __int128 b = 0;
    std::memcpy(&b, &v, 10);
    std::string out;
    do {
      out.insert(out.begin(), static_cast<char>('0' + static_cast<int>(b % 10)));
      b /= 10;
    } while (b != 0);
    return out;
  }
};
template <typename T>
struct Codec<T, std::enable_if_t<std::is_floating_point_v<T> && !std::is_same_v<T, long double>>> {
  using B = std::conditional_t<sizeof(T) == 4, std::uint32_t, std::uint64_t>;
  static T Parse(const std::string& s) {
    B b = static_cast<B>(std::strtoull(s.c_str(), nullptr, 10));
    T v;
    std::memcpy(&v, &b, sizeof v);
    return v;
  }
  static std::string Print(T v) {
    B b;
    std::memcpy(&b, &v, sizeof v);
    return std::to_string(static_cast<unsigned long long>(b));
  }
};
template <typename U>
struct Codec<U*, void> {
  static U* Parse(const std::string& s) {
    return reinterpret_cast<U*>(g_arena + std::strtoll(s.c_str(), nullptr, 10));
  }
  static std::string Print(U* p) {
    return std::to_string(static_cast<long long>(reinterpret_cast<char*>(p) - g_arena));
  }
};

template <typename T>
struct ArgOf {
  using type = T;
};
template <typename U>
struct ArgOf<U*> {
  using type = std::ptrdiff_t;
};

struct Out {
  std::string ret = "0", exp = "0", err;
};

// One operation on an atomic object `a` of type At (yaclib_std::atomic<T> or std::atomic<T>).
// kYaclib: the fault layer's atomic (spurious failures can be injected; some volatile overloads do not compile).
template <typename T, bool kYaclib, typename At>
void Apply(At& a, const Op& op, Out& out) {
  using A = typename ArgOf<T>::type;
  [[maybe_unused]] volatile At& va = a;
  const std::string& n = op.name;
  const int o1 = op.mo % 8, o2 = op.mo / 8;
  [[maybe_unused]] T x1 = Codec<T>::Parse(op.a1);
  [[maybe_unused]] T x2 = Codec<T>::Parse(op.a2);
  [[maybe_unused]] A d1 = Codec<A>::Parse(op.a1);
  auto put = [&](auto v) {
    using V = decltype(v);
    if constexpr (std::is_same_v<V, bool>) {
      out.ret = v ? "1" : "0";
    } else {
      out.ret = Codec<T>::Print(static_cast<T>(v));
    }
  };
  auto missing = [&] {
    out.err = "operation " + n + (op.vol ? " (volatile)" : "") + " is not available on this atomic type";
  };
#define C19_CALL(expr_plain, expr_vol)                 \
  do {                                                 \
    if (op.vol) {                                      \
      put(expr_vol);                                   \
    } else {                                           \
      put(expr_plain);                                 \
    }                                                  \
  } while (0)
#define C19_VOID(expr_plain, expr_vol) \
  do {                                 \
    if (op.vol) {                      \
      expr_vol;                        \
    } else {                           \
      expr_plain;                      \
    }                                  \
  } while (0)
  if (n == "store") {
    if (o1) C19_VOID(a.store(x1, Mo(o1)), va.store(x1, Mo(o1)));
    else C19_VOID(a.store(x1), va.store(x1));
  } else if (n == "load") {
    if (o1) C19_CALL(a.load(Mo(o1)), va.load(Mo(o1)));
    else C19_CALL(a.load(), va.load());
  } else if (n == "conv") {
    C19_CALL(static_cast<T>(a), static_cast<T>(va));
  } else if (n == "assign") {
    if constexpr (requires { a = x1; }) {
      T r = (a = x1);
      put(r);
    } else {
      missing();
    }
  } else if (n == "xchg") {
    if (o1) C19_CALL(a.exchange(x1, Mo(o1)), va.exchange(x1, Mo(o1)));
    else C19_CALL(a.exchange(x1), va.exchange(x1));
  } else if (n == "cesload") {
    // the CAS-loop idiom: expected = load(); while (!compare_exchange_strong(expected, desired)) {}.  The padding
    // bytes of `expected` (x87 long double: bytes 10..15) are poisoned: std::atomic compares the VALUE representation.
    alignas(16) unsigned char raw[sizeof(T)];
    {
      T loaded = a.load();
      std::memcpy(raw, &loaded, sizeof loaded);
    }
    if constexpr (std::is_same_v<T, long double>) {
      std::memset(raw + 10, 0xAB, sizeof(T) - 10);
    }
    asm volatile("" : : "r"(raw) : "memory");   // the bytes are in memory exactly as written
    T& e = *reinterpret_cast<T*>(raw);
    // returned: number of failed attempts before the exchange succeeds (at most 3 are made).  A failed attempt must
    // leave `expected` such that the next one succeeds (std::atomic<long double>: at most one failure).
    int failed = 0;
    while (failed < 3 && !a.compare_exchange_strong(e, x2)) {
      ++failed;
    }
    out.ret = std::to_string(failed);
    out.exp = Codec<T>::Print(e);
  } else if (n == "cew1" || n == "cew2" || n == "ces1" || n == "ces2") {
    const bool weak = n[2] == 'w';
    T e = x1;
    bool r = false;
    if (!kYaclib && weak && op.spur) {
      // the std contract for a spurious failure
      e = a.load();
      r = false;
    } else {
      g_spur = kYaclib ? op.spur : 0;
      auto cas = [&](auto& obj) -> bool {
        if (n == "cew1") {
          return o1 ? obj.compare_exchange_weak(e, x2, Mo(o1)) : obj.compare_exchange_weak(e, x2);
        }
        if (n == "cew2") {
          return obj.compare_exchange_weak(e, x2, Mo(o1), Mo(o2));
        }
        if (n == "ces1") {
          return o1 ? obj.compare_exchange_strong(e, x2, Mo(o1)) : obj.compare_exchange_strong(e, x2);
        }
        return obj.compare_exchange_strong(e, x2, Mo(o1), Mo(o2));
      };
      // fiber::AtomicBase's volatile compare_exchange calls a non-volatile helper: it does not compile, so in the
      // FIBER backend only the plain overloads can be exercised
      constexpr bool kVolatileCas = !(kYaclib && YACLIB_FAULT == 2);
      if constexpr (kVolatileCas) {
        r = op.vol ? cas(va) : cas(a);
      } else {
        r = cas(a);
      }
      g_spur = 0;
    }
    out.ret = r ? "1" : "0";
    out.exp = Codec<T>::Print(e);
  } else if (n == "fadd" || n == "fsub" || n == "adda" || n == "suba") {
    if constexpr (requires { a.fetch_add(d1); }) {
      if (n == "fadd") {
        if (o1) C19_CALL(a.fetch_add(d1, Mo(o1)), va.fetch_add(d1, Mo(o1)));
        else C19_CALL(a.fetch_add(d1), va.fetch_add(d1));
      } else if (n == "fsub") {
        if (o1) C19_CALL(a.fetch_sub(d1, Mo(o1)), va.fetch_sub(d1, Mo(o1)));
        else C19_CALL(a.fetch_sub(d1), va.fetch_sub(d1));
      } else if (n == "adda") {
        C19_CALL(a += d1, va += d1);
      } else {
        C19_CALL(a -= d1, va -= d1);
      }
    } else {
      missing();
    }
  } else if (n == "fand" || n == "for" || n == "fxor" || n == "anda" || n == "ora" || n == "xora") {
    if constexpr (requires { a.fetch_and(x1); }) {
      if (n == "fand") {
        if (o1) C19_CALL(a.fetch_and(x1, Mo(o1)), va.fetch_and(x1, Mo(o1)));
        else C19_CALL(a.fetch_and(x1), va.fetch_and(x1));
      } else if (n == "for") {
        if (o1) C19_CALL(a.fetch_or(x1, Mo(o1)), va.fetch_or(x1, Mo(o1)));
        else C19_CALL(a.fetch_or(x1), va.fetch_or(x1));
      } else if (n == "fxor") {
        if (o1) C19_CALL(a.fetch_xor(x1, Mo(o1)), va.fetch_xor(x1, Mo(o1)));
        else C19_CALL(a.fetch_xor(x1), va.fetch_xor(x1));
      } else if (n == "anda") {
        C19_CALL(a &= x1, va &= x1);
      } else if (n == "ora") {
        C19_CALL(a |= x1, va |= x1);
      } else {
        C19_CALL(a ^= x1, va ^= x1);
      }
    } else {
      missing();
    }
  } else if (n == "preinc" || n == "postinc" || n == "predec" || n == "postdec") {
    // the volatile ++/-- of the wrapper static_cast away volatile: they do not compile; only the plain ones run
    if constexpr (requires { ++a; }) {
      if (n == "preinc") {
        put(++a);
      } else if (n == "postinc") {
        put(a++);
      } else if (n == "predec") {
        put(--a);
      } else {
        put(a--);
      }
    } else {
      missing();
    }
  } else {
    out.err = "unknown operation " + n;
  }
#undef C19_CALL
#undef C19_VOID
}

std::string Json(const std::string& s) {
  std::string o;
  for (char c : s) {
    if (c == '"' || c == '\\') {
      o += '\\';
    }
    o += c;
  }
  return o;
}

void Fences(const Op& op, bool yaclib) {
  const int o1 = op.mo % 8;
  if (op.name == "fence_t") {
    if (yaclib) {
      yaclib_std::atomic_thread_fence(Mo(o1));
    } else {
      std::atomic_thread_fence(Mo(o1));
    }
  } else {
    if (yaclib) {
      yaclib_std::atomic_signal_fence(Mo(o1));
    } else {
      std::atomic_signal_fence(Mo(o1));
    }
  }
}

template <typename T>
void RunCase(const Case& c) {
  T init = Codec<T>::Parse(c.init);
  yaclib_std::atomic<T> y(init);
  std::atomic<T> s(init);
  std::string line = "{\"id\":" + std::to_string(c.id) + ",\"ops\":[";
  std::string err;
  for (std::size_t i = 0; i < c.ops.size(); ++i) {
    g_cur_op = static_cast<int>(i);
    const Op& op = c.ops[i];
    Out oy, os;
    if (op.name == "fence_t" || op.name == "fence_s") {
      Fences(op, true);
      Fences(op, false);
    } else {
      Apply<T, true>(y, op, oy);
      Apply<T, false>(s, op, os);
    }
    std::string sty = Codec<T>::Print(y.load());
    std::string sts = Codec<T>::Print(s.load());
    if (i) {
      line += ",";
    }
    line += "[\"" + oy.ret + "\",\"" + sty + "\",\"" + oy.exp + "\",\"" + os.ret + "\",\"" + sts + "\",\"" + os.exp + "\"]";
    if (!oy.err.empty() && err.empty()) {
      err = "yaclib_std: " + oy.err;
    }
    if (!os.err.empty() && err.empty()) {
      err = "std: " + os.err;
    }
  }
  line += "],\"err\":\"" + Json(err) + "\"}";
  std::puts(line.c_str());
}

void RunFlag(const Case& c) {
  yaclib_std::atomic_flag y;
  std::atomic_flag s;
  y.clear();
  s.clear();
  if (c.init == "1") {
    y.test_and_set();
    s.test_and_set();
  }
  volatile yaclib_std::atomic_flag& vy = y;
  volatile std::atomic_flag& vs = s;
  std::string line = "{\"id\":" + std::to_string(c.id) + ",\"ops\":[";
  std::string err;
  bool cur_y = c.init == "1", cur_s = cur_y;  // the flag has no load before C++20 / with YACLIB_FUTEX == 0: track it
  for (std::size_t i = 0; i < c.ops.size(); ++i) {
    g_cur_op = static_cast<int>(i);
    const Op& op = c.ops[i];
    const int o1 = op.mo % 8;
    std::string ry = "0", rs = "0";
    if (op.name == "clear") {
      if (op.vol) {
        o1 ? vy.clear(Mo(o1)) : vy.clear();
        o1 ? vs.clear(Mo(o1)) : vs.clear();
      } else {
        o1 ? y.clear(Mo(o1)) : y.clear();
        o1 ? s.clear(Mo(o1)) : s.clear();
      }
      cur_y = cur_s = false;
    } else if (op.name == "tas") {
      bool by, bs;
      if (op.vol) {
        by = o1 ? vy.test_and_set(Mo(o1)) : vy.test_and_set();
        bs = o1 ? vs.test_and_set(Mo(o1)) : vs.test_and_set();
      } else {
        by = o1 ? y.test_and_set(Mo(o1)) : y.test_and_set();
        bs = o1 ? s.test_and_set(Mo(o1)) : s.test_and_set();
      }
      ry = by ? "1" : "0";
      rs = bs ? "1" : "0";
      cur_y = cur_s = true;
    } else if (op.name == "fence_t" || op.name == "fence_s") {
      Fences(op, true);
      Fences(op, false);
    } else {
      err = "unknown flag operation " + op.name;
    }
    if (i) {
      line += ",";
    }
    // the stored value is what the next test_and_set returns; it is reported through the tracked value and
    // verified by the trailing test_and_set the checker appends to every flag case
    line += "[\"" + ry + "\",\"" + (cur_y ? "1" : "0") + "\",\"0\",\"" + rs + "\",\"" + (cur_s ? "1" : "0") + "\",\"0\"]";
  }
  line += "],\"err\":\"" + Json(err) + "\"}";
  std::puts(line.c_str());
}

void Dispatch(const Case& c) {
  const std::string& t = c.type;
  if (t == "b") RunCase<bool>(c);
  else if (t == "i8") RunCase<std::int8_t>(c);
  else if (t == "u8") RunCase<std::uint8_t>(c);
  else if (t == "i16") RunCase<std::int16_t>(c);
  else if (t == "u16") RunCase<std::uint16_t>(c);
  else if (t == "i32") RunCase<std::int32_t>(c);
  else if (t == "u32") RunCase<std::uint32_t>(c);
  else if (t == "i64") RunCase<std::int64_t>(c);
  else if (t == "u64") RunCase<std::uint64_t>(c);
  else if (t == "p4") RunCase<std::int32_t*>(c);
  else if (t == "p8") RunCase<double*>(c);
  else if (t == "p1") RunCase<char*>(c);
  else if (t == "p2") RunCase<short*>(c);
  else if (t == "p8l") RunCase<long*>(c);
  else if (t == "p12") RunCase<Node12*>(c);
  else if (t == "p16") RunCase<long double*>(c);
  else if (t == "pp4") RunCase<int**>(c);       // pointers to pointers: the step is sizeof(pointer) = 8
  else if (t == "pp1") RunCase<char**>(c);
  else if (t == "pp12") RunCase<Node12**>(c);
  else if (t == "f32") RunCase<float>(c);
  else if (t == "f64") RunCase<double>(c);
  else if (t == "f80") RunCase<long double>(c);
  else if (t == "flag") RunFlag(c);
  else std::printf("{\"id\":%ld,\"ops\":[],\"err\":\"unknown type\"}\n", c.id);
}

template <typename T>
void Sweep8(const char* tname) {
  static const char* kOps[] = {"store", "load", "conv", "xchg", "fadd", "fsub", "adda", "suba", "fand", "for", "fxor", "anda",
                               "ora", "xora", "preinc", "postinc", "predec", "postdec", "cew1", "cew2", "ces1", "ces2"};
  const int lo = std::is_signed_v<T> ? -128 : 0;
  for (const char* name : kOps) {
    const std::string n = name;
    const bool cas = n[0] == 'c' && n[1] == 'e';
    const bool incdec = n == "preinc" || n == "postinc" || n == "predec" || n == "postdec";
    for (int vol = 0; vol < (incdec ? 1 : 2); ++vol) {
      long checked = 0, bad = 0;
      std::string first;
      for (int v = lo; v < lo + 256; ++v) {
        for (int a = lo; a < lo + 256; ++a) {
          for (int k = 0; k < (cas ? 4 : 1); ++k) {
            Op op;
            op.name = n;
            op.vol = vol;
            op.spur = k & 1;
            op.mo = cas && n[3] == '2' ? 6 + 8 * 6 : 0;
            op.a1 = std::to_string(a);
            op.a2 = std::to_string((k & 2) ? (v ^ 0x55) : 7);
            yaclib_std::atomic<T> y(static_cast<T>(v));
            std::atomic<T> s(static_cast<T>(v));
            Out oy, os;
            Apply<T, true>(y, op, oy);
            Apply<T, false>(s, op, os);
            ++checked;
            if (oy.ret != os.ret || oy.exp != os.exp || y.load() != s.load() || !oy.err.empty()) {
              if (bad++ == 0) {
                first = std::string("1 ") + tname + " " + std::to_string(v) + " 1 " + n + " " + std::to_string(vol) + " " +
                        std::to_string(op.spur) + " " + std::to_string(op.mo) + " " + op.a1 + " " + op.a2;
              }
            }
          }
        }
      }
      std::printf("{\"sweep\":\"%s\",\"op\":\"%s\",\"vol\":%d,\"checked\":%ld,\"mismatches\":%ld,\"first\":\"%s\"}\n", tname, name,
                  vol, checked, bad, first.c_str());
    }
  }
}

}  // namespace

int main(int argc, char** argv) {
  if (argc < 2) {
    std::fprintf(stderr, "usage: h_c19 <cases-file>\n");
    return 2;
  }
  yaclib::verif::gHooks.choose = Choose;
  std::signal(SIGABRT, OnCrash);
  std::signal(SIGSEGV, OnCrash);
  std::signal(SIGFPE, OnCrash);
  std::signal(SIGILL, OnCrash);
  std::signal(SIGBUS, OnCrash);
  if (std::string(argv[1]) == "--sweep8") {
    Sweep8<std::int8_t>("i8");
    Sweep8<std::uint8_t>("u8");
    std::fflush(stdout);
    return 0;
  }
  std::ifstream in(argv[1]);
  std::string ln;
  long cases = 0;
  while (std::getline(in, ln)) {
    if (ln.empty() || ln[0] == '#') {
      continue;
    }
    std::istringstream ss(ln);
    Case c;
    std::size_t n = 0;
    ss >> c.id >> c.type >> c.init >> n;
    for (std::size_t i = 0; i < n; ++i) {
      Op op;
      ss >> op.name >> op.vol >> op.spur >> op.mo >> op.a1 >> op.a2;
      c.ops.push_back(op);
    }
    g_cur_id = c.id;
    g_cur_op = -1;
    Dispatch(c);
    std::fflush(stdout);
    ++cases;
  }
  std::printf("{\"done\":%ld,\"weak_asked\":%ld,\"backend\":%d}\n", cases, g_weak_asked, YACLIB_FAULT);
  return 0;
}
