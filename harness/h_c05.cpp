// C05 — executors: every job is Called xor Dropped, and steps run where they were told.
// Same program interpreter and table as C02 (h_c02_lib.hpp); the three "manual" executors of the programs are replaced by
// instrumented executors: a wrapper (IExecutor, Type::Custom) around a real yaclib::ManualExecutor that
//   * counts Submit / Call / Drop per job (one record per Submit, in order),
//   * stamps "which executor, which job, Call or Drop" around Call / Drop, so every callback body records where it runs
//     (the stamp is h::Ctx::draining, logged by h::Ctx::Log with every invocation),
//   * refuses work from its k-th Submit on (job.Drop() inside Submit, what a stopped executor does).
// One case per line:   <rej> <co> <fin> <program>
//   rej  = "-" | "<x>:<k>"            instrumented executor m<x> refuses its k-th Submit (k >= 1) and every later one
//   co   = "-" | "e.id,e.id,..."      the top-level source is a coroutine whose body is  co_await On(e); log(id);  for every
//                                     entry, before it co_returns its Result (program source must be (coro ...))
//   fin  = "-" | "d" | "tf.<e>" | "td.<e>" | "tc" | "tdd"
//                                     tf.<e> / td.<e> / tc / tdd: the program ends in a Task (no (tofuture)) which is started with
//                                     ToFuture(e) / Detach(e) / Cancel() / Detach() (lazy/task.hpp:97-120, detail::Start)
//                                     d: the last Then step is attached as the final continuation instead:
//                                     Future::DetachInline / Detach(e, f), FutureOn::Detach(f), SharedFuture::SubscribeInline /
//                                     Subscribe(e, f), SharedFutureOn::Subscribe(f)
// Printed per case: final Result, every callback (id, argument, stamp), every job of every instrumented executor
// (executor, index, fate, first callback that ran in it), the executor the final core holds.  The oracle below is written
// from the property text.
//
//   h_c05 --programs <file> [--no-fork] | --one '<case>' | --s5
#include "h_c02_lib.hpp"

namespace h {
void RegisterAll();
int ThenCells();
int RunCells();

// ------------------------------------------------------------------------------------------- instrumented executor

constexpr int kExecBase = 100000;

struct JobRec {
  int calls = 0;
  int drops = 0;
  int first_event = 0;  // id of the first callback that ran directly inside this job's Call / Drop (0 = none)
};

class InstrExec;

struct IJob final : yaclib::Job {
  InstrExec* ex = nullptr;
  yaclib::Job* job = nullptr;
  int seq = 0;
  void Call() noexcept final;
  void Drop() noexcept final;
};

class InstrExec final : public yaclib::IExecutor {
 public:
  int index = 0;        // 1-based: m0 -> 1
  int reject_from = 0;  // 0 = never; k = refuse the k-th Submit and every later one
  yaclib::IExecutorPtr inner = yaclib::MakeManual();
  std::vector<JobRec> jobs;
  int pending = 0;  // wrappers handed to the ManualExecutor and not yet Called / Dropped by it

  Type Tag() const noexcept final {
    return Type::Custom;
  }
  bool Refusing(int seq) const noexcept {
    return reject_from != 0 && seq + 1 >= reject_from;
  }
  bool Alive() const noexcept final {
    return !Refusing(static_cast<int>(jobs.size()));
  }
  int Stamp(int seq, bool drop) const {
    return index * kExecBase + seq * 2 + (drop ? 1 : 0);
  }
  void Submit(yaclib::Job& job) noexcept final {
    const int seq = static_cast<int>(jobs.size());
    jobs.emplace_back();
    if (Refusing(seq)) {
      ++jobs[static_cast<std::size_t>(seq)].drops;
      const int saved = Cur()->draining;
      Cur()->draining = Stamp(seq, true);
      job.Drop();
      Cur()->draining = saved;
      return;
    }
    auto* w = new IJob;
    w->ex = this;
    w->job = &job;
    w->seq = seq;
    ++pending;
    inner->Submit(*w);
  }
  std::size_t Drain() {
    return static_cast<yaclib::ManualExecutor&>(*inner).Drain();
  }
};

void IJob::Call() noexcept {
  InstrExec* e = ex;
  const int s = seq;
  yaclib::Job* j = job;
  delete this;
  --e->pending;
  ++e->jobs[static_cast<std::size_t>(s)].calls;
  const int saved = Cur()->draining;
  Cur()->draining = e->Stamp(s, false);
  j->Call();
  Cur()->draining = saved;
}

void IJob::Drop() noexcept {  // the real ManualExecutor never drops; counted if a changed library does
  InstrExec* e = ex;
  const int s = seq;
  yaclib::Job* j = job;
  delete this;
  --e->pending;
  ++e->jobs[static_cast<std::size_t>(s)].drops;
  const int saved = Cur()->draining;
  Cur()->draining = e->Stamp(s, true);
  j->Drop();
  Cur()->draining = saved;
}

struct Rej {
  int x = -1;
  int k = 0;
};

struct Seg {
  Exec exec;
  int id = 0;
};

struct Case {
  Rej rej;
  std::vector<Seg> segs;
  bool detach = false;
  int start = 0;  // 0 none; 1 ToFuture(e); 2 Detach(e); 3 Cancel(); 4 Detach()
  Exec start_exec;
  Prog prog;
};

// ------------------------------------------------------------------------------------------- coroutine with On-segments

#if YACLIB_CORO != 0
template <class V>
Fut<V> CoFutOn(const Src* s, std::vector<std::pair<yaclib::IExecutor*, int>> segs) {
  Cur()->Log(s->id, Input{4, Res{1, 0}});
  for (auto& sg : segs) {
    co_await yaclib::On(*sg.first);
    Cur()->Log(sg.second, Input{4, Res{1, 0}});
  }
  switch (s->res.kind) {
    case 0:
    case 1:
      if constexpr (std::is_void_v<V>) {
        co_return yaclib::Unit{};
      } else {
        co_return s->res.payload;
      }
    case 2:
      co_return Err{s->res.payload};
    default:
      throw Ex{s->res.payload};
  }
}
template <class V>
Tsk<V> CoTaskOn(const Src* s, std::vector<std::pair<yaclib::IExecutor*, int>> segs) {
  Cur()->Log(s->id, Input{4, Res{1, 0}});
  for (auto& sg : segs) {
    co_await yaclib::On(*sg.first);
    Cur()->Log(sg.second, Input{4, Res{1, 0}});
  }
  switch (s->res.kind) {
    case 0:
    case 1:
      if constexpr (std::is_void_v<V>) {
        co_return yaclib::Unit{};
      } else {
        co_return s->res.payload;
      }
    case 2:
      co_return Err{s->res.payload};
    default:
      throw Ex{s->res.payload};
  }
}
#endif

// ------------------------------------------------------------------------------------------- final continuations

template <class V, int P>
constexpr bool kParOk = std::is_void_v<V> ? (P == pR || P == pE || P == pX || P == pN) : (P == pR || P == pE || P == pX || P == pV);

template <class H, class V, int P>
bool DetachP(H& hd, int attach, const FnSpec* s, yaclib::IExecutor* e) {
  using F = Fn<V, P, rV>;
  constexpr bool kShared = std::is_same_v<H, Sh<V>> || std::is_same_v<H, ShOn<V>>;
  constexpr bool kOn = std::is_same_v<H, FutOn<V>> || std::is_same_v<H, ShOn<V>>;
  if constexpr (kShared) {
    if (attach == aInline) {
      hd.SubscribeInline(F{s});
    } else if (attach == aOn) {
      // SharedFutureOn::Subscribe(f) hides the base's Subscribe(e, f) (no using-declaration): go through the base
      static_cast<const yaclib::SharedFutureBase<PayOf<V>, Err>&>(hd).Subscribe(*e, F{s});
    } else {
      if constexpr (kOn) {
        hd.Subscribe(F{s});
      } else {
        return false;
      }
    }
  } else {
    if (attach == aInline) {
      std::move(hd).DetachInline(F{s});
    } else if (attach == aOn) {
      std::move(hd).Detach(*e, F{s});
    } else {
      if constexpr (kOn) {
        std::move(hd).Detach(F{s});
      } else {
        return false;
      }
    }
  }
  return true;
}

template <class H, class V>
bool DetachH(H& hd, const Op& op, yaclib::IExecutor* e) {
  const FnSpec* s = &op.fn;
  switch (s->par) {
    case pR:
      return DetachP<H, V, pR>(hd, op.attach, s, e);
    case pE:
      return DetachP<H, V, pE>(hd, op.attach, s, e);
    case pX:
      return DetachP<H, V, pX>(hd, op.attach, s, e);
    case pV:
      if constexpr (!std::is_void_v<V>) {
        return DetachP<H, V, pV>(hd, op.attach, s, e);
      }
      return false;
    case pN:
      if constexpr (std::is_void_v<V>) {
        return DetachP<H, V, pN>(hd, op.attach, s, e);
      }
      return false;
    default:
      return false;
  }
}

inline bool Detach(World& w, const Op& op, yaclib::IExecutor* e) {
  if (op.fn.ret != rV) {
    return false;
  }
  if (auto* a = std::get_if<Fut<int>>(&w)) return DetachH<Fut<int>, int>(*a, op, e);
  if (auto* a = std::get_if<Fut<void>>(&w)) return DetachH<Fut<void>, void>(*a, op, e);
  if (auto* a = std::get_if<FutOn<int>>(&w)) return DetachH<FutOn<int>, int>(*a, op, e);
  if (auto* a = std::get_if<FutOn<void>>(&w)) return DetachH<FutOn<void>, void>(*a, op, e);
  if (auto* a = std::get_if<Sh<int>>(&w)) return DetachH<Sh<int>, int>(*a, op, e);
  if (auto* a = std::get_if<Sh<void>>(&w)) return DetachH<Sh<void>, void>(*a, op, e);
  if (auto* a = std::get_if<ShOn<int>>(&w)) return DetachH<ShOn<int>, int>(*a, op, e);
  if (auto* a = std::get_if<ShOn<void>>(&w)) return DetachH<ShOn<void>, void>(*a, op, e);
  return false;
}

// ------------------------------------------------------------------------------------------- building a case

// the op loop of h::Ctx::Build, for a World built here (coroutine source with On-segments)
inline World ApplyOps(Ctx& ctx, World w, const std::vector<Op>& ops, std::size_t n) {
  for (std::size_t k = 0; k < n; ++k) {
    const Op& op = ops[k];
    if (op.kind == 0) {
      auto it = TheTable().then.find(ThenKey(WorldIndex(w), op.fn.par, op.fn.ret, op.attach));
      if (it == TheTable().then.end()) {
        Die("no table entry for this Then cell");
      }
      w = it->second(std::move(w), &op.fn, &ctx.Executor(op.exec));
    } else if (op.kind == 1) {
      if (auto* t = std::get_if<Tsk<int>>(&w)) {
        w = World{std::move(*t).ToFuture()};
      } else if (auto* tv = std::get_if<Tsk<void>>(&w)) {
        w = World{std::move(*tv).ToFuture()};
      } else {
        Die("tofuture on a non-Task");
      }
    } else {
      if (auto* a = std::get_if<FutOn<int>>(&w)) {
        w = World{std::move(*a).On(nullptr)};
      } else if (auto* b = std::get_if<FutOn<void>>(&w)) {
        w = World{std::move(*b).On(nullptr)};
      } else if (auto* c = std::get_if<ShOn<int>>(&w)) {
        w = World{std::move(*c).On(nullptr)};
      } else if (auto* d = std::get_if<ShOn<void>>(&w)) {
        w = World{std::move(*d).On(nullptr)};
      } else {
        Die("onnull on a handle without executor");
      }
    }
  }
  return w;
}

inline World BuildCase(Ctx& ctx, const Case& c, std::size_t nops) {
  if (c.segs.empty()) {
    Prog prefix;
    prefix.src = c.prog.src;
    prefix.ops.assign(c.prog.ops.begin(), c.prog.ops.begin() + static_cast<std::ptrdiff_t>(nops));
    // FnSpec / Src are referenced by the cores: the prefix must outlive the run -> keep it in a static slot
    static std::vector<std::unique_ptr<Prog>> keep;
    keep.push_back(std::make_unique<Prog>(std::move(prefix)));
    return ctx.Build(*keep.back());
  }
#if YACLIB_CORO != 0
  const Src& s = c.prog.src;
  if (s.kind != 4) {
    Die("On-segments need a coroutine source");
  }
  std::vector<std::pair<yaclib::IExecutor*, int>> segs;
  for (const auto& sg : c.segs) {
    segs.emplace_back(&ctx.Executor(sg.exec), sg.id);
  }
  World w;
  if (s.w == kT) {
    w = s.tvoid ? World{CoTaskOn<void>(&s, segs)} : World{CoTaskOn<int>(&s, segs)};
  } else {
    w = s.tvoid ? World{CoFutOn<void>(&s, segs)} : World{CoFutOn<int>(&s, segs)};
  }
  return ApplyOps(ctx, std::move(w), c.prog.ops, nops);
#else
  Die("coroutine source without coroutine support");
#endif
}

// ------------------------------------------------------------------------- the oracle (from the property text only)
//
// "Every job handed to any executor is finished by exactly one of Call or Drop, and Drop happens only when the executor
//  refuses work because it is stopped.  A continuation attached with Then(e,f)/Detach(e,f) or a coroutine after co_await
//  On(e) executes inside e and nowhere else; one attached without an executor to a FutureOn runs on the executor inherited
//  along the chain; ThenInline never submits anything.  If the target executor is stopped the step sees StopError instead
//  of its input, value callbacks are skipped, and the rest of the chain still completes."
// together with C02's reading of what the callbacks compute (Invoked / Digest of h_c02_lib.hpp).

struct XJob {
  int exec;  // 1..3
  int seq;
  bool call;
  int step;
};

struct XCall {
  int id;
  Input in;
  int stamp;  // expected stamp, -1 = the property does not say (in line, MakeInline(), MakeInline(StopTag))
};

struct Expect5 {
  Res res;
  Exec exec;
  std::vector<XCall> calls;
  std::vector<XJob> jobs;
  int cnt[3] = {0, 0, 0};
  Rej rej;

  // hands the job of step `step` to e; returns {accepted, stamp}
  std::pair<bool, int> Submit(const Exec& e, int step) {
    if (e.kind == 0) {
      return {true, -1};
    }
    if (e.kind == 2) {
      return {false, -1};
    }
    const int x = e.n % 3;
    const int seq = cnt[x]++;
    const bool ok = !(rej.x == x && rej.k != 0 && seq + 1 >= rej.k);
    jobs.push_back(XJob{x + 1, seq, ok, step});
    return {ok, (x + 1) * kExecBase + seq * 2 + (ok ? 0 : 1)};
  }
};

inline void Walk5(const Prog& p, const std::vector<Seg>* segs, Expect5& x, const Exec* on = nullptr);

inline void Call5(const FnSpec& f, const Input& in, int stamp, Expect5& x) {
  x.calls.push_back(XCall{f.id, in, stamp});
  const int d = Digest(in);
  switch (f.mode) {
    case mThrow:
      x.res = Res{3, d + f.k};
      break;
    case mRet:
    case mResVal:
      x.res = (f.ret & 1) != 0 ? Res{1, 0} : Res{0, d + f.k};
      break;
    case mResErr:
      x.res = Res{2, d + f.k};
      break;
    case mResExc:
      x.res = Res{3, d + f.k};
      break;
    default: {
      const Exec keep = x.exec;  // the step completes with the inner result; where later steps run is the chain's business
      Walk5(*f.inner, nullptr, x);
      x.exec = keep;
    }
  }
}

// on != nullptr: p is a Task started with ToFuture( *on) / Detach( *on) / Cancel(): the first step of the chain is handed to *on
// instead of the executor it was built with, and steps attached without an executor inherit *on along the chain
inline void Walk5(const Prog& p, const std::vector<Seg>* segs, Expect5& x, const Exec* on) {
  Src s = p.src;
  const Res stop{2, -1};
  x.exec = Exec{};
  if (on != nullptr) {
    s.exec = *on;
  }
  if (on != nullptr && (s.kind == 0 || s.kind == 4)) {
    // MakeTask / a coroutine returning Task: the head itself is the job handed to *on
    x.exec = *on;
    auto [ok, stamp] = x.Submit(*on, s.kind == 0 ? 0 : s.id);
    if (!ok) {
      x.res = stop;  // dropped: the coroutine body never runs
    } else if (s.kind == 0) {
      x.res = s.res;
    } else {
      x.calls.push_back(XCall{s.id, Input{4, Res{1, 0}}, stamp});
      x.res = s.res;
      if (segs != nullptr) {
        for (const auto& sg : *segs) {
          x.exec = sg.exec;
          auto [ok2, stamp2] = x.Submit(sg.exec, sg.id);
          if (!ok2) {
            x.res = stop;
            break;
          }
          x.calls.push_back(XCall{sg.id, Input{4, Res{1, 0}}, stamp2});
        }
      }
    }
  } else
  switch (s.kind) {
    case 0:
      x.res = s.res;
      break;
    case 1:
      x.res = s.res;
      x.exec = s.exec;
      break;
    case 2: {
      x.exec = s.exec;
      auto [ok, stamp] = x.Submit(s.exec, s.fn.id);
      x.res = ok ? Res{1, 0} : stop;
      if (auto in = Invoked(s.fn.par, x.res)) {
        Call5(s.fn, *in, stamp, x);
      }
      break;
    }
    case 3: {
      x.exec = s.exec;
      auto [ok, stamp] = x.Submit(s.exec, s.id);
      if (ok) {
        x.calls.push_back(XCall{s.id, Input{4, Res{1, 0}}, stamp});
        x.res = s.res;
      } else {
        x.res = stop;
      }
      break;
    }
    default: {
      x.calls.push_back(XCall{s.id, Input{4, Res{1, 0}}, -1});
      x.res = s.res;
      if (segs != nullptr) {
        for (const auto& sg : *segs) {
          x.exec = sg.exec;
          auto [ok, stamp] = x.Submit(sg.exec, sg.id);
          if (!ok) {
            x.res = stop;  // the coroutine is dropped: nothing after this co_await runs
            break;
          }
          x.calls.push_back(XCall{sg.id, Input{4, Res{1, 0}}, stamp});
        }
      }
      break;
    }
  }
  for (const Op& op : p.ops) {
    if (op.kind != 0) {
      continue;
    }
    const Exec ex = op.attach == aOn ? op.exec : x.exec;
    int stamp = -1;
    if (op.attach != aInline) {
      auto [ok, st] = x.Submit(ex, op.fn.id);
      stamp = st;
      if (!ok) {
        x.res = stop;
      }
    }
    x.exec = ex;
    if (auto in = Invoked(op.fn.par, x.res)) {
      Call5(op.fn, *in, stamp, x);
      x.exec = ex;
    }
  }
}

// ------------------------------------------------------------------------------------------- running one case

struct Outcome5 {
  Res final;
  bool has_final = false;
  bool started_early = false;  // a callback of a Task ran before the Task was started
  std::vector<Event> events;
  std::string jobs;
  std::string fexec;
  int pending = 0;
  std::string fail;
  std::string key;
};

inline void Quiesce5(Ctx& ctx, std::vector<InstrExec*>& ex) {
  for (;;) {
    bool progress = false;
    for (auto* e : ex) {
      if (e->Drain() != 0) {
        progress = true;
      }
    }
    if (progress) {
      continue;
    }
    if (ctx.pending.empty()) {
      break;
    }
    auto pr = std::move(ctx.pending.front());
    ctx.pending.pop_front();
    Ctx::Fulfil(std::move(pr.first), pr.second);
  }
}

inline std::string ExecName(yaclib::IExecutor* e, const std::vector<InstrExec*>& ex) {
  if (e == nullptr) {
    return "null";
  }
  if (e == &yaclib::MakeInline()) {
    return "i";
  }
  if (e == &yaclib::MakeInline(yaclib::StopTag{})) {
    return "s";
  }
  for (auto* x : ex) {
    if (e == x) {
      return "m" + std::to_string(x->index - 1);
    }
  }
  return "?";
}

inline std::string FinalExec(World& w, const std::vector<InstrExec*>& ex) {
  return std::visit(
    [&](auto& hd) -> std::string {
      using H = std::decay_t<decltype(hd)>;
      if constexpr (std::is_same_v<H, std::monostate>) {
        return "-";
      } else {
        if (!hd.Valid()) {
          return "-";
        }
        return ExecName(hd.GetCore()->_executor.Get(), ex);
      }
    },
    w);
}

inline Outcome5 RunCase(const Case& c) {
  Outcome5 out;
  std::vector<JobRec> recs[3];
  {
    Ctx ctx;
    Cur() = &ctx;
    std::vector<yaclib::IntrusivePtr<InstrExec>> owners;
    std::vector<InstrExec*> ex;
    for (int i = 0; i < 3; ++i) {
      auto* e = new InstrExec;
      e->index = i + 1;
      e->reject_from = c.rej.x == i ? c.rej.k : 0;
      ex.push_back(e);
      ctx.manual[static_cast<std::size_t>(i)] = yaclib::IExecutorPtr{yaclib::NoRefTag{}, e};  // h::Ctx::Executor("m<i>") now yields the wrapper
    }
    {
      const std::size_t nops = c.detach ? c.prog.ops.size() - 1 : c.prog.ops.size();
      World w = BuildCase(ctx, c, nops);
      if (c.detach) {
        const Op& last = c.prog.ops.back();
        if (last.kind != 0 || !Detach(w, last, &ctx.Executor(last.exec))) {
          Die("cannot attach this step as a final continuation");
        }
        w = World{};
        Quiesce5(ctx, ex);
      } else if (c.start != 0) {
        Quiesce5(ctx, ex);
        const std::size_t before = ctx.events.size();
        auto& se = ctx.Executor(c.start_exec);
        auto go = [&](auto& task) {
          if (c.start == 1) {
            auto fut = std::move(task).ToFuture(se);
            Quiesce5(ctx, ex);
            out.fexec = ExecName(fut.GetCore()->_executor.Get(), ex);
            out.final = fut.Ready() ? DescResult(std::move(fut).Get()) : Res{5, 0};
            out.has_final = true;
          } else if (c.start == 2) {
            std::move(task).Detach(se);
          } else if (c.start == 3) {
            std::move(task).Cancel();
          } else {
            std::move(task).Detach();
          }
        };
        if (auto* ti = std::get_if<Tsk<int>>(&w)) {
          go(*ti);
        } else if (auto* tv = std::get_if<Tsk<void>>(&w)) {
          go(*tv);
        } else {
          Die("a start form needs a program that ends in a Task");
        }
        w = World{};
        if (before != 0) {
          out.started_early = true;
        }
        Quiesce5(ctx, ex);
      } else {
        Quiesce5(ctx, ex);
        out.fexec = FinalExec(w, ex);
        out.final = Final(std::move(w));
        out.has_final = true;
      }
      Quiesce5(ctx, ex);
    }
    Quiesce5(ctx, ex);
    out.events = ctx.events;
    for (int i = 0; i < 3; ++i) {
      recs[i] = ex[static_cast<std::size_t>(i)]->jobs;
      out.pending += ex[static_cast<std::size_t>(i)]->pending;
    }
    // first callback directly inside each job
    for (const auto& e : out.events) {
      if (e.ctx >= kExecBase) {
        const int xi = e.ctx / kExecBase - 1;
        const int seq = (e.ctx % kExecBase) / 2;
        if (xi >= 0 && xi < 3 && seq < static_cast<int>(recs[xi].size()) && recs[xi][static_cast<std::size_t>(seq)].first_event == 0) {
          recs[xi][static_cast<std::size_t>(seq)].first_event = e.id;
        }
      }
    }
    for (auto* e : ex) {
      ctx.manual[static_cast<std::size_t>(e->index - 1)] = nullptr;
    }
    Cur() = nullptr;
    for (auto* e : ex) {
      delete e;
    }
  }
  for (int i = 0; i < 3; ++i) {
    for (std::size_t s = 0; s < recs[i].size(); ++s) {
      const auto& r = recs[i][s];
      const char fate = (r.calls == 1 && r.drops == 0) ? 'C' : (r.calls == 0 && r.drops == 1) ? 'D' : (r.calls == 0 && r.drops == 0) ? 'N' : 'X';
      if (!out.jobs.empty()) {
        out.jobs += ",";
      }
      out.jobs += std::to_string(i + 1) + ":" + std::to_string(s) + ":" + fate + ":" + std::to_string(r.first_event);
    }
  }

  // ---- oracle
  Expect5 x;
  x.rej = c.rej;
  Exec start_exec = c.start == 3 ? Exec{2, 0} : c.start_exec;
  Walk5(c.prog, c.segs.empty() ? nullptr : &c.segs, x, (c.start >= 1 && c.start <= 3) ? &start_exec : nullptr);
  auto fail = [&](const std::string& key, const std::string& what) {
    if (out.fail.empty()) {
      out.fail = what;
      out.key = key;
    }
  };
  // (1) every job handed to an executor is finished by exactly one of Call or Drop; Drop only by an executor that refuses
  for (int i = 0; i < 3; ++i) {
    for (std::size_t s = 0; s < recs[i].size(); ++s) {
      const auto& r = recs[i][s];
      const bool refusing = c.rej.x == i && c.rej.k != 0 && static_cast<int>(s) + 1 >= c.rej.k;
      if (r.calls + r.drops != 1) {
        fail("call-xor-drop", "job " + std::to_string(s) + " of m" + std::to_string(i) + " was Called " + std::to_string(r.calls) +
                                " times and Dropped " + std::to_string(r.drops) + " times");
      } else if (r.drops == 1 && !refusing) {
        fail("drop-without-stop", "job " + std::to_string(s) + " of m" + std::to_string(i) + " was Dropped by an executor that accepts work");
      } else if (r.calls == 1 && refusing) {
        fail("call-after-stop", "job " + std::to_string(s) + " of m" + std::to_string(i) + " was Called by an executor that refuses work");
      }
    }
  }
  if (out.pending != 0) {
    fail("call-xor-drop", std::to_string(out.pending) + " jobs are still queued in a drained ManualExecutor");
  }
  // (2) what the callbacks saw and the final Result: C02's reading with a refused step's input replaced by StopError
  std::vector<std::pair<int, Input>> got, want;
  for (const auto& e : out.events) {
    got.emplace_back(e.id, e.in);
  }
  for (const auto& cl : x.calls) {
    want.emplace_back(cl.id, cl.in);
  }
  if (out.has_final && !(out.final == x.res)) {
    fail("final", "final Result is " + out.final.Str() + ", the reading of the property gives " + x.res.Str());
  } else if (got != want) {
    std::string ws;
    for (auto& cl : want) {
      ws += std::to_string(cl.first) + ":" + cl.second.Str() + ",";
    }
    fail("calls", "callbacks invoked [" + EventsStr(out.events) + "], the reading of the property gives [" + ws + "]");
  } else {
    // (3) where: a step handed to an instrumented executor runs inside that executor's Call (or Drop) of its own job
    for (std::size_t k = 0; k < out.events.size(); ++k) {
      const int st = x.calls[k].stamp;
      if (st >= 0 && out.events[k].ctx != st) {
        fail("place", "callback " + std::to_string(out.events[k].id) + " ran with stamp " + std::to_string(out.events[k].ctx) +
                        " (executor " + std::to_string(out.events[k].ctx / kExecBase) + ", job " +
                        std::to_string((out.events[k].ctx % kExecBase) / 2) + "), it was handed to executor " +
                        std::to_string(st / kExecBase) + " as job " + std::to_string((st % kExecBase) / 2));
        break;
      }
    }
  }
  // (4) nothing else is submitted (ThenInline never submits; every other step submits exactly once), and every job's fate
  int seen[3] = {static_cast<int>(recs[0].size()), static_cast<int>(recs[1].size()), static_cast<int>(recs[2].size())};
  for (int i = 0; i < 3; ++i) {
    if (seen[i] != x.cnt[i]) {
      fail("submits", "m" + std::to_string(i) + " received " + std::to_string(seen[i]) + " jobs, the program hands it " + std::to_string(x.cnt[i]));
    }
  }
  if (out.fail.empty()) {
    for (const auto& j : x.jobs) {
      const auto& r = recs[j.exec - 1][static_cast<std::size_t>(j.seq)];
      if ((r.calls == 1) != j.call) {
        fail("fate", "job " + std::to_string(j.seq) + " of m" + std::to_string(j.exec - 1) + " should have been " + (j.call ? "Called" : "Dropped"));
      }
    }
  }
  return out;
}

// ------------------------------------------------------------------------------------------- parsing a case line

inline Case ParseCase(const std::string& line) {
  Case c;
  std::size_t pos = 0;
  auto word = [&] {
    while (pos < line.size() && line[pos] == ' ') {
      ++pos;
    }
    std::size_t b = pos;
    while (pos < line.size() && line[pos] != ' ') {
      ++pos;
    }
    return line.substr(b, pos - b);
  };
  const std::string rej = word(), co = word(), fin = word();
  if (rej != "-") {
    c.rej.x = std::atoi(rej.c_str());
    c.rej.k = std::atoi(rej.c_str() + rej.find(':') + 1);
  }
  if (co != "-") {
    std::size_t i = 0;
    while (i < co.size()) {
      std::size_t j = co.find(',', i);
      if (j == std::string::npos) {
        j = co.size();
      }
      const std::string item = co.substr(i, j - i);
      const std::size_t dot = item.find('.');
      Parser pe{item.substr(0, dot).c_str()};
      Seg sg;
      const std::string en = item.substr(0, dot);
      if (en == "i") {
        sg.exec.kind = 0;
      } else if (en == "s") {
        sg.exec.kind = 2;
      } else {
        sg.exec.kind = 1;
        sg.exec.n = std::atoi(en.c_str() + 1);
      }
      sg.id = std::atoi(item.c_str() + dot + 1);
      c.segs.push_back(sg);
      i = j + 1;
    }
  }
  c.detach = fin == "d";
  if (fin.rfind("tf.", 0) == 0 || fin.rfind("td.", 0) == 0) {
    c.start = fin[1] == 'f' ? 1 : 2;
    const std::string en = fin.substr(3);
    if (en == "i") {
      c.start_exec.kind = 0;
    } else if (en == "s") {
      c.start_exec.kind = 2;
    } else {
      c.start_exec.kind = 1;
      c.start_exec.n = std::atoi(en.c_str() + 1);
    }
  } else if (fin == "tc") {
    c.start = 3;
    c.start_exec.kind = 2;
  } else if (fin == "tdd") {
    c.start = 4;
  }
  Parser ps{line.c_str() + pos};
  c.prog = ps.ParseProg();
  return c;
}

// ------------------------------------------------------------------------------------------- S5 observation
// A Then(f) attached to a SharedFutureOn while a coroutine awaits the same shared state (DESIGN §6 S5).  PromiseType::Impl
// (coro/detail/promise_type.hpp:123-126) move-assigns (= swaps) the shared core's _executor with the coroutine's own.
// Not part of the pass/fail decision of the programs above: printed for checks/c05.py, which reports it.
//   --s5 prints one JSON line per variant: order (coroutine attached first | Then(f) attached first) x the coroutine's own
//   executor before it awaits (MakeInline() | m1 after co_await On(m1)).

#if YACLIB_CORO != 0
inline yaclib::Future<int, Err> S5Coro(yaclib::SharedFutureOn<int, Err> sf, yaclib::IExecutor* first, std::vector<InstrExec*>* ex,
                                       std::string* seen) {
  if (first != nullptr) {
    co_await yaclib::On(*first);
  }
  int v = co_await sf;
  auto& cur = co_await yaclib::CurrentExecutor();
  *seen = "value=" + std::to_string(v) + " stamp=" + std::to_string(Cur()->draining) + " current=" + ExecName(&cur, *ex);
  co_return v;
}
#endif

inline std::string S5Variant(int order, bool coro_on_m1) {
#if YACLIB_CORO != 0
  Ctx ctx;
  Cur() = &ctx;
  std::vector<InstrExec*> ex;
  for (int i = 0; i < 3; ++i) {
    auto* e = new InstrExec;
    e->index = i + 1;
    ex.push_back(e);
    ctx.manual[static_cast<std::size_t>(i)] = yaclib::IExecutorPtr{yaclib::NoRefTag{}, e};
  }
  std::string coro_seen = "not resumed";
  int then_stamp = -1;
  int then_value = -1;
  std::string core_exec_before, core_exec_after;
  {
    auto sf = yaclib::RunShared<Err>(*ex[0], [] {
      return 7;
    });  // its job stays queued in m0 until everything is attached
    core_exec_before = ExecName(sf.GetCore()->_executor.Get(), ex);
    yaclib::FutureOn<int, Err> g{nullptr};
    yaclib::Future<int, Err> c{nullptr};
    auto attach_then = [&] {
      g = sf.Then([&](int v) {
        then_stamp = Cur()->draining;
        then_value = v;
        return v + 1;
      });
    };
    auto attach_coro = [&] {
      c = S5Coro(sf, coro_on_m1 ? ex[1] : nullptr, &ex, &coro_seen);
      if (coro_on_m1) {
        (void)ex[1]->Drain();  // resume it inside m1 so that it reaches `co_await sf`; m0 is not drained yet
      }
    };
    if (order == 0) {
      attach_coro();
      attach_then();
    } else {
      attach_then();
      attach_coro();
    }
    Quiesce5(ctx, ex);
    core_exec_after = ExecName(sf.GetCore()->_executor.Get(), ex);
    if (g.Valid() && g.Ready()) {
      (void)std::move(g).Get();
    }
    if (c.Valid() && c.Ready()) {
      (void)std::move(c).Get();
    }
  }
  for (auto* e : ex) {
    ctx.manual[static_cast<std::size_t>(e->index - 1)] = nullptr;
  }
  Cur() = nullptr;
  std::string jobs;
  for (auto* e : ex) {
    jobs += "m" + std::to_string(e->index - 1) + "=" + std::to_string(e->jobs.size()) + " ";
    delete e;
  }
  const bool on_m0 = then_stamp >= kExecBase && then_stamp / kExecBase == 1;
  return std::string{"{\"order\":\""} + (order == 0 ? "coroutine-first" : "then-first") + "\",\"coroutine_executor\":\"" +
         (coro_on_m1 ? "m1" : "inline") + "\",\"then_value\":" + std::to_string(then_value) + ",\"then_stamp\":" + std::to_string(then_stamp) +
         ",\"then_ran_inside_m0\":" + (on_m0 ? "true" : "false") + ",\"coroutine\":\"" + coro_seen + "\",\"shared_core_executor_before\":\"" +
         core_exec_before + "\",\"shared_core_executor_after\":\"" + core_exec_after + "\",\"submissions\":\"" + jobs + "\"}";
#else
  (void)order;
  (void)coro_on_m1;
  return "{\"no_coroutines\":true}";
#endif
}

}  // namespace h

namespace {

std::string Json(const std::string& s) {
  std::string o;
  for (char c : s) {
    if (c == '"' || c == '\\') {
      o.push_back('\\');
    }
    o.push_back(c);
  }
  return o;
}

std::string RunLine(std::size_t idx, const std::string& text) {
  h::Case c = h::ParseCase(text);
  h::Outcome5 o = h::RunCase(c);
  return "{\"i\":" + std::to_string(idx) + ",\"final\":\"" + (o.has_final ? o.final.Str() : std::string{"none:0"}) + "\",\"events\":\"" +
         h::EventsStr(o.events) + "\",\"jobs\":\"" + o.jobs + "\",\"fexec\":\"" + o.fexec + "\",\"pend\":" + std::to_string(o.pending) +
         ",\"fail\":\"" + Json(o.fail) + "\",\"key\":\"" + o.key + "\"}\n";
}

void WriteAll(int fd, const std::string& s) {
  std::size_t off = 0;
  while (off < s.size()) {
    auto n = ::write(fd, s.data() + off, s.size() - off);
    if (n <= 0) {
      std::_Exit(5);
    }
    off += static_cast<std::size_t>(n);
  }
}

}  // namespace

int main(int argc, char** argv) {
  std::string file;
  std::string one;
  bool no_fork = false;
  for (int i = 1; i < argc; ++i) {
    std::string a = argv[i];
    if (a == "--programs" && i + 1 < argc) {
      file = argv[++i];
    } else if (a == "--one" && i + 1 < argc) {
      one = argv[++i];
    } else if (a == "--no-fork") {
      no_fork = true;
    } else if (a == "--s5") {
      // each variant in its own process: a variant that crashes must not hide the others
      for (int order = 0; order < 2; ++order) {
        for (int on = 0; on < 2; ++on) {
          std::fflush(stdout);
          pid_t pid = ::fork();
          if (pid == 0) {
            ::alarm(20);
            std::printf("%s\n", h::S5Variant(order, on != 0).c_str());
            std::fflush(stdout);
            std::_Exit(0);
          }
          int status = 0;
          ::waitpid(pid, &status, 0);
          if (!(WIFEXITED(status) && WEXITSTATUS(status) == 0)) {
            std::printf("{\"order\":\"%s\",\"coroutine_executor\":\"%s\",\"crash\":%d}\n", order == 0 ? "coroutine-first" : "then-first",
                        on != 0 ? "m1" : "inline", WIFSIGNALED(status) ? WTERMSIG(status) : -1);
          }
        }
      }
      return 0;
    }
  }
  h::RegisterAll();
  if (!one.empty()) {
    std::fputs(RunLine(0, one).c_str(), stdout);
    return 0;
  }
  std::vector<std::string> progs;
  {
    std::ifstream in{file};
    std::string l;
    while (std::getline(in, l)) {
      if (!l.empty()) {
        progs.push_back(l);
      }
    }
  }
  std::size_t next = 0;
  while (next < progs.size()) {
    if (no_fork) {
      for (; next < progs.size(); ++next) {
        std::fputs(RunLine(next, progs[next]).c_str(), stdout);
      }
      break;
    }
    int fds[2];
    if (::pipe(fds) != 0) {
      return 6;
    }
    std::fflush(stdout);
    pid_t pid = ::fork();
    if (pid == 0) {
      ::close(fds[0]);
      for (std::size_t i = next; i < progs.size(); ++i) {
        ::alarm(20);
        WriteAll(fds[1], RunLine(i, progs[i]));
      }
      std::_Exit(0);
    }
    ::close(fds[1]);
    std::size_t done = 0;
    std::string buf;
    char tmp[65536];
    for (;;) {
      auto n = ::read(fds[0], tmp, sizeof tmp);
      if (n <= 0) {
        break;
      }
      buf.append(tmp, static_cast<std::size_t>(n));
      std::size_t pos;
      while ((pos = buf.find('\n')) != std::string::npos) {
        std::fwrite(buf.data(), 1, pos + 1, stdout);
        buf.erase(0, pos + 1);
        ++done;
      }
    }
    ::close(fds[0]);
    int status = 0;
    ::waitpid(pid, &status, 0);
    next += done;
    if (next < progs.size()) {
      int sig = WIFSIGNALED(status) ? WTERMSIG(status) : 0;
      int code = WIFEXITED(status) ? WEXITSTATUS(status) : 0;
      std::printf("{\"i\":%zu,\"crash\":%d,\"exit\":%d,\"fail\":\"the library crashed (signal %d, exit %d)\",\"key\":\"crash\"}\n", next,
                  sig, code, sig, code);
      ++next;
    }
  }
  std::fflush(stdout);
  return 0;
}
