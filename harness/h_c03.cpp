// C03 harness: pipelines of instrumented functors and values, built by a consumer fiber while a producer fiber
// fulfils (or drops) the source; steps attached inline / through an accepting executor / through a rejecting
// executor; callbacks that throw; every way of finishing (Get&&, Detach, dropping the future).
// Oracle (property text): every functor and value instance constructed is destroyed exactly once, never used
// after destruction, and once the run is quiescent no allocation made for the pipeline remains.
#include "vrt_all.hpp"

#include "vrt_main.hpp"

namespace {

// ---- allocation balance (global operator new/delete replaced below)
std::int64_t gLiveBlocks = 0;
bool gCountAllocs = false;

// ---- instance tracking
struct Registry {
  std::set<const void*> live;
  int constructed = 0;
  int destroyed = 0;
  std::vector<std::string> errors;
  void Ctor(const void* p) {
    ++constructed;
    if (!live.insert(p).second) {
      errors.push_back("object constructed over a live object");
    }
  }
  void Dtor(const void* p) {
    ++destroyed;
    if (live.erase(p) == 0) {
      errors.push_back("destructor ran on an object that is not alive (double destruction)");
    }
  }
  void Use(const void* p, const char* what) {
    if (live.count(p) == 0) {
      errors.push_back(std::string(what) + " on an object that is not alive");
    }
  }
  void Reset() {
    live.clear();
    constructed = destroyed = 0;
    errors.clear();
  }
};
Registry gFn;
Registry gVal;

struct Val {
  long x = 0;
  Val() {
    gVal.Ctor(this);
  }
  explicit Val(long v) : x{v} {
    gVal.Ctor(this);
  }
  Val(const Val& o) : x{o.x} {
    gVal.Use(&o, "copy");
    gVal.Ctor(this);
  }
  Val(Val&& o) noexcept : x{o.x} {
    gVal.Use(&o, "move");
    gVal.Ctor(this);
  }
  Val& operator=(const Val& o) {
    gVal.Use(&o, "assign");
    gVal.Use(this, "assign");
    x = o.x;
    return *this;
  }
  Val& operator=(Val&& o) noexcept {
    gVal.Use(&o, "assign");
    gVal.Use(this, "assign");
    x = o.x;
    return *this;
  }
  ~Val() {
    gVal.Dtor(this);
  }
};

struct Err {
  int code = -1;
  Err(yaclib::StopTag) noexcept : code{999} {
  }
  explicit Err(int c) noexcept : code{c} {
  }
  static const char* What() noexcept {
    return "Err";
  }
};
using R = yaclib::Result<Val, Err>;

// what each step's functor does
enum class Kind { TakesResult, TakesValue, Throws };

struct Fn {
  int id;
  Kind kind;
  bool moved_from = false;
  Fn(int i, Kind k) : id{i}, kind{k} {
    gFn.Ctor(this);
  }
  Fn(Fn&& o) noexcept : id{o.id}, kind{o.kind} {
    gFn.Use(&o, "move");
    o.moved_from = true;
    gFn.Ctor(this);
  }
  Fn(const Fn& o) : id{o.id}, kind{o.kind} {
    gFn.Use(&o, "copy");
    gFn.Ctor(this);
  }
  ~Fn() {
    if (!moved_from) {
      vrt::Event("fd " + std::to_string(id));
    }
    gFn.Dtor(this);
  }
};
struct FnResult : Fn {
  using Fn::Fn;
  Val operator()(R&& r) && {
    gFn.Use(this, "call");
    vrt::Event("call " + std::to_string(id));
    if (kind == Kind::Throws) {
      throw 7;
    }
    return Val{r ? std::move(r).Value().x + 1 : -1};
  }
};
struct FnValue : Fn {
  using Fn::Fn;
  Val operator()(Val&& v) && {
    gFn.Use(this, "call");
    vrt::Event("call " + std::to_string(id));
    if (kind == Kind::Throws) {
      throw 7;
    }
    return Val{v.x + 1};
  }
};
struct FnFinal : Fn {  // for Detach*: returns void
  using Fn::Fn;
  void operator()(R&& r) && {
    gFn.Use(this, "call");
    vrt::Event("call " + std::to_string(id));
    (void)r;
  }
};

class CountingInline final : public yaclib::IExecutor {
 public:
  explicit CountingInline(bool alive) : _alive{alive} {
  }
  Type Tag() const noexcept final {
    return Type::Custom;
  }
  bool Alive() const noexcept final {
    return _alive;
  }
  void Submit(yaclib::Job& job) noexcept final {
    if (_alive) {
      ++calls;
      job.Call();
    } else {
      ++drops;
      job.Drop();
    }
  }
  void IncRef() noexcept final {
  }
  void DecRef() noexcept final {
  }
  std::size_t GetRef() noexcept final {
    return 1;
  }
  int calls = 0;
  int drops = 0;

 private:
  bool _alive;
};

std::string FmtWord(std::uint64_t v) {
  if (v == 0) {
    return "E";
  }
  if (v == std::numeric_limits<std::uintptr_t>::max()) {
    return "R";
  }
  return "C";
}

void NameCore(int i, yaclib::detail::BaseCore* core) {
  vrt::NameLoc(&core->_callback, "w" + std::to_string(i), FmtWord);
  // operations that happened on this word before it could be named were traced as u<k>
  auto it = vrt::g.unknown.find(&core->_callback);
  if (it != vrt::g.unknown.end()) {
    vrt::Event("alias w" + std::to_string(i) + " u" + std::to_string(it->second));
  }
}

// scenario parameters
struct Params {
  int src;               // 0 value, 1 error, 2 exception, 3 promise dropped
  int len;               // number of steps 1..3
  int mode[3];           // 0 ThenInline, 1 Then(alive executor), 2 Then(stopped executor)
  int kind[3];           // Kind of each functor
  int fin;               // 0 Get&&, 1 drop the future, 2 final DetachInline step, 3 Detach()
};

template <typename Fut>
void Finish(const Params& p, Fut f, int n) {
  vrt::Event("final");
  switch (p.fin) {
    case 0: {
      R r = std::move(f).Get();
      (void)r;
      break;
    }
    case 1: {
      auto g = std::move(f);
      break;
    }
    case 2:
      std::move(f).DetachInline(FnFinal{n + 1, Kind::TakesResult});
      break;
    default:
      std::move(f).Detach();
      break;
  }
}

template <typename Fut>
void Build(const Params& p, Fut f, int i, CountingInline& alive, CountingInline& stopped) {
  if (i > p.len) {
    Finish(p, std::move(f), p.len);
    return;
  }
  vrt::Event("then " + std::to_string(i));
  const Kind k = static_cast<Kind>(p.kind[i - 1]);
  const int mode = p.mode[i - 1];
  auto next = [&](auto g) {
    NameCore(i, g.GetCore().Get());
    Build(p, std::move(g), i + 1, alive, stopped);
  };
  if (k == Kind::TakesValue) {
    if (mode == 0) {
      next(std::move(f).ThenInline(FnValue{i, k}));
    } else {
      next(std::move(f).Then(mode == 1 ? alive : stopped, FnValue{i, k}).On(nullptr));
    }
  } else {
    if (mode == 0) {
      next(std::move(f).ThenInline(FnResult{i, k}));
    } else {
      next(std::move(f).Then(mode == 1 ? alive : stopped, FnResult{i, k}).On(nullptr));
    }
  }
}

void RunScenario(const Params& p) {
  gFn.Reset();
  gVal.Reset();
  vrt::g.trace_unknown = true;
  CountingInline alive{true};
  CountingInline stopped{false};
  const std::int64_t blocks_before = gLiveBlocks;
  gCountAllocs = true;
  {
    auto [f, pr] = yaclib::MakeContract<Val, Err>();
    NameCore(0, f.GetCore().Get());
    yaclib_std::thread tp([&, pr = std::move(pr)]() mutable {
      vrt::NameThread("P");
      vrt::Event("set");
      switch (p.src) {
        case 0:
          std::move(pr).Set(Val{1});
          break;
        case 1:
          std::move(pr).Set(Err{5});
          break;
        case 2:
          std::move(pr).Set(std::make_exception_ptr(7));
          break;
        default: {
          auto q = std::move(pr);
        }
      }
    });
    yaclib_std::thread tc([&, f = std::move(f)]() mutable {
      vrt::NameThread("C");
      Build(p, yaclib::Future<Val, Err>{std::move(f)}, 1, alive, stopped);
    });
    tp.join();
    tc.join();
  }
  gCountAllocs = false;
  // ---- oracle
  for (auto& e : gFn.errors) {
    vrt::Fail("functor: " + e);
  }
  for (auto& e : gVal.errors) {
    vrt::Fail("value: " + e);
  }
  if (!gFn.live.empty()) {
    vrt::Fail(std::to_string(gFn.live.size()) + " functor instance(s) never destroyed");
  }
  if (!gVal.live.empty()) {
    vrt::Fail(std::to_string(gVal.live.size()) + " value instance(s) never destroyed");
  }
  if (gLiveBlocks != blocks_before) {
    vrt::Fail("allocation balance at quiescence is " + std::to_string(gLiveBlocks - blocks_before) + " blocks");
  }
}

}  // namespace

void* operator new(std::size_t n) {
  void* p = std::malloc(n ? n : 1);
  if (p == nullptr) {
    throw std::bad_alloc{};
  }
  if (gCountAllocs) {
    ++gLiveBlocks;
  }
  return p;
}
void operator delete(void* p) noexcept {
  if (p != nullptr && gCountAllocs) {
    --gLiveBlocks;
  }
  std::free(p);
}
void operator delete(void* p, std::size_t) noexcept {
  if (p != nullptr && gCountAllocs) {
    --gLiveBlocks;
  }
  std::free(p);
}

int main(int argc, char** argv) {
  vrt::Main m(argc, argv);
  const int max_len = std::atoi(m.Param("maxlen", "2").c_str());
  for (int len = 1; len <= max_len; ++len) {
    int combos = 1;
    for (int i = 0; i < len; ++i) {
      combos *= 9;  // mode x kind per step
    }
    for (int src = 0; src < 4; ++src) {
      for (int fin = 0; fin < 4; ++fin) {
        for (int c = 0; c < combos; ++c) {
          Params p{};
          p.src = src;
          p.len = len;
          p.fin = fin;
          int x = c;
          std::string name = "s" + std::to_string(src) + "/f" + std::to_string(fin) + "/";
          for (int i = 0; i < len; ++i) {
            p.mode[i] = x % 3;
            p.kind[i] = (x / 3) % 3;
            x /= 9;
            name += "m" + std::to_string(p.mode[i]) + "k" + std::to_string(p.kind[i]);
          }
          m.Scenario(name, [p] {
            RunScenario(p);
          });
        }
      }
    }
  }
  return m.Finish();
}
