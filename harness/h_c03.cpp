// C03 harness: pipelines of instrumented functors and values, built by a consumer fiber while a producer fiber
// fulfils (or drops) the source; steps attached inline / through an accepting executor / through a rejecting
// executor; callbacks that throw; every way of finishing (Get&&, Detach, dropping the future).
// Oracle (property text): every functor and value instance constructed is destroyed exactly once, never used
// after destruction, and once the run is quiescent no allocation made for the pipeline remains.
#include "vrt_all.hpp"

#include "vrt_main.hpp"

#include <malloc.h>

namespace {

// ---- allocation balance (global operator new/delete replaced below): only blocks allocated while the
// library is executing an API call on behalf of the pipeline are tracked (harness bookkeeping is excluded).
std::int64_t gLiveBlocks = 0;
bool gCountAllocs = false;
constexpr std::size_t kTable = 8192;
void* gTable[kTable];
void TableInsert(void* p) {
  auto h = (reinterpret_cast<std::uintptr_t>(p) >> 4) % kTable;
  for (std::size_t i = 0; i < kTable; ++i) {
    auto& slot = gTable[(h + i) % kTable];
    if (slot == nullptr || slot == reinterpret_cast<void*>(1)) {
      slot = p;
      ++gLiveBlocks;
      return;
    }
  }
}
void TableErase(void* p) {
  auto h = (reinterpret_cast<std::uintptr_t>(p) >> 4) % kTable;
  for (std::size_t i = 0; i < kTable; ++i) {
    auto& slot = gTable[(h + i) % kTable];
    if (slot == p) {
      slot = reinterpret_cast<void*>(1);  // tombstone
      --gLiveBlocks;
      return;
    }
    if (slot == nullptr) {
      return;
    }
  }
}
// the flag is per fiber: a fiber switch can happen in the middle of a library call
bool gFlag[256];
bool& Flag() {
  return gFlag[yaclib::fault::Scheduler::GetId() % 256];
}
struct Count {
  bool old = Flag();
  Count() {
    Flag() = true;
  }
  ~Count() {
    Flag() = old;
  }
};
struct NoCount {
  bool old = Flag();
  NoCount() {
    Flag() = false;
  }
  ~NoCount() {
    Flag() = old;
  }
};
void Mark(const std::string& s) {
  NoCount nc;
  vrt::Event(s);
}
void (*gOrigBefore)(const volatile void*, const char*) = nullptr;
void (*gOrigAfter)(const volatile void*, std::size_t, const char*) = nullptr;
void HookBefore(const volatile void* o, const char* op) {
  NoCount nc;
  gOrigBefore(o, op);
}
void HookAfter(const volatile void* o, std::size_t n, const char* op) {
  NoCount nc;
  gOrigAfter(o, n, op);
}
std::int64_t (*gOrigChoose)(int, std::uint64_t) = nullptr;
std::int64_t (*gOrigPick)(const std::uint64_t*, std::size_t, std::int64_t) = nullptr;
void (*gOrigResume)(std::uint64_t) = nullptr;
std::int64_t HookChoose(int k, std::uint64_t n) {
  NoCount nc;
  return gOrigChoose(k, n);
}
std::int64_t HookPick(const std::uint64_t* ids, std::size_t n, std::int64_t self) {
  NoCount nc;
  return gOrigPick(ids, n, self);
}
// blocks freed during an execution are kept until its end, so that a new core never gets the address of a
// released one (locations are named by address)
std::vector<void*> gQuarantine;
bool gInExecution = false;
// extents of the blocks released during the current execution: an instrumented object that is used or destroyed
// inside one of them was touched after its storage was released (the blocks are also filled with 0xDD)
std::vector<std::pair<std::uintptr_t, std::uintptr_t>> gFreed;
bool InFreed(const void* p) {
  const auto a = reinterpret_cast<std::uintptr_t>(p);
  for (auto& [b, e] : gFreed) {
    if (b <= a && a < e) {
      return true;
    }
  }
  return false;
}

// ---- instance tracking
struct Registry {
  std::set<const void*> live;
  int constructed = 0;
  int destroyed = 0;
  std::vector<std::string> errors;
  void Ctor(const void* p) {
    NoCount nc;
    ++constructed;
    if (!live.insert(p).second) {
      errors.push_back("object constructed over a live object");
    }
    if (InFreed(p)) {
      errors.push_back("object constructed in storage that was already released");
    }
  }
  void Dtor(const void* p) {
    NoCount nc;
    ++destroyed;
    if (live.erase(p) == 0) {
      errors.push_back("destructor ran on an object that is not alive (double destruction)");
    } else if (InFreed(p)) {
      errors.push_back("destructor ran on an object whose storage was already released (use after free)");
    }
  }
  void Use(const void* p, const char* what) {
    NoCount nc;
    if (live.count(p) == 0) {
      errors.push_back(std::string(what) + " on an object that is not alive");
    } else if (InFreed(p)) {
      errors.push_back(std::string(what) + " on an object whose storage was already released (use after free)");
    }
  }
  void Reset() {
    live.clear();
    constructed = destroyed = 0;
    errors.clear();
  }
};
Registry gFn;
Registry gVal;

struct Val {
  long x = 0;
  Val() {
    gVal.Ctor(this);
  }
  explicit Val(long v) : x{v} {
    gVal.Ctor(this);
  }
  Val(const Val& o) : x{o.x} {
    gVal.Use(&o, "copy");
    gVal.Ctor(this);
  }
  Val(Val&& o) noexcept : x{o.x} {
    gVal.Use(&o, "move");
    gVal.Ctor(this);
  }
  Val& operator=(const Val& o) {
    gVal.Use(&o, "assign");
    gVal.Use(this, "assign");
    x = o.x;
    return *this;
  }
  Val& operator=(Val&& o) noexcept {
    gVal.Use(&o, "assign");
    gVal.Use(this, "assign");
    x = o.x;
    return *this;
  }
  ~Val() {
    gVal.Dtor(this);
  }
};

struct Err {
  int code = -1;
  Err(yaclib::StopTag) noexcept : code{999} {
  }
  explicit Err(int c) noexcept : code{c} {
  }
  static const char* What() noexcept {
    return "Err";
  }
};
using R = yaclib::Result<Val, Err>;

// what each step's functor does
enum class Kind { TakesResult, TakesValue, Throws };

struct Fn {
  int id;
  Kind kind;
  bool moved_from = false;
  Fn(int i, Kind k) : id{i}, kind{k} {
    gFn.Ctor(this);
  }
  Fn(Fn&& o) noexcept : id{o.id}, kind{o.kind} {
    gFn.Use(&o, "move");
    o.moved_from = true;
    gFn.Ctor(this);
  }
  Fn(const Fn& o) : id{o.id}, kind{o.kind} {
    gFn.Use(&o, "copy");
    gFn.Ctor(this);
  }
  ~Fn() {
    if (!moved_from) {
      Mark("fd " + std::to_string(id));
    }
    gFn.Dtor(this);
  }
};
struct FnResult : Fn {
  using Fn::Fn;
  Val operator()(R&& r) && {
    gFn.Use(this, "call");
    Mark("call " + std::to_string(id));
    if (kind == Kind::Throws) {
      throw 7;
    }
    return Val{r ? std::move(r).Value().x + 1 : -1};
  }
};
struct FnValue : Fn {
  using Fn::Fn;
  Val operator()(Val&& v) && {
    gFn.Use(this, "call");
    Mark("call " + std::to_string(id));
    if (kind == Kind::Throws) {
      throw 7;
    }
    return Val{v.x + 1};
  }
};
// unwrapping functors: return a Future (flattened by the step); kind Throws throws before producing it
struct FnValueU : Fn {
  using Fn::Fn;
  yaclib::Future<Val, Err> operator()(Val&& v) && {
    gFn.Use(this, "call");
    Mark("call " + std::to_string(id));
    if (kind == Kind::Throws) {
      throw 7;
    }
    return yaclib::MakeFuture<Val, Err>(Val{v.x + 1});
  }
};
struct FnResultU : Fn {
  using Fn::Fn;
  yaclib::Future<Val, Err> operator()(R&& r) && {
    gFn.Use(this, "call");
    Mark("call " + std::to_string(id));
    if (kind == Kind::Throws) {
      throw 7;
    }
    return yaclib::MakeFuture<Val, Err>(Val{r ? std::move(r).Value().x + 1 : -1});
  }
};
// the same four for a SharedFuture source (the argument is a const reference to the shared result)
struct FnValueS : Fn {
  using Fn::Fn;
  Val operator()(const Val& v) && {
    gFn.Use(this, "call");
    gVal.Use(&v, "read by a continuation");
    Mark("call " + std::to_string(id));
    if (kind == Kind::Throws) {
      throw 7;
    }
    return Val{v.x + 1};
  }
};
struct FnResultS : Fn {
  using Fn::Fn;
  Val operator()(const R& r) && {
    gFn.Use(this, "call");
    Mark("call " + std::to_string(id));
    if (kind == Kind::Throws) {
      throw 7;
    }
    return Val{r ? r.Value().x + 1 : -1};
  }
};
struct FnValueUS : Fn {
  using Fn::Fn;
  yaclib::Future<Val, Err> operator()(const Val& v) && {
    gFn.Use(this, "call");
    gVal.Use(&v, "read by a continuation");
    Mark("call " + std::to_string(id));
    if (kind == Kind::Throws) {
      throw 7;
    }
    return yaclib::MakeFuture<Val, Err>(Val{v.x + 1});
  }
};
struct FnResultUS : Fn {
  using Fn::Fn;
  yaclib::Future<Val, Err> operator()(const R& r) && {
    gFn.Use(this, "call");
    Mark("call " + std::to_string(id));
    if (kind == Kind::Throws) {
      throw 7;
    }
    return yaclib::MakeFuture<Val, Err>(Val{r ? r.Value().x + 1 : -1});
  }
};
// unwrapping functors that hand out a PENDING inner future (fulfilled by a third fiber)
struct FnU : Fn {
  yaclib::Future<Val, Err> inner;
  FnU(int i, Kind k, yaclib::Future<Val, Err> in) : Fn{i, k}, inner{std::move(in)} {
  }
  FnU(FnU&&) noexcept = default;
};
struct FnValueUP : FnU {
  using FnU::FnU;
  yaclib::Future<Val, Err> operator()(Val&& v) && {
    gFn.Use(this, "call");
    Mark("call " + std::to_string(id));
    (void)v;
    if (kind == Kind::Throws) {
      throw 7;
    }
    return std::move(inner);
  }
};
struct FnResultUP : FnU {
  using FnU::FnU;
  yaclib::Future<Val, Err> operator()(R&& r) && {
    gFn.Use(this, "call");
    Mark("call " + std::to_string(id));
    (void)r;
    if (kind == Kind::Throws) {
      throw 7;
    }
    return std::move(inner);
  }
};
struct FnHead : Fn {  // head of a lazy chain: no argument, returns a value
  using Fn::Fn;
  Val operator()() && {
    gFn.Use(this, "call");
    Mark("call " + std::to_string(id));
    if (kind == Kind::Throws) {
      throw 7;
    }
    return Val{1};
  }
};
struct FnFinal : Fn {  // for Detach*: returns void
  using Fn::Fn;
  void operator()(R&& r) && {
    gFn.Use(this, "call");
    Mark("call " + std::to_string(id));
    (void)r;
  }
};

class CountingInline final : public yaclib::IExecutor {
 public:
  explicit CountingInline(bool alive) : _alive{alive} {
  }
  Type Tag() const noexcept final {
    return Type::Custom;
  }
  bool Alive() const noexcept final {
    return _alive;
  }
  void Submit(yaclib::Job& job) noexcept final {
    if (_alive) {
      ++calls;
      job.Call();
    } else {
      ++drops;
      job.Drop();
    }
  }
  void IncRef() noexcept final {
  }
  void DecRef() noexcept final {
  }
  std::size_t GetRef() noexcept final {
    return 1;
  }
  int calls = 0;
  int drops = 0;

 private:
  bool _alive;
};

std::string FmtWord(std::uint64_t v) {
  if (v == 0) {
    return "E";
  }
  if (v == std::numeric_limits<std::uintptr_t>::max()) {
    return "R";
  }
  return "C";
}

void NameCore(int i, yaclib::detail::BaseCore* core) {
  NoCount nc;
  vrt::NameLoc(&core->_callback, "w" + std::to_string(i), FmtWord);
  // operations that happened on this word before it could be named were traced as u<k>
  auto it = vrt::g.unknown.find(&core->_callback);
  if (it != vrt::g.unknown.end()) {
    vrt::Event("alias w" + std::to_string(i) + " u" + std::to_string(it->second));
  }
}

// scenario parameters
struct Params {
  int src;               // 0 value, 1 error, 2 exception, 3 promise dropped
  int len;               // number of steps 1..3
  int mode[3];           // 0 ThenInline, 1 Then(alive executor), 2 Then(stopped executor)
  int kind[3];           // Kind of each functor
  int fin;               // 0 Get&&, 1 drop the future, 2 final DetachInline step, 3 Detach()
};

template <typename Fut>
void Finish(const Params& p, Fut f, int n) {
  Mark("final");
  Count cnt;
  switch (p.fin) {
    case 0: {
      R r = std::move(f).Get();
      (void)r;
      break;
    }
    case 1: {
      auto g = std::move(f);
      break;
    }
    case 2:
      std::move(f).DetachInline(FnFinal{n + 1, Kind::TakesResult});
      break;
    default:
      std::move(f).Detach();
      break;
  }
}

template <typename Fut>
void Build(const Params& p, Fut f, int i, CountingInline& alive, CountingInline& stopped) {
  if (i > p.len) {
    Finish(p, std::move(f), p.len);
    return;
  }
  Mark("then " + std::to_string(i));
  const Kind k = static_cast<Kind>(p.kind[i - 1]);
  const int mode = p.mode[i - 1];
  auto next = [&](auto g) {
    NameCore(i, g.GetCore().Get());
    Build(p, std::move(g), i + 1, alive, stopped);
  };
  auto counted = [&](auto&& make) {
    Count cnt;
    return make();
  };
  if (k == Kind::TakesValue) {
    if (mode == 0) {
      next(counted([&] { return std::move(f).ThenInline(FnValue{i, k}); }));
    } else {
      next(counted([&] { return std::move(f).Then(mode == 1 ? alive : stopped, FnValue{i, k}).On(nullptr); }));
    }
  } else {
    if (mode == 0) {
      next(counted([&] { return std::move(f).ThenInline(FnResult{i, k}); }));
    } else {
      next(counted([&] { return std::move(f).Then(mode == 1 ? alive : stopped, FnResult{i, k}).On(nullptr); }));
    }
  }
}

void RunScenario(const Params& p) {
  gFn.Reset();
  gVal.Reset();
  vrt::g.trace_unknown = true;
  CountingInline alive{true};
  CountingInline stopped{false};
  std::memset(gTable, 0, sizeof(gTable));
  gLiveBlocks = 0;
  const std::int64_t blocks_before = gLiveBlocks;
  gInExecution = true;
  {
    auto [f, pr] = [] {
      Count cnt;
      return yaclib::MakeContract<Val, Err>();
    }();
    NameCore(0, f.GetCore().Get());
    yaclib_std::thread tp([&, pr = std::move(pr)]() mutable {
      vrt::NameThread("P");
      Mark("set");
      Count cnt;
      switch (p.src) {
        case 0:
          std::move(pr).Set(Val{1});
          break;
        case 1:
          std::move(pr).Set(Err{5});
          break;
        case 2:
          std::move(pr).Set(std::make_exception_ptr(7));
          break;
        default: {
          auto q = std::move(pr);
        }
      }
    });
    yaclib_std::thread tc([&, f = std::move(f)]() mutable {
      vrt::NameThread("C");
      Build(p, yaclib::Future<Val, Err>{std::move(f)}, 1, alive, stopped);
    });
    tp.join();
    tc.join();
  }
  gInExecution = false;
  for (void* q : gQuarantine) {
    std::free(q);
  }
  gQuarantine.clear();
  gFreed.clear();
  // ---- oracle
  for (auto& e : gFn.errors) {
    vrt::Fail("functor: " + e);
  }
  for (auto& e : gVal.errors) {
    vrt::Fail("value: " + e);
  }
  if (!gFn.live.empty()) {
    vrt::Fail(std::to_string(gFn.live.size()) + " functor instance(s) never destroyed");
  }
  if (!gVal.live.empty()) {
    vrt::Fail(std::to_string(gVal.live.size()) + " value instance(s) never destroyed");
  }
  if (gLiveBlocks != blocks_before) {
    vrt::Fail("allocation balance at quiescence is " + std::to_string(gLiveBlocks - blocks_before) + " blocks");
  }
}

// ---- family B: a SharedFuture source observed through continuations (plain and unwrapping) while handles stay alive
struct ParamsB {
  int src;    // 0 value, 1 error, 2 exception
  int mode;   // 0 ThenInline, 1 Then(accepting executor), 2 Then(rejecting executor)
  int fk;     // 0 value->Val, 1 Result->Val, 2 value->Future, 3 Result->Future
  int thr;    // functor throws
};

void RunShared(const ParamsB& p) {
  gFn.Reset();
  gVal.Reset();
  vrt::g.trace_unknown = false;
  CountingInline alive{true};
  CountingInline stopped{false};
  std::memset(gTable, 0, sizeof(gTable));
  gLiveBlocks = 0;
  gInExecution = true;
  long seen_again = -2;
  {
    auto [sf, sp] = [] {
      Count cnt;
      return yaclib::MakeSharedContract<Val, Err>();
    }();
    auto keep = sf;  // a second handle that outlives everything else
    yaclib_std::thread tp([&, sp = std::move(sp)]() mutable {
      vrt::NameThread("P");
      Count cnt;
      switch (p.src) {
        case 0:
          std::move(sp).Set(Val{1});
          break;
        case 1:
          std::move(sp).Set(Err{5});
          break;
        default:
          std::move(sp).Set(std::make_exception_ptr(7));
          break;
      }
    });
    yaclib_std::thread tc([&, sf = std::move(sf)]() mutable {
      vrt::NameThread("C");
      const Kind k = p.thr ? Kind::Throws : (p.fk % 2 == 0 ? Kind::TakesValue : Kind::TakesResult);
      auto& ex = p.mode == 1 ? alive : stopped;
      auto finish = [&](auto f2) {
        Count cnt;
        R r = std::move(f2).Get();
        (void)r;
      };
      Count cnt;
      switch (p.fk) {
        case 0:
          p.mode == 0 ? finish(sf.ThenInline(FnValueS{1, k})) : finish(sf.Then(ex, FnValueS{1, k}).On(nullptr));
          break;
        case 1:
          p.mode == 0 ? finish(sf.ThenInline(FnResultS{1, k})) : finish(sf.Then(ex, FnResultS{1, k}).On(nullptr));
          break;
        case 2:
          p.mode == 0 ? finish(sf.ThenInline(FnValueUS{1, k})) : finish(sf.Then(ex, FnValueUS{1, k}).On(nullptr));
          break;
        default:
          p.mode == 0 ? finish(sf.ThenInline(FnResultUS{1, k})) : finish(sf.Then(ex, FnResultUS{1, k}).On(nullptr));
          break;
      }
    });
    tp.join();
    tc.join();
    {
      // the surviving handle must still see the value that was set
      Count cnt;
      const R& again = keep.Get();
      seen_again = again ? again.Value().x : -1;
      if (again) {
        gVal.Use(&again.Value(), "read through a surviving SharedFuture");
      }
    }
  }
  gInExecution = false;
  for (void* q : gQuarantine) {
    std::free(q);
  }
  gQuarantine.clear();
  gFreed.clear();
  if (p.src == 0 && seen_again != 1) {
    vrt::Fail("a surviving SharedFuture read " + std::to_string(seen_again) + " but 1 was set");
  }
  for (auto& e : gFn.errors) {
    vrt::Fail("functor: " + e);
  }
  for (auto& e : gVal.errors) {
    vrt::Fail("value: " + e);
  }
  if (!gFn.live.empty()) {
    vrt::Fail(std::to_string(gFn.live.size()) + " functor instance(s) never destroyed");
  }
  if (!gVal.live.empty()) {
    vrt::Fail(std::to_string(gVal.live.size()) + " value instance(s) never destroyed");
  }
  if (gLiveBlocks != 0) {
    vrt::Fail("allocation balance at quiescence is " + std::to_string(gLiveBlocks) + " blocks");
  }
}

// ---- family C: a unique pipeline with one unwrapping step whose callback returns a future that is still pending;
// a third fiber fulfils (or drops) the inner promise, so the step's core is completed, consumed and released by other
// fibers while the fiber that called the functor may still be inside the step
struct ParamsC {
  int src;    // outer source: 0 value, 1 error
  int mode;   // 0 ThenInline, 1 Then(accepting executor), 2 Then(rejecting executor)
  int fk;     // 0 value->Future, 1 Result->Future
  int thr;    // functor throws
  int inner;  // inner source: 0 value, 1 error, 2 promise dropped
  int fin;    // 0 Get&&, 1 drop the future, 2 Detach()
};

void RunUnwrap(const ParamsC& p) {
  gFn.Reset();
  gVal.Reset();
  vrt::g.trace_unknown = false;
  CountingInline alive{true};
  CountingInline stopped{false};
  std::memset(gTable, 0, sizeof(gTable));
  gLiveBlocks = 0;
  gInExecution = true;
  {
    auto [f, pr] = [] {
      Count cnt;
      return yaclib::MakeContract<Val, Err>();
    }();
    auto [fi, pi] = [] {
      Count cnt;
      return yaclib::MakeContract<Val, Err>();
    }();
    yaclib_std::thread tp([&, pr = std::move(pr)]() mutable {
      vrt::NameThread("P");
      Count cnt;
      if (p.src == 0) {
        std::move(pr).Set(Val{1});
      } else {
        std::move(pr).Set(Err{5});
      }
    });
    yaclib_std::thread tq([&, pi = std::move(pi)]() mutable {
      vrt::NameThread("Q");
      Count cnt;
      switch (p.inner) {
        case 0:
          std::move(pi).Set(Val{10});
          break;
        case 1:
          std::move(pi).Set(Err{6});
          break;
        default: {
          auto q = std::move(pi);
        }
      }
    });
    yaclib_std::thread tc([&, f = std::move(f), fi = std::move(fi)]() mutable {
      vrt::NameThread("C");
      const Kind k = p.thr ? Kind::Throws : (p.fk == 0 ? Kind::TakesValue : Kind::TakesResult);
      auto& ex = p.mode == 1 ? alive : stopped;
      auto finish = [&](auto f2) {
        Count cnt;
        switch (p.fin) {
          case 0: {
            R r = std::move(f2).Get();
            (void)r;
            break;
          }
          case 1: {
            auto g = std::move(f2);
            break;
          }
          default:
            std::move(f2).Detach();
            break;
        }
      };
      Count cnt;
      if (p.fk == 0) {
        p.mode == 0 ? finish(std::move(f).ThenInline(FnValueUP{1, k, std::move(fi)}))
                    : finish(std::move(f).Then(ex, FnValueUP{1, k, std::move(fi)}).On(nullptr));
      } else {
        p.mode == 0 ? finish(std::move(f).ThenInline(FnResultUP{1, k, std::move(fi)}))
                    : finish(std::move(f).Then(ex, FnResultUP{1, k, std::move(fi)}).On(nullptr));
      }
    });
    tp.join();
    tq.join();
    tc.join();
  }
  gInExecution = false;
  for (auto& e : gFn.errors) {
    vrt::Fail("functor: " + e);
  }
  for (auto& e : gVal.errors) {
    vrt::Fail("value: " + e);
  }
  for (void* q : gQuarantine) {
    std::free(q);
  }
  gQuarantine.clear();
  gFreed.clear();
  if (!gFn.live.empty()) {
    vrt::Fail(std::to_string(gFn.live.size()) + " functor instance(s) never destroyed");
  }
  if (!gVal.live.empty()) {
    vrt::Fail(std::to_string(gVal.live.size()) + " value instance(s) never destroyed");
  }
  if (gLiveBlocks != 0) {
    vrt::Fail("allocation balance at quiescence is " + std::to_string(gLiveBlocks) + " blocks");
  }
}

// ---- family D: lazy Tasks (nothing runs until started): a ready head (MakeTask), a Schedule head on an accepting or a
// rejecting executor, optionally one step, and every way to start or abandon the chain.  Sequential (one fiber): the
// subject is that every stored value, functor and core is released exactly once on each path.
struct ParamsD {
  int head;  // 0 MakeTask(value), 1 Schedule(accepting executor, f), 2 Schedule(rejecting executor, f), 3 Schedule(f throws)
  int step;  // 0 none, 1 ThenInline(value f), 2 Then(rejecting executor, value f), 3 ThenInline(Result f), 4 ThenInline(f throws)
  int end;   // 0 Get, 1 destroyed unstarted, 2 Cancel, 3 ToFuture(rejecting executor).Get, 4 Detach, 5 Detach(rejecting executor)
};

template <typename T>
void EndTask(const ParamsD& p, T t, CountingInline& stopped) {
  Count cnt;
  switch (p.end) {
    case 0: {
      R r = std::move(t).Get();
      (void)r;
      break;
    }
    case 1: {
      auto t2 = std::move(t);
      break;
    }
    case 2:
      std::move(t).Cancel();
      break;
    case 3: {
      R r = std::move(t).ToFuture(stopped).Get();
      (void)r;
      break;
    }
    case 4:
      std::move(t).Detach();
      break;
    default:
      std::move(t).Detach(stopped);
      break;
  }
}

template <typename T>
void StepTask(const ParamsD& p, T t, CountingInline& stopped) {
  switch (p.step) {
    case 0:
      EndTask(p, std::move(t), stopped);
      break;
    case 1:
      EndTask(p, [&] { Count cnt; return std::move(t).ThenInline(FnValue{2, Kind::TakesValue}); }(), stopped);
      break;
    case 2:
      EndTask(p, [&] { Count cnt; return std::move(t).Then(stopped, FnValue{2, Kind::TakesValue}); }(), stopped);
      break;
    case 3:
      EndTask(p, [&] { Count cnt; return std::move(t).ThenInline(FnResult{2, Kind::TakesResult}); }(), stopped);
      break;
    default:
      EndTask(p, [&] { Count cnt; return std::move(t).ThenInline(FnValue{2, Kind::Throws}); }(), stopped);
      break;
  }
}

void RunTask(const ParamsD& p) {
  gFn.Reset();
  gVal.Reset();
  vrt::g.trace_unknown = false;
  CountingInline alive{true};
  CountingInline stopped{false};
  std::memset(gTable, 0, sizeof(gTable));
  gLiveBlocks = 0;
  gInExecution = true;
  {
    switch (p.head) {
      case 0:
        StepTask(p, [] { Count cnt; return yaclib::MakeTask<Val, Err>(Val{1}); }(), stopped);
        break;
      case 1:
        StepTask(p, [&] { Count cnt; return yaclib::Schedule<Err>(alive, FnHead{1, Kind::TakesValue}); }(), stopped);
        break;
      case 2:
        StepTask(p, [&] { Count cnt; return yaclib::Schedule<Err>(stopped, FnHead{1, Kind::TakesValue}); }(), stopped);
        break;
      default:
        StepTask(p, [&] { Count cnt; return yaclib::Schedule<Err>(alive, FnHead{1, Kind::Throws}); }(), stopped);
        break;
    }
  }
  gInExecution = false;
  for (auto& e : gFn.errors) {
    vrt::Fail("functor: " + e);
  }
  for (auto& e : gVal.errors) {
    vrt::Fail("value: " + e);
  }
  for (void* q : gQuarantine) {
    std::free(q);
  }
  gQuarantine.clear();
  gFreed.clear();
  if (!gFn.live.empty()) {
    vrt::Fail(std::to_string(gFn.live.size()) + " functor instance(s) never destroyed");
  }
  if (!gVal.live.empty()) {
    vrt::Fail(std::to_string(gVal.live.size()) + " value instance(s) never destroyed");
  }
  if (gLiveBlocks != 0) {
    vrt::Fail("allocation balance at quiescence is " + std::to_string(gLiveBlocks) + " blocks");
  }
}

// ---- family E: Connect(future, promise / shared promise) with the source already fulfilled at the call (the result is
// handed over on the spot and the source state must be released by Connect itself) or still pending (handed over by the
// producer's completion); the consumer reads the target
struct ParamsE {
  int src;    // 0 value, 1 error, 2 promise dropped
  int ready;  // 1: the source is fulfilled before Connect, 0: a producer fiber fulfils it concurrently
  int tgt;    // 0 Promise, 1 SharedPromise
};

void RunConnect(const ParamsE& p) {
  gFn.Reset();
  gVal.Reset();
  vrt::g.trace_unknown = false;
  std::memset(gTable, 0, sizeof(gTable));
  gLiveBlocks = 0;
  gInExecution = true;
  {
    auto [f, pr] = [] {
      Count cnt;
      return yaclib::MakeContract<Val, Err>();
    }();
    auto fulfil = [&p](yaclib::Promise<Val, Err> q) {
      Count cnt;
      switch (p.src) {
        case 0:
          std::move(q).Set(Val{1});
          break;
        case 1:
          std::move(q).Set(Err{5});
          break;
        default: {
          auto d = std::move(q);
        }
      }
    };
    auto connect_and_read = [&p](yaclib::Future<Val, Err> src) {
      Count cnt;
      if (p.tgt == 0) {
        auto [f2, p2] = yaclib::MakeContract<Val, Err>();
        yaclib::Connect(std::move(src), std::move(p2));
        R r = std::move(f2).Get();
        (void)r;
      } else {
        auto [sf2, sp2] = yaclib::MakeSharedContract<Val, Err>();
        yaclib::Connect(std::move(src), std::move(sp2));
        const R& r = sf2.Get();
        (void)r;
      }
    };
    if (p.ready) {
      fulfil(std::move(pr));
      connect_and_read(std::move(f));
    } else {
      yaclib_std::thread tp([&, pr = std::move(pr)]() mutable {
        vrt::NameThread("P");
        fulfil(std::move(pr));
      });
      yaclib_std::thread tc([&, f = std::move(f)]() mutable {
        vrt::NameThread("C");
        connect_and_read(std::move(f));
      });
      tp.join();
      tc.join();
    }
  }
  gInExecution = false;
  for (auto& e : gFn.errors) {
    vrt::Fail("functor: " + e);
  }
  for (auto& e : gVal.errors) {
    vrt::Fail("value: " + e);
  }
  for (void* q : gQuarantine) {
    std::free(q);
  }
  gQuarantine.clear();
  gFreed.clear();
  if (!gVal.live.empty()) {
    vrt::Fail(std::to_string(gVal.live.size()) + " value instance(s) never destroyed");
  }
  if (gLiveBlocks != 0) {
    vrt::Fail("allocation balance at quiescence is " + std::to_string(gLiveBlocks) + " blocks");
  }
}

}  // namespace

void* operator new(std::size_t n) {
  void* p = std::malloc(n ? n : 1);
  if (p == nullptr) {
    throw std::bad_alloc{};
  }
  if (Flag()) {
    TableInsert(p);
  }
  return p;
}
static void Release(void* p) noexcept {
  if (p == nullptr) {
    return;
  }
  TableErase(p);
  if (gInExecution && gQuarantine.size() < gQuarantine.capacity() && gFreed.size() < gFreed.capacity()) {
    const std::size_t n = malloc_usable_size(p);
    gFreed.emplace_back(reinterpret_cast<std::uintptr_t>(p), reinterpret_cast<std::uintptr_t>(p) + n);
    std::memset(p, 0xDD, n);
    gQuarantine.push_back(p);
  } else {
    std::free(p);
  }
}
void operator delete(void* p) noexcept {
  Release(p);
}
void operator delete(void* p, std::size_t) noexcept {
  Release(p);
}

int main(int argc, char** argv) {
  vrt::Main m(argc, argv);
  gOrigBefore = yaclib::verif::gHooks.before;
  gOrigAfter = yaclib::verif::gHooks.after;
  yaclib::verif::gHooks.before = HookBefore;
  yaclib::verif::gHooks.after = HookAfter;
  gOrigChoose = yaclib::verif::gHooks.choose;
  gOrigPick = yaclib::verif::gHooks.pick_fiber;
  yaclib::verif::gHooks.choose = HookChoose;
  yaclib::verif::gHooks.pick_fiber = HookPick;
  gQuarantine.reserve(1 << 16);
  gFreed.reserve(1 << 16);
  const int max_len = std::atoi(m.Param("maxlen", "2").c_str());
  {
    // warm-up: lazily initialised library/runtime statics allocate on first use; not part of any pipeline
    Params w{};
    w.len = 1;
    (void)vrt::RunOnce([w] {
      RunScenario(w);
    });
    vrt::g.prefix.clear();
  }
  for (int len = 1; len <= max_len; ++len) {
    int combos = 1;
    for (int i = 0; i < len; ++i) {
      combos *= 9;  // mode x kind per step
    }
    for (int src = 0; src < 4; ++src) {
      for (int fin = 0; fin < 4; ++fin) {
        for (int c = 0; c < combos; ++c) {
          Params p{};
          p.src = src;
          p.len = len;
          p.fin = fin;
          int x = c;
          std::string name = "s" + std::to_string(src) + "/f" + std::to_string(fin) + "/";
          for (int i = 0; i < len; ++i) {
            p.mode[i] = x % 3;
            p.kind[i] = (x / 3) % 3;
            x /= 9;
            name += "m" + std::to_string(p.mode[i]) + "k" + std::to_string(p.kind[i]);
          }
          m.Scenario(name, [p] {
            RunScenario(p);
          });
        }
      }
    }
  }
  for (int src = 0; src < 3; ++src) {
    for (int mode = 0; mode < 3; ++mode) {
      for (int fk = 0; fk < 4; ++fk) {
        for (int thr = 0; thr < 2; ++thr) {
          ParamsB p{src, mode, fk, thr};
          m.Scenario("shared/s" + std::to_string(src) + "m" + std::to_string(mode) + "k" + std::to_string(fk) + "t" +
                       std::to_string(thr),
                     [p] {
                       RunShared(p);
                     });
        }
      }
    }
  }
  for (int src = 0; src < 2; ++src) {
    for (int mode = 0; mode < 3; ++mode) {
      for (int fk = 0; fk < 2; ++fk) {
        for (int thr = 0; thr < 2; ++thr) {
          for (int inner = 0; inner < 3; ++inner) {
            for (int fin = 0; fin < 3; ++fin) {
              ParamsC p{src, mode, fk, thr, inner, fin};
              m.Scenario("unwrap/s" + std::to_string(src) + "m" + std::to_string(mode) + "k" + std::to_string(fk) + "t" +
                           std::to_string(thr) + "i" + std::to_string(inner) + "f" + std::to_string(fin),
                         [p] {
                           RunUnwrap(p);
                         });
            }
          }
        }
      }
    }
  }
  for (int src = 0; src < 3; ++src) {
    for (int ready = 0; ready < 2; ++ready) {
      for (int tgt = 0; tgt < 2; ++tgt) {
        ParamsE p{src, ready, tgt};
        m.Scenario("connect/s" + std::to_string(src) + "r" + std::to_string(ready) + "t" + std::to_string(tgt), [p] {
          RunConnect(p);
        });
      }
    }
  }
  for (int head = 0; head < 4; ++head) {
    for (int step = 0; step < 5; ++step) {
      for (int end = 0; end < 6; ++end) {
        ParamsD p{head, step, end};
        m.Scenario("task/h" + std::to_string(head) + "s" + std::to_string(step) + "e" + std::to_string(end), [p] {
          RunTask(p);
        });
      }
    }
  }
  return m.Finish();
}
