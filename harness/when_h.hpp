// Shared by h_c09.cpp (WhenAll / Join) and h_c10.cpp (WhenAny): builds the inputs, runs n producers against a
// builder that calls the combinator through the PUBLIC entry points, names the interesting atomic words, and
// evaluates an oracle written from the property text only.
//
// Include from exactly one translation unit (it replaces the global operator new/delete to learn the address of
// the combinator and of the output state at the moment they are allocated, and to count how many times each
// shared state is freed).
#pragma once

#include "vrt_all.hpp"

#include "vrt_main.hpp"

#include <new>

namespace wh {

// ------------------------------------------------------------------------------------------------ allocations
struct Block {
  char* base = nullptr;
  std::size_t size = 0;
  bool live = false;
  int frees = 0;
  const char* watched = nullptr;  // name, if the oracle follows this block
  int index = -1;
};

inline Block g_blocks[512];
inline int g_nblocks = 0;
inline bool g_rec = false;
inline bool g_in_hook = false;
inline bool g_in_call = false;
inline int g_call_allocs = 0;
inline void (*g_on_alloc)(void* ctx, void* p, std::size_t size) = nullptr;
inline void* g_on_alloc_ctx = nullptr;

inline void RecordAlloc(void* p, std::size_t size) {
  Block* slot = nullptr;
  for (int i = 0; i < g_nblocks; ++i) {
    if (!g_blocks[i].live && g_blocks[i].watched == nullptr) {
      slot = &g_blocks[i];
      break;
    }
  }
  if (slot == nullptr && g_nblocks < 512) {
    slot = &g_blocks[g_nblocks++];
  }
  if (slot != nullptr) {
    *slot = Block{static_cast<char*>(p), size, true, 0, nullptr, -1};
  }
  if (g_in_call) {
    ++g_call_allocs;
    if (g_on_alloc != nullptr) {
      g_in_hook = true;
      g_on_alloc(g_on_alloc_ctx, p, size);
      g_in_hook = false;
    }
  }
}

// a freed block may be handed out again: the names given to words inside it must not survive it
inline void ForgetNames(const Block& b) {
  g_in_hook = true;
  for (auto it = vrt::g.locs.begin(); it != vrt::g.locs.end();) {
    auto* q = static_cast<const char*>(const_cast<const void*>(it->first));
    if (b.base <= q && q < b.base + b.size) {
      it = vrt::g.locs.erase(it);
    } else {
      ++it;
    }
  }
  g_in_hook = false;
}

inline void RecordFree(void* p) {
  Block* dead = nullptr;
  for (int i = 0; i < g_nblocks; ++i) {
    if (g_blocks[i].base == p) {
      if (g_blocks[i].live) {
        g_blocks[i].live = false;
        ++g_blocks[i].frees;
        if (g_blocks[i].watched != nullptr) {
          ForgetNames(g_blocks[i]);
        }
        return;
      }
      if (g_blocks[i].watched != nullptr) {
        dead = &g_blocks[i];
      }
    }
  }
  if (dead != nullptr) {
    ++dead->frees;  // freed again without having been allocated again
  }
}

inline Block* Watch(const void* inside, const char* name, int index) {
  auto* q = static_cast<const char*>(inside);
  for (int i = 0; i < g_nblocks; ++i) {
    auto& b = g_blocks[i];
    if (b.live && b.base <= q && q < b.base + b.size) {
      b.watched = name;
      b.index = index;
      return &b;
    }
  }
  return nullptr;
}

}  // namespace wh

void* operator new(std::size_t size) {
  void* p = std::malloc(size == 0 ? 1 : size);
  if (p == nullptr) {
    throw std::bad_alloc{};
  }
  if (wh::g_rec && !wh::g_in_hook) {
    wh::RecordAlloc(p, size);
  }
  return p;
}
void* operator new[](std::size_t size) {
  return operator new(size);
}
void operator delete(void* p) noexcept {
  if (p != nullptr && wh::g_rec && !wh::g_in_hook) {
    wh::RecordFree(p);
  }
  std::free(p);
}
void operator delete(void* p, std::size_t) noexcept {
  operator delete(p);
}
void operator delete[](void* p) noexcept {
  operator delete(p);
}
void operator delete[](void* p, std::size_t) noexcept {
  operator delete(p);
}

namespace wh {

// ------------------------------------------------------------------------------------------------ value types
struct Err {
  int code = -1;
  Err(yaclib::StopTag) noexcept : code{999} {
  }
  explicit Err(int c) noexcept : code{c} {
  }
  static const char* What() noexcept {
    return "Err";
  }
};

inline long g_live_vals = 0;
inline long g_bad_vals = 0;

// Instrumented value: counts live instances and notices destruction/use of a dead or never constructed object.
template <int K>
struct ValT {
  static constexpr unsigned kAlive = 0xA11CE000U + K;
  static constexpr unsigned kDead = 0xDEAD0000U;
  long a = 0;
  unsigned magic = kAlive;

  ValT() noexcept {
    ++g_live_vals;
  }
  explicit ValT(long x) noexcept : a{x} {
    ++g_live_vals;
  }
  ValT(const ValT& o) noexcept : a{o.a} {
    o.Check();
    ++g_live_vals;
  }
  // a move is observable: the source is left with kMovedFrom, which every later read of it reports
  static constexpr long kMovedFrom = -7777;
  ValT(ValT&& o) noexcept : a{o.a} {
    o.Check();
    o.a = kMovedFrom;
    ++g_live_vals;
  }
  ValT& operator=(const ValT& o) noexcept {
    Check();
    o.Check();
    a = o.a;
    return *this;
  }
  ValT& operator=(ValT&& o) noexcept {
    Check();
    o.Check();
    if (this != &o) {
      a = o.a;
      o.a = kMovedFrom;
    }
    return *this;
  }
  ~ValT() {
    if (magic != kAlive) {
      ++g_bad_vals;
    } else {
      --g_live_vals;
    }
    magic = kDead;
  }
  void Check() const noexcept {
    if (magic != kAlive) {
      ++g_bad_vals;
    }
  }
};

// codes shared with the model: 1000+v value (void: 1000), 2000+c error, 3000+k exception, 1 unit (Join),
// 9999 garbage, 9998 empty Result
template <int K>
long CodeV(const ValT<K>& v) {
  return v.magic == ValT<K>::kAlive ? 1000 + v.a : 9999;
}
inline long CodeV(const yaclib::Unit&) {
  return 1000;
}
template <typename... Ts>
long CodeV(const std::variant<Ts...>& v) {
  return std::visit(
    [](const auto& x) {
      return CodeV(x);
    },
    v);
}

// error / exception / empty part of any Result
template <typename R>
long FailCode(const R& r) {
  switch (r.State()) {
    case yaclib::ResultState::Error:
      return 2000 + r.Error().code;
    case yaclib::ResultState::Exception:
      try {
        std::rethrow_exception(r.Exception());
      } catch (int k) {
        return 3000 + k;
      } catch (...) {
        return 9999;
      }
    default:
      return 9998;
  }
}

template <typename V>
long CodeR(const yaclib::Result<V, Err>& r) {
  if (r.State() == yaclib::ResultState::Value) {
    return CodeV(r.Value());
  }
  return FailCode(r);
}

template <typename T>
struct IsResult : std::false_type {};
template <typename V, typename E>
struct IsResult<yaclib::Result<V, E>> : std::true_type {};

template <typename T>
long CodeAny(const T& x) {
  if constexpr (IsResult<T>::value) {
    return CodeR(x);
  } else {
    return CodeV(x);
  }
}

template <typename T>
struct IsVector : std::false_type {};
template <typename T>
struct IsVector<std::vector<T>> : std::true_type {};
template <typename T>
struct IsTuple : std::false_type {};
template <typename... Ts>
struct IsTuple<std::tuple<Ts...>> : std::true_type {};

// the output as a list of codes: [failure] | [1] (Join) | [v] (WhenAny) | [c0..cn-1] (WhenAll)
template <typename Out>
std::vector<long> Encode(const yaclib::Result<Out, Err>& r, bool any) {
  std::vector<long> codes;
  if (r.State() != yaclib::ResultState::Value) {
    codes.push_back(FailCode(r));
    return codes;
  }
  if constexpr (std::is_void_v<Out>) {
    codes.push_back(any ? 1000 : 1);  // WhenAny over void inputs: the (void) value of the winner; Join: plain success
  } else if constexpr (IsVector<Out>::value) {
    for (auto& x : r.Value()) {
      codes.push_back(CodeAny(x));
    }
  } else if constexpr (IsTuple<Out>::value) {
    std::apply(
      [&](const auto&... xs) {
        (codes.push_back(CodeAny(xs)), ...);
      },
      r.Value());
  } else {
    codes.push_back(CodeV(r.Value()));
  }
  return codes;
}

inline std::string FmtWord(std::uint64_t v) {
  if (v == 0) {
    return "E";
  }
  if (v == std::numeric_limits<std::uintptr_t>::max()) {
    return "R";
  }
  return "C";
}
inline std::string FmtDec(std::uint64_t v) {
  return std::to_string(v);
}
inline std::string FmtDec32(std::uint64_t v) {
  return std::to_string(v & 0xFFFFFFFFULL);
}

// ------------------------------------------------------------------------------------------------ configuration
enum Kind { kAllFF, kAllNone, kJoinNone, kJoinFF, kAnyLF, kAnyFF, kAnyNone };
enum Form { kVec, kVar };
enum Inputs { kU, kS, kM };  // Future / SharedFuture / mixed (odd positions shared)

inline const char* KindName(Kind k) {
  static const char* names[] = {"allff", "allnone", "join", "joinff", "anylf", "anyff", "anynone"};
  return names[k];
}
inline bool IsAny(Kind k) {
  return k == kAnyLF || k == kAnyFF || k == kAnyNone;
}

template <Kind K>
struct KindTraits;
template <>
struct KindTraits<kAllFF> {
  static constexpr yaclib::FailPolicy kPolicy = yaclib::FailPolicy::FirstFail;
};
template <>
struct KindTraits<kAllNone> {
  static constexpr yaclib::FailPolicy kPolicy = yaclib::FailPolicy::None;
};
template <>
struct KindTraits<kJoinNone> {
  static constexpr yaclib::FailPolicy kPolicy = yaclib::FailPolicy::None;
};
template <>
struct KindTraits<kJoinFF> {
  static constexpr yaclib::FailPolicy kPolicy = yaclib::FailPolicy::FirstFail;
};
template <>
struct KindTraits<kAnyLF> {
  static constexpr yaclib::FailPolicy kPolicy = yaclib::FailPolicy::LastFail;
};
template <>
struct KindTraits<kAnyFF> {
  static constexpr yaclib::FailPolicy kPolicy = yaclib::FailPolicy::FirstFail;
};
template <>
struct KindTraits<kAnyNone> {
  static constexpr yaclib::FailPolicy kPolicy = yaclib::FailPolicy::None;
};

template <Kind K, Form F, Inputs In, bool Void, bool Het, std::size_t N>
struct Cfg {
  static constexpr Kind kKind = K;
  static constexpr Form kForm = F;
  static constexpr Inputs kInputs = In;
  static constexpr bool kVoid = Void;
  static constexpr bool kHet = Het;
  static constexpr std::size_t kN = N;
  static constexpr yaclib::FailPolicy kPolicy = KindTraits<K>::kPolicy;

  template <std::size_t I>
  static constexpr bool kShared = In == kS || (In == kM && I % 2 == 1);
  template <std::size_t I>
  using V = std::conditional_t<Void, void, ValT<Het ? static_cast<int>(I) : 0>>;
  template <std::size_t I>
  using Fut = std::conditional_t<kShared<I>, yaclib::SharedFuture<V<I>, Err>, yaclib::Future<V<I>, Err>>;
  template <std::size_t I>
  using Prom = std::conditional_t<kShared<I>, yaclib::SharedPromise<V<I>, Err>, yaclib::Promise<V<I>, Err>>;
  template <std::size_t I>
  using CoreHelper =
    std::conditional_t<kShared<I>, yaclib::detail::Helper<yaclib::detail::AtomicCounter, yaclib::detail::SharedCore<V<I>, Err>>,
                       yaclib::detail::Helper<yaclib::detail::OneCounter, yaclib::detail::UniqueCore<V<I>, Err>>>;

  static std::string Name() {
    std::string s = KindName(K);
    s += "/";
    s += F == kVec ? "vec" : "var";
    s += In == kU ? "U" : In == kS ? "S" : "M";
    s += Void ? "void" : Het ? "het" : "val";
    s += "/" + std::to_string(N);
    return s;
  }
};

// the public call
template <typename C, typename... Fs>
auto CallVar(Fs&&... fs) {
  constexpr auto P = C::kPolicy;
  if constexpr (C::kKind == kAllFF || C::kKind == kAllNone) {
    return yaclib::WhenAll<P>(std::move(fs)...);
  } else if constexpr (C::kKind == kJoinNone || C::kKind == kJoinFF) {
    return yaclib::Join<P>(std::move(fs)...);
  } else {
    return yaclib::WhenAny<P>(std::move(fs)...);
  }
}
template <typename C, typename It>
auto CallVec(It begin, std::size_t count) {
  constexpr auto P = C::kPolicy;
  if constexpr (C::kKind == kAllFF || C::kKind == kAllNone) {
    return yaclib::WhenAll<P>(begin, count);
  } else if constexpr (C::kKind == kJoinNone || C::kKind == kJoinFF) {
    return yaclib::Join<P>(begin, count);
  } else {
    return yaclib::WhenAny<P>(begin, count);
  }
}

template <typename T>
struct FutureArgs;
template <typename V, typename E>
struct FutureArgs<yaclib::Future<V, E>> {
  using Value = V;
  using Error = E;
};

// The type of the combinator object the call is going to allocate (mirrors the selection made by
// when::When / WhenAll / WhenAny / Join; used only to know where `count`, `_done`, `_state` live inside the
// block so that they can be named before the first operation on them).  A wrong guess is detected: no block of
// that size is allocated during the call and the harness reports it.
template <typename C, typename OutV, typename... Cores>
struct CombinatorOf {
  using Head = yaclib::head_t<Cores...>;
  using Value = typename Head::Value;
  using Error = typename Head::Error;
  static constexpr bool kSameCore = (... && std::is_same_v<Head, Cores>);
  static constexpr bool kSameVE =
    (... && (std::is_same_v<Value, typename Cores::Value> && std::is_same_v<Error, typename Cores::Error>));
  using InputCore = std::conditional_t<
    C::kForm == kVec, Head,
    std::conditional_t<kSameCore, Head,
                       std::conditional_t<kSameVE, yaclib::detail::ResultCore<Value, Error>, yaclib::detail::InlineCore>>>;
  static constexpr bool kSameValue = (... && std::is_same_v<Value, typename Cores::Value>);
  static constexpr auto P = C::kPolicy;

  template <bool Dummy = true>
  static auto Pick() {
    if constexpr (C::kKind == kAllFF || C::kKind == kAllNone) {
      if constexpr (kSameValue) {
        if constexpr (std::is_void_v<Value> && P != yaclib::FailPolicy::None) {
          return static_cast<yaclib::when::Join<P, void, Err, InputCore>*>(nullptr);
        } else {
          return static_cast<yaclib::when::All<P, OutV, Err, InputCore>*>(nullptr);
        }
      } else {
        return static_cast<yaclib::when::AllTuple<P, OutV, Err, InputCore>*>(nullptr);
      }
    } else if constexpr (C::kKind == kJoinNone || C::kKind == kJoinFF) {
      return static_cast<yaclib::when::Join<P, void, Err, InputCore>*>(nullptr);
    } else {
      return static_cast<yaclib::when::Any<P, OutV, Err, InputCore>*>(nullptr);
    }
  }
  using S = std::remove_pointer_t<decltype(Pick())>;
  static constexpr bool kOrdered = yaclib::when::kIsOrdered<S::kConsumePolicy>;
  using Final = std::conditional_t<
    C::kForm == kVec,
    std::conditional_t<!kOrdered && yaclib::when::IsUniqueCore<Head>::Value, yaclib::when::SingleCombinator<S, Head>,
                       yaclib::when::DynamicCombinator<S, Head>>,
    std::conditional_t<yaclib::when::CoreSignature<Cores...>::kTotalCount == 1 && !kOrdered,
                       yaclib::when::SingleCombinator<S, Head>, yaclib::when::StaticCombinator<S, Cores...>>>;
  using Helper = yaclib::detail::Helper<yaclib::detail::AtomicCounter, Final>;
};

struct Clock {
  long now = 0;
  long s[8] = {};  // Set called on input i
  long c[8] = {};  // Set returned
  long call_start = 0, call_end = 0, attach_done = 0;
};

struct Obs {
  int out_count = 0;
  long out_seq = 0;
  std::vector<long> codes;
  bool invalid = false;
  bool comb_named = false;
  bool out_named = false;
};

inline long Expected(char pc, std::size_t i, bool is_void) {
  switch (pc) {
    case 'v':
      return is_void ? 1000 : 1100 + static_cast<long>(i);
    case 'e':
      return 2010 + static_cast<long>(i);
    default:
      return 3020 + static_cast<long>(i);
  }
}

template <typename C, std::size_t I>
void Complete(char pc, typename C::template Prom<I> p, Clock& ck) {
  ck.s[I] = ++ck.now;
  vrt::Event("c" + std::to_string(I) + " " + std::to_string(Expected(pc, I, C::kVoid)));
  switch (pc) {
    case 'v':
      if constexpr (C::kVoid) {
        std::move(p).Set();
      } else {
        std::move(p).Set(typename C::template V<I>{100 + static_cast<long>(I)});
      }
      break;
    case 'e':
      std::move(p).Set(Err{10 + static_cast<int>(I)});
      break;
    default:
      std::move(p).Set(std::make_exception_ptr(20 + static_cast<int>(I)));
      break;
  }
  ck.c[I] = ++ck.now;
  // Set returned.  (With --yield-at after/both other fibers' operations can lie between Set's last operation and this
  // marker; the trace mapping only uses it to delimit THIS fiber's operations inside the Set call.)
  vrt::Event("r" + std::to_string(I));
}

template <typename C, typename OutV, typename... Cores>
struct AllocNamer {
  using Comb = CombinatorOf<C, OutV, Cores...>;
  using CombHelper = typename Comb::Helper;
  using OutHelper = yaclib::detail::Helper<yaclib::detail::OneCounter, yaclib::detail::UniqueCore<OutV, Err>>;
  Obs* obs;
  std::string tag = "";  // suffix of the names given to the words (scenarios with two combinators: "1", "2")

  static void OnAlloc(void* ctx, void* p, std::size_t size) {
    auto* self = static_cast<AllocNamer*>(ctx);
    const std::string& tag = self->tag;
    if (!self->obs->out_named && size == sizeof(OutHelper)) {
      auto* h = static_cast<OutHelper*>(p);
      vrt::NameLoc(&h->_callback, "o" + tag, FmtWord);
      Watch(p, "output state", -1);
      self->obs->out_named = true;
      return;
    }
    if (self->obs->out_named && !self->obs->comb_named && size == sizeof(CombHelper)) {
      auto* h = static_cast<CombHelper*>(p);
      vrt::NameLoc(&h->count, "count" + tag, FmtDec);
      if constexpr (requires { h->st._done; }) {
        vrt::NameLoc(&h->st._done, "d" + tag, FmtDec);
      }
      if constexpr (requires { h->st._state; }) {
        if constexpr (sizeof(h->st._state) == 4) {
          vrt::NameLoc(&h->st._state, "s" + tag, FmtDec32);
        } else {
          vrt::NameLoc(&h->st._state, "s" + tag, FmtDec);
        }
      }
      Watch(p, "combinator", -1);
      self->obs->comb_named = true;
    }
  }
};

// ------------------------------------------------------------------------------------------------ oracle
struct Verdict {
  std::string why;  // empty: fine
};

// `pat` : one of v/e/x per input.  Everything here is derived from the property text.
template <typename C>
void Oracle(const std::string& pat, const Clock& ck, const Obs& obs) {
  constexpr std::size_t N = C::kN;
  constexpr Kind K = C::kKind;
  if constexpr (N == 0) {
    if (!obs.invalid) {
      vrt::Fail("an empty input set did not yield an invalid future");
    }
    return;
  }
  if (obs.invalid) {
    vrt::Fail("the combinator returned an invalid future for a non-empty input set");
    return;
  }
  if (obs.out_count != 1) {
    vrt::Fail("output set " + std::to_string(obs.out_count) + " times");
    return;
  }
  auto fails = [&](std::size_t i) {
    return pat[i] != 'v';
  };
  auto exp = [&](std::size_t i) {
    return Expected(pat[i], i, C::kVoid);
  };
  // the interval in which the combinator can have observed input i's completion
  auto lo = [&](std::size_t i) {
    return std::max(ck.s[i], ck.call_start);
  };
  auto hi = [&](std::size_t i) {
    return std::max(ck.c[i], ck.call_end);
  };
  bool any_fail = false, any_value = false;
  for (std::size_t i = 0; i < N; ++i) {
    (fails(i) ? any_fail : any_value) = true;
  }
  auto after_all_began = [&]() -> std::string {
    for (std::size_t i = 0; i < N; ++i) {
      if (obs.out_seq < ck.s[i]) {
        return "output ready before input " + std::to_string(i) + " completed";
      }
    }
    return "";
  };
  // the output must have been delivered before any input whose completion started strictly after the winner's
  // completion returned and after the continuation was attached
  auto no_wait_for_later = [&](std::size_t w) -> std::string {
    long bound = std::max(hi(w), ck.attach_done);
    for (std::size_t k = 0; k < N; ++k) {
      if (k != w && ck.s[k] > bound && obs.out_seq > ck.s[k]) {
        return "output decided by input " + std::to_string(w) + " was still not set when input " + std::to_string(k) +
               " completed later";
      }
    }
    return "";
  };
  enum Want { kFirst, kLast };
  // is w an admissible first / last among the inputs selected by `sel`?
  auto admissible = [&](std::size_t w, Want want, auto sel) -> std::string {
    for (std::size_t j = 0; j < N; ++j) {
      if (j == w || !sel(j)) {
        continue;
      }
      if (want == kFirst && hi(j) < lo(w)) {
        return "carries the outcome of input " + std::to_string(w) + " although input " + std::to_string(j) +
               " completed before it";
      }
      if (want == kLast && lo(j) > hi(w)) {
        return "carries the outcome of input " + std::to_string(w) + " although input " + std::to_string(j) +
               " completed after it";
      }
    }
    return "";
  };
  auto single = [&](auto check) {
    // the output is one code; some input with that outcome must pass `check`
    if (obs.codes.size() != 1) {
      vrt::Fail("output has " + std::to_string(obs.codes.size()) + " elements, one outcome expected");
      return;
    }
    std::string first_why = "output " + std::to_string(obs.codes[0]) + " is not the outcome of any input";
    bool found = false;
    for (std::size_t w = 0; w < N; ++w) {
      if (exp(w) != obs.codes[0]) {
        continue;
      }
      std::string why = check(w);
      if (why.empty()) {
        return;
      }
      if (!found) {
        first_why = why;
        found = true;
      }
    }
    vrt::Fail(first_why);
  };
  auto all_values = [&]() {
    if (K == kJoinNone || K == kJoinFF || (K == kAllFF && C::kVoid)) {
      if (obs.codes != std::vector<long>{1}) {
        vrt::Fail("Join output is not a plain success");
      }
      return;
    }
    if (obs.codes.size() != N) {
      vrt::Fail("output has " + std::to_string(obs.codes.size()) + " elements for " + std::to_string(N) + " inputs");
      return;
    }
    for (std::size_t i = 0; i < N; ++i) {
      if (obs.codes[i] != exp(i)) {
        vrt::Fail("output[" + std::to_string(i) + "] = " + std::to_string(obs.codes[i]) + " but input " +
                  std::to_string(i) + " completed with " + std::to_string(exp(i)));
        return;
      }
    }
  };
  if constexpr (K == kAllNone || K == kJoinNone) {
    all_values();
    if (auto why = after_all_began(); !why.empty()) {
      vrt::Fail(why);
    }
  } else if constexpr (K == kAllFF || K == kJoinFF) {
    if (!any_fail) {
      all_values();
      if (auto why = after_all_began(); !why.empty()) {
        vrt::Fail(why);
      }
    } else {
      single([&](std::size_t w) -> std::string {
        if (!fails(w)) {
          return "output is a value although an input failed";
        }
        if (auto why = admissible(w, kFirst, fails); !why.empty()) {
          return why;
        }
        return no_wait_for_later(w);
      });
    }
  } else if constexpr (K == kAnyLF) {
    if (any_value) {
      single([&](std::size_t w) -> std::string {
        if (fails(w)) {
          return "output is a failure although an input produced a value";
        }
        if (auto why = admissible(w, kFirst, [&](std::size_t j) { return !fails(j); }); !why.empty()) {
          return why;
        }
        return no_wait_for_later(w);
      });
    } else {
      single([&](std::size_t w) -> std::string {
        if (auto why = admissible(w, kLast, fails); !why.empty()) {
          return why;
        }
        return after_all_began();
      });
    }
  } else if constexpr (K == kAnyFF) {
    if (any_value) {
      single([&](std::size_t w) -> std::string {
        if (fails(w)) {
          return "output is a failure although an input produced a value";
        }
        if (auto why = admissible(w, kFirst, [&](std::size_t j) { return !fails(j); }); !why.empty()) {
          return why;
        }
        return no_wait_for_later(w);
      });
    } else {
      single([&](std::size_t w) -> std::string {
        return admissible(w, kFirst, fails);
      });
    }
  } else {
    single([&](std::size_t w) -> std::string {
      if (auto why = admissible(w, kFirst, [](std::size_t) { return true; }); !why.empty()) {
        return why;
      }
      return no_wait_for_later(w);
    });
  }
}

inline void OracleReleased() {
  for (int i = 0; i < g_nblocks; ++i) {
    auto& b = g_blocks[i];
    if (b.watched == nullptr) {
      continue;
    }
    if (b.frees != 1) {
      std::string what = b.watched;
      if (b.index >= 0) {
        what += " " + std::to_string(b.index);
      }
      vrt::Fail(what + " released " + std::to_string(b.frees) + " times");
    }
  }
  if (g_live_vals != 0) {
    vrt::Fail(std::to_string(g_live_vals) + " value objects were never destroyed");
  }
  if (g_bad_vals != 0) {
    vrt::Fail("a value object was destroyed twice or used after destruction");
  }
}

// Executions are deduplicated by their trace.  Operations of the consumer of the OUTPUT future (the builder
// attaching the oracle's continuation, the destruction of the output state) are C01's subject and would only
// multiply the traces: they are removed, and what the continuation saw is appended as one final observation.
inline void FinishTrace(const Obs& obs) {
  std::string out;
  const std::string& t = vrt::g.trace;
  std::size_t pos = 0;
  while (pos < t.size()) {
    std::size_t end = t.find(';', pos);
    if (end == std::string::npos) {
      end = t.size();
    }
    std::string tok = t.substr(pos, end - pos);
    pos = end + 1;
    auto at = tok.find("@o=");
    if (at != std::string::npos && tok.find(":exchange@o=") == std::string::npos) {
      continue;
    }
    out += tok;
    out += ';';
  }
  out += "main:!out";
  out += " " + std::to_string(obs.out_count);
  for (long c : obs.codes) {
    out += " " + std::to_string(c);
  }
  out += ';';
  vrt::g.trace = out;
}

// ------------------------------------------------------------------------------------------------ the scenario
// `order`: empty -> one producer fiber per input (P0..Pn-1) racing with the builder B ("p");
// {-1} -> the builder finishes first, then the n producer fibers race with each other ("pp");
// otherwise a single producer fiber Q completes the inputs in that order while B builds ("q<order>").
template <typename C, std::size_t... Is>
void RunImpl(const std::string& pat, const std::vector<int>& order, std::index_sequence<Is...>) {
  constexpr std::size_t N = C::kN;
  g_nblocks = 0;
  g_live_vals = 0;
  g_bad_vals = 0;
  g_in_call = false;
  g_on_alloc = nullptr;
  vrt::g.trace.reserve(1 << 14);
  g_rec = true;
  Clock ck;
  Obs obs;
  {
    auto contracts = std::make_tuple([] {
      if constexpr (C::template kShared<Is>) {
        return yaclib::MakeSharedContract<typename C::template V<Is>, Err>();
      } else {
        return yaclib::MakeContract<typename C::template V<Is>, Err>();
      }
    }()...);
    // name the callback word (and the reference counter of shared states) of every input
    (..., [&] {
      auto* core = std::get<Is>(contracts).first.GetCore().Get();
      vrt::NameLoc(&core->_callback, "w" + std::to_string(Is), FmtWord);
      if constexpr (C::template kShared<Is>) {
        auto* h = static_cast<typename C::template CoreHelper<Is>*>(core);
        vrt::NameLoc(&h->count, "rc" + std::to_string(Is), FmtDec);
      }
      if (Watch(core, "input", static_cast<int>(Is)) == nullptr) {
        vrt::Fail("harness: input state not found among the allocations");
      }
    }());

    using OutF = decltype(CallVar<C>(std::move(std::get<Is>(contracts).first)...));
    using OutV = typename FutureArgs<OutF>::Value;
    AllocNamer<C, OutV, typename C::template Fut<Is>::Core...> namer{&obs};

    const bool builder_first = order.size() == 1 && order[0] < 0;
    // Arrangements p / pp: a second handle of every SharedFuture input survives the combinator, so the combinator must
    // COPY the value out of the shared state; afterwards the value is read again through that handle (a value that was
    // moved out instead reads as kMovedFrom).  Arrangements q*: no other handle, the last reference may move.
    const bool keep = order.empty() || builder_first;
    auto keepers = std::make_tuple([&] {
      if constexpr (C::template kShared<Is>) {
        return keep ? std::get<Is>(contracts).first : typename C::template Fut<Is>{};
      } else {
        return 0;
      }
    }()...);
    std::vector<yaclib_std::thread> producers;
    auto start_producers = [&] {
      if (order.empty() || builder_first) {
        (..., producers.emplace_back([&, p = std::move(std::get<Is>(contracts).second)]() mutable {
          vrt::NameThread("P" + std::to_string(Is));
          Complete<C, Is>(pat[Is], std::move(p), ck);
        }));
      } else {
        producers.emplace_back([&, ps = std::make_tuple(std::move(std::get<Is>(contracts).second)...)]() mutable {
          vrt::NameThread("Q");
          for (int which : order) {
            (..., (which == static_cast<int>(Is) ? Complete<C, Is>(pat[Is], std::move(std::get<Is>(ps)), ck) : void()));
          }
        });
      }
    };
    if (!builder_first) {
      start_producers();
    }
    yaclib_std::thread builder([&, fs = std::make_tuple(std::move(std::get<Is>(contracts).first)...)]() mutable {
      vrt::NameThread("B");
      ck.call_start = ++ck.now;
      g_on_alloc_ctx = &namer;
      g_on_alloc = &decltype(namer)::OnAlloc;
      g_call_allocs = 0;
      g_in_call = true;
      auto f = [&] {
        if constexpr (C::kForm == kVar) {
          return CallVar<C>(std::move(std::get<Is>(fs))...);
        } else {
          std::vector<typename C::template Fut<0>> v;
          g_in_call = false;
          v.reserve(N);
          (..., v.push_back(std::move(std::get<Is>(fs))));
          g_in_call = true;
          return CallVec<C>(v.begin(), v.size());
        }
      }();
      g_in_call = false;
      g_on_alloc = nullptr;
      ck.call_end = ++ck.now;
      if (!f.Valid()) {
        obs.invalid = true;
      } else {
        std::move(f).DetachInline([&](yaclib::Result<OutV, Err>&& r) {
          ++obs.out_count;
          obs.out_seq = ++ck.now;
          obs.codes = Encode(r, IsAny(C::kKind));
        });
      }
      ck.attach_done = ++ck.now;
    });
    if (builder_first) {
      builder.join();
      start_producers();
    }
    for (auto& t : producers) {
      t.join();
    }
    if (!builder_first) {
      builder.join();
    }
    if constexpr (!C::kVoid) {
      (..., [&] {
        if constexpr (C::template kShared<Is>) {
          auto& k = std::get<Is>(keepers);
          if (k.Valid()) {
            const long code = CodeR(k.Get());
            if (code != Expected(pat[Is], Is, false)) {
              vrt::Fail("shared input " + std::to_string(Is) + " read through a surviving handle after the combinator: " +
                        std::to_string(code) + " instead of " + std::to_string(Expected(pat[Is], Is, false)));
            }
          }
        }
      }());
    }
  }
  g_rec = false;
  if (!obs.comb_named && !(IsAny(C::kKind) && C::kForm == kVec && N == 1 && !C::template kShared<0>)) {
    vrt::Fail("harness: the combinator block was not identified among the allocations of the call");
  }
  Oracle<C>(pat, ck, obs);
  OracleReleased();
  FinishTrace(obs);
}

// empty input set (iterator form only)
template <typename C>
void RunEmpty() {
  g_nblocks = 0;
  Obs obs;
  Clock ck;
  std::vector<typename C::template Fut<0>> v;
  auto f = CallVec<C>(v.begin(), 0);
  obs.invalid = !f.Valid();
  vrt::Event(obs.invalid ? "invalid" : "valid");
  Oracle<C>("", ck, obs);
}

template <typename C>
void Run(const std::string& pat, const std::vector<int>& order) {
  RunImpl<C>(pat, order, std::make_index_sequence<C::kN>{});
}

inline std::vector<std::string> Patterns(std::size_t n) {
  std::vector<std::string> out{""};
  for (std::size_t i = 0; i < n; ++i) {
    std::vector<std::string> next;
    for (auto& p : out) {
      for (char c : {'v', 'e', 'x'}) {
        next.push_back(p + c);
      }
    }
    out = std::move(next);
  }
  return out;
}

inline std::vector<std::vector<int>> Orders(std::size_t n) {
  std::vector<int> p(n);
  for (std::size_t i = 0; i < n; ++i) {
    p[i] = static_cast<int>(i);
  }
  std::vector<std::vector<int>> out;
  do {
    out.push_back(p);
  } while (std::next_permutation(p.begin(), p.end()));
  return out;
}

// registers <cfg>/p/<pattern> (parallel producers racing with the builder), <cfg>/pp/<pattern> (builder first, then
// parallel producers) and <cfg>/q<order>/<pattern> (one producer fiber completing in that order)
template <typename C>
void Register(vrt::Main& m, bool all_orders) {
  if constexpr (C::kN == 0) {
    m.Scenario(C::Name() + "/e/-", [] {
      RunEmpty<C>();
    });
  } else {
    for (auto& pat : Patterns(C::kN)) {
      m.Scenario(C::Name() + "/p/" + pat, [pat] {
        Run<C>(pat, {});
      });
      if (C::kN > 1) {
        m.Scenario(C::Name() + "/pp/" + pat, [pat] {
          Run<C>(pat, {-1});
        });
      }
      auto orders = Orders(C::kN);
      for (std::size_t k = 0; k < orders.size(); ++k) {
        if (!all_orders && k != 0 && k + 1 != orders.size()) {
          continue;
        }
        std::string tag = "q";
        for (int x : orders[k]) {
          tag += std::to_string(x);
        }
        m.Scenario(C::Name() + "/" + tag + "/" + pat, [pat, ord = orders[k]] {
          Run<C>(pat, ord);
        });
      }
    }
  }
}

}  // namespace wh
