// C02 / C12 — program correspondence harness: interprets pipeline programs on the real library.
//
// A program is a typed expression over the YACLib API (source, Then-steps, conversions); C++ static types are closed
// by a generated table of template instantiations (tools/gen_pipeline_table.py): one function per
// (handle type, parameter class, return class, attach mode).  The interpreter below assembles a program at run time
// from that table, runs it to quiescence on instrumented executors, and reports the final Result and every callback
// invocation (id, argument).  An oracle written from the property text only (Oracle below) is compared in-process.
//
// Built in configuration BC (shipped configuration, no fault layer); single thread, plain main.
#pragma once

#include "vrt_all.hpp"

#include <sys/wait.h>

#include <deque>
#include <fstream>
#include <memory>

namespace h {

// ------------------------------------------------------------------------------------------- error / exception types

// Payloads make a wrong move observable: moving a value / error out of an object leaves kMoved behind, copies are exact.
// Whoever later reads the moved-from object (a second reader of a shared state, a Result handed on after it was consumed)
// reports kMoved, which no program of the model can produce.  A moved-from std::exception_ptr is null and reported as
// exception kMoved as well (DescExc).
inline constexpr int kMoved = -7777;

struct Err {
  int code;
  explicit Err(int c) noexcept : code{c} {
  }
  Err(yaclib::StopTag) noexcept : code{-1} {  // StopError <-> code -1
  }
  Err(const Err& o) noexcept : code{o.code} {
  }
  Err(Err&& o) noexcept : code{o.code} {
    o.code = kMoved;
  }
  Err& operator=(const Err& o) noexcept {
    code = o.code;
    return *this;
  }
  Err& operator=(Err&& o) noexcept {
    if (this != &o) {
      code = o.code;
      o.code = kMoved;
    }
    return *this;
  }
  const char* What() const noexcept {
    return "h::Err";
  }
};

// the value type of the "int" worlds
struct Pay {
  int v;
  explicit Pay(int x) noexcept : v{x} {
  }
  Pay(const Pay& o) noexcept : v{o.v} {
  }
  Pay(Pay&& o) noexcept : v{o.v} {
    o.v = kMoved;
  }
  Pay& operator=(const Pay& o) noexcept {
    v = o.v;
    return *this;
  }
  Pay& operator=(Pay&& o) noexcept {
    if (this != &o) {
      v = o.v;
      o.v = kMoved;
    }
    return *this;
  }
};

// Worlds are still named by int / void (programs, table keys, Coq's TInt / TVoid); int stands for Pay
template <class V>
using PayOf = std::conditional_t<std::is_void_v<V>, void, Pay>;

struct Ex {
  int id;
};

template <class V>
using Fut = yaclib::Future<PayOf<V>, Err>;
template <class V>
using FutOn = yaclib::FutureOn<PayOf<V>, Err>;
template <class V>
using Tsk = yaclib::Task<PayOf<V>, Err>;
template <class V>
using Sh = yaclib::SharedFuture<PayOf<V>, Err>;
template <class V>
using ShOn = yaclib::SharedFutureOn<PayOf<V>, Err>;
template <class V>
using Rs = yaclib::Result<PayOf<V>, Err>;

// The worlds.  Index = 2 * kind + (void ? 1 : 0) + 1, kind: 0 Future, 1 FutureOn, 2 Task, 3 SharedFuture, 4 SharedFutureOn
using World = std::variant<std::monostate, Fut<int>, Fut<void>, FutOn<int>, FutOn<void>, Tsk<int>, Tsk<void>, Sh<int>,
                           Sh<void>, ShOn<int>, ShOn<void>>;

enum WKind { kF = 0, kO = 1, kT = 2, kS = 3, kSO = 4 };

template <int WK, class V>
using Handle = std::variant_alternative_t<2 * WK + (std::is_void_v<V> ? 1 : 0) + 1, World>;

// ------------------------------------------------------------------------------------------------------- program AST

struct Res {
  int kind = 0;  // 0 Val int, 1 Val unit, 2 Err, 3 Exc
  int payload = 0;
  bool operator==(const Res& o) const {
    return kind == o.kind && payload == o.payload;
  }
  std::string Str() const {
    static const char* n[] = {"val", "unit", "err", "exc"};
    return std::string{n[kind]} + ":" + std::to_string(payload);
  }
};

struct Exec {
  int kind = 0;  // 0 inline, 1 manual, 2 stopped
  int n = 0;
  bool Stopped() const {
    return kind == 2;
  }
};

// what a callback was invoked with: kind 0 Result, 1 value, 2 error, 3 exception_ptr, 4 nothing, 5 Unit
struct Input {
  int kind = 0;
  Res res;  // for kind 0 the whole Result; for 1 (val), 2 (err), 3 (exc) the payload in res.payload
  bool operator==(const Input& o) const {
    return kind == o.kind && res == o.res;
  }
  std::string Str() const {
    static const char* n[] = {"R", "V", "E", "X", "N", "U"};
    return std::string{n[kind]} + "/" + res.Str();
  }
};

inline int Digest(const Input& in) {
  switch (in.res.kind) {
    case 0:
      return in.res.payload;
    case 1:
      return 0;
    case 2:
      return 100 + in.res.payload;
    default:
      return 200 + in.res.payload;
  }
}

struct Prog;

enum PClass { pR = 0, pV = 1, pE = 2, pX = 3, pN = 4, pU = 5, pA = 6 };
// return classes: value type in the low bit (0 int, 1 void), shape in the rest
enum RClass { rI = 0, rV = 1, rRI = 2, rRV = 3, rFI = 4, rFV = 5, rSI = 6, rSV = 7, rTI = 8, rTV = 9, rOI = 10, rOV = 11 };
enum Mode { mThrow = 0, mRet = 1, mResVal = 2, mResErr = 3, mResExc = 4, mAsync = 5, mShared = 6 };
enum Attach { aInline = 0, aOn = 1, aInherit = 2 };

struct FnSpec {
  int id = 0;
  int par = 0;
  int ret = 0;
  int mode = 0;
  int k = 0;
  std::shared_ptr<Prog> inner;
};

struct Op {
  int kind = 0;  // 0 then, 1 tofuture, 2 onnull
  int attach = 0;
  Exec exec;
  FnSpec fn;
};

struct Src {
  int kind = 0;  // 0 ready, 1 contract, 2 run, 3 prom, 4 coro
  int w = 0;
  int tvoid = 0;
  Exec exec;
  bool late = false;
  Res res;
  FnSpec fn;       // run
  int id = 0;      // prom / coro
  int pb_throw = 0;  // prom: 1 = the function throws Ex{res.payload} instead of setting
};

struct Prog {
  Src src;
  std::vector<Op> ops;
};

// ---------------------------------------------------------------------------------------------------------- parser

struct Parser {
  const char* p;
  explicit Parser(const char* s) : p{s} {
  }
  void Ws() {
    while (*p == ' ' || *p == '\t') {
      ++p;
    }
  }
  bool Peek(char c) {
    Ws();
    return *p == c;
  }
  void Expect(char c) {
    Ws();
    if (*p != c) {
      std::fprintf(stderr, "parse error: expected '%c' at '%.40s'\n", c, p);
      std::exit(3);
    }
    ++p;
  }
  std::string Word() {
    Ws();
    std::string w;
    while (*p != 0 && *p != ' ' && *p != '(' && *p != ')' && *p != '\n') {
      w.push_back(*p++);
    }
    return w;
  }
  int Int() {
    return std::atoi(Word().c_str());
  }
  Exec ParseExec() {
    auto w = Word();
    Exec e;
    if (w == "i") {
      e.kind = 0;
    } else if (w == "s") {
      e.kind = 2;
    } else {
      e.kind = 1;
      e.n = std::atoi(w.c_str() + 1);
    }
    return e;
  }
  Res ParseRes() {
    Expect('(');
    auto w = Word();
    Res r;
    if (w == "val") {
      r.kind = 0;
      r.payload = Int();
    } else if (w == "unit") {
      r.kind = 1;
    } else if (w == "err") {
      r.kind = 2;
      r.payload = Int();
    } else {
      r.kind = 3;
      r.payload = Int();
    }
    Expect(')');
    return r;
  }
  static int WKindOf(const std::string& w) {
    if (w == "F") return kF;
    if (w == "O") return kO;
    if (w == "T") return kT;
    if (w == "S") return kS;
    return kSO;
  }
  static int ParOf(const std::string& w) {
    return static_cast<int>(std::string{"RVEXNUA"}.find(w[0]));
  }
  static int RetOf(const std::string& w) {
    static const char* n[] = {"I", "V", "RI", "RV", "FI", "FV", "SI", "SV", "TI", "TV", "OI", "OV"};
    for (int i = 0; i < 12; ++i) {
      if (w == n[i]) return i;
    }
    std::fprintf(stderr, "bad return class %s\n", w.c_str());
    std::exit(3);
  }
  FnSpec ParseFn() {
    Expect('(');
    auto w = Word();  // "fn"
    FnSpec f;
    f.id = Int();
    f.par = ParOf(Word());
    f.ret = RetOf(Word());
    Expect('(');
    auto m = Word();
    if (m == "throw") {
      f.mode = mThrow;
      f.k = Int();
    } else if (m == "ret") {
      f.mode = mRet;
      f.k = Int();
    } else if (m == "resval") {
      f.mode = mResVal;
      f.k = Int();
    } else if (m == "reserr") {
      f.mode = mResErr;
      f.k = Int();
    } else if (m == "resexc") {
      f.mode = mResExc;
      f.k = Int();
    } else if (m == "shared") {
      f.mode = mShared;
    } else {
      f.mode = mAsync;
      f.inner = std::make_shared<Prog>(ParseProg());
    }
    Expect(')');
    Expect(')');
    return f;
  }
  Prog ParseProg() {
    Prog pr;
    Expect('(');
    Expect('(');
    auto w = Word();
    Src& s = pr.src;
    if (w == "ready") {
      s.kind = 0;
      s.w = WKindOf(Word());
      s.tvoid = Word() == "v";
      s.res = ParseRes();
    } else if (w == "contract") {
      s.kind = 1;
      s.w = WKindOf(Word());
      s.tvoid = Word() == "v";
      s.exec = ParseExec();
      s.late = Int() != 0;
      s.res = ParseRes();
    } else if (w == "run") {
      s.kind = 2;
      s.w = WKindOf(Word());
      s.exec = ParseExec();
      s.fn = ParseFn();
      s.tvoid = s.fn.ret & 1;
    } else if (w == "prom") {
      s.kind = 3;
      s.w = WKindOf(Word());
      s.tvoid = Word() == "v";
      s.exec = ParseExec();
      s.id = Int();
      Expect('(');
      auto b = Word();
      if (b == "set") {
        s.late = Int() != 0;
        s.res = ParseRes();
      } else {
        s.pb_throw = 1;
        s.res.kind = 3;
        s.res.payload = Int();
      }
      Expect(')');
    } else {  // coro
      s.kind = 4;
      s.w = WKindOf(Word());
      s.tvoid = Word() == "v";
      s.id = Int();
      s.res = ParseRes();
    }
    Expect(')');
    while (Peek('(')) {
      Expect('(');
      auto o = Word();
      Op op;
      if (o == "then") {
        op.kind = 0;
        Ws();
        if (*p == '(') {
          Expect('(');
          Word();  // on
          op.attach = aOn;
          op.exec = ParseExec();
          Expect(')');
        } else {
          auto a = Word();
          op.attach = a == "inline" ? aInline : aInherit;
        }
        op.fn = ParseFn();
      } else if (o == "tofuture") {
        op.kind = 1;
      } else {
        op.kind = 2;
      }
      Expect(')');
      pr.ops.push_back(std::move(op));
    }
    Expect(')');
    return pr;
  }
};

// -------------------------------------------------------------------------------------------------- run-time context

struct Event {
  int id;
  Input in;
  int ctx;  // which manual executor was draining (0 = none)
};

struct Ctx;
inline Ctx*& Cur() {
  static Ctx* c = nullptr;
  return c;
}

using AnyPromise = std::variant<yaclib::Promise<Pay, Err>, yaclib::Promise<void, Err>, yaclib::SharedPromise<Pay, Err>,
                                yaclib::SharedPromise<void, Err>>;

struct Ctx {
  std::vector<Event> events;
  std::vector<yaclib::IExecutorPtr> manual;
  std::deque<std::pair<AnyPromise, Res>> pending;
  std::map<int, int> created, destroyed;  // functor tokens per function id
  int live = 0;
  int draining = 0;
  std::string problem;
  World shared;  // the one SharedFuture of a (share ...) case, returned by callbacks with behaviour (shared)

  Ctx() {
    for (int i = 0; i < 3; ++i) {
      manual.push_back(yaclib::MakeManual());
    }
  }

  yaclib::IExecutor& Executor(const Exec& e) {
    if (e.kind == 0) {
      return yaclib::MakeInline();
    }
    if (e.kind == 2) {
      return yaclib::MakeInline(yaclib::StopTag{});
    }
    return *manual[static_cast<std::size_t>(e.n) % manual.size()];
  }

  void Log(int id, const Input& in) {
    events.push_back(Event{id, in, draining});
  }

  World Build(const Prog& p);  // interpreter, below

  // run everything that can run; fulfil late promises one at a time when nothing else can run
  void Quiesce() {
    for (;;) {
      bool progress = false;
      for (std::size_t i = 0; i < manual.size(); ++i) {
        draining = static_cast<int>(i) + 1;
        if (static_cast<yaclib::ManualExecutor&>(*manual[i]).Drain() != 0) {
          progress = true;
        }
        draining = 0;
      }
      if (progress) {
        continue;
      }
      if (pending.empty()) {
        break;
      }
      auto pr = std::move(pending.front());
      pending.pop_front();
      Fulfil(std::move(pr.first), pr.second);
    }
  }

  template <class P>
  static void SetPromise(P&& p, const Res& r) {
    using PT = std::decay_t<P>;
    constexpr bool kVoid = std::is_same_v<PT, yaclib::Promise<void, Err>> || std::is_same_v<PT, yaclib::SharedPromise<void, Err>>;
    switch (r.kind) {
      case 0:
      case 1:
        if constexpr (kVoid) {
          std::move(p).Set();
        } else {
          std::move(p).Set(r.payload);
        }
        break;
      case 2:
        std::move(p).Set(Err{r.payload});
        break;
      default:
        std::move(p).Set(std::make_exception_ptr(Ex{r.payload}));
        break;
    }
  }

  static void Fulfil(AnyPromise&& p, const Res& r) {
    std::visit(
      [&](auto&& pr) {
        SetPromise(std::move(pr), r);
      },
      std::move(p));
  }
};

// counts constructions / destructions of the functor a callback is stored in
struct Token {
  int id = -1;
  bool live = false;
  explicit Token(int i) : id{i}, live{true} {
    ++Cur()->created[id];
    ++Cur()->live;
  }
  Token(Token&& o) noexcept : id{o.id}, live{o.live} {
    o.live = false;
  }
  Token(const Token&) = delete;
  Token& operator=(const Token&) = delete;
  Token& operator=(Token&&) = delete;
  ~Token() {
    if (live) {
      ++Cur()->destroyed[id];
      --Cur()->live;
    }
  }
};

// ------------------------------------------------------------------------------------------ describing what was seen

inline Res DescExc(const std::exception_ptr& p) {
  if (p == nullptr) {
    return Res{3, kMoved};  // moved-from
  }
  try {
    std::rethrow_exception(p);
  } catch (const Ex& e) {
    return Res{3, e.id};
  } catch (...) {
    return Res{3, -999};
  }
}

template <class PV>
Res DescResult(const yaclib::Result<PV, Err>& r) {
  switch (r.State()) {
    case yaclib::ResultState::Value:
      if constexpr (std::is_void_v<PV>) {
        return Res{1, 0};
      } else {
        return Res{0, r.Value().v};
      }
    case yaclib::ResultState::Error:
      return Res{2, r.Error().code};
    case yaclib::ResultState::Exception:
      return DescExc(r.Exception());
    default:
      return Res{4, 0};  // Empty
  }
}

inline Input Desc(const Rs<int>& r) {
  return Input{0, DescResult(r)};
}
inline Input Desc(const Rs<void>& r) {
  return Input{0, DescResult(r)};
}
inline Input Desc(const Pay& x) {
  return Input{1, Res{0, x.v}};
}
inline Input Desc(const Err& e) {
  return Input{2, Res{2, e.code}};
}
inline Input Desc(const std::exception_ptr& p) {
  return Input{3, DescExc(p)};
}
inline Input Desc(yaclib::Unit) {
  return Input{5, Res{1, 0}};
}

// --------------------------------------------------------------------------------------------------- callback functors

template <int R>
struct RetT;
template <>
struct RetT<rI> {
  using type = Pay;
};
template <>
struct RetT<rV> {
  using type = void;
};
template <>
struct RetT<rRI> {
  using type = Rs<int>;
};
template <>
struct RetT<rRV> {
  using type = Rs<void>;
};
template <>
struct RetT<rFI> {
  using type = Fut<int>;
};
template <>
struct RetT<rFV> {
  using type = Fut<void>;
};
template <>
struct RetT<rOI> {
  using type = FutOn<int>;
};
template <>
struct RetT<rOV> {
  using type = FutOn<void>;
};
template <>
struct RetT<rSI> {
  using type = Sh<int>;
};
template <>
struct RetT<rSV> {
  using type = Sh<void>;
};
template <>
struct RetT<rTI> {
  using type = Tsk<int>;
};
template <>
struct RetT<rTV> {
  using type = Tsk<void>;
};

[[noreturn]] inline void Die(const char* what) {
  std::fprintf(stderr, "harness error: %s\n", what);
  std::_Exit(4);
}

template <class H>
H Take(World&& w) {
  if (auto* h = std::get_if<H>(&w)) {
    return std::move(*h);
  }
  // SharedFutureOn where SharedFuture is expected: drop the executor tag
  if constexpr (std::is_same_v<H, Sh<int>>) {
    if (auto* h = std::get_if<ShOn<int>>(&w)) {
      return std::move(*h).On(nullptr);
    }
  }
  if constexpr (std::is_same_v<H, Sh<void>>) {
    if (auto* h = std::get_if<ShOn<void>>(&w)) {
      return std::move(*h).On(nullptr);
    }
  }
  Die("inner program has the wrong handle type for the callback's return type");
}

template <int R>
struct FnBase {
  using Ret = typename RetT<R>::type;
  const FnSpec* spec;
  Token token;

  explicit FnBase(const FnSpec* s) : spec{s}, token{s->id} {
  }
  FnBase(FnBase&&) noexcept = default;

  Ret Body(const Input& in) {
    Cur()->Log(spec->id, in);
    const int d = Digest(in);
    if (spec->mode == mThrow) {
      throw Ex{d + spec->k};
    }
    if constexpr (R == rSI || R == rSV) {
      if (spec->mode == mShared) {
        // a copy of the one shared handle of a (share ...) case: exactly one new reference
        return std::get<Ret>(Cur()->shared);
      }
    }
    if constexpr (R == rI) {
      return Pay{d + spec->k};
    } else if constexpr (R == rV) {
      return;
    } else if constexpr (R == rRI) {
      switch (spec->mode) {
        case mResVal:
          return Rs<int>{d + spec->k};
        case mResErr:
          return Rs<int>{Err{d + spec->k}};
        default:
          return Rs<int>{std::make_exception_ptr(Ex{d + spec->k})};
      }
    } else if constexpr (R == rRV) {
      switch (spec->mode) {
        case mResVal:
          return Rs<void>{yaclib::Unit{}};
        case mResErr:
          return Rs<void>{Err{d + spec->k}};
        default:
          return Rs<void>{std::make_exception_ptr(Ex{d + spec->k})};
      }
    } else {
      return Take<Ret>(Cur()->Build(*spec->inner));
    }
  }
};

template <class V, int P, int R>
struct Fn;

template <class V, int R>
struct Fn<V, pR, R> : FnBase<R> {
  using FnBase<R>::FnBase;
  typename FnBase<R>::Ret operator()(Rs<V> r) {
    return this->Body(Desc(r));
  }
};
template <int R>
struct Fn<int, pV, R> : FnBase<R> {
  using FnBase<R>::FnBase;
  typename FnBase<R>::Ret operator()(Pay x) {
    return this->Body(Desc(x));
  }
};
template <class V, int R>
struct Fn<V, pE, R> : FnBase<R> {
  using FnBase<R>::FnBase;
  typename FnBase<R>::Ret operator()(Err e) {
    return this->Body(Desc(e));
  }
};
template <class V, int R>
struct Fn<V, pX, R> : FnBase<R> {
  using FnBase<R>::FnBase;
  typename FnBase<R>::Ret operator()(std::exception_ptr p) {
    return this->Body(Desc(p));
  }
};
template <int R>
struct Fn<void, pN, R> : FnBase<R> {
  using FnBase<R>::FnBase;
  typename FnBase<R>::Ret operator()() {
    return this->Body(Input{4, Res{1, 0}});
  }
};
template <int R>
struct Fn<void, pU, R> : FnBase<R> {
  using FnBase<R>::FnBase;
  typename FnBase<R>::Ret operator()(yaclib::Unit u) {
    return this->Body(Desc(u));
  }
};
template <class V, int R>
struct Fn<V, pA, R> : FnBase<R> {
  using FnBase<R>::FnBase;
  template <class T>
  typename FnBase<R>::Ret operator()(T&& r) {
    return this->Body(Desc(r));
  }
};

// Functor types used only to check the model's invocability table against the compiler (also for the classes that do
// not type-check as callbacks in a given world: f(int) in the void world, f() / f(Unit) in the int world)
template <int P>
struct Probe;
template <>
struct Probe<pV> {
  int operator()(Pay);
};
template <>
struct Probe<pN> {
  int operator()();
};
template <>
struct Probe<pU> {
  int operator()(yaclib::Unit);
};
template <class V, int P>
using ProbeFn = std::conditional_t<(P == pV || P == pN || P == pU), Probe<(P == pV || P == pN || P == pU) ? P : pV>,
                                   Fn<V, (P == pV || P == pN || P == pU) ? pR : P, rI>>;

// yaclib::is_invocable_v of the functor of class P in the world of value type V with argument kind G:
// 0 Result<V,E>, 1 V, 2 E, 3 std::exception_ptr, 4 Unit
template <class V, int P, int G>
constexpr bool Invocable() {
  using F = ProbeFn<V, P>;
  if constexpr (G == 0) {
    return yaclib::is_invocable_v<F, Rs<V>>;
  } else if constexpr (G == 1) {
    return yaclib::is_invocable_v<F, PayOf<V>>;
  } else if constexpr (G == 2) {
    return yaclib::is_invocable_v<F, Err>;
  } else if constexpr (G == 3) {
    return yaclib::is_invocable_v<F, std::exception_ptr>;
  } else {
    return yaclib::is_invocable_v<F, yaclib::Unit>;
  }
}

// ---------------------------------------------------------------------------------------- table of instantiations

using ThenFn = World (*)(World&&, const FnSpec*, yaclib::IExecutor*);
using RunFn = World (*)(const FnSpec*, yaclib::IExecutor*);

inline int ThenKey(int world_index, int par, int ret, int attach) {
  return ((world_index * 8 + par) * 16 + ret) * 4 + attach;
}
inline int RunKey(int wk, int par, int ret) {
  return (wk * 8 + par) * 16 + ret;
}

struct Table {
  std::unordered_map<int, ThenFn> then;
  std::unordered_map<int, RunFn> run;
};
inline Table& TheTable() {
  static Table t;
  return t;
}

template <int WI, int P, int R, int A>
World ThenThunk(World&& w, const FnSpec* s, yaclib::IExecutor* e) {
  using H = std::variant_alternative_t<WI, World>;
  using V = std::conditional_t<(WI % 2) == 1, int, void>;
  using F = Fn<V, P, R>;
  H h = std::get<WI>(std::move(w));
  if constexpr (A == aInline) {
    return World{std::move(h).ThenInline(F{s})};
  } else if constexpr (A == aOn) {
    return World{std::move(h).Then(*e, F{s})};
  } else {
    return World{std::move(h).Then(F{s})};
  }
}

template <int WK, int P, int R>
World RunThunk(const FnSpec* s, yaclib::IExecutor* e) {
  using F = Fn<void, P, R>;
  if constexpr (WK == kF) {
    return World{yaclib::Run<Err>(F{s})};
  } else if constexpr (WK == kO) {
    return World{yaclib::Run<Err>(*e, F{s})};
  } else if constexpr (WK == kS) {
    return World{yaclib::RunShared<Err>(F{s})};
  } else if constexpr (WK == kSO) {
    return World{yaclib::RunShared<Err>(*e, F{s})};
  } else {
    return World{yaclib::Schedule<Err>(*e, F{s})};
  }
}

// -------------------------------------------------------------------------------------------------- other sources

template <class V>
Rs<V> MakeRes(const Res& r) {
  switch (r.kind) {
    case 0:
    case 1:
      if constexpr (std::is_void_v<V>) {
        return Rs<V>{yaclib::Unit{}};
      } else {
        return Rs<V>{r.payload};
      }
    case 2:
      return Rs<V>{Err{r.payload}};
    default:
      return Rs<V>{std::make_exception_ptr(Ex{r.payload})};
  }
}

template <class V>
World Ready(int wk, const Res& r) {
  if (wk == kT) {
    switch (r.kind) {
      case 0:
      case 1:
        if constexpr (std::is_void_v<V>) {
          return World{yaclib::MakeTask<void, Err>()};
        } else {
          return World{yaclib::MakeTask<Pay, Err>(r.payload)};
        }
      case 2:
        return World{yaclib::MakeTask<PayOf<V>, Err>(Err{r.payload})};
      default:
        return World{yaclib::MakeTask<PayOf<V>, Err>(std::make_exception_ptr(Ex{r.payload}))};
    }
  }
  switch (r.kind) {
    case 0:
    case 1:
      if constexpr (std::is_void_v<V>) {
        return World{yaclib::MakeFuture<void, Err>()};
      } else {
        return World{yaclib::MakeFuture<Pay, Err>(r.payload)};
      }
    case 2:
      return World{yaclib::MakeFuture<PayOf<V>, Err>(Err{r.payload})};
    default:
      return World{yaclib::MakeFuture<PayOf<V>, Err>(std::make_exception_ptr(Ex{r.payload}))};
  }
}

template <class V>
World Contract(Ctx& c, const Src& s) {
  if (s.w == kS) {
    auto [f, p] = yaclib::MakeSharedContract<PayOf<V>, Err>();
    if (s.late) {
      c.pending.emplace_back(AnyPromise{std::move(p)}, s.res);
    } else {
      Ctx::SetPromise(std::move(p), s.res);
    }
    return World{std::move(f)};
  }
  if (s.w == kO) {
    auto [f, p] = yaclib::MakeContractOn<PayOf<V>, Err>(c.Executor(s.exec));
    if (s.late) {
      c.pending.emplace_back(AnyPromise{std::move(p)}, s.res);
    } else {
      Ctx::SetPromise(std::move(p), s.res);
    }
    return World{std::move(f)};
  }
  auto [f, p] = yaclib::MakeContract<PayOf<V>, Err>();
  if (s.late) {
    c.pending.emplace_back(AnyPromise{std::move(p)}, s.res);
  } else {
    Ctx::SetPromise(std::move(p), s.res);
  }
  return World{std::move(f)};
}

// the function handed to AsyncContract / AsyncSharedContract / LazyContract
template <class PromiseT>
struct PromFn {
  const Src* src;
  Token token;
  explicit PromFn(const Src* s) : src{s}, token{s->id} {
  }
  PromFn(PromFn&&) noexcept = default;
  void operator()(PromiseT&& p) {  // by rvalue reference: a function that throws has not taken the promise
    Cur()->Log(src->id, Input{4, Res{1, 0}});
    if (src->pb_throw != 0) {
      throw Ex{src->res.payload};
    }
    if (src->late) {
      Cur()->pending.emplace_back(AnyPromise{std::move(p)}, src->res);
    } else {
      Ctx::SetPromise(std::move(p), src->res);
    }
  }
};

template <class V>
World Prom(Ctx& c, const Src& s) {
  auto& e = c.Executor(s.exec);
  switch (s.w) {
    case kF:
      return World{yaclib::AsyncContract<PayOf<V>, Err>(PromFn<yaclib::Promise<PayOf<V>, Err>>{&s})};
    case kO:
      return World{yaclib::AsyncContract<PayOf<V>, Err>(e, PromFn<yaclib::Promise<PayOf<V>, Err>>{&s})};
    case kS:
      return World{yaclib::AsyncSharedContract<PayOf<V>, Err>(PromFn<yaclib::SharedPromise<PayOf<V>, Err>>{&s}).On(nullptr)};
    case kSO:
      return World{yaclib::AsyncSharedContract<PayOf<V>, Err>(e, PromFn<yaclib::SharedPromise<PayOf<V>, Err>>{&s})};
    default:
      return World{yaclib::LazyContract<PayOf<V>, Err>(e, PromFn<yaclib::Promise<PayOf<V>, Err>>{&s})};
  }
}

#if YACLIB_CORO != 0
template <class V>
Fut<V> CoroFuture(const Src* s) {
  Cur()->Log(s->id, Input{4, Res{1, 0}});
  switch (s->res.kind) {
    case 0:
    case 1:
      if constexpr (std::is_void_v<V>) {
        co_return yaclib::Unit{};
      } else {
        co_return s->res.payload;
      }
    case 2:
      co_return Err{s->res.payload};
    default:
      throw Ex{s->res.payload};
  }
}
template <class V>
Tsk<V> CoroTask(const Src* s) {
  Cur()->Log(s->id, Input{4, Res{1, 0}});
  switch (s->res.kind) {
    case 0:
    case 1:
      if constexpr (std::is_void_v<V>) {
        co_return yaclib::Unit{};
      } else {
        co_return s->res.payload;
      }
    case 2:
      co_return Err{s->res.payload};
    default:
      throw Ex{s->res.payload};
  }
}
#endif

template <class V>
World Coro(const Src& s) {
#if YACLIB_CORO != 0
  if (s.w == kT) {
    return World{CoroTask<V>(&s)};
  }
  return World{CoroFuture<V>(&s)};
#else
  Die("coroutine source without coroutine support");
#endif
}

// ------------------------------------------------------------------------------------------------------ interpreter

inline int WorldIndex(const World& w) {
  return static_cast<int>(w.index());
}

inline World Ctx::Build(const Prog& p) {
  World w;
  const Src& s = p.src;
  switch (s.kind) {
    case 0:
      w = s.tvoid ? Ready<void>(s.w, s.res) : Ready<int>(s.w, s.res);
      break;
    case 1:
      w = s.tvoid ? Contract<void>(*this, s) : Contract<int>(*this, s);
      break;
    case 2: {
      auto it = TheTable().run.find(RunKey(s.w, s.fn.par, s.fn.ret));
      if (it == TheTable().run.end()) {
        Die("no table entry for this Run cell");
      }
      w = it->second(&s.fn, &Executor(s.exec));
      break;
    }
    case 3:
      w = s.tvoid ? Prom<void>(*this, s) : Prom<int>(*this, s);
      break;
    default:
      w = s.tvoid ? Coro<void>(s) : Coro<int>(s);
      break;
  }
  for (const Op& op : p.ops) {
    if (op.kind == 0) {
      auto it = TheTable().then.find(ThenKey(WorldIndex(w), op.fn.par, op.fn.ret, op.attach));
      if (it == TheTable().then.end()) {
        std::fprintf(stderr, "world %d par %d ret %d attach %d\n", WorldIndex(w), op.fn.par, op.fn.ret, op.attach);
        Die("no table entry for this Then cell");
      }
      w = it->second(std::move(w), &op.fn, &Executor(op.exec));
    } else if (op.kind == 1) {
      if (auto* t = std::get_if<Tsk<int>>(&w)) {
        w = World{std::move(*t).ToFuture()};
      } else if (auto* tv = std::get_if<Tsk<void>>(&w)) {
        w = World{std::move(*tv).ToFuture()};
      } else {
        Die("tofuture on a non-Task");
      }
    } else {
      if (auto* a = std::get_if<FutOn<int>>(&w)) {
        w = World{std::move(*a).On(nullptr)};
      } else if (auto* b = std::get_if<FutOn<void>>(&w)) {
        w = World{std::move(*b).On(nullptr)};
      } else if (auto* c = std::get_if<ShOn<int>>(&w)) {
        w = World{std::move(*c).On(nullptr)};
      } else if (auto* d = std::get_if<ShOn<void>>(&w)) {
        w = World{std::move(*d).On(nullptr)};
      } else {
        Die("onnull on a handle without executor");
      }
    }
  }
  return w;
}

// final Result of a finished program; kind 5 = not ready, 6 = still a Task (never started)
inline Res Final(World&& w) {
  return std::visit(
    [](auto&& h) -> Res {
      using H = std::decay_t<decltype(h)>;
      if constexpr (std::is_same_v<H, std::monostate>) {
        return Res{7, 0};
      } else if constexpr (std::is_same_v<H, Tsk<int>> || std::is_same_v<H, Tsk<void>>) {
        return Res{6, 0};
      } else if constexpr (std::is_same_v<H, Fut<int>> || std::is_same_v<H, FutOn<int>> || std::is_same_v<H, Fut<void>> ||
                           std::is_same_v<H, FutOn<void>>) {
        if (!h.Ready()) {
          return Res{5, 0};
        }
        return DescResult(std::move(h).Get());
      } else {
        if (!h.Ready()) {
          return Res{5, 0};
        }
        return DescResult(h.Get());
      }
    },
    std::move(w));
}

// ------------------------------------------------------------------------- the oracle (from the property text only)
//
// "a callback taking the value runs only on success and otherwise the failure passes through unchanged; a callback taking
//  the error type or std::exception_ptr runs only on that kind of failure and otherwise the Result passes through; a
//  callback taking Result always runs; whatever a callback throws becomes the Exception state; a returned Result is
//  stored as is; a returned Future, SharedFuture or Task is flattened so the step completes with the inner result."
// plus C05's clause used by the programs: a step handed to a stopped executor sees StopError.

struct Expect {
  Res res;
  Exec exec;
  std::vector<std::pair<int, Input>> calls;
};

inline std::optional<Input> Invoked(int par, const Res& r) {
  const bool ok = r.kind == 0 || r.kind == 1;
  switch (par) {
    case pR:
    case pA:
      return Input{0, r};
    case pV:
      return ok ? std::optional<Input>{Input{1, r}} : std::nullopt;
    case pN:
      return ok ? std::optional<Input>{Input{4, Res{1, 0}}} : std::nullopt;
    case pU:
      return ok ? std::optional<Input>{Input{5, Res{1, 0}}} : std::nullopt;
    case pE:
      return r.kind == 2 ? std::optional<Input>{Input{2, r}} : std::nullopt;
    default:
      return r.kind == 3 ? std::optional<Input>{Input{3, r}} : std::nullopt;
  }
}

inline Expect Oracle(const Prog& p);

// the Result of the shared source of a (share ...) case: every user of the handle sees it
inline const Res*& SharedExpect() {
  static const Res* r = nullptr;
  return r;
}

inline void OracleCall(const FnSpec& f, const Input& in, Expect& x) {
  x.calls.emplace_back(f.id, in);
  const int d = Digest(in);
  switch (f.mode) {
    case mThrow:
      x.res = Res{3, d + f.k};
      break;
    case mRet:
      x.res = (f.ret & 1) != 0 ? Res{1, 0} : Res{0, d + f.k};
      break;
    case mResVal:
      x.res = (f.ret & 1) != 0 ? Res{1, 0} : Res{0, d + f.k};
      break;
    case mResErr:
      x.res = Res{2, d + f.k};
      break;
    case mResExc:
      x.res = Res{3, d + f.k};
      break;
    case mShared:
      x.res = *SharedExpect();  // flattened: the step completes with the Result stored in the shared state
      break;
    default: {
      Expect in2 = Oracle(*f.inner);
      x.res = in2.res;
      x.calls.insert(x.calls.end(), in2.calls.begin(), in2.calls.end());
    }
  }
}

inline Expect Oracle(const Prog& p) {
  Expect x;
  const Src& s = p.src;
  const Res stop{2, -1};
  switch (s.kind) {
    case 0:
      x.res = s.res;
      break;
    case 1:
      x.res = s.res;
      x.exec = s.exec;
      break;
    case 2: {
      x.exec = s.exec;
      x.res = s.exec.Stopped() ? stop : Res{1, 0};
      if (auto in = Invoked(s.fn.par, x.res)) {
        OracleCall(s.fn, *in, x);
      }
      break;
    }
    case 3:
      x.exec = s.exec;
      if (s.exec.Stopped()) {
        x.res = stop;
      } else {
        x.calls.emplace_back(s.id, Input{4, Res{1, 0}});
        x.res = s.res;
      }
      break;
    default:
      x.calls.emplace_back(s.id, Input{4, Res{1, 0}});
      x.res = s.res;
      break;
  }
  for (const Op& op : p.ops) {
    if (op.kind != 0) {
      continue;
    }
    const Exec ex = op.attach == aOn ? op.exec : x.exec;
    if (op.attach != aInline && ex.Stopped()) {
      x.res = stop;
    }
    x.exec = ex;
    if (auto in = Invoked(op.fn.par, x.res)) {
      OracleCall(op.fn, *in, x);
    }
  }
  return x;
}

// ------------------------------------------------------------------------------------------------ running one program

struct Outcome {
  Res final;
  std::vector<Event> events;
  std::string fail;     // oracle verdict
  std::string key;      // stable key of the failure
  int live_after = 0;   // functor tokens still alive after everything was destroyed
  bool tokens_once = true;
};

inline std::string EventsStr(const std::vector<Event>& evs) {
  std::string s;
  for (const auto& e : evs) {
    if (!s.empty()) {
      s += ",";
    }
    s += std::to_string(e.id) + ":" + e.in.Str() + "@" + std::to_string(e.ctx);
  }
  return s;
}

inline Outcome RunProgram(const Prog& p) {
  Outcome out;
  {
    Ctx ctx;
    Cur() = &ctx;
    {
      World w = ctx.Build(p);
      ctx.Quiesce();
      out.final = Final(std::move(w));
      ctx.Quiesce();
    }
    ctx.Quiesce();
    out.events = ctx.events;
    out.live_after = ctx.live;
    for (auto& [id, n] : ctx.created) {
      if (ctx.destroyed[id] != n) {
        out.tokens_once = false;
      }
    }
    Cur() = nullptr;
  }
  Expect x = Oracle(p);
  std::vector<std::pair<int, Input>> got;
  for (const auto& e : out.events) {
    got.emplace_back(e.id, e.in);
  }
  if (!(out.final == x.res)) {
    out.fail = "final Result is " + out.final.Str() + ", the sequential reading gives " + x.res.Str();
    out.key = "final";
  } else if (got != x.calls) {
    std::string want;
    for (auto& c : x.calls) {
      want += std::to_string(c.first) + ":" + c.second.Str() + ",";
    }
    out.fail = "callbacks invoked [" + EventsStr(out.events) + "], the sequential reading gives [" + want + "]";
    out.key = "calls";
  }
  return out;
}

// ------------------------------------------------------------------------------- one shared source, several users
//
// (share <extra handles> SRC P1 P2): SRC builds a SharedFuture (fulfilled before or after the rest is built); the two
// pipelines P1, P2 are built one after the other, their callbacks with behaviour (shared) return copies of that one handle;
// afterwards both pipelines and the handle itself are read.  Sequential reading: the Result stored in the shared state
// never changes, so every step that flattens it completes with it, whatever ran before.

struct ShareOutcome {
  Res final1, final2, direct, direct_again;
  std::vector<Event> events;
  std::string fail;
  std::string key;
  int live_after = 0;
  bool tokens_once = true;
};

inline void CollectIds(const Prog& p, std::set<int>& ids) {
  auto fn = [&](const FnSpec& f, auto&& self) -> void {
    ids.insert(f.id);
    if (f.inner) {
      CollectIds(*f.inner, ids);
    }
    (void)self;
  };
  if (p.src.kind == 2) {
    fn(p.src.fn, fn);
  } else if (p.src.kind == 3 || p.src.kind == 4) {
    ids.insert(p.src.id);
  }
  for (const Op& op : p.ops) {
    if (op.kind == 0) {
      fn(op.fn, fn);
    }
  }
}

inline Res ReadShared(const World& w) {
  return std::visit(
    [](const auto& h) -> Res {
      using H = std::decay_t<decltype(h)>;
      if constexpr (std::is_same_v<H, Sh<int>> || std::is_same_v<H, Sh<void>>) {
        if (!h.Ready()) {
          return Res{5, 0};
        }
        return DescResult(h.Get());  // const&: a copy-free read of the stored Result
      } else {
        return Res{7, 0};
      }
    },
    w);
}

inline ShareOutcome RunShare(int extra, const Prog& src, const Prog& p1, const Prog& p2) {
  ShareOutcome out;
  {
    Ctx ctx;
    Cur() = &ctx;
    {
      World s = ctx.Build(src);
      if (auto* a = std::get_if<ShOn<int>>(&s)) {
        ctx.shared = World{std::move(*a).On(nullptr)};
      } else if (auto* b = std::get_if<ShOn<void>>(&s)) {
        ctx.shared = World{std::move(*b).On(nullptr)};
      } else if (std::holds_alternative<Sh<int>>(s) || std::holds_alternative<Sh<void>>(s)) {
        ctx.shared = std::move(s);
      } else {
        Die("the source of a share case is not a SharedFuture");
      }
      std::vector<World> extras;
      for (int i = 0; i < extra; ++i) {
        extras.push_back(std::visit([](const auto& h) -> World {
          using H = std::decay_t<decltype(h)>;
          if constexpr (std::is_same_v<H, Sh<int>> || std::is_same_v<H, Sh<void>>) {
            return World{H{h}};
          } else {
            return World{};
          }
        }, ctx.shared));
      }
      World w1 = ctx.Build(p1);
      World w2 = ctx.Build(p2);
      ctx.Quiesce();
      out.final1 = Final(std::move(w1));
      ctx.Quiesce();
      out.final2 = Final(std::move(w2));
      ctx.Quiesce();
      out.direct = ReadShared(ctx.shared);
      out.direct_again = ReadShared(ctx.shared);
      extras.clear();
      ctx.shared = World{};
    }
    ctx.Quiesce();
    out.events = ctx.events;
    out.live_after = ctx.live;
    for (auto& [id, n] : ctx.created) {
      if (ctx.destroyed[id] != n) {
        out.tokens_once = false;
      }
    }
    Cur() = nullptr;
  }
  // oracle
  Expect xs = Oracle(src);
  SharedExpect() = &xs.res;
  Expect x1 = Oracle(p1);
  Expect x2 = Oracle(p2);
  SharedExpect() = nullptr;
  std::set<int> ids0, ids1, ids2;
  CollectIds(src, ids0);
  CollectIds(p1, ids1);
  CollectIds(p2, ids2);
  auto part = [&](const std::set<int>& ids) {
    std::vector<std::pair<int, Input>> v;
    for (const auto& e : out.events) {
      if (ids.count(e.id) != 0) {
        v.emplace_back(e.id, e.in);
      }
    }
    return v;
  };
  auto bad = [&](const char* who, const Res& got, const Res& want) {
    out.fail = std::string{who} + " sees " + got.Str() + ", the Result stored in the shared state / the sequential reading gives " +
               want.Str();
    out.key = "shared-result";
  };
  if (!(out.final1 == x1.res)) {
    bad("the 1st pipeline", out.final1, x1.res);
  } else if (!(out.final2 == x2.res)) {
    bad("the 2nd pipeline", out.final2, x2.res);
  } else if (!(out.direct == xs.res)) {
    bad("a direct read of the SharedFuture", out.direct, xs.res);
  } else if (!(out.direct_again == xs.res)) {
    bad("a second direct read of the SharedFuture", out.direct_again, xs.res);
  } else if (part(ids0) != xs.calls || part(ids1) != x1.calls || part(ids2) != x2.calls) {
    out.fail = "callbacks invoked [" + EventsStr(out.events) + "] differ from the sequential reading of the source / the pipelines";
    out.key = "shared-calls";
  }
  return out;
}

}  // namespace h
