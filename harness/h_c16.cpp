// C16 harness: the real yaclib::WaitGroup<> / yaclib::OneShotEvent under the schedule explorer.
//
// A scenario is a small program: worker fibers doing Add / Done / Attach / Consume (each worker only adds while it
// still holds an outstanding unit of its own: the documented rule), producer fibers fulfilling the promises of
// the attached / consumed futures, and waiter fibers of every kind: blocking Wait, WaitFor / WaitUntil with a deadline
// (virtual time advances 10 ns per scheduler step; the deadline is a scenario parameter, the explorer's schedule
// places the timeout before or after the final Done), co_await AwaitInline / AwaitSticky / AwaitOn, and
// (OneShotEvent only) a raw Job given to TryAdd.
//
// The ORACLE is written from the property text only:
//   * whenever a waiter is released, the harness' own shadow count of outstanding operations (units added and
//     not yet handed to Done, futures attached/consumed whose producer has not started to fulfil them) is zero;
//   * every waiter is released exactly once (a timed waiter that returned false is not released at all); at the
//     end nobody is still parked (the explorer's deadlock detection for fibers, an explicit check for coroutines);
//   * an attached future is not Ready() before its producer began to fulfil it, and is Ready() with exactly the
//     value set once the group has been waited for; the WaitGroup never destroys its state;
//   * the state of a consumed future is destroyed exactly once (instrumented payload), by the time everything
//     has finished and before the harness drops anything itself.
//
// TRACING (no influence on the oracle): the event's head word is "h", the counter "c", future j's callback word
// "f<j>"; when a waiter's job appears in the head word the harness names that waiter's internals (it has access to
// private members): mutex "m<k>", condition variable "v<k>", TimedWaiter reference count "r<k>".
#include "vrt_all.hpp"

#include "vrt_main.hpp"

#include <yaclib_std/chrono>

namespace {

enum WK { kBlock = 0, kTimed = 1, kInline = 2, kSticky = 3, kOn = 4, kJob = 5 };
const char* kWKName[] = {"block", "timed", "inline", "sticky", "on", "job"};

struct WaiterSpec {
  WK kind = kBlock;
  int deadline = 0;  // virtual ns, timed only
  bool until = false;  // timed only: WaitUntil(now + deadline) instead of WaitFor(deadline)
  bool by_worker = false;  // not a fiber of its own: some worker runs it (Op 'W')
};

struct Op {
  // a: Add(1)  d: Done(1)  A: Attach(fut)  C: Consume(fut)  r: poll Ready(fut)  S: OneShotEvent::Set
  // B: Attach(f[js]...) variadic   I: Attach(begin + js[0], |js|)   K: Consume(f[js]...) variadic
  // L: Consume(begin + js[0], |js|)   (one call for several futures; I/L need consecutive futures)
  // W: this worker itself now acts as waiter number arg (e.g. Attach(...) and then Wait() on the same thread)
  char op = 'd';
  int arg = 0;
  std::vector<int> js = {};
};

struct WorkerSpec {
  int units = 0;  // units of the initial count that this worker will hand to Done
  std::vector<Op> ops;
};

struct Prog {
  bool ose = false;  // OneShotEvent alone (no counter)
  std::vector<WorkerSpec> workers;
  std::vector<int> futs;  // 0: attached, 1: consumed
  std::vector<WaiterSpec> waiters;
  int ticker = 0;  // a fiber that only yields that many times (lets virtual time pass)
};

struct Ctx;
Ctx* gC = nullptr;

struct Val {
  int j = -1;
  int v = 0;
  bool live = false;
  Val() = default;
  Val(int jj, int vv) : j{jj}, v{vv}, live{true} {
  }
  Val(Val&& o) noexcept : j{o.j}, v{o.v}, live{o.live} {
    o.live = false;
  }
  Val(const Val& o) noexcept : j{o.j}, v{o.v}, live{false} {
  }
  Val& operator=(Val&& o) noexcept {
    Kill();
    j = o.j;
    v = o.v;
    live = o.live;
    o.live = false;
    return *this;
  }
  Val& operator=(const Val&) = delete;
  ~Val() {
    Kill();
  }
  void Kill();
};

class TraceExec final : public yaclib::IExecutor {
 public:
  Type Tag() const noexcept final {
    return Type::Custom;
  }
  bool Alive() const noexcept final {
    return true;
  }
  void Submit(yaclib::Job& job) noexcept final {
    ++submits;
    vrt::Event("submit");
    job.Call();
  }
  void IncRef() noexcept final {
  }
  void DecRef() noexcept final {
  }
  std::size_t GetRef() noexcept final {
    return 1;
  }
  int submits = 0;
};

struct RawJob final : yaclib::Job {
  int k = -1;
  void Call() noexcept final;
  void Drop() noexcept final {
  }
};

struct Ctx {
  const Prog& p;
  yaclib::WaitGroup<>* wg = nullptr;
  yaclib::OneShotEvent* ev = nullptr;
  const volatile void* head_addr = nullptr;
  std::uintptr_t last_head = 0;
  std::map<std::uint64_t, int> fiber2w;
  std::map<std::uintptr_t, int> job2w;
  std::vector<std::array<const volatile void*, 3>> names;  // per waiter: m, v, r
  // shadow state of the oracle
  long user_out = 0;
  std::vector<char> fut_begun, set_begun;
  std::vector<int> rel, tmo, dtor;
  std::vector<yaclib::Future<Val>> futs;
  std::vector<yaclib::Promise<Val>> proms;
  std::vector<yaclib::Future<>> cofut;
  std::vector<RawJob> jobs;
  TraceExec exec;
  bool cleanup = false;
  const volatile void* count_addr = nullptr;
  int zero_crossings = 0;  // fetch_sub on the counter that left it at zero
  int set_exchanges = 0;   // exchanges on the head word (SetImpl)

  explicit Ctx(const Prog& prog) : p{prog} {
    auto nw = p.waiters.size();
    auto nf = p.futs.size();
    names.assign(nw, {nullptr, nullptr, nullptr});
    fut_begun.assign(nf, 0);
    set_begun.assign(nf, 0);
    dtor.assign(nf, 0);
    rel.assign(nw, 0);
    tmo.assign(nw, 0);
    cofut.resize(nw);
    jobs.resize(nw);
  }

  long Shadow() const {
    long s = user_out;
    for (std::size_t j = 0; j < fut_begun.size(); ++j) {
      s += (fut_begun[j] && !set_begun[j]) ? 1 : 0;
    }
    return s;
  }

  void Released(int k) {
    ++rel[k];
    vrt::Event("rel " + std::to_string(k));
    if (long s = Shadow(); s != 0) {
      // also on stderr at once: a run that later dies (e.g. a second Set walking the sentinel) loses its verdict otherwise
      std::fprintf(stderr, "ORACLE: waiter %s released while %ld operations are still outstanding\n", kWKName[p.waiters[k].kind], s);
      vrt::Fail("waiter " + std::string(kWKName[p.waiters[k].kind]) + " released while " + std::to_string(s) +
                " operations are still outstanding");
    }
    if (rel[k] > 1) {
      vrt::Fail("waiter " + std::string(kWKName[p.waiters[k].kind]) + " released " + std::to_string(rel[k]) + " times");
    }
  }

  void EraseNames(int k) {
    for (auto*& a : names[k]) {
      if (a != nullptr) {
        vrt::g.locs.erase(a);
        a = nullptr;
      }
    }
  }
};

void Val::Kill() {
  if (live) {
    live = false;
    if (gC != nullptr && j >= 0 && j < static_cast<int>(gC->dtor.size())) {
      ++gC->dtor[j];
      if (!gC->cleanup) {
        vrt::Event("free " + std::to_string(j));
      }
    }
  }
}

void RawJob::Call() noexcept {
  gC->Released(k);
}

std::string FmtWord(std::uint64_t v) {
  if (v == 0) {
    return "E";
  }
  if (v == std::numeric_limits<std::uintptr_t>::max()) {
    return "R";
  }
  return "C";
}

std::string FmtHead(std::uint64_t v) {
  if (v == 0) {
    return "E";
  }
  if (v == std::numeric_limits<std::uintptr_t>::max()) {
    return "A";
  }
  if (gC != nullptr) {
    auto it = gC->job2w.find(static_cast<std::uintptr_t>(v));
    if (it != gC->job2w.end()) {
      return "J" + std::to_string(it->second);
    }
  }
  return "J?";
}

std::string FmtDec(std::uint64_t v) {
  return std::to_string(static_cast<long long>(v));
}

std::string FmtNone(std::uint64_t) {
  return "";
}

using TimedHelper = yaclib::detail::Helper<yaclib::detail::AtomicCounter, yaclib::OneShotEvent::TimedWaiter>;
using TimedCounter = yaclib::detail::AtomicCounter<yaclib::OneShotEvent::TimedWaiter, yaclib::detail::DefaultDeleter>;

// Tracing only: when a waiter's job becomes the head of the event's list, remember which waiter it is and name the
// locations inside it.
void MyAfter(const volatile void* obj, std::size_t size, const char* op) {
  Ctx* c = gC;
  if (c != nullptr && vrt::g.active) {
    if (obj == c->count_addr && std::strcmp(op, "fetch_sub") == 0) {
      std::uint64_t raw = 1;
      std::memcpy(&raw, const_cast<const void*>(obj), sizeof raw);
      c->zero_crossings += raw == 0 ? 1 : 0;
    }
    if (obj == c->head_addr && std::strcmp(op, "exchange") == 0) {
      ++c->set_exchanges;
    }
    if (obj == c->head_addr) {
      std::uintptr_t raw = 0;
      std::memcpy(&raw, const_cast<const void*>(obj), sizeof raw);
      if (raw != c->last_head && raw != 0 && raw != std::numeric_limits<std::uintptr_t>::max()) {
        auto it = c->fiber2w.find(vrt::g.cur);
        if (it != c->fiber2w.end()) {
          int k = it->second;
          c->job2w[raw] = k;
          auto* job = reinterpret_cast<yaclib::Job*>(raw);
          std::string sk = std::to_string(k);
          if (c->p.waiters[k].kind == kBlock) {
            auto* w = static_cast<yaclib::OneShotEvent::Waiter*>(job);
            c->names[k] = {&w->_m, &w->_cv, nullptr};
            vrt::NameLoc(&w->_m, "m" + sk, FmtNone);
            vrt::NameLoc(&w->_cv, "v" + sk, FmtNone);
          } else if (c->p.waiters[k].kind == kTimed) {
            auto* w = static_cast<yaclib::OneShotEvent::TimedWaiter*>(job);
            auto* h = static_cast<TimedCounter*>(w);
            c->names[k] = {&w->_m, &w->_cv, &h->count};
            vrt::NameLoc(&w->_m, "m" + sk, FmtNone);
            vrt::NameLoc(&w->_cv, "v" + sk, FmtNone);
            vrt::NameLoc(&h->count, "r" + sk, FmtDec);
          }
        }
      }
      c->last_head = raw;
    }
  }
  // of a waiter's own mutex / condition variable only two operations matter for the protocol: somebody else taking
  // the mutex (that is the waiter's Job::Call) and the timed wait returning
  bool forward = true;
  if (c != nullptr && vrt::g.active) {
    for (std::size_t k = 0; k < c->names.size() && forward; ++k) {
      if (c->names[k][0] == obj) {
        auto it = c->fiber2w.find(vrt::g.cur);
        bool owner = it != c->fiber2w.end() && it->second == static_cast<int>(k);
        forward = !owner && std::strcmp(op, "lock") == 0;
      } else if (c->names[k][1] == obj) {
        forward = std::strcmp(op, "wait_for") == 0 || std::strcmp(op, "wait_until") == 0;
      }
    }
  }
  if (forward) {
    vrt::detail::After(obj, size, op);
  }
  if (c != nullptr && vrt::g.active && std::strcmp(op, "fetch_sub") == 0) {
    for (std::size_t k = 0; k < c->names.size(); ++k) {
      if (c->names[k][2] == obj) {
        std::uint64_t raw = 0;
        std::memcpy(&raw, const_cast<const void*>(obj), sizeof raw);
        if (raw == 0) {  // the TimedWaiter is being destroyed by this fiber
          c->EraseNames(static_cast<int>(k));
        }
      }
    }
  }
}

std::string K(int k) {
  return std::to_string(k);
}

yaclib::Future<> CoInline(Ctx* c, int k) {
  if (c->wg != nullptr) {
    co_await c->wg->AwaitInline();
  } else {
    co_await c->ev->AwaitInline();
  }
  c->Released(k);
  co_return{};
}

yaclib::Future<> CoSticky(Ctx* c, int k) {
  co_await yaclib::On(c->exec);
  vrt::Event("begin " + K(k));
  if (c->wg != nullptr) {
    co_await c->wg->AwaitSticky();
  } else {
    co_await c->ev->AwaitSticky();
  }
  c->Released(k);
  co_return{};
}

yaclib::Future<> CoOn(Ctx* c, int k) {
  if (c->wg != nullptr) {
    co_await c->wg->AwaitOn(c->exec);
  } else {
    co_await c->ev->AwaitOn(c->exec);
  }
  c->Released(k);
  co_return{};
}

void RunWaiter(Ctx& c, int k) {
  const WaiterSpec& spec = c.p.waiters[k];
  c.fiber2w[yaclib::fault::Scheduler::GetId()] = k;
  if (spec.by_worker) {
    vrt::Event("as " + K(k));
  }
  switch (spec.kind) {
    case kBlock: {
      if (c.wg != nullptr) {
        c.wg->Wait();
      } else {
        c.ev->Wait();
      }
      c.EraseNames(k);
      c.Released(k);
      break;
    }
    case kTimed: {
      auto d = std::chrono::nanoseconds(spec.deadline);
      bool r;
      if (spec.until) {
        auto t = yaclib_std::chrono::steady_clock::now() + d;
        r = c.wg != nullptr ? c.wg->WaitUntil(t) : c.ev->WaitUntil(t);
      } else {
        r = c.wg != nullptr ? c.wg->WaitFor(d) : c.ev->WaitFor(d);
      }
      if (r) {
        c.Released(k);
      } else {
        ++c.tmo[k];
        vrt::Event("tmo " + K(k));
      }
      break;
    }
    case kInline:
      c.cofut[k] = CoInline(&c, k);
      break;
    case kSticky:
      c.cofut[k] = CoSticky(&c, k);
      break;
    case kOn:
      c.cofut[k] = CoOn(&c, k);
      break;
    case kJob: {
      c.jobs[k].k = k;
      if (!c.ev->TryAdd(c.jobs[k])) {
        c.Released(k);
      }
      break;
    }
  }
}

void RunWorker(Ctx& c, int i) {
  for (const Op& o : c.p.workers[i].ops) {
    switch (o.op) {
      case 'a':
        ++c.user_out;
        c.wg->Add(1);
        break;
      case 'd':
        --c.user_out;
        c.wg->Done(1);
        break;
      case 'A':
        c.fut_begun[o.arg] = 1;
        vrt::Event("op A " + K(o.arg));
        c.wg->Attach(c.futs[o.arg]);
        break;
      case 'C':
        c.fut_begun[o.arg] = 1;
        vrt::Event("op C " + K(o.arg));
        c.wg->Consume(std::move(c.futs[o.arg]));
        break;
      case 'r': {
        bool b = c.futs[o.arg].Ready();
        vrt::Event("ready " + K(o.arg) + (b ? " 1" : " 0"));
        if (b && !c.set_begun[o.arg]) {
          vrt::Fail("attached future is Ready() before its producer started to fulfil it");
        }
        break;
      }
      case 'S':
        --c.user_out;
        vrt::Event("op S");
        c.ev->Set();
        break;
      case 'W':
        RunWaiter(c, o.arg);
        break;
      case 'B':
      case 'I':
      case 'K':
      case 'L': {
        std::string list;
        for (int j : o.js) {
          c.fut_begun[j] = 1;
          list += (list.empty() ? "" : ",") + K(j);
        }
        const bool consume = o.op == 'K' || o.op == 'L';
        vrt::Event(std::string("op ") + (consume ? "K " : "B ") + list);
        auto& f = c.futs;
        const auto& js = o.js;
        if (o.op == 'B') {
          if (js.size() == 2) {
            c.wg->Attach(f[js[0]], f[js[1]]);
          } else {
            c.wg->Attach(f[js[0]], f[js[1]], f[js[2]]);
          }
        } else if (o.op == 'K') {
          if (js.size() == 2) {
            c.wg->Consume(std::move(f[js[0]]), std::move(f[js[1]]));
          } else {
            c.wg->Consume(std::move(f[js[0]]), std::move(f[js[1]]), std::move(f[js[2]]));
          }
        } else if (o.op == 'I') {
          c.wg->Attach(f.begin() + js[0], js.size());
        } else {
          c.wg->Consume(f.begin() + js[0], f.begin() + js[0] + static_cast<std::ptrdiff_t>(js.size()));
        }
        break;
      }
    }
  }
}

void RunProg(const Prog& p) {
  Ctx c(p);
  gC = &c;
  std::size_t n0 = 0;
  for (auto& w : p.workers) {
    n0 += static_cast<std::size_t>(w.units);
  }
  c.user_out = static_cast<long>(n0);
  std::optional<yaclib::WaitGroup<>> wg;
  std::optional<yaclib::OneShotEvent> ev;
  if (p.ose) {
    ev.emplace();
    c.ev = &*ev;
    c.head_addr = &ev->_head;
    vrt::NameLoc(&ev->_head, "h", FmtHead);
  } else {
    wg.emplace(n0);
    c.wg = &*wg;
    c.head_addr = &wg->_event._head;
    vrt::NameLoc(&wg->_event._head, "h", FmtHead);
    vrt::NameLoc(&wg->_event.count, "c", FmtDec);
    c.count_addr = &wg->_event.count;
  }
  for (std::size_t j = 0; j < p.futs.size(); ++j) {
    auto [f, pr] = yaclib::MakeContract<Val>();
    vrt::NameLoc(&f.GetCore()->_callback, "f" + std::to_string(j), FmtWord);
    c.futs.push_back(std::move(f));
    c.proms.push_back(std::move(pr));
  }
  {
    // the program, for the trace-to-model mapping
    std::string d = "prog n0=" + std::to_string(p.ose ? 0 : n0) + " W=";
    for (auto& w : p.waiters) {
      d += std::string(kWKName[w.kind]) + ",";
    }
    d += " F=";
    for (auto f : p.futs) {
      d += f == 0 ? "a," : "c,";
    }
    vrt::Event(d);
  }
  std::vector<yaclib_std::thread> ts;
  for (std::size_t i = 0; i < p.workers.size(); ++i) {
    ts.emplace_back([&c, i] {
      vrt::NameThread("D" + std::to_string(i));
      RunWorker(c, static_cast<int>(i));
    });
  }
  for (std::size_t j = 0; j < p.futs.size(); ++j) {
    ts.emplace_back([&c, j] {
      vrt::NameThread("P" + std::to_string(j));
      c.set_begun[j] = 1;
      vrt::Event("set " + std::to_string(j) + " " + std::to_string(100 + 7 * static_cast<int>(j)));
      std::move(c.proms[j]).Set(Val{static_cast<int>(j), 100 + 7 * static_cast<int>(j)});
    });
  }
  for (std::size_t k = 0; k < p.waiters.size(); ++k) {
    if (p.waiters[k].by_worker) {
      continue;
    }
    ts.emplace_back([&c, k] {
      vrt::NameThread("W" + std::to_string(k));
      RunWaiter(c, static_cast<int>(k));
    });
  }
  if (p.ticker > 0) {
    ts.emplace_back([&p] {
      vrt::NameThread("T");
      for (int i = 0; i < p.ticker; ++i) {
        yaclib_std::this_thread::yield();
      }
    });
  }
  for (auto& t : ts) {
    t.join();
  }
  // ---- oracle at the end of the run (property text) ------------------------------------------------------------
  if (c.Shadow() != 0) {
    vrt::Fail("harness: program left operations outstanding");
  }
  if (c.set_exchanges != 1) {
    vrt::Fail("Set ran " + std::to_string(c.set_exchanges) + " times");
  }
  if (!p.ose && c.zero_crossings != 1) {
    vrt::Fail("the count reached zero " + std::to_string(c.zero_crossings) + " times");
  }
  for (std::size_t k = 0; k < p.waiters.size(); ++k) {
    std::string nm = std::string(kWKName[p.waiters[k].kind]) + " waiter";
    if (c.tmo[k] != 0) {
      if (c.rel[k] != 0) {
        vrt::Fail(nm + " both timed out and was released");
      }
    } else if (c.rel[k] == 0) {
      vrt::Fail(nm + " is still parked although the count reached zero");
    } else if (c.rel[k] != 1) {
      vrt::Fail(nm + " released " + std::to_string(c.rel[k]) + " times");
    }
  }
  for (std::size_t j = 0; j < p.futs.size(); ++j) {
    const int want = 100 + 7 * static_cast<int>(j);
    if (p.futs[j] == 0) {
      // attached: still owned by us, must be Ready with its value, its state must not have been destroyed
      bool used = c.fut_begun[j] != 0;
      if (c.dtor[j] != 0) {
        vrt::Fail("the state of an attached future was destroyed by the WaitGroup");
      } else if (!c.futs[j].Valid()) {
        vrt::Fail("attached future is no longer valid for its owner");
      } else {
        const auto* r = std::as_const(c.futs[j]).Get();
        vrt::Event("final " + std::to_string(j) + " " +
                   (r == nullptr ? std::string("notready")
                                 : (r->State() == yaclib::ResultState::Value ? std::to_string(r->Value().v) : "bad")));
        if (r == nullptr) {
          vrt::Fail(std::string("attached future is not Ready() after the group was waited for") + (used ? "" : " (never attached)"));
        } else if (r->State() != yaclib::ResultState::Value || r->Value().v != want || r->Value().j != static_cast<int>(j)) {
          vrt::Fail("attached future does not hold the value that was set");
        }
      }
    } else {
      if (c.dtor[j] != 1) {
        vrt::Fail("the state of a consumed future was destroyed " + std::to_string(c.dtor[j]) + " times");
      }
    }
  }
  c.cleanup = true;
  c.futs.clear();
  c.proms.clear();
  c.cofut.clear();
  for (std::size_t j = 0; j < p.futs.size(); ++j) {
    if (c.dtor[j] != 1) {
      vrt::Fail("future state destroyed " + std::to_string(c.dtor[j]) + " times in total");
    }
  }
  gC = nullptr;
}

// ---------------------------------------------------------------------------------------------------------------
// programs

Prog Fixed(const std::string& name, int dl) {
  Prog p;
  auto W = [&](WK k, int d = 0, bool until = false) {
    p.waiters.push_back(WaiterSpec{k, d, until});
  };
  auto D = [&](int units, std::vector<Op> ops) {
    p.workers.push_back(WorkerSpec{units, std::move(ops)});
  };
  if (name == "wg/block_vs_done") {
    D(1, {{'d', 0}});
    W(kBlock);
  } else if (name == "wg/inline_vs_done") {
    D(1, {{'d', 0}});
    W(kInline);
  } else if (name == "wg/sticky_vs_done") {
    D(1, {{'d', 0}});
    W(kSticky);
  } else if (name == "wg/on_vs_done") {
    D(1, {{'d', 0}});
    W(kOn);
  } else if (name == "wg/timed_vs_done") {
    D(1, {{'d', 0}});
    D(1, {{'d', 0}});
    W(kTimed, dl);
  } else if (name == "wg/until_vs_done") {
    D(1, {{'d', 0}});
    D(1, {{'d', 0}});
    W(kTimed, dl, true);
  } else if (name == "wg/add_done") {
    D(1, {{'a', 0}, {'d', 0}, {'d', 0}});
    W(kBlock);
  } else if (name == "wg/two_waiters") {
    D(1, {{'d', 0}});
    W(kInline);
    W(kOn);
  } else if (name == "wg/block_inline") {
    D(1, {{'d', 0}});
    W(kBlock);
    W(kInline);
  } else if (name == "wg/attach_vs_set") {
    p.futs = {0};
    D(1, {{'A', 0}, {'r', 0}, {'d', 0}});
    W(kInline);
  } else if (name == "wg/consume_vs_set") {
    p.futs = {1};
    D(1, {{'C', 0}, {'d', 0}});
    W(kInline);
  } else if (name == "wg/consume_alone") {
    p.futs = {1};
    D(1, {{'C', 0}, {'d', 0}});
  } else if (name == "wg/batch_attach_seq") {  // WaitGroup<0>: Attach(f0, f1) then Wait() on the same thread
    p.futs = {0, 0};
    D(0, {{'B', 0, {0, 1}}, {'W', 0}});
    p.waiters.push_back(WaiterSpec{kBlock, 0, false, true});
  } else if (name == "wg/batch_consume_seq") {  // Consume(begin, end) then co_await on the same thread
    p.futs = {1, 1};
    D(0, {{'L', 0, {0, 1}}, {'W', 0}});
    p.waiters.push_back(WaiterSpec{kInline, 0, false, true});
  } else if (name == "wg/batch_attach_it_timed") {  // Attach(begin, 2) then WaitFor on the same thread
    p.futs = {0, 0};
    D(0, {{'I', 0, {0, 1}}, {'W', 0}});
    p.waiters.push_back(WaiterSpec{kTimed, dl, false, true});
  } else if (name == "wg/batch_consume_var_conc") {  // Consume(f0, f1) with a concurrent waiter, WaitGroup<0>
    p.futs = {1, 1};
    D(0, {{'K', 0, {0, 1}}});
    W(kInline);
  } else if (name == "wg/batch_attach_held") {  // WaitGroup<1>: the attaching worker holds a unit of its own
    p.futs = {0, 0};
    D(1, {{'I', 0, {0, 1}}, {'r', 0}, {'d', 0}});
    W(kInline);
  } else if (name == "wg/batch3_consume_seq") {  // three futures in one Consume(begin, 3)
    p.futs = {1, 1, 1};
    D(0, {{'L', 0, {0, 1, 2}}, {'W', 0}});
    p.waiters.push_back(WaiterSpec{kBlock, 0, false, true});
  } else if (name == "wg/attach_block") {
    p.futs = {0};
    D(1, {{'A', 0}, {'d', 0}, {'r', 0}});
    W(kBlock);
  } else if (name == "ose/job_vs_set") {
    p.ose = true;
    D(1, {{'S', 0}});
    W(kJob);
  } else if (name == "ose/block_vs_set") {
    p.ose = true;
    D(1, {{'S', 0}});
    W(kBlock);
  } else if (name == "ose/inline_vs_set") {
    p.ose = true;
    D(1, {{'S', 0}});
    W(kInline);
  } else if (name == "ose/on_vs_set") {
    p.ose = true;
    D(1, {{'S', 0}});
    W(kOn);
  } else if (name == "ose/timed_vs_set") {
    p.ose = true;
    D(1, {{'S', 0}});
    W(kTimed, dl);
    p.ticker = 2;
  } else if (name == "ose/two_jobs") {
    p.ose = true;
    D(1, {{'S', 0}});
    W(kJob);
    W(kJob);
  }
  return p;
}

// a random program: 3 workers, 3 waiters of mixed kinds, up to 2 futures
Prog Mixed(std::uint64_t seed) {
  std::mt19937_64 rng(seed * 0x9E3779B97F4A7C15ull + 12345);
  auto pick = [&](int n) {
    return static_cast<int>(rng() % static_cast<std::uint64_t>(n));
  };
  Prog p;
  int nf = pick(4);
  for (int j = 0; j < nf; ++j) {
    // neighbours often share the kind, so that they can go into one Attach / Consume call
    p.futs.push_back(j > 0 && pick(3) != 0 ? p.futs[j - 1] : pick(2));
  }
  int next_f = 0;
  for (int i = 0; i < 3; ++i) {
    WorkerSpec w;
    w.units = 1;
    int extra = 0;
    int steps = pick(3);
    for (int s = 0; s < steps; ++s) {
      int r = pick(3);
      if (r == 0) {
        w.ops.push_back({'a', 0});
        ++extra;
      } else if (r == 1 && extra > 0) {
        w.ops.push_back({'d', 0});
        --extra;
      } else if (next_f + 1 < nf && p.futs[next_f] == p.futs[next_f + 1] && pick(2) == 0) {
        // one call for two or three futures of the same kind, variadic or iterator form
        std::vector<int> js = {next_f, next_f + 1};
        if (next_f + 2 < nf && p.futs[next_f + 2] == p.futs[next_f] && pick(2) == 0) {
          js.push_back(next_f + 2);
        }
        next_f += static_cast<int>(js.size());
        bool it = pick(2) == 0;
        w.ops.push_back(Op{p.futs[js[0]] == 0 ? (it ? 'I' : 'B') : (it ? 'L' : 'K'), 0, js});
        if (p.futs[js[0]] == 0) {
          w.ops.push_back({'r', js[pick(static_cast<int>(js.size()))]});
        }
      } else if (next_f < nf) {
        int j = next_f++;
        w.ops.push_back({p.futs[j] == 0 ? 'A' : 'C', j});
        if (p.futs[j] == 0) {
          w.ops.push_back({'r', j});
        }
      }
    }
    for (int e = 0; e < extra + 1; ++e) {
      w.ops.push_back({'d', 0});
    }
    p.workers.push_back(std::move(w));
  }
  // futures nobody picked up are attached by worker 0 before its first Done
  while (next_f < nf) {
    int j = next_f++;
    auto& ops = p.workers[0].ops;
    ops.insert(ops.begin(), Op{p.futs[j] == 0 ? 'A' : 'C', j});
  }
  for (int k = 0; k < 3; ++k) {
    WaiterSpec w;
    w.kind = static_cast<WK>(pick(5));
    w.deadline = 10 * (1 + pick(12));
    w.until = pick(2) == 1;
    p.waiters.push_back(w);
  }
  return p;
}

std::string Describe(const Prog& p) {
  std::string s = p.ose ? "ose" : "wg";
  for (auto& w : p.workers) {
    s += " D(" + std::to_string(w.units) + ":";
    for (auto& o : w.ops) {
      s += o.op;
      if (o.op == 'A' || o.op == 'C' || o.op == 'r' || o.op == 'W') {
        s += std::to_string(o.arg);
      }
      for (int j : o.js) {
        s += std::to_string(j);
      }
    }
    s += ")";
  }
  for (auto f : p.futs) {
    s += f == 0 ? " Fa" : " Fc";
  }
  for (auto& w : p.waiters) {
    s += std::string(" W") + kWKName[w.kind];
    if (w.kind == kTimed) {
      s += (w.until ? "U" : "F") + std::to_string(w.deadline);
    }
  }
  return s;
}

}  // namespace

int main(int argc, char** argv) {
  vrt::Main m(argc, argv);
  yaclib::verif::gHooks.after = MyAfter;
  const char* fixed[] = {"wg/block_vs_done",  "wg/inline_vs_done", "wg/sticky_vs_done", "wg/on_vs_done",
                         "wg/add_done",       "wg/two_waiters",    "wg/block_inline",   "wg/attach_vs_set",
                         "wg/consume_vs_set", "wg/consume_alone",   "wg/attach_block",   "wg/batch_attach_seq",
                         "wg/batch_consume_seq", "wg/batch_consume_var_conc", "wg/batch_attach_held", "wg/batch3_consume_seq",   "ose/job_vs_set",    "ose/block_vs_set",
                         "ose/inline_vs_set", "ose/on_vs_set",     "ose/two_jobs"};
  for (const char* n : fixed) {
    Prog p = Fixed(n, 0);
    m.Scenario(n, [p] {
      RunProg(p);
    });
  }
  // timed scenarios: the deadline is a scenario parameter (virtual time advances 10 ns per scheduler step)
  for (int dl : {10, 20, 30, 50, 80}) {
    for (const char* n : {"wg/timed_vs_done", "ose/timed_vs_set", "wg/until_vs_done", "wg/batch_attach_it_timed"}) {
      Prog p = Fixed(n, dl);
      m.Scenario(std::string(n) + "/dl=" + std::to_string(dl), [p] {
        RunProg(p);
      });
    }
  }
  // random mixes: --param mixes=<count> --param pseed=<seed of the program generator>
  int mixes = std::atoi(m.Param("mixes", "0").c_str());
  std::uint64_t pseed = std::strtoull(m.Param("pseed", "1").c_str(), nullptr, 10);
  for (int i = 0; i < mixes; ++i) {
    Prog p = Mixed(pseed * 1000 + static_cast<std::uint64_t>(i));
    std::string name = "mix/" + std::to_string(i) + " " + Describe(p);
    m.Scenario(name, [p] {
      RunProg(p);
    });
  }
  return m.Finish();
}
