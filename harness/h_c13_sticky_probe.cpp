// C13: does coro/await_sticky.hpp compile, and can the variadic and the iterator AwaitSticky be instantiated?
// (It did not before commit 220638f: `Count<...>` for `kCount<...>`.)  Compiled with -fsyntax-only by checks/c13.py;
// the main harness uses AwaitSticky only when this translation unit compiles.
#include "vrt_all.hpp"

#include <yaclib/coro/await_sticky.hpp>

namespace {

yaclib::Future<int> Probe(yaclib::Future<int>& a, yaclib::Future<int>& b, yaclib::SharedFuture<int>& c,
                          std::vector<yaclib::Future<int>>& v) {
  co_await yaclib::AwaitSticky(a);
  co_await yaclib::AwaitSticky(c);
  co_await yaclib::AwaitSticky(a, b);
  co_await yaclib::AwaitSticky(a, c);
  co_await yaclib::AwaitSticky(v.begin(), v.size());
  co_await yaclib::AwaitSticky(v.begin(), v.end());
  co_return 0;
}

}  // namespace

int main() {
  (void)&Probe;
  return 0;
}
