// C02 (and C12, see h_c12.cpp) — driver: reads pipeline programs (one s-expression per line, see tools/gen_pipeline_table.py
// and checks/c02.py for the grammar), runs each on the real library in a forked worker (a crash in one program does not
// lose the others), prints one JSON line per program.
//
//   h_c02 --programs <file> [--no-fork]         run every program of the file
//   h_c02 --one '<program>'                     run one program in this process (replay)
#include "h_c02_lib.hpp"

namespace h {
void RegisterAll();
int ThenCells();
int RunCells();
}  // namespace h

namespace {

std::string Json(const std::string& s) {
  std::string o;
  for (char c : s) {
    if (c == '"' || c == '\\') {
      o.push_back('\\');
    }
    o.push_back(c);
  }
  return o;
}

std::string RunLine(std::size_t idx, const std::string& text) {
  if (text.rfind("(share ", 0) == 0) {
    // (share <extra handles> SRC P1 P2)
    h::Parser ps{text.c_str() + 7};
    const int extra = ps.Int();
    h::Prog src = ps.ParseProg();
    h::Prog p1 = ps.ParseProg();
    h::Prog p2 = ps.ParseProg();
    h::ShareOutcome o = h::RunShare(extra, src, p1, p2);
    return "{\"i\":" + std::to_string(idx) + ",\"final\":\"" + o.direct.Str() + "\",\"final1\":\"" + o.final1.Str() +
           "\",\"final2\":\"" + o.final2.Str() + "\",\"again\":\"" + o.direct_again.Str() + "\",\"events\":\"" +
           h::EventsStr(o.events) + "\",\"live\":" + std::to_string(o.live_after) +
           ",\"once\":" + (o.tokens_once ? "true" : "false") + ",\"fail\":\"" + Json(o.fail) + "\",\"key\":\"" + o.key + "\"}\n";
  }
  h::Parser ps{text.c_str()};
  h::Prog p = ps.ParseProg();
  h::Outcome o = h::RunProgram(p);
  std::string line = "{\"i\":" + std::to_string(idx) + ",\"final\":\"" + o.final.Str() + "\",\"events\":\"" +
                     h::EventsStr(o.events) + "\",\"live\":" + std::to_string(o.live_after) +
                     ",\"once\":" + (o.tokens_once ? "true" : "false") + ",\"fail\":\"" + Json(o.fail) + "\",\"key\":\"" +
                     o.key + "\"}\n";
  return line;
}

void WriteAll(int fd, const std::string& s) {
  std::size_t off = 0;
  while (off < s.size()) {
    auto n = ::write(fd, s.data() + off, s.size() - off);
    if (n <= 0) {
      std::_Exit(5);
    }
    off += static_cast<std::size_t>(n);
  }
}

}  // namespace

int main(int argc, char** argv) {
  std::string file;
  std::string one;
  bool no_fork = false;
  for (int i = 1; i < argc; ++i) {
    std::string a = argv[i];
    if (a == "--programs" && i + 1 < argc) {
      file = argv[++i];
    } else if (a == "--one" && i + 1 < argc) {
      one = argv[++i];
    } else if (a == "--no-fork") {
      no_fork = true;
    } else if (a == "--cells") {
      std::printf("{\"then_cells\":%d,\"run_cells\":%d}\n", h::ThenCells(), h::RunCells());
      return 0;
    }
  }
  h::RegisterAll();
  if (!one.empty()) {
    std::fputs(RunLine(0, one).c_str(), stdout);
    return 0;
  }
  std::vector<std::string> progs;
  {
    std::ifstream in{file};
    std::string l;
    while (std::getline(in, l)) {
      if (!l.empty()) {
        progs.push_back(l);
      }
    }
  }
  std::size_t next = 0;
  while (next < progs.size()) {
    if (no_fork) {
      for (; next < progs.size(); ++next) {
        std::fputs(RunLine(next, progs[next]).c_str(), stdout);
      }
      break;
    }
    int fds[2];
    if (::pipe(fds) != 0) {
      return 6;
    }
    std::fflush(stdout);
    pid_t pid = ::fork();
    if (pid == 0) {
      ::close(fds[0]);
      for (std::size_t i = next; i < progs.size(); ++i) {
        ::alarm(20);
        WriteAll(fds[1], RunLine(i, progs[i]));
      }
      std::_Exit(0);
    }
    ::close(fds[1]);
    std::size_t done = 0;
    std::string buf;
    char tmp[65536];
    for (;;) {
      auto n = ::read(fds[0], tmp, sizeof tmp);
      if (n <= 0) {
        break;
      }
      buf.append(tmp, static_cast<std::size_t>(n));
      std::size_t pos;
      while ((pos = buf.find('\n')) != std::string::npos) {
        std::fwrite(buf.data(), 1, pos + 1, stdout);
        buf.erase(0, pos + 1);
        ++done;
      }
    }
    ::close(fds[0]);
    int status = 0;
    ::waitpid(pid, &status, 0);
    next += done;
    if (next < progs.size()) {
      // the worker died while running program `next`
      int sig = WIFSIGNALED(status) ? WTERMSIG(status) : 0;
      int code = WIFEXITED(status) ? WEXITSTATUS(status) : 0;
      std::printf("{\"i\":%zu,\"crash\":%d,\"exit\":%d,\"fail\":\"the library crashed (signal %d, exit %d)\",\"key\":\"crash\"}\n", next,
                  sig, code, sig, code);
      ++next;
    }
  }
  std::fflush(stdout);
  return 0;
}
