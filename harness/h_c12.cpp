// C12 — a Task does nothing until started, then behaves like the same eager pipeline; destroying it.
// Same program interpreter and table as C02 (h_c02_lib.hpp); every line is "<start kind> <executor> <lazy program>".
//   start kinds: tofuture | tofuture_on | get | detach | detach_on | inner | coawait | await | await_destroy | drop
// The program must end in a Task (a lazy source followed by Then steps).  Printed per program: callbacks seen before the
// start, final Result where the start kind exposes one, all callbacks (id, argument), functor construction/destruction
// accounting.  The oracle below is written from the property text.
#include "h_c02_lib.hpp"

namespace h {
void RegisterAll();

#if YACLIB_CORO != 0
template <class V>
Fut<V> CoAwaitMove(Tsk<V> t) {
  try {
    if constexpr (std::is_void_v<V>) {
      co_await std::move(t);
      co_return yaclib::Unit{};
    } else {
      Pay v = co_await std::move(t);
      co_return v;
    }
  } catch (yaclib::ResultError<Err>& e) {
    co_return e.Get();
  } catch (...) {
    co_return std::current_exception();
  }
}

template <class V>
Fut<V> CoAwaitKeep(Tsk<V> t, bool destroy_completed) {
  co_await Await(t);
  if (destroy_completed) {
    Rs<V> r = std::as_const(t).Touch();  // t stays valid and completed; it is destroyed with the frame
    co_return r;
  }
  co_return std::move(t).Touch();
}
#endif

template <class V>
struct ReturnTask {
  Tsk<V> task;
  Tsk<V> operator()() {
    return std::move(task);
  }
};

struct LazyOutcome {
  std::size_t before = 0;
  bool has_final = false;
  Res final;
  std::vector<Event> events;
  int live_after = 0;
  bool tokens_once = true;
  std::string fail;
  std::string key;
};

template <class V>
void StartTask(Ctx& ctx, Tsk<V>&& task, const std::string& kind, const Exec& ex, LazyOutcome& out) {
  auto& e = ctx.Executor(ex);
  auto finish = [&](auto&& fut) {
    ctx.Quiesce();
    out.has_final = true;
    out.final = fut.Ready() ? DescResult(std::move(fut).Get()) : Res{5, 0};
  };
  if (kind == "tofuture") {
    finish(std::move(task).ToFuture());
  } else if (kind == "tofuture_on") {
    finish(std::move(task).ToFuture(e));
  } else if (kind == "get") {
    out.has_final = true;
    out.final = DescResult(std::move(task).Get());
  } else if (kind == "detach") {
    std::move(task).Detach();
    ctx.Quiesce();
  } else if (kind == "detach_on") {
    std::move(task).Detach(e);
    ctx.Quiesce();
  } else if (kind == "inner") {
    finish(yaclib::MakeFuture<void, Err>().ThenInline(ReturnTask<V>{std::move(task)}));
  } else if (kind == "drop") {
    {
      Tsk<V> doomed = std::move(task);
    }
    ctx.Quiesce();
#if YACLIB_CORO != 0
  } else if (kind == "coawait") {
    finish(CoAwaitMove<V>(std::move(task)));
  } else if (kind == "await") {
    finish(CoAwaitKeep<V>(std::move(task), false));
  } else if (kind == "await_destroy") {
    finish(CoAwaitKeep<V>(std::move(task), true));
#endif
  } else {
    Die("unknown start kind");
  }
}

// ---- oracle: "nothing runs before it is started; once started every step runs at most once, in pipeline order, and the
// final Result is the one the same pipeline written eagerly produces; destroying a never-started Task cancels the chain
// with StopError (a value callback cannot run unless a Result/E-taking callback recovered first) and releases every
// functor; destroying a completed one just releases its result"
inline Expect OracleStarted(const Prog& p, const Exec* on) {
  Prog q = p;
  if (on != nullptr) {
    // the eager twin whose first core is handed to *on
    if (q.src.kind == 2 || q.src.kind == 3) {
      q.src.exec = *on;
    } else if (on->Stopped()) {
      // MakeTask / coroutine dropped: StopError, the coroutine body does not run
      q.src.kind = 1;
      q.src.res = Res{2, -1};
      q.src.exec = *on;
    } else {
      // started on another alive executor: same value, later Then(f) steps inherit that executor
      if (q.src.kind == 0) {
        q.src.kind = 1;
        q.src.exec = *on;
      }
    }
  }
  return Oracle(q);
}

inline LazyOutcome RunLazy(const std::string& kind, const Exec& ex, const Prog& p) {
  LazyOutcome out;
  {
    Ctx ctx;
    Cur() = &ctx;
    {
      World w = ctx.Build(p);
      ctx.Quiesce();
      out.before = ctx.events.size();
      if (auto* ti = std::get_if<Tsk<int>>(&w)) {
        StartTask<int>(ctx, std::move(*ti), kind, ex, out);
      } else if (auto* tv = std::get_if<Tsk<void>>(&w)) {
        StartTask<void>(ctx, std::move(*tv), kind, ex, out);
      } else {
        Die("C12 program does not end in a Task");
      }
      ctx.Quiesce();
    }
    ctx.Quiesce();
    out.events = ctx.events;
    out.live_after = ctx.live;
    for (auto& [id, n] : ctx.created) {
      if (ctx.destroyed[id] != n) {
        out.tokens_once = false;
      }
    }
    Cur() = nullptr;
  }
  const Exec stopped{2, 0};
  const bool on = kind == "tofuture_on" || kind == "detach_on";
  Expect x = OracleStarted(p, kind == "drop" ? &stopped : on ? &ex : nullptr);
  std::vector<std::pair<int, Input>> got;
  for (const auto& e : out.events) {
    got.emplace_back(e.id, e.in);
  }
  if (out.before != 0) {
    out.fail = std::to_string(out.before) + " callbacks ran before the Task was started";
    out.key = "ran-before-start";
  } else if (out.has_final && !(out.final == x.res)) {
    out.fail = "final Result is " + out.final.Str() + ", the eager twin gives " + x.res.Str();
    out.key = "final";
  } else if (got != x.calls) {
    std::string want;
    for (auto& c : x.calls) {
      want += std::to_string(c.first) + ":" + c.second.Str() + ",";
    }
    out.fail = "callbacks invoked [" + EventsStr(out.events) + "], expected [" + want + "]";
    out.key = "calls";
  } else if (!out.tokens_once || out.live_after != 0) {
    out.fail = "a captured functor was not destroyed exactly once (still alive: " + std::to_string(out.live_after) + ")";
    out.key = "functor-lifetime";
  }
  return out;
}

}  // namespace h

namespace {

std::string Json(const std::string& s) {
  std::string o;
  for (char c : s) {
    if (c == '"' || c == '\\') {
      o.push_back('\\');
    }
    o.push_back(c);
  }
  return o;
}

std::string RunLine(std::size_t idx, const std::string& text) {
  h::Parser ps{text.c_str()};
  std::string kind = ps.Word();
  h::Exec ex = ps.ParseExec();
  h::Prog p = ps.ParseProg();
  h::LazyOutcome o = h::RunLazy(kind, ex, p);
  return "{\"i\":" + std::to_string(idx) + ",\"before\":" + std::to_string(o.before) + ",\"final\":\"" +
         (o.has_final ? o.final.Str() : std::string{"none:0"}) + "\",\"events\":\"" + h::EventsStr(o.events) +
         "\",\"live\":" + std::to_string(o.live_after) + ",\"once\":" + (o.tokens_once ? "true" : "false") + ",\"fail\":\"" +
         Json(o.fail) + "\",\"key\":\"" + o.key + "\"}\n";
}

void WriteAll(int fd, const std::string& s) {
  std::size_t off = 0;
  while (off < s.size()) {
    auto n = ::write(fd, s.data() + off, s.size() - off);
    if (n <= 0) {
      std::_Exit(5);
    }
    off += static_cast<std::size_t>(n);
  }
}

}  // namespace

int main(int argc, char** argv) {
  std::string file;
  for (int i = 1; i < argc; ++i) {
    std::string a = argv[i];
    if (a == "--programs" && i + 1 < argc) {
      file = argv[++i];
    }
  }
  h::RegisterAll();
  std::vector<std::string> progs;
  {
    std::ifstream in{file};
    std::string l;
    while (std::getline(in, l)) {
      if (!l.empty()) {
        progs.push_back(l);
      }
    }
  }
  std::size_t next = 0;
  while (next < progs.size()) {
    int fds[2];
    if (::pipe(fds) != 0) {
      return 6;
    }
    std::fflush(stdout);
    pid_t pid = ::fork();
    if (pid == 0) {
      ::close(fds[0]);
      for (std::size_t i = next; i < progs.size(); ++i) {
        ::alarm(20);
        WriteAll(fds[1], RunLine(i, progs[i]));
      }
      std::_Exit(0);
    }
    ::close(fds[1]);
    std::size_t done = 0;
    std::string buf;
    char tmp[65536];
    for (;;) {
      auto n = ::read(fds[0], tmp, sizeof tmp);
      if (n <= 0) {
        break;
      }
      buf.append(tmp, static_cast<std::size_t>(n));
      std::size_t pos;
      while ((pos = buf.find('\n')) != std::string::npos) {
        std::fwrite(buf.data(), 1, pos + 1, stdout);
        buf.erase(0, pos + 1);
        ++done;
      }
    }
    ::close(fds[0]);
    int status = 0;
    ::waitpid(pid, &status, 0);
    next += done;
    if (next < progs.size()) {
      int sig = WIFSIGNALED(status) ? WTERMSIG(status) : 0;
      int code = WIFEXITED(status) ? WEXITSTATUS(status) : 0;
      std::printf("{\"i\":%zu,\"crash\":%d,\"exit\":%d,\"fail\":\"the library crashed (signal %d, exit %d)\",\"key\":\"crash\"}\n", next,
                  sig, code, sig, code);
      ++next;
    }
  }
  std::fflush(stdout);
  return 0;
}
