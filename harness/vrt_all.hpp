// Includes the whole public API of the library with private members reachable (the harness names
// internal atomic words such as BaseCore::_callback), then the explorer runtime.
#pragma once

#include <algorithm>
#include <array>
#include <atomic>
#include <cassert>
#include <chrono>
#include <condition_variable>
#include <csignal>
#include <cstddef>
#include <cstdint>
#include <cstdio>
#include <cstdlib>
#include <cstring>
#include <exception>
#include <functional>
#include <iostream>
#include <iterator>
#include <limits>
#include <map>
#include <memory>
#include <mutex>
#include <optional>
#include <random>
#include <set>
#include <shared_mutex>
#include <sstream>
#include <stdexcept>
#include <string>
#include <string_view>
#include <system_error>
#include <thread>
#include <tuple>
#include <type_traits>
#include <unordered_map>
#include <utility>
#include <variant>
#include <vector>
#if __has_include(<coroutine>)
#  include <coroutine>
#endif
#include <unistd.h>

#define private public
#define protected public
#include <yaclib/algo/one_shot_event.hpp>
#include <yaclib/algo/wait_group.hpp>
#include <yaclib/async/connect.hpp>
#include <yaclib/async/contract.hpp>
#include <yaclib/async/future.hpp>
#include <yaclib/async/join.hpp>
#include <yaclib/async/make.hpp>
#include <yaclib/async/promise.hpp>
#include <yaclib/async/run.hpp>
#include <yaclib/async/share.hpp>
#include <yaclib/async/shared_contract.hpp>
#include <yaclib/async/shared_future.hpp>
#include <yaclib/async/shared_promise.hpp>
#include <yaclib/async/split.hpp>
#include <yaclib/async/wait.hpp>
#include <yaclib/async/wait_for.hpp>
#include <yaclib/async/wait_until.hpp>
#include <yaclib/async/when_all.hpp>
#include <yaclib/async/when_any.hpp>
#include <yaclib/exe/executor.hpp>
#include <yaclib/exe/inline.hpp>
#include <yaclib/exe/manual.hpp>
#include <yaclib/exe/strand.hpp>
#include <yaclib/exe/submit.hpp>
#include <yaclib/lazy/make.hpp>
#include <yaclib/lazy/schedule.hpp>
#include <yaclib/lazy/task.hpp>
#include <yaclib/runtime/fair_thread_pool.hpp>
#include <yaclib/util/result.hpp>
#if YACLIB_CORO != 0 && !defined(VRT_NO_CORO)
#  include <yaclib/coro/await.hpp>
#  include <yaclib/coro/await_inline.hpp>
#  include <yaclib/coro/await_on.hpp>
#  include <yaclib/coro/current_executor.hpp>
#  include <yaclib/coro/future.hpp>
#  include <yaclib/coro/guard.hpp>
#  include <yaclib/coro/guard_sticky.hpp>
#  include <yaclib/coro/mutex.hpp>
#  include <yaclib/coro/on.hpp>
#  include <yaclib/coro/shared_future.hpp>
#  include <yaclib/coro/shared_mutex.hpp>
#  include <yaclib/coro/task.hpp>
#  include <yaclib/coro/yield.hpp>
#endif
#if YACLIB_FAULT == 2
#  include "verif_rt.hpp"
VRT_DEFINE_QUEUE_ACCESS()
#endif
#undef private
#undef protected
