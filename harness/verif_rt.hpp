// Harness runtime for the /verif checks: schedule explorer + tracer on top of the YACLIB_VERIF hooks
// of the FIBER fault backend.  Header-only; include from exactly one translation unit.
//
// An *execution* runs a scenario (a callable) on a fresh fault::Scheduler inside a root fiber.  Every
// scheduling decision of the fiber backend is handed to the explorer, which numbers the decisions in the
// order they occur; the vector of decisions identifies the execution and is its replay.
//
// Modes: exhaustive DFS over the decision tree (optionally preemption-bounded), seeded random walks,
// replay of one decision vector.
#pragma once

#include <yaclib/fault/config.hpp>
#include <yaclib/fault/detail/fiber/scheduler.hpp>
#include <yaclib/fault/injector.hpp>
#include <yaclib/fault/verif.hpp>
#include <yaclib/log.hpp>
#include <yaclib_std/thread>

#include <algorithm>
#include <csignal>
#include <cstdint>
#include <cstdio>
#include <cstdlib>
#include <cstring>
#include <functional>
#include <map>
#include <random>
#include <sstream>
#include <string>
#include <unistd.h>
#include <unordered_map>
#include <vector>

namespace vrt {

struct Options {
  bool yields = true;         // explore preemption at every wrapped operation
  int preemption_bound = -1;  // max voluntary preemptions per execution (-1 = unbounded)
  int weak_fail_budget = 0;   // max injected spurious weak-CAS failures per execution
  int max_choices = 400;      // executions with more decisions are cut (reported as "cut")
  int spin_limit = 64;        // same fiber repeating the same op on the same object: force a switch
  // Where a preemption is offered around a wrapped operation `op` (InjectFault runs before and after it):
  //   0 = before `op` only (default): the plain code that follows an operation runs in one piece with it;
  //   1 = after `op` only: the plain code that precedes an operation runs in one piece with it, and a fiber can
  //       be stopped right after its operation, before the plain code that follows (e.g. a store after a publish);
  //   2 = both.  The set of interleavings of the wrapped operations themselves is the same in all three.
  int yield_at = 0;
};

struct Loc {
  std::string name;
  std::function<std::string(std::uint64_t)> fmt;  // may be empty
};

struct State {
  Options opt;
  // decision stack
  std::vector<int> prefix;
  std::vector<int> taken;
  std::vector<int> width;
  std::mt19937_64 rng{1};
  bool random_mode = false;
  // per-execution
  bool active = false;
  bool at_before = false;
  bool inject_second = false;  // the InjectFault() in front of the current operation has already been seen
  bool yielding = false;
  int preemptions = 0;
  int weak_fails = 0;
  bool cut = false;
  std::uint64_t root_id = 0;
  std::uint64_t cur = 0;
  const volatile void* last_obj = nullptr;
  std::string last_op;
  std::uint64_t last_fiber = 0;
  int repeat = 0;
  yaclib::fault::Scheduler* sched = nullptr;
  std::string trace;
  std::vector<std::string> failures;
  std::unordered_map<const volatile void*, Loc> locs;
  std::unordered_map<std::uint64_t, std::string> fiber_names;
  bool trace_unknown = false;
  std::string scenario_name;  // set by vrt::Main::Scenario; printed by the crash handler
  int unknown_next = 0;
  std::unordered_map<const volatile void*, int> unknown;
  std::uint64_t ops = 0;
};

inline State g;

inline int Next(int n) {
  if (n <= 1) {
    return 0;
  }
  if (static_cast<int>(g.taken.size()) >= g.opt.max_choices) {
    g.cut = true;
    return 0;
  }
  int c;
  std::size_t pos = g.taken.size();
  if (pos < g.prefix.size()) {
    c = g.prefix[pos] % n;
  } else if (g.random_mode) {
    c = static_cast<int>(g.rng() % static_cast<std::uint64_t>(n));
  } else {
    c = 0;
  }
  g.taken.push_back(c);
  g.width.push_back(n);
  return c;
}

inline std::string FiberName(std::uint64_t id) {
  auto it = g.fiber_names.find(id);
  if (it != g.fiber_names.end()) {
    return it->second;
  }
  return "f" + std::to_string(id - g.root_id);
}

inline void Event(const std::string& text) {
  if (!g.active) {
    return;
  }
  g.trace += FiberName(g.cur);
  g.trace += ":!";
  g.trace += text;
  g.trace += ';';
}

inline void Fail(const std::string& what) {
  g.failures.push_back(what);
}

inline void NameThread(const std::string& name) {
  g.fiber_names[yaclib::fault::Scheduler::GetId()] = name;
}

inline void NameLoc(const volatile void* addr, std::string name, std::function<std::string(std::uint64_t)> fmt = {}) {
  g.locs[addr] = Loc{std::move(name), std::move(fmt)};
}

namespace detail {

inline bool QueueEmpty();  // defined by the includer through VRT_DEFINE_QUEUE_ACCESS (needs private access)

inline std::int64_t Choose(int kind, std::uint64_t n) {
  if (!g.active) {
    return kind == yaclib::verif::kYield || kind == yaclib::verif::kWeakFail || kind == yaclib::verif::kRand ? 0 : -1;
  }
  switch (kind) {
    case yaclib::verif::kYield: {
      if (!g.at_before) {
        return 0;
      }
      {
        const bool second = g.inject_second;
        g.inject_second = true;
        const bool decide_here = second ? g.opt.yield_at != 0 : g.opt.yield_at != 1;
        if (second || g.opt.yield_at == 0) {
          g.at_before = false;
        }
        if (!decide_here) {
          return 0;
        }
      }
      if (!g.opt.yields || QueueEmpty()) {
        return 0;
      }
      if (g.repeat >= g.opt.spin_limit) {  // spinning: a fair scheduler eventually runs somebody else
        g.repeat = 0;
        g.yielding = true;
        return 1;
      }
      if (g.opt.preemption_bound >= 0 && g.preemptions >= g.opt.preemption_bound) {
        return 0;
      }
      int c = Next(2);
      if (c == 1) {
        ++g.preemptions;
        g.yielding = true;
      }
      return c;
    }
    case yaclib::verif::kPick:
      return Next(static_cast<int>(n));
    case yaclib::verif::kWeakFail: {
      if (g.weak_fails >= g.opt.weak_fail_budget) {
        return 0;
      }
      int c = Next(2);
      if (c == 1) {
        ++g.weak_fails;
      }
      return c;
    }
    default:
      return 0;
  }
}

inline std::int64_t PickFiber(const std::uint64_t* /*ids*/, std::size_t n, std::int64_t self) {
  if (!g.active) {
    return 0;
  }
  bool excl = g.yielding && self >= 0 && n > 1;
  g.yielding = false;
  if (excl) {
    int k = Next(static_cast<int>(n) - 1);
    return k < self ? k : k + 1;
  }
  return Next(static_cast<int>(n));
}

inline void Before(const volatile void* obj, const char* op) {
  if (!g.active) {
    return;
  }
  g.at_before = true;
  g.inject_second = false;
  if (obj == g.last_obj && g.cur == g.last_fiber && g.last_op == op) {
    ++g.repeat;
  } else {
    g.repeat = 0;
    g.last_obj = obj;
    g.last_fiber = g.cur;
    g.last_op = op;
  }
}

inline void After(const volatile void* obj, std::size_t size, const char* op) {
  if (!g.active) {
    return;
  }
  ++g.ops;
  auto it = g.locs.find(obj);
  std::string name;
  const Loc* loc = nullptr;
  if (it != g.locs.end()) {
    loc = &it->second;
    name = loc->name;
  } else if (g.trace_unknown) {
    auto u = g.unknown.find(obj);
    if (u == g.unknown.end()) {
      u = g.unknown.emplace(obj, g.unknown_next++).first;
    }
    name = "u" + std::to_string(u->second);
  } else {
    return;
  }
  std::uint64_t raw = 0;
  std::memcpy(&raw, const_cast<const void*>(obj), size < 8 ? size : 8);
  g.trace += FiberName(g.cur);
  g.trace += ':';
  g.trace += op;
  g.trace += '@';
  g.trace += name;
  g.trace += '=';
  if (loc != nullptr && loc->fmt) {
    g.trace += loc->fmt(raw);
  } else if (raw < 4096) {
    g.trace += std::to_string(raw);
  } else {
    g.trace += 'p';
  }
  g.trace += ';';
}

inline void Resume(std::uint64_t id) {
  g.cur = id;
}

inline void OnAssert(std::string_view file, std::size_t line, std::string_view /*func*/, std::string_view cond,
                     std::string_view msg) noexcept {
  auto slash = file.rfind('/');
  std::string f{slash == std::string_view::npos ? file : file.substr(slash + 1)};
  Fail("assert " + std::string{cond} + " " + std::string{msg} + " at " + f + ":" + std::to_string(line));
}

inline char gCrashBuf[8192];
inline void CrashHandler(int sig) {
  // best effort: dump the decision vector of the execution that crashed
  int n = std::snprintf(gCrashBuf, sizeof(gCrashBuf), "CRASH signal=%d choices=", sig);
  for (std::size_t i = 0; i < g.taken.size() && n < static_cast<int>(sizeof(gCrashBuf)) - 16; ++i) {
    n += std::snprintf(gCrashBuf + n, sizeof(gCrashBuf) - n, "%d,", g.taken[i]);
  }
  n += std::snprintf(gCrashBuf + n, sizeof(gCrashBuf) - n, " scenario=%s\n", g.scenario_name.c_str());
  (void)!write(2, gCrashBuf, static_cast<std::size_t>(n));
  (void)!write(1, gCrashBuf, static_cast<std::size_t>(n));
  _exit(70);
}

}  // namespace detail

inline void Install() {
  auto& h = yaclib::verif::gHooks;
  h.choose = detail::Choose;
  h.pick_fiber = detail::PickFiber;
  h.before = detail::Before;
  h.after = detail::After;
  h.resume = detail::Resume;
  YACLIB_INIT_DEBUG(detail::OnAssert);
  std::signal(SIGSEGV, detail::CrashHandler);
  std::signal(SIGABRT, detail::CrashHandler);
  std::signal(SIGBUS, detail::CrashHandler);
  std::signal(SIGFPE, detail::CrashHandler);
  std::signal(SIGILL, detail::CrashHandler);
}

struct Result {
  std::string trace;
  std::vector<std::string> failures;
  std::vector<int> choices;
  bool deadlock = false;
  bool cut = false;
};

// Run one execution of `scenario` under the current prefix.  The scenario runs in the root fiber.
inline Result RunOnce(const std::function<void()>& scenario) {
  g.taken.clear();
  g.width.clear();
  g.at_before = false;
  g.yielding = false;
  g.preemptions = 0;
  g.weak_fails = 0;
  g.cut = false;
  g.trace.clear();
  g.failures.clear();
  g.locs.clear();
  g.fiber_names.clear();
  g.unknown.clear();
  g.unknown_next = 0;
  g.repeat = 0;
  g.last_obj = nullptr;
  yaclib::fault::Scheduler sched;
  yaclib::fault::Scheduler::Set(&sched);
  g.sched = &sched;
  bool finished = false;
  g.active = true;
  {
    yaclib_std::thread root([&] {
      g.root_id = yaclib::fault::Scheduler::GetId();
      g.fiber_names[g.root_id] = "main";
      scenario();
      finished = true;
    });
    // the constructor returns when the scheduler loop has nothing left to run
    g.active = false;
    if (finished) {
      root.join();
    } else {
      root.detach();  // deadlock: some fiber is parked forever; its stack is abandoned
    }
  }
  g.sched = nullptr;
  yaclib::fault::Scheduler::Set(nullptr);
  Result r;
  r.trace = g.trace;
  r.failures = g.failures;
  r.choices = g.taken;
  r.deadlock = !finished;
  r.cut = g.cut;
  if (!finished && !g.cut) {
    r.failures.push_back("deadlock: the run ended with a fiber still parked");
  }
  return r;
}

// Advance the DFS prefix after an execution.  Returns false when the tree is exhausted.
inline bool Backtrack() {
  auto& t = g.taken;
  auto& w = g.width;
  while (!t.empty()) {
    if (t.back() + 1 < w.back()) {
      t.back() += 1;
      g.prefix = t;
      return true;
    }
    t.pop_back();
    w.pop_back();
  }
  return false;
}

inline std::string ChoicesToString(const std::vector<int>& c) {
  std::string s;
  for (std::size_t i = 0; i < c.size(); ++i) {
    if (i) {
      s += ',';
    }
    s += std::to_string(c[i]);
  }
  return s;
}

inline std::vector<int> ChoicesFromString(const std::string& s) {
  std::vector<int> out;
  std::stringstream ss(s);
  std::string tok;
  while (std::getline(ss, tok, ',')) {
    if (!tok.empty()) {
      out.push_back(std::atoi(tok.c_str()));
    }
  }
  return out;
}

inline std::string JsonEscape(const std::string& s) {
  std::string o;
  for (char c : s) {
    switch (c) {
      case '"':
        o += "\\\"";
        break;
      case '\\':
        o += "\\\\";
        break;
      case '\n':
        o += "\\n";
        break;
      case '\t':
        o += "\\t";
        break;
      default:
        if (static_cast<unsigned char>(c) < 0x20) {
          char b[8];
          std::snprintf(b, sizeof b, "\\u%04x", c);
          o += b;
        } else {
          o += c;
        }
    }
  }
  return o;
}

struct Summary {
  std::uint64_t executions = 0;
  std::uint64_t cut = 0;
  std::uint64_t failures = 0;
  bool exhaustive = false;
  struct Distinct {
    std::uint64_t count = 0;
    std::string choices;
    std::string failure;  // first failure text, if any
    bool deadlock = false;
  };
  std::map<std::string, Distinct> traces;
};

// Explore a scenario.  mode: "dfs" | "random" | "replay".  Output goes to the summary (deduplicated by trace).
inline void Explore(const std::string& mode, const std::function<void()>& scenario, Summary& sum,
                    std::uint64_t max_exec, std::uint64_t seed, const std::string& replay = "") {
  g.prefix.clear();
  g.random_mode = (mode == "random");
  g.rng.seed(seed);
  if (mode == "replay") {
    g.prefix = ChoicesFromString(replay);
  }
  bool exhausted = false;
  std::uint64_t n = 0;
  while (n < max_exec) {
    Result r = RunOnce(scenario);
    ++n;
    ++sum.executions;
    if (r.cut) {
      ++sum.cut;
    }
    auto& d = sum.traces[r.trace + (r.failures.empty() ? "" : " #FAIL " + r.failures.front())];
    if (d.count == 0) {
      d.choices = ChoicesToString(r.choices);
      d.deadlock = r.deadlock;
      if (!r.failures.empty()) {
        d.failure = r.failures.front();
      }
    }
    ++d.count;
    if (!r.failures.empty()) {
      ++sum.failures;
    }
    if (mode == "replay") {
      break;
    }
    if (mode == "random") {
      g.prefix.clear();
      continue;
    }
    if (!Backtrack()) {
      exhausted = true;
      break;
    }
  }
  sum.exhaustive = exhausted && sum.cut == 0 && g.opt.preemption_bound < 0;
}

// Print one JSON object per line: a header, then one line per distinct trace.
inline void Emit(FILE* out, const std::string& scenario_name, const std::string& mode, const Summary& sum) {
  std::fprintf(out,
               "{\"scenario\":\"%s\",\"mode\":\"%s\",\"executions\":%llu,\"distinct\":%zu,\"cut\":%llu,"
               "\"failures\":%llu,\"exhaustive\":%s,\"preemption_bound\":%d,\"weak_fail_budget\":%d,\"yield_at\":%d}\n",
               JsonEscape(scenario_name).c_str(), mode.c_str(), static_cast<unsigned long long>(sum.executions),
               sum.traces.size(), static_cast<unsigned long long>(sum.cut),
               static_cast<unsigned long long>(sum.failures), sum.exhaustive ? "true" : "false",
               g.opt.preemption_bound, g.opt.weak_fail_budget, g.opt.yield_at);
  for (auto& [trace, d] : sum.traces) {
    std::string t = trace;
    auto pos = t.find(" #FAIL ");
    if (pos != std::string::npos) {
      t = t.substr(0, pos);
    }
    std::fprintf(out, "{\"scenario\":\"%s\",\"trace\":\"%s\",\"count\":%llu,\"choices\":\"%s\",\"deadlock\":%s,\"fail\":\"%s\"}\n",
                 JsonEscape(scenario_name).c_str(), JsonEscape(t).c_str(), static_cast<unsigned long long>(d.count),
                 d.choices.c_str(), d.deadlock ? "true" : "false", JsonEscape(d.failure).c_str());
  }
}

}  // namespace vrt

// The scheduler's run queue is private; the including TU must have been compiled with access to it
// (harnesses do `#define private public` around the yaclib includes *before* including this header).
namespace vrt::detail {
// the sleep map's key is the deadline (a change of the key type, e.g. to (deadline, something), must not stop the
// harness from compiling: it would turn a concrete finding into "no failing input found")
template <typename K>
inline std::uint64_t SleepKeyTime(const K& k) {
  if constexpr (std::is_integral_v<K>) {
    return static_cast<std::uint64_t>(k);
  } else {
    return static_cast<std::uint64_t>(k.first);
  }
}
}  // namespace vrt::detail

#define VRT_DEFINE_QUEUE_ACCESS()                                                                                      \
  namespace vrt::detail {                                                                                              \
  inline bool QueueEmpty() {                                                                                           \
    /* nobody else could run now: the run queue is empty and no sleeper is already due (a due sleeper is moved */     \
    /* to the run queue only at the next scheduler iteration) */                                                       \
    return g.sched == nullptr ||                                                                                       \
           (g.sched->_queue.Empty() &&                                                                                 \
            (g.sched->_sleep_list.empty() || SleepKeyTime(g.sched->_sleep_list.begin()->first) > g.sched->_time));     \
  }                                                                                                                    \
  }
