// C14 harness: the real yaclib::Mutex<Batching, FIFO> (all four instantiations) under the schedule explorer.
//
// k coroutines (yaclib::Future<> coroutine functions) `co_await On(executor)` and then run their rounds: lock in one
// of the forms (Lock / Guard / GuardSticky / TryLock / TryGuard), enter the critical section, optionally hop to an
// executor while holding the lock, leave, unlock in one of the forms (co_await Unlock / UnlockOn(e) / UnlockHere /
// guard destruction / StickyGuard::Unlock).  Executors: yaclib::FairThreadPool(n) behind a forwarding wrapper that
// only reports Submit, or an instrumented manual executor whose n worker fibers pick any queued job (the explorer
// chooses which).  An optional bystander fiber (a plain thread, no coroutine) calls TryLock / UnlockHere.
//
// Guard-object forms: a UniqueGuard / StickyGuard constructed with std::defer_lock (or reused after an unlock) on which
// TryLock() / Lock() are called; after every call OwnsLock() must equal the answer; the guard unlocks (Unlock / UnlockOn /
// UnlockHere / destructor) only if it owns; a guard that failed to lock just goes out of scope; guards are moved and swapped.
//
// ORACLE (property text only):
//   * the overlap counter of critical sections never exceeds 1;
//   * TryLock / TryGuard succeed only when nobody is inside;
//   * every request is granted exactly once: a coroutine passes each of its suspension points once (phase check), every
//     coroutine completes all its rounds; the run does not end with the main fiber still waiting for them (the
//     explorer's deadlock detection);
//   * FIFO = true: arrival = the waiter's pushing CAS on the sender word succeeded (seen by the tracing hook); a waiter
//     that queued enters the critical section only when it is the oldest outstanding arrival.
//
// TRACE (for the correspondence, no influence on the oracle): operations on the sender word "s" with the value after
// (N not locked, L locked/no new waiters, W<id> head waiter) and markers
//   cfg ...           the configuration (first token)
//   sub<e> <id>       Submit of coroutine <id> to executor <e>            run<e> <id>   manual worker starts it
//   st<id>            coroutine runs for the first time on its executor
//   q<id> <L|G|S>     request begins (Lock / Guard / GuardSticky, also guard.Lock())   t<id> <T|U|D>  TryLock / TryGuard /
//                     guard.TryLock() begins                                  n<id>  a StickyGuard is constructed (defer_lock)
//   ty<id> / tn<id>   TryLock answered true / false
//   in<id>            critical section entered                              h<id>         resumed after a hop inside
//   x<id> <A|O<e>|H|S>  critical section left, unlock form: co_await Unlock / UnlockOn(e) / UnlockHere or guard
//                     destructor / StickyGuard::Unlock
//   o<id>             the unlock call has returned in the coroutine          f<id>         coroutine finished
#include <deque>

#include "vrt_all.hpp"

#include "vrt_main.hpp"

namespace {

enum LockForm {
  kLock = 0,
  kGuard = 1,
  kSticky = 2,
  kTryLock = 3,
  kTryGuard = 4,
  // forms on a guard OBJECT (guard.hpp / guard_sticky.hpp members)
  kDeferTry = 5,         // UniqueGuard g{m, std::defer_lock}; g.TryLock()
  kDeferLock = 6,        // UniqueGuard g{m, std::defer_lock}; co_await g.Lock()
  kStickyDeferTry = 7,   // StickyGuard g{m, std::defer_lock}; g.TryLock()
  kStickyDeferLock = 8,  // StickyGuard g{m, std::defer_lock}; co_await g.Lock()
  kReuseTry = 9,         // g = co_await m.Guard(); ... g.UnlockHere(); then g.TryLock() on the same guard, moved and swapped
  kStickyReuseTry = 10   // the same with GuardSticky()
};
enum UnlockForm { kUnlock = 0, kUnlockOn = 1, kUnlockHere = 2, kDtor = 3 };

struct Round {
  int lock = kLock;
  int unlock = kUnlock;
  int on = 0;    // target executor of UnlockOn
  int hop = -1;  // executor to hop to inside the critical section (-1: none)
};

struct CoSpec {
  int home = 0;
  std::vector<Round> rounds;
};

struct Cfg {
  bool batching = true;
  bool fifo = false;
  bool pool = false;         // FairThreadPool behind a wrapper; otherwise the instrumented manual executor
  std::vector<int> workers;  // workers per executor
  std::vector<CoSpec> cos;
  int bystander = 0;  // rounds of a plain fiber doing TryLock / UnlockHere
};

struct Ctx;

// an oracle verdict; also written to stderr at once, so that it is not lost if the broken mutex crashes the run later
void Verdict(const std::string& what) {
  vrt::Fail(what);
  std::fprintf(stderr, "ORACLE %s\n", what.c_str());
}

struct ExecBase : yaclib::IExecutor {
  Ctx* c = nullptr;
  int id = 0;
  Type Tag() const noexcept final {
    return Type::Custom;
  }
  bool Alive() const noexcept final {
    return true;
  }
  void IncRef() noexcept final {
  }
  void DecRef() noexcept final {
  }
  std::size_t GetRef() noexcept final {
    return 1;
  }
};

struct Ctx {
  Cfg cfg;
  std::vector<std::unique_ptr<ExecBase>> exe;
  std::map<std::uintptr_t, int> core2id;  // address of the coroutine's Node (what executors see) -> id
  std::map<std::uintptr_t, int> word2id;  // address of its BaseCore (what the sender word holds) -> id
  const volatile void* sender = nullptr;
  std::uintptr_t last_sender = std::numeric_limits<std::uintptr_t>::max();
  yaclib_std::atomic<int> tick{0};  // a wrapped operation = an explored preemption point
  yaclib::detail::fiber::FiberQueue all_done;
  // shadow state of the oracle
  int inside = 0;
  int done = 0;
  std::vector<int> phase;            // per coroutine: 0 outside, 1 requested, 2 inside
  std::vector<int> grants, wanted;   // per coroutine: critical sections entered / requests that must be granted
  std::deque<int> outstanding;       // arrivals (pushing CAS succeeded) not yet entered, oldest first
  int Id(yaclib::Job& job) {
    auto it = core2id.find(reinterpret_cast<std::uintptr_t>(static_cast<yaclib::detail::Node*>(&job)));
    return it == core2id.end() ? -1 : it->second;
  }
  void Tick() {
    (void)tick.load(std::memory_order_relaxed);
  }
  static std::string S(int v) {
    return std::to_string(v);
  }
  void Req(int id, const char* form) {
    vrt::Event("q" + S(id) + " " + form);
    if (phase[id] != 0) {
      Verdict("coroutine " + S(id) + " passed a suspension point twice (request)");
    }
    phase[id] = 1;
    ++wanted[id];
  }
  void Enter(int id) {
    vrt::Event("in" + S(id));
    if (phase[id] != 1) {
      Verdict("request of coroutine " + S(id) + " granted " + (phase[id] == 2 ? "twice" : "without a request"));
    }
    phase[id] = 2;
    ++grants[id];
    if (++inside > 1) {
      Verdict("two coroutines are inside the critical section");
    }
    auto it = std::find(outstanding.begin(), outstanding.end(), id);
    if (it != outstanding.end()) {
      if (cfg.fifo && it != outstanding.begin()) {
        Verdict("FIFO: waiter " + S(id) + " entered before waiter " + S(outstanding.front()) + " that arrived earlier");
      }
      outstanding.erase(it);
    }
  }
  void Leave(int id, const std::string& form) {
    if (phase[id] != 2) {
      Verdict("coroutine " + S(id) + " passed a suspension point twice (inside)");
    }
    phase[id] = 3;
    --inside;
    vrt::Event("x" + S(id) + " " + form);
  }
  void Out(int id) {
    vrt::Event("o" + S(id));
    if (phase[id] != 3) {
      Verdict("coroutine " + S(id) + " passed a suspension point twice (unlock)");
    }
    phase[id] = 0;
  }
  bool TryResult(int id, bool ok) {
    vrt::Event(std::string(ok ? "ty" : "tn") + S(id));
    if (ok && inside != 0) {
      Verdict("TryLock succeeded while a coroutine is inside the critical section");
    }
    if (ok) {
      phase[id] = 1;
      ++wanted[id];
    }
    return ok;
  }
  void Finished(int id) {
    vrt::Event("f" + S(id));
    if (++done == static_cast<int>(cfg.cos.size()) + (cfg.bystander > 0 ? 1 : 0)) {
      all_done.NotifyAll();
    }
  }
};

// Instrumented manual executor: Submit enqueues; worker fibers pick any queued job (explorer's choice: a bag).
struct ManualExec final : ExecBase {
  std::vector<yaclib::Job*> q;
  yaclib::detail::fiber::FiberQueue park;
  bool stop = false;
  void Submit(yaclib::Job& job) noexcept final {
    vrt::Event("sub" + Ctx::S(id) + " " + Ctx::S(c->Id(job)));
    job.next = nullptr;  // what an intrusive queue does to the node
    q.push_back(&job);
    park.NotifyAll();
  }
  void Worker() {
    while (true) {
      while (q.empty()) {
        if (stop) {
          return;
        }
        park.Wait(yaclib::detail::fiber::NoTimeoutTag{});
      }
      auto i = static_cast<std::size_t>(vrt::Next(static_cast<int>(q.size())));
      auto* job = q[i];
      q.erase(q.begin() + static_cast<std::ptrdiff_t>(i));
      vrt::Event("run" + Ctx::S(id) + " " + Ctx::S(c->Id(*job)));
      job->Call();
    }
  }
  void Finish() {
    stop = true;
    park.NotifyAll();
  }
};

// The real FairThreadPool; the wrapper only reports Submit (the coroutine itself is the pool's intrusive job).
struct PoolExec final : ExecBase {
  yaclib::IntrusivePtr<yaclib::FairThreadPool> tp;
  void Submit(yaclib::Job& job) noexcept final {
    vrt::Event("sub" + Ctx::S(id) + " " + Ctx::S(c->Id(job)));
    tp->Submit(job);
  }
};

struct Self {
  void* p = nullptr;
  void* core = nullptr;
  bool await_ready() const noexcept {
    return false;
  }
  template <typename P>
  bool await_suspend(yaclib_std::coroutine_handle<P> h) noexcept {
    auto* base = static_cast<yaclib::detail::BaseCore*>(&h.promise());
    core = base;
    p = static_cast<yaclib::detail::Node*>(base);
    return false;
  }
  std::pair<void*, void*> await_resume() const noexcept {
    return {p, core};
  }
};

std::string UForm(const Round& rd, bool sticky) {
  switch (rd.unlock) {
    case kUnlock:
      return sticky ? "S" : "A";
    case kUnlockOn:
      return "O" + std::to_string(rd.on);
    default:
      return "H";
  }
}


// One round through a guard OBJECT of type GUARD<M>; STICKY tells which marker letters to use.
#define VRT_GUARD_OBJECT_ROUND(GUARD, STICKY)                                                                           \
  {                                                                                                                    \
    bool got = false;                                                                                                  \
    {                                                                                                                  \
      GUARD<M> g{*m, std::defer_lock};                                                                                 \
      if (STICKY) {                                                                                                    \
        vrt::Event("n" + Ctx::S(id));                                                                                  \
      }                                                                                                                \
      if (g.OwnsLock()) {                                                                                              \
        Verdict("a deferred guard owns the lock");                                                                     \
      }                                                                                                                \
      const bool reuse = rd.lock == kReuseTry || rd.lock == kStickyReuseTry;                                           \
      const bool lockform = rd.lock == kDeferLock || rd.lock == kStickyDeferLock;                                      \
      if (reuse) {                                                                                                     \
        c->Req(id, STICKY ? "S" : "G");                                                                                \
        if constexpr (std::is_same_v<GUARD<M>, yaclib::StickyGuard<M>>) {                                              \
          g = co_await m->GuardSticky();                                                                               \
        } else {                                                                                                       \
          g = co_await m->Guard();                                                                                     \
        }                                                                                                              \
        c->Enter(id);                                                                                                  \
        c->Tick();                                                                                                     \
        c->Leave(id, "H");                                                                                             \
        g.UnlockHere();                                                                                                \
        c->Out(id);                                                                                                    \
        if (g.OwnsLock()) {                                                                                            \
          Verdict("the guard still owns the lock after UnlockHere()");                                                 \
        }                                                                                                              \
      }                                                                                                                \
      if (lockform) {                                                                                                  \
        c->Req(id, STICKY ? "S" : "L");                                                                                \
        co_await g.Lock();                                                                                             \
        if (!g.OwnsLock()) {                                                                                           \
          Verdict("OwnsLock() is false after co_await guard.Lock()");                                                  \
        }                                                                                                              \
        got = true;                                                                                                    \
      } else {                                                                                                         \
        vrt::Event("t" + Ctx::S(id) + " D");                                                                           \
        const bool ok = g.TryLock();                                                                                   \
        if (g.OwnsLock() != ok) {                                                                                      \
          Verdict(std::string("guard.TryLock() answered ") + (ok ? "true" : "false") + " but OwnsLock() is " +        \
                  (g.OwnsLock() ? "true" : "false"));                                                                  \
        }                                                                                                              \
        got = c->TryResult(id, ok);                                                                                    \
      }                                                                                                                \
      if (got) {                                                                                                       \
        c->Enter(id);                                                                                                  \
        c->Tick();                                                                                                     \
        if (rd.hop >= 0) {                                                                                             \
          co_await yaclib::On(*c->exe[static_cast<std::size_t>(rd.hop)]);                                              \
          vrt::Event("h" + Ctx::S(id));                                                                                \
        }                                                                                                              \
        if (reuse) { /* ownership follows the guard through a move and a swap */                                       \
          GUARD<M> g2{std::move(g)};                                                                                   \
          if (g.OwnsLock() || !g2.OwnsLock()) {                                                                        \
            Verdict("ownership did not move with the guard");                                                          \
          }                                                                                                            \
          g.Swap(g2);                                                                                                  \
          if (!g.OwnsLock() || g2.OwnsLock()) {                                                                        \
            Verdict("ownership did not follow Swap");                                                                  \
          }                                                                                                            \
        }                                                                                                              \
        c->Leave(id, UForm(rd, STICKY));                                                                               \
        if (rd.unlock == kUnlock) {                                                                                    \
          co_await g.Unlock();                                                                                         \
        } else if (rd.unlock == kUnlockOn) {                                                                           \
          co_await g.UnlockOn(*c->exe[static_cast<std::size_t>(rd.on)]);                                               \
        } else if (rd.unlock == kUnlockHere) {                                                                         \
          g.UnlockHere();                                                                                              \
        }                                                                                                              \
        if (rd.unlock != kDtor && g.OwnsLock()) {                                                                      \
          Verdict("the guard still owns the lock after it unlocked");                                                  \
        }                                                                                                              \
      }                                                                                                                \
    } /* a guard that does not own does nothing here; kDtor: an owning guard unlocks */                                \
    if (got) {                                                                                                         \
      c->Out(id);                                                                                                      \
    }                                                                                                                  \
  }

template <typename M>
yaclib::Future<> Co(Ctx* c, M* m, int id) {
  auto self = co_await Self{};
  c->core2id[reinterpret_cast<std::uintptr_t>(self.first)] = id;
  c->word2id[reinterpret_cast<std::uintptr_t>(self.second)] = id;
  const CoSpec& spec = c->cfg.cos[static_cast<std::size_t>(id)];
  co_await yaclib::On(*c->exe[static_cast<std::size_t>(spec.home)]);
  vrt::Event("st" + Ctx::S(id));
  for (const Round& rd : spec.rounds) {
    switch (rd.lock) {
      case kLock:
      case kTryLock: {
        if (rd.lock == kLock) {
          c->Req(id, "L");
          co_await m->Lock();
        } else {
          vrt::Event("t" + Ctx::S(id) + " T");
          if (!c->TryResult(id, m->TryLock())) {
            break;
          }
        }
        c->Enter(id);
        c->Tick();
        if (rd.hop >= 0) {
          co_await yaclib::On(*c->exe[static_cast<std::size_t>(rd.hop)]);
          vrt::Event("h" + Ctx::S(id));
        }
        c->Leave(id, UForm(rd, false));
        if (rd.unlock == kUnlock) {
          co_await m->Unlock();
        } else if (rd.unlock == kUnlockOn) {
          co_await m->UnlockOn(*c->exe[static_cast<std::size_t>(rd.on)]);
        } else {
          m->UnlockHere();
        }
        c->Out(id);
        break;
      }
      case kGuard:
      case kTryGuard: {
        {
          yaclib::UniqueGuard<M> g;
          if (rd.lock == kGuard) {
            c->Req(id, "G");
            g = co_await m->Guard();
          } else {
            vrt::Event("t" + Ctx::S(id) + " U");
            g = m->TryGuard();
            if (!c->TryResult(id, g.OwnsLock())) {
              break;
            }
          }
          c->Enter(id);
          c->Tick();
          if (rd.hop >= 0) {
            co_await yaclib::On(*c->exe[static_cast<std::size_t>(rd.hop)]);
            vrt::Event("h" + Ctx::S(id));
          }
          c->Leave(id, UForm(rd, false));
          if (rd.unlock == kUnlock) {
            co_await g.Unlock();
          } else if (rd.unlock == kUnlockOn) {
            co_await g.UnlockOn(*c->exe[static_cast<std::size_t>(rd.on)]);
          } else if (rd.unlock == kUnlockHere) {
            g.UnlockHere();
          }
        }  // kDtor: ~UniqueGuard unlocks here
        c->Out(id);
        break;
      }
      case kDeferTry:
      case kDeferLock:
      case kReuseTry: {
        VRT_GUARD_OBJECT_ROUND(yaclib::UniqueGuard, false)
        break;
      }
      case kStickyDeferTry:
      case kStickyDeferLock:
      case kStickyReuseTry: {
        VRT_GUARD_OBJECT_ROUND(yaclib::StickyGuard, true)
        break;
      }
      default: {
        {
          c->Req(id, "S");
          auto g = co_await m->GuardSticky();
          c->Enter(id);
          c->Tick();
          if (rd.hop >= 0) {
            co_await yaclib::On(*c->exe[static_cast<std::size_t>(rd.hop)]);
            vrt::Event("h" + Ctx::S(id));
          }
          c->Leave(id, UForm(rd, true));
          if (rd.unlock == kUnlock) {
            co_await g.Unlock();
          } else if (rd.unlock == kUnlockOn) {
            co_await g.UnlockOn(*c->exe[static_cast<std::size_t>(rd.on)]);
          } else if (rd.unlock == kUnlockHere) {
            g.UnlockHere();
          }
        }
        c->Out(id);
        break;
      }
    }
  }
  c->Finished(id);
  co_return{};
}

Ctx* gC = nullptr;
bool gNamedOnly = false;

std::string FmtSender(std::uint64_t v) {
  if (v == std::numeric_limits<std::uintptr_t>::max()) {
    return "N";
  }
  if (v == 0) {
    return "L";
  }
  if (gC != nullptr) {
    auto it = gC->word2id.find(static_cast<std::uintptr_t>(v));
    if (it != gC->word2id.end()) {
      return "W" + std::to_string(it->second);
    }
  }
  return "W?";
}

// Oracle input: a successful pushing CAS on the sender word is the waiter's arrival.
void MyAfter(const volatile void* obj, std::size_t size, const char* op) {
  Ctx* c = gC;
  if (c != nullptr && vrt::g.active && obj == c->sender) {
    std::uintptr_t raw = 0;
    std::memcpy(&raw, const_cast<const void*>(obj), sizeof raw);
    if (std::strcmp(op, "compare_exchange_weak") == 0 && raw != c->last_sender && raw != 0 &&
        raw != std::numeric_limits<std::uintptr_t>::max()) {
      auto it = c->word2id.find(raw);
      if (it != c->word2id.end()) {
        c->outstanding.push_back(it->second);
      }
    }
    c->last_sender = raw;
  }
  if (c == nullptr || obj != &c->tick) {
    vrt::detail::After(obj, size, op);
  }
}

// With --param yields=named only operations on named locations (the sender word and the harness' tick) are preemption
// points; the executors' own mutexes / reference counters are executed without offering a switch.
void BeforeNamedOnly(const volatile void* obj, const char* op) {
  vrt::detail::Before(obj, op);
  if (gNamedOnly && vrt::g.active && vrt::g.locs.find(obj) == vrt::g.locs.end()) {
    vrt::g.at_before = false;
  }
}

template <typename M>
void RunWith(const Cfg& cfg) {
  Ctx c;
  c.cfg = cfg;
  gC = &c;
  const auto k = cfg.cos.size();
  const bool by = cfg.bystander > 0;
  c.phase.assign(k + 1, 0);
  c.grants.assign(k + 1, 0);
  c.wanted.assign(k + 1, 0);
  M m;
  c.sender = &m._sender;
  vrt::NameLoc(&m._sender, "s", FmtSender);
  vrt::NameLoc(&c.tick, "t");  // a preemption point also under yields=named; not traced (see MyAfter)
  {
    std::string d = "cfg B=" + std::to_string(cfg.batching) + " F=" + std::to_string(cfg.fifo) + " W=";
    for (auto w : cfg.workers) {
      d += std::to_string(w) + ",";
    }
    d += " H=";
    for (auto& s : cfg.cos) {
      d += std::to_string(s.home) + ",";
    }
    d += " Y=" + std::to_string(by ? 1 : 0);
    vrt::Event(d);
  }
  std::vector<ManualExec*> manual;
  std::vector<PoolExec*> pools;
  for (std::size_t e = 0; e < cfg.workers.size(); ++e) {
    if (cfg.pool) {
      auto p = std::make_unique<PoolExec>();
      p->tp = yaclib::MakeFairThreadPool(static_cast<std::uint64_t>(cfg.workers[e]));
      pools.push_back(p.get());
      c.exe.push_back(std::move(p));
    } else {
      auto p = std::make_unique<ManualExec>();
      manual.push_back(p.get());
      c.exe.push_back(std::move(p));
    }
    c.exe.back()->c = &c;
    c.exe.back()->id = static_cast<int>(e);
  }
  std::vector<yaclib_std::thread> ts;
  std::vector<yaclib::Future<>> fs;
  for (std::size_t i = 0; i < k; ++i) {
    fs.push_back(Co<M>(&c, &m, static_cast<int>(i)));
  }
  // the manual executors' workers start after every coroutine has been submitted (the model starts with all of them queued)
  for (std::size_t e = 0; e < manual.size(); ++e) {
    for (int w = 0; w < cfg.workers[e]; ++w) {
      auto* ex = manual[e];
      ts.emplace_back([ex, e, w] {
        vrt::NameThread("w" + std::to_string(e) + "." + std::to_string(w));
        ex->Worker();
      });
    }
  }
  if (by) {
    const int id = static_cast<int>(k);
    ts.emplace_back([&c, &m, id] {
      vrt::NameThread("Y");
      vrt::Event("st" + Ctx::S(id));
      for (int r = 0; r < c.cfg.bystander; ++r) {
        vrt::Event("t" + Ctx::S(id) + " T");
        if (c.TryResult(id, m.TryLock())) {
          c.Enter(id);
          c.Tick();
          c.Leave(id, "H");
          m.UnlockHere();
          c.Out(id);
        }
      }
      c.Finished(id);
    });
  }
  while (c.done < static_cast<int>(k) + (by ? 1 : 0)) {
    c.all_done.Wait(yaclib::detail::fiber::NoTimeoutTag{});
  }
  vrt::Event("end");
  for (auto* ex : manual) {
    ex->Finish();
  }
  for (auto* p : pools) {
    p->tp->Stop();
    p->tp->Wait();
  }
  for (auto& t : ts) {
    t.join();
  }
  // ---- oracle at the end of the run
  for (std::size_t i = 0; i < k + (by ? 1 : 0); ++i) {
    if (c.grants[i] != c.wanted[i]) {
      vrt::Fail("coroutine " + std::to_string(i) + ": " + std::to_string(c.wanted[i]) + " requests but " +
                std::to_string(c.grants[i]) + " grants");
    }
  }
  if (c.inside != 0) {
    vrt::Fail("a critical section never ended");
  }
  if (m._sender.load(std::memory_order_relaxed) != std::numeric_limits<std::uintptr_t>::max()) {
    vrt::Fail("the mutex is not free after everybody unlocked");
  }
  fs.clear();
  gC = nullptr;
}

void Run(const Cfg& cfg) {
  if (cfg.batching) {
    if (cfg.fifo) {
      RunWith<yaclib::Mutex<true, true>>(cfg);
    } else {
      RunWith<yaclib::Mutex<true, false>>(cfg);
    }
  } else {
    if (cfg.fifo) {
      RunWith<yaclib::Mutex<false, true>>(cfg);
    } else {
      RunWith<yaclib::Mutex<false, false>>(cfg);
    }
  }
}

const char* kLockNames[] = {"L", "G", "S", "T", "U", "D", "E", "V", "W", "R", "Q"};
const char* kUnlockNames[] = {"a", "o", "h", "d"};

std::string Describe(const Cfg& cfg) {
  std::string s;
  for (auto& co : cfg.cos) {
    s += " c" + std::to_string(co.home) + ":";
    for (auto& r : co.rounds) {
      s += std::string(kLockNames[r.lock]) + kUnlockNames[r.unlock];
      if (r.unlock == kUnlockOn) {
        s += std::to_string(r.on);
      }
      if (r.hop >= 0) {
        s += "^" + std::to_string(r.hop);
      }
    }
  }
  return s;
}

// a random program: k coroutines x up to r rounds, mixed forms
Cfg Mixed(std::uint64_t seed, int kmax, int rmax, bool pool) {
  std::mt19937_64 rng(seed * 0x9E3779B97F4A7C15ull + 777);
  auto pick = [&](int n) {
    return static_cast<int>(rng() % static_cast<std::uint64_t>(n));
  };
  Cfg cfg;
  cfg.batching = pick(2) != 0;
  cfg.fifo = pick(2) != 0;
  cfg.pool = pool;
  int nexe = 1 + pick(2);
  for (int e = 0; e < nexe; ++e) {
    cfg.workers.push_back(1 + pick(2));
  }
  int k = 2 + pick(kmax - 1);
  for (int i = 0; i < k; ++i) {
    CoSpec co;
    co.home = pick(nexe);
    int r = 1 + pick(rmax);
    for (int j = 0; j < r; ++j) {
      Round rd;
      int l = pick(16);
      rd.lock = l < 3 ? kLock : l < 5 ? kGuard : l < 8 ? kSticky : l < 9 ? kTryLock : l < 10 ? kTryGuard : kDeferTry + (l - 10);
      rd.unlock = pick(rd.lock == kLock || rd.lock == kTryLock ? 3 : 4);
      rd.on = pick(nexe);
      rd.hop = pick(6) == 0 ? pick(nexe) : -1;
      co.rounds.push_back(rd);
    }
    cfg.cos.push_back(std::move(co));
  }
  cfg.bystander = pick(3) == 0 ? 1 + pick(2) : 0;
  return cfg;
}

}  // namespace

int main(int argc, char** argv) {
  vrt::Main m(argc, argv);
  gNamedOnly = m.Param("yields") == "named";
  yaclib::verif::gHooks.before = BeforeNamedOnly;
  yaclib::verif::gHooks.after = MyAfter;
  // ---- fixed small configurations: 2 coroutines x 1 round, every lock form x unlock form against a plain Lock/Unlock
  const char* opt_names[] = {"b0f0", "b0f1", "b1f0", "b1f1"};
  for (int opt = 0; opt < 4; ++opt) {
    for (int pool = 0; pool < 2; ++pool) {
      for (int n = 1; n <= 2; ++n) {
        for (int hop = 0; hop < 2; ++hop) {
          for (int lf = 0; lf < 5; ++lf) {
            for (int uf = 0; uf < 4; ++uf) {
              if ((lf == kLock || lf == kTryLock) && uf == kDtor) {
                continue;
              }
              for (int other = 0; other < 3; ++other) {
                Cfg cfg;
                cfg.batching = (opt & 2) != 0;
                cfg.fifo = (opt & 1) != 0;
                cfg.pool = pool != 0;
                cfg.workers = {n};
                CoSpec a, b;
                // with hop the first coroutine is rescheduled while it holds the lock: contention on one worker
                a.rounds.push_back(Round{lf, uf, 0, hop ? 0 : -1});
                // the partner: Lock + co_await Unlock / Lock + UnlockHere / GuardSticky + sticky Unlock
                b.rounds.push_back(other == 0   ? Round{kLock, kUnlock, 0, -1}
                                   : other == 1 ? Round{kLock, kUnlockHere, 0, -1}
                                                : Round{kSticky, kUnlock, 0, -1});
                cfg.cos = {a, b};
                std::string name = std::string(hop ? "k2h/" : "k2/") + opt_names[opt] + (pool ? "/pool" : "/man") +
                                   std::to_string(n) + "/" + kLockNames[lf] + kUnlockNames[uf] + "-" +
                                   std::to_string(other);
                m.Scenario(name, [cfg] {
                  Run(cfg);
                });
              }
            }
          }
        }
      }
      // guard-object forms against a plain holder (k2gh: the holder is rescheduled inside its critical section, so the
      // guard's TryLock() fails / its Lock() queues)
      for (int n = 1; n <= 2; ++n) {
        for (int hop = 0; hop < 2; ++hop) {
          for (int lf = kDeferTry; lf <= kStickyReuseTry; ++lf) {
            for (int uf = 0; uf < 4; ++uf) {
              for (int other = 0; other < 2; ++other) {
                Cfg cfg;
                cfg.batching = (opt & 2) != 0;
                cfg.fifo = (opt & 1) != 0;
                cfg.pool = pool != 0;
                cfg.workers = {n};
                CoSpec a, b;
                a.rounds.push_back(Round{kLock, other == 0 ? kUnlock : kUnlockHere, 0, hop ? 0 : -1});
                b.rounds.push_back(Round{lf, uf, 0, -1});
                cfg.cos = {a, b};
                std::string name = std::string(hop ? "k2gh/" : "k2g/") + opt_names[opt] + (pool ? "/pool" : "/man") +
                                   std::to_string(n) + "/" + kLockNames[lf] + kUnlockNames[uf] + "-" +
                                   std::to_string(other);
                m.Scenario(name, [cfg] {
                  Run(cfg);
                });
              }
            }
          }
        }
      }
      // three coroutines queueing behind one holder (order of grants), with and without a bystander
      for (int n = 1; n <= 2; ++n) {
        for (int uf = 0; uf < 3; ++uf) {
          for (int by = 0; by < 2; ++by) {
            Cfg cfg;
            cfg.batching = (opt & 2) != 0;
            cfg.fifo = (opt & 1) != 0;
            cfg.pool = pool != 0;
            cfg.workers = {n};
            for (int i = 0; i < 3; ++i) {
              CoSpec a;
              a.rounds.push_back(Round{i == 1 ? kSticky : kLock, uf, 0, i == 0 ? 0 : -1});
              cfg.cos.push_back(a);
            }
            cfg.bystander = by;
            std::string name = std::string("k3/") + opt_names[opt] + (pool ? "/pool" : "/man") + std::to_string(n) + "/" +
                               kUnlockNames[uf] + (by ? "+y" : "");
            m.Scenario(name, [cfg] {
              Run(cfg);
            });
          }
        }
      }
    }
  }
  // ---- random mixes: --param mixes=<count> --param pseed=<seed> --param kmax= --param rmax=
  int mixes = std::atoi(m.Param("mixes", "0").c_str());
  std::uint64_t pseed = std::strtoull(m.Param("pseed", "1").c_str(), nullptr, 10);
  int kmax = std::atoi(m.Param("kmax", "4").c_str());
  int rmax = std::atoi(m.Param("rmax", "3").c_str());
  for (int i = 0; i < mixes; ++i) {
    bool pool = i % 2 == 1;
    Cfg cfg = Mixed(pseed * 1000 + static_cast<std::uint64_t>(i), kmax, rmax, pool);
    std::string name = std::string("mix/") + std::to_string(i) + (pool ? " pool" : " man") + " B" +
                       std::to_string(cfg.batching) + "F" + std::to_string(cfg.fifo) + Describe(cfg);
    m.Scenario(name, [cfg] {
      Run(cfg);
    });
  }
  return m.Finish();
}
