// C04 dynamic search: multi-threaded client programs on REAL threads under ThreadSanitizer (config TS).
// Every program writes plain (non-atomic) data before a library operation that publishes it and reads it after
// the operation that observes completion; a missing happens-before edge inside the library shows as a TSan
// report (TSan tracks happens-before, it does not need the accesses to collide in time).
// usage: h_c04 <program|all> <repetitions> <seed>
#include <yaclib/algo/wait_group.hpp>
#include <yaclib/async/contract.hpp>
#include <yaclib/async/future.hpp>
#include <yaclib/async/promise.hpp>
#include <yaclib/async/run.hpp>
#include <yaclib/async/shared_contract.hpp>
#include <yaclib/async/shared_future.hpp>
#include <yaclib/async/wait.hpp>
#include <yaclib/async/when_all.hpp>
#include <yaclib/async/when_any.hpp>
#include <yaclib/coro/await.hpp>
#include <yaclib/coro/future.hpp>
#include <yaclib/coro/mutex.hpp>
#include <yaclib/coro/on.hpp>
#include <yaclib/coro/shared_mutex.hpp>
#include <yaclib/exe/strand.hpp>
#include <yaclib/exe/submit.hpp>
#include <yaclib/runtime/fair_thread_pool.hpp>
#include <yaclib/util/intrusive_ptr.hpp>
#include <yaclib/util/helper.hpp>

#include <atomic>
#include <cstdio>
#include <cstdlib>
#include <cstring>
#include <functional>
#include <map>
#include <random>
#include <string>
#include <thread>
#include <vector>

namespace {

std::atomic<unsigned long> seed_counter{1};
unsigned long base_seed = 1;
struct Rng {
  std::mt19937_64 eng{base_seed * 1000003 + seed_counter.fetch_add(1, std::memory_order_relaxed)};
  unsigned long operator()() {
    return eng();
  }
};
thread_local Rng rng;
void Jitter() {
  auto k = rng() % 4;
  for (unsigned i = 0; i < k; ++i) {
    std::this_thread::yield();
  }
}

struct Sink {
  std::atomic<long> v{0};
  void operator+=(long x) {
    v.fetch_add(x, std::memory_order_relaxed);
  }
  bool operator==(long x) const {
    return v.load(std::memory_order_relaxed) == x;
  }
} sink;

// 1. Promise/Future: continuation, Get, Ready-then-read
void HandoffThen() {
  int payload = 0;
  auto [f, p] = yaclib::MakeContract<int>();
  std::thread prod([&, p = std::move(p)]() mutable {
    Jitter();
    payload = 42;
    std::move(p).Set(1);
  });
  Jitter();
  std::move(f).DetachInline([&](int) {
    sink += payload;
  });
  prod.join();
}
void HandoffGet() {
  int payload = 0;
  auto [f, p] = yaclib::MakeContract<int>();
  std::thread prod([&, p = std::move(p)]() mutable {
    Jitter();
    payload = 42;
    std::move(p).Set(1);
  });
  Jitter();
  sink += std::move(f).Get().Ok() + payload;
  prod.join();
}
void HandoffReady() {
  int payload = 0;
  auto [f, p] = yaclib::MakeContract<int>();
  std::thread prod([&, p = std::move(p)]() mutable {
    Jitter();
    payload = 42;
    std::move(p).Set(1);
  });
  while (!f.Ready()) {
    std::this_thread::yield();
  }
  sink += payload + std::as_const(f).Touch().Ok();
  prod.join();
}
// 2. SharedFuture observers on several threads
void SharedObservers() {
  int payload = 0;
  auto [sf, sp] = yaclib::MakeSharedContract<int>();
  std::vector<std::thread> obs;
  for (int i = 0; i < 3; ++i) {
    obs.emplace_back([&, copy = sf] {
      Jitter();
      if (rng() % 2) {
        auto f = copy.ThenInline([&](int x) {
          sink += payload + x;
        });
        yaclib::Wait(f);
      } else {
        sink += copy.Get().Ok() + payload;
      }
    });
  }
  std::thread prod([&, sp = std::move(sp)]() mutable {
    Jitter();
    payload = 7;
    std::move(sp).Set(1);
  });
  prod.join();
  for (auto& t : obs) {
    t.join();
  }
}
// 3. Strand: consecutive jobs touch the same plain counter
void StrandJobs() {
  yaclib::FairThreadPool tp{3};
  auto strand = yaclib::MakeStrand(&tp);
  long counter = 0;
  std::vector<std::thread> subs;
  for (int t = 0; t < 3; ++t) {
    subs.emplace_back([&] {
      for (int i = 0; i < 5; ++i) {
        yaclib::Submit(*strand, [&] {
          ++counter;
        });
        Jitter();
      }
    });
  }
  for (auto& t : subs) {
    t.join();
  }
  tp.SoftStop();
  tp.Wait();
  sink += counter;
}
// 4. FairThreadPool: data written before Submit is visible in the job; job output visible after Wait
void PoolJobs() {
  yaclib::FairThreadPool tp{2};
  int in[4] = {0, 0, 0, 0};
  int out[4] = {0, 0, 0, 0};
  for (int i = 0; i < 4; ++i) {
    in[i] = i + 1;
    yaclib::Submit(tp, [&, i] {
      out[i] = in[i] * 2;
    });
  }
  tp.SoftStop();
  tp.Wait();
  for (int i = 0; i < 4; ++i) {
    sink += out[i];
  }
}
// 5. WaitGroup
void WaitGroupDone() {
  yaclib::WaitGroup<> wg{3};
  int slots[3] = {0, 0, 0};
  std::vector<std::thread> ws;
  for (int i = 0; i < 3; ++i) {
    ws.emplace_back([&, i] {
      Jitter();
      slots[i] = i + 1;
      wg.Done();
    });
  }
  wg.Wait();
  sink += slots[0] + slots[1] + slots[2];
  for (auto& t : ws) {
    t.join();
  }
}
// 6. WhenAll / WhenAny
void WhenAllAny() {
  int pay[3] = {0, 0, 0};
  std::vector<yaclib::Future<int>> fs;
  std::vector<yaclib::Promise<int>> ps;
  for (int i = 0; i < 3; ++i) {
    auto [f, p] = yaclib::MakeContract<int>();
    fs.push_back(std::move(f));
    ps.push_back(std::move(p));
  }
  std::vector<std::thread> prods;
  for (int i = 0; i < 3; ++i) {
    prods.emplace_back([&, i, p = std::move(ps[i])]() mutable {
      Jitter();
      pay[i] = i + 1;
      std::move(p).Set(i);
    });
  }
  if (rng() % 2) {
    auto all = yaclib::WhenAll(fs.begin(), fs.end());
    auto v = std::move(all).Get().Ok();
    sink += pay[0] + pay[1] + pay[2] + static_cast<long>(v.size());
  } else {
    auto any = yaclib::WhenAny(fs.begin(), fs.end());
    int w = std::move(any).Get().Ok();
    sink += pay[w];
  }
  for (auto& t : prods) {
    t.join();
  }
}
// 7. reference counting: the last owner destroys, after everybody's accesses
struct Obj : yaclib::IRef {
  int field = 0;
};
void RefCount() {
  auto* raw = yaclib::MakeShared<Obj>(1).Release();
  yaclib::IntrusivePtr<Obj> root{yaclib::NoRefTag{}, raw};
  std::vector<std::thread> ts;
  for (int i = 0; i < 3; ++i) {
    ts.emplace_back([copy = root]() mutable {
      Jitter();
      sink += copy->field;  // read
      copy = nullptr;       // drop
    });
  }
  root = nullptr;
  for (auto& t : ts) {
    t.join();
  }
}
// 8. coroutine Mutex and SharedMutex: critical sections are ordered
yaclib::Future<> LockLoop(yaclib::IExecutor& e, yaclib::Mutex<>& m, long& counter, int rounds) {
  co_await On(e);
  for (int i = 0; i < rounds; ++i) {
    co_await m.Lock();
    ++counter;
    if (i % 2) {
      co_await m.Unlock();
    } else {
      m.UnlockHere();
    }
  }
  co_return{};
}
void CoroMutex() {
  yaclib::FairThreadPool tp{3};
  yaclib::Mutex<> m;
  long counter = 0;
  std::vector<yaclib::Future<>> fs;
  for (int i = 0; i < 4; ++i) {
    fs.push_back(LockLoop(tp, m, counter, 6));
  }
  yaclib::Wait(fs.begin(), fs.end());
  tp.SoftStop();
  tp.Wait();
  sink += counter;
}
yaclib::Future<> RwLoop(yaclib::IExecutor& e, yaclib::SharedMutex<>& m, long& data, bool writer, int rounds) {
  co_await On(e);
  for (int i = 0; i < rounds; ++i) {
    if (writer) {
      co_await m.Lock();
      ++data;
      m.UnlockHere();
    } else {
      co_await m.LockShared();
      sink += data;
      m.UnlockHereShared();
    }
  }
  co_return{};
}
void CoroSharedMutex() {
  yaclib::FairThreadPool tp{3};
  yaclib::SharedMutex<> m;
  long data = 0;
  std::vector<yaclib::Future<>> fs;
  for (int i = 0; i < 4; ++i) {
    fs.push_back(RwLoop(tp, m, data, i % 2 == 0, 5));
  }
  yaclib::Wait(fs.begin(), fs.end());
  tp.SoftStop();
  tp.Wait();
}

}  // namespace

int main(int argc, char** argv) {
  std::string which = argc > 1 ? argv[1] : "all";
  int reps = argc > 2 ? std::atoi(argv[2]) : 100;
  base_seed = argc > 3 ? std::strtoull(argv[3], nullptr, 10) : 1;
  std::vector<std::pair<std::string, std::function<void()>>> progs = {
    {"handoff_then", HandoffThen},   {"handoff_get", HandoffGet},   {"handoff_ready", HandoffReady},
    {"shared_observers", SharedObservers}, {"strand_jobs", StrandJobs}, {"pool_jobs", PoolJobs},
    {"waitgroup", WaitGroupDone},    {"when_all_any", WhenAllAny},  {"refcount", RefCount},
    {"coro_mutex", CoroMutex},       {"coro_shared_mutex", CoroSharedMutex},
  };
  for (auto& [name, fn] : progs) {
    if (which != "all" && which != name) {
      continue;
    }
    for (int i = 0; i < reps; ++i) {
      fn();
    }
    std::printf("{\"program\":\"%s\",\"repetitions\":%d}\n", name.c_str(), reps);
    std::fflush(stdout);
  }
  return sink == -1 ? 3 : 0;
}
