// C13 harness: coroutines (return type Future / SharedFuture / Task) interpreting a generated list of co_awaits on the
// real library under the FIBER backend, explored over every interleaving (DFS) or by seeded random walks.
//
// A plan is a list of tokens separated by blanks:
//   O<i>:<kind>:<outcome>:<when>   awaited object i.  kind: U unique contract, S shared contract, UO<x> / SO<x> the same made
//                                  by MakeContractOn(x) / MakeSharedContractOn(x) (the core is bound to executor x), RU<x> Run(x, f),
//                                  RS<x> RunShared(x, f), LT<x> Schedule(x, f) (a lazy Task).  outcome: v<n> value, e<n>
//                                  exception, s the promise is dropped (StopError).  when: a fulfilled by main before any
//                                  coroutine starts, d by its own fiber P<i>, l by main after the coroutines were started
//   X<i>:<kind>                    executor i >= 1.  q: queue drained by main at the end, s: stopped (Drop inside Submit),
//                                  h: a queue that main hard-stops instead of draining (queued jobs are dropped by main,
//                                  later Submits drop at once),
//                                  p: FairThreadPool(1) behind the same instrumentation, z: a stopped FairThreadPool
//   D                              main drains the queue executors once right after it started the coroutines (a fiber that
//                                  starts a coroutine always does so)
//   C<i>:<ret>:<starter>:<prog>    coroutine i.  ret: F Future, S SharedFuture, T Task (lazy).  starter: m main, t fiber C<i>.
//                                  Its own core is object (number of O tokens) + i.  prog: steps separated by '.':
//                                    co<o> cc<o>   co_await std::move(future<o>) / co_await shared<o> (cc: the body catches)
//                                    tk<o> tc<o>   co_await std::move(task<o>);  tl<o>  co_await Await(task<o>)
//                                    ai<o>+<o>..   co_await Await(f...)          as<o>+..  AwaitSticky(f...)
//                                    an<x>_<o>+..  co_await AwaitOn(x, f...)     (one or several futures)
//                                    di<o>+.. ds.. dn<x>_..   the same through the iterator forms (begin, count)
//                                    on<x>  co_await On(x);   y  co_await kYield;   yy  co_await Yield();   cur  co_await CurrentExecutor()
//
// Trace: every wrapped atomic operation on a core's callback word (w<i>) and on the counter of an awaiter living in a
// coroutine frame (k<c>), plus the markers  spawn / aw / res / ret / local~ / frame~ / submit / call / drop / set.
//
// Oracle (property text only; never the model): see Ctx::AfterAwait, Ctx::Harvest and Ctx::Finish.
#include <malloc.h>

#include <deque>

#include "vrt_all.hpp"

#include "vrt_main.hpp"

#ifdef C13_HAVE_STICKY
#  include <yaclib/coro/await_sticky.hpp>
#endif

namespace {

// ---- values -----------------------------------------------------------------------------------------------------
struct Val {
  long a = 0;
  long chk = 0;
  int st = 0;
  Val() = default;
  explicit Val(long x) noexcept : a{x}, chk{x * 31 + 7}, st{1} {
  }
  Val(const Val& o) noexcept = default;
  Val(Val&& o) noexcept : a{o.a}, chk{o.chk}, st{o.st} {
    if (o.st == 1) {
      o.st = 2;
    }
  }
  Val& operator=(const Val&) noexcept = default;
  Val& operator=(Val&& o) noexcept {
    a = o.a;
    chk = o.chk;
    st = o.st;
    if (o.st == 1) {
      o.st = 2;
    }
    return *this;
  }
  ~Val() {
    st = 3;
  }
  bool Good() const noexcept {
    return st == 1 && chk == a * 31 + 7;
  }
};

struct Boom {
  int n;
};

// what a co_await delivered / what a Result holds: '-' nothing, 'v' value, 'e' exception, 's' StopError, 'g' garbage
struct Seen {
  char kind = '-';
  long n = 0;
  std::string Str() const {
    if (kind == 'v' || kind == 'e') {
      return std::string(1, kind) + std::to_string(n);
    }
    return std::string(1, kind);
  }
  bool operator==(const Seen& o) const {
    return kind == o.kind && ((kind != 'v' && kind != 'e') || n == o.n);
  }
  bool Failed() const {
    return kind == 'e' || kind == 's';
  }
};

Seen OfVal(const Val& v) {
  return v.Good() ? Seen{'v', v.a} : Seen{'g', 0};
}

using R = yaclib::Result<Val>;

Seen OfResult(const R& r) {
  switch (r.State()) {
    case yaclib::ResultState::Value:
      return OfVal(r.Value());
    case yaclib::ResultState::Error:
      return Seen{'s', 0};
    case yaclib::ResultState::Exception:
      try {
        std::rethrow_exception(r.Exception());
      } catch (Boom& b) {
        return Seen{'e', b.n};
      } catch (yaclib::ResultError<yaclib::StopError>&) {
        return Seen{'s', 0};
      } catch (...) {
        return Seen{'g', 1};
      }
    default:
      return Seen{'g', 2};
  }
}

// ---- plan -------------------------------------------------------------------------------------------------------
enum class OK { U, S, RU, RS, LT, Own };
struct OSpec {
  OK kind = OK::U;
  int x = 0;
  Seen outcome;
  char when = 'd';
  bool shared = false;  // the handle kind: SharedFuture (true) or Future/Task
  bool task = false;
};
struct XSpec {
  char kind = 'q';
};
struct Step {
  std::string op;  // co cc tk tc tl ai as an di ds dn on y yy cur
  int x = 0;
  std::vector<int> os;
};
struct CSpec {
  char ret = 'F';
  char starter = 'm';
  std::vector<Step> prog;
};
struct Plan {
  std::vector<OSpec> os;  // external objects first, then one own object per coroutine
  std::vector<XSpec> xs;  // index 0 unused (Inline)
  std::vector<CSpec> cs;
  bool drain_early = false;  // token D: main drains the queues once right after it started the coroutines
  int next = 0;              // number of external objects
  std::string err;
};

std::vector<std::string> Split(const std::string& s, char d) {
  std::vector<std::string> out;
  std::string cur;
  for (char c : s) {
    if (c == d) {
      out.push_back(cur);
      cur.clear();
    } else {
      cur += c;
    }
  }
  out.push_back(cur);
  return out;
}

Plan Parse(const std::string& text) {
  Plan p;
  p.xs.push_back({});
  std::vector<std::string> toks;
  for (auto& t : Split(text, ' ')) {
    if (!t.empty()) {
      toks.push_back(t);
    }
  }
  for (auto& t : toks) {
    auto f = Split(t, ':');
    if (t[0] == 'O' && f.size() == 4) {
      OSpec o;
      auto& k = f[1];
      if (k == "U") {
        o.kind = OK::U;
      } else if (k == "S") {
        o.kind = OK::S;
        o.shared = true;
      } else if (k.rfind("UO", 0) == 0) {
        o.kind = OK::U;
        o.x = std::atoi(k.c_str() + 2);
      } else if (k.rfind("SO", 0) == 0) {
        o.kind = OK::S;
        o.shared = true;
        o.x = std::atoi(k.c_str() + 2);
      } else if (k.rfind("RU", 0) == 0) {
        o.kind = OK::RU;
        o.x = std::atoi(k.c_str() + 2);
      } else if (k.rfind("RS", 0) == 0) {
        o.kind = OK::RS;
        o.shared = true;
        o.x = std::atoi(k.c_str() + 2);
      } else if (k.rfind("LT", 0) == 0) {
        o.kind = OK::LT;
        o.task = true;
        o.x = std::atoi(k.c_str() + 2);
      } else {
        p.err = "bad object kind " + t;
      }
      o.outcome.kind = f[2][0];
      o.outcome.n = f[2].size() > 1 ? std::atol(f[2].c_str() + 1) : 0;
      o.when = f[3][0];
      p.os.push_back(o);
    } else if (t[0] == 'X' && f.size() == 2) {
      p.xs.push_back(XSpec{f[1][0]});
    } else if (t[0] == 'C' && f.size() == 4) {
      CSpec c;
      c.ret = f[1][0];
      c.starter = f[2][0];
      for (auto& s : Split(f[3], '.')) {
        if (s.empty()) {
          continue;
        }
        Step st;
        std::size_t i = 0;
        while (i < s.size() && !std::isdigit(static_cast<unsigned char>(s[i]))) {
          ++i;
        }
        st.op = s.substr(0, i);
        std::string rest = s.substr(i);
        if (st.op == "an" || st.op == "dn") {
          auto u = rest.find('_');
          st.x = std::atoi(rest.substr(0, u).c_str());
          rest = u == std::string::npos ? "" : rest.substr(u + 1);
        } else if (st.op == "on") {
          st.x = std::atoi(rest.c_str());
          rest.clear();
        }
        if (!rest.empty()) {
          for (auto& o : Split(rest, '+')) {
            st.os.push_back(std::atoi(o.c_str()));
          }
        }
        c.prog.push_back(st);
      }
      p.cs.push_back(c);
    } else if (t == "D") {
      p.drain_early = true;
    } else {
      p.err = "bad token " + t;
    }
  }
  p.next = static_cast<int>(p.os.size());
  for (auto& c : p.cs) {
    OSpec o;
    o.kind = OK::Own;
    o.shared = c.ret == 'S';
    o.task = c.ret == 'T';
    p.os.push_back(o);
  }
  return p;
}

// ---- runtime context of one execution ---------------------------------------------------------------------------------
struct Ctx;
Ctx* gCtx = nullptr;

std::string FmtDec(std::uint64_t v) {
  return std::to_string(v);
}

class XExec;
struct XJob final : yaclib::Job {
  XExec* x = nullptr;
  yaclib::Job* inner = nullptr;
  int c = -1;
  void Call() noexcept final;
  void Drop() noexcept final;
};

class XExec final : public yaclib::IExecutor {
 public:
  int id = 0;
  char kind = 'q';
  std::deque<XJob*> q;
  std::map<std::uint64_t, std::vector<int>> cur;  // per fiber: coroutine ids of the Calls in progress, innermost last
  bool Calling(int c) {
    auto it = cur.find(yaclib::fault::Scheduler::GetId());
    return it != cur.end() && !it->second.empty() && it->second.back() == c;
  }
  yaclib::FairThreadPool* tp = nullptr;

  Type Tag() const noexcept final {
    return Type::Custom;
  }
  bool stopped = false;  // kind h after HardStop
  bool Alive() const noexcept final {
    return kind != 's' && kind != 'z' && !stopped;
  }
  void Submit(yaclib::Job& job) noexcept final;
  void HardStop();
  bool DrainOne() {
    if (q.empty()) {
      return false;
    }
    auto* j = q.front();
    q.pop_front();
    j->Call();
    return true;
  }
  void IncRef() noexcept final {
  }
  void DecRef() noexcept final {
  }
  std::size_t GetRef() noexcept final {
    return 1;
  }
};

struct Frame {
  const char* lo;
  const char* hi;
  int c;
};

struct CoShadow {
  bool started = false;
  bool dropped = false;
  bool finished = false;  // ret / escaping exception / drop seen
  Seen actual;            // what its Result must be
  std::vector<int> resumes;
  int local_dtor = 0;
  int frame_dtor = 0;
  int submits_since_aw = 0;
  int submit_exec = 0;  // the executor of the last Submit
  std::uint64_t fiber_before = 0;
  yaclib::IExecutor* exec_before = nullptr;
  bool consumed = false;  // its future was moved into somebody's co_await
};

struct Ctx {
  const Plan& p;
  std::vector<std::unique_ptr<XExec>> xs;
  std::vector<yaclib::IntrusivePtr<yaclib::FairThreadPool>> pools;
  std::vector<yaclib::Future<Val>> fut;
  std::vector<yaclib::SharedFuture<Val>> sfut;
  std::vector<yaclib::Task<Val>> task;
  std::vector<yaclib::Promise<Val>> prom;
  std::vector<yaclib::SharedPromise<Val>> sprom;
  std::vector<char> happened;
  std::vector<char> expect_stop;  // the job that was to fulfil this object was dropped by its executor
  std::vector<std::uint64_t> completer;
  std::vector<CoShadow> co;
  std::vector<Frame> frames;
  std::unordered_map<const yaclib::Job*, int> jobs;
  std::unordered_map<std::uint64_t, int> ptr_ids;

  explicit Ctx(const Plan& plan) : p{plan} {
    auto n = p.os.size();
    fut.resize(n);
    sfut.resize(n);
    task.resize(n);
    prom.resize(n);
    sprom.resize(n);
    happened.assign(n, 0);
    expect_stop.assign(n, 0);
    completer.assign(n, 0);
    co.resize(p.cs.size());
  }

  int Own(int c) const {
    return p.next + c;
  }
  std::string FmtWord(std::uint64_t v) {
    if (v == 0) {
      return "E";
    }
    if (v == ~std::uint64_t{0}) {
      return "R";
    }
    auto it = ptr_ids.find(v);
    if (it == ptr_ids.end()) {
      it = ptr_ids.emplace(v, static_cast<int>(ptr_ids.size())).first;
    }
    return "C" + std::to_string(it->second);
  }
  void NameWord(int o, yaclib::detail::BaseCore* core) {
    vrt::NameLoc(&core->_callback, "w" + std::to_string(o), [this](std::uint64_t v) {
      return FmtWord(v);
    });
  }
  yaclib::IExecutor& Exec(int x) {
    return x == 0 ? yaclib::MakeInline() : static_cast<yaclib::IExecutor&>(*xs[x]);
  }
  int ExecId(yaclib::IExecutor& e) {
    if (&e == &yaclib::MakeInline()) {
      return 0;
    }
    for (std::size_t i = 1; i < xs.size(); ++i) {
      if (&e == xs[i].get()) {
        return static_cast<int>(i);
      }
    }
    return 99;
  }
  void Happened(int o) {
    if (!happened[o]) {
      happened[o] = 1;
      completer[o] = yaclib::fault::Scheduler::GetId();
    }
  }
  void Fulfil(int o) {
    const OSpec& s = p.os[o];
    if (s.outcome.kind != 's') {
      vrt::Event("set " + std::to_string(o) + " " + s.outcome.Str());
    }
    Happened(o);
    if (s.kind == OK::U) {
      auto pr = std::move(prom[o]);
      if (s.outcome.kind == 'v') {
        std::move(pr).Set(Val{s.outcome.n});
      } else if (s.outcome.kind == 'e') {
        std::move(pr).Set(std::make_exception_ptr(Boom{static_cast<int>(s.outcome.n)}));
      }  // 's': the promise dies here
    } else {
      auto pr = std::move(sprom[o]);
      if (s.outcome.kind == 'v') {
        std::move(pr).Set(Val{s.outcome.n});
      } else if (s.outcome.kind == 'e') {
        std::move(pr).Set(std::make_exception_ptr(Boom{static_cast<int>(s.outcome.n)}));
      }
    }
  }
  Val Produce(int o) {  // the body of Run / RunShared / Schedule
    const OSpec& s = p.os[o];
    vrt::Event("set " + std::to_string(o) + " " + s.outcome.Str());
    Happened(o);
    if (s.outcome.kind == 'e') {
      throw Boom{static_cast<int>(s.outcome.n)};
    }
    return Val{s.outcome.n};
  }

  // ---- oracle ----------------------------------------------------------------------------------------------------
  void Marker(int c) {
    if (co[c].dropped) {
      vrt::Fail("coroutine " + std::to_string(c) + " ran after an executor dropped it");
    }
  }
  void BeforeAwait(int c, yaclib::IExecutor& e) {
    Marker(c);
    co[c].submits_since_aw = 0;
    co[c].fiber_before = yaclib::fault::Scheduler::GetId();
    co[c].exec_before = &e;
    vrt::Event("aw " + std::to_string(c));
  }
  void AfterAwait(int c, int k, const Step& st, const Seen& seen, yaclib::IExecutor& e) {
    Marker(c);
    auto& sh = co[c];
    auto me = yaclib::fault::Scheduler::GetId();
    std::string who = "coroutine " + std::to_string(c) + " co_await #" + std::to_string(k) + " (" + st.op + ")";
    vrt::Event("res " + std::to_string(c) + " " + std::to_string(k) + " " + seen.Str() + " " + std::to_string(ExecId(e)));
    // exactly once
    if (static_cast<int>(sh.resumes.size()) <= k) {
      sh.resumes.resize(k + 1, 0);
    }
    if (++sh.resumes[k] > 1) {
      vrt::Fail(who + " resumed " + std::to_string(sh.resumes[k]) + " times");
    }
    // only after what it awaited has happened
    for (int o : st.os) {
      if (!happened[o]) {
        vrt::Fail(who + " resumed before object " + std::to_string(o) + " was fulfilled");
      }
    }
    // receiving the awaited value or having the awaited failure rethrown
    bool consuming = st.op == "co" || st.op == "cc" || st.op == "tk" || st.op == "tc";
    if (consuming) {
      int o = st.os[0];
      Seen want = p.os[o].kind == OK::Own ? co[o - p.next].actual : p.os[o].outcome;
      if (p.os[o].kind == OK::LT && (p.xs[p.os[o].x].kind == 's' || p.xs[p.os[o].x].kind == 'z')) {
        want = Seen{'s', 0};  // the task's step was dropped by its stopped executor
      }
      if (expect_stop[o]) {
        want = Seen{'s', 0};  // the job behind Run / Schedule was dropped by HardStop
      }
      if (happened[o] && !(seen == want)) {
        vrt::Fail(who + " received " + seen.Str() + " but object " + std::to_string(o) + " holds " + want.Str());
      }
    } else if (st.op != "on" && st.op != "y" && st.op != "yy" && st.op != "cur" && st.op != "tl") {
      // Await(fs...) leaves the futures valid and ready
      for (int o : st.os) {
        bool valid = p.os[o].shared ? sfut[o].Valid() : fut[o].Valid();
        bool ready = valid && (p.os[o].shared ? sfut[o].Ready() : fut[o].Ready());
        if (!valid || !ready) {
          vrt::Fail(who + " left future " + std::to_string(o) + (valid ? " not ready" : " invalid"));
        }
      }
    }
    // where
    bool on_form = st.op == "on" || st.op == "an" || st.op == "dn";
    bool sticky_form = st.op == "as" || st.op == "ds" || st.op == "y" || st.op == "yy";
    if (on_form) {
      XExec& x = *xs[st.x];
      if (&e != &x) {
        vrt::Fail(who + " continues with CurrentExecutor " + std::to_string(ExecId(e)) + ", not the executor named");
      }
      if (sh.submits_since_aw != 1 || sh.submit_exec != st.x) {
        vrt::Fail(who + " was not submitted exactly once to the executor named (" + std::to_string(sh.submits_since_aw) +
                  " submissions, last to executor " + std::to_string(sh.submit_exec) + ")");
      }
      if (!x.Calling(c)) {
        vrt::Fail(who + " did not resume inside a Call of the executor named");
      }
    } else if (sticky_form) {
      if (&e != sh.exec_before) {
        vrt::Fail(who + " continues with CurrentExecutor " + std::to_string(ExecId(e)) + ", not its own executor");
      }
      int own = ExecId(*sh.exec_before);
      if (own >= 1 && own < static_cast<int>(xs.size())) {
        XExec& x = *xs[own];
        if (sh.submits_since_aw == 0) {
          if (me != sh.fiber_before) {
            vrt::Fail(who + " moved to another fiber without going through its own executor");
          }
        } else if (!x.Calling(c)) {
          vrt::Fail(who + " did not resume inside a Call of its own executor");
        }
      }
    } else if (st.op != "cur") {
      // inline forms: not suspended at all, or on the thread of whoever completed one of the awaited objects
      bool ok = me == sh.fiber_before;
      for (int o : st.os) {
        ok = ok || (happened[o] && completer[o] == me);
      }
      if (!ok) {
        vrt::Fail(who + " resumed on a fiber that neither ran it before nor completed what it awaited");
      }
      // ... and with its own executor or the executor of one of the awaited states, never an unrelated one
      bool known = true;
      bool exec_ok = &e == sh.exec_before;
      for (int o : st.os) {
        if (p.os[o].kind == OK::Own) {
          known = false;
        } else {
          exec_ok = exec_ok || &e == &Exec(p.os[o].x);
        }
      }
      if (known && !exec_ok) {
        vrt::Fail(who + " continues with CurrentExecutor " + std::to_string(ExecId(e)) +
                  ", which is neither its own nor the executor of anything it awaited");
      }
      for (int o : st.os) {
        CheckCoreExecutor(o, who);
      }
    } else if (me != sh.fiber_before || &e != sh.exec_before) {
      vrt::Fail(who + " (CurrentExecutor) changed fiber or executor");
    }
  }
  // an awaited future is left as it was: its state still has the executor it was made with
  void CheckCoreExecutor(int o, const std::string& who) {
    const OSpec& s = p.os[o];
    if (s.kind == OK::Own || s.task) {
      return;
    }
    yaclib::detail::BaseCore* core = nullptr;
    if (s.shared) {
      core = sfut[o].Valid() ? sfut[o].GetCore().Get() : nullptr;
    } else {
      core = fut[o].Valid() ? fut[o].GetCore().Get() : nullptr;
    }
    if (core != nullptr && core->_executor.Get() != &Exec(s.x)) {
      vrt::Fail(who + ": the state of awaited future " + std::to_string(o) + " now has executor " +
                std::to_string(core->_executor.Get() == nullptr ? -1 : ExecId(*core->_executor)) + " instead of " +
                std::to_string(s.x));
    }
  }
  void Throwing(int c, const Seen& seen) {
    co[c].finished = true;
    co[c].actual = seen;
    Happened(Own(c));
  }
  void Returning(int c, long v) {
    Marker(c);
    co[c].finished = true;
    co[c].actual = Seen{'v', v};
    Happened(Own(c));
    vrt::Event("ret " + std::to_string(c) + " v" + std::to_string(v));
  }
  void Dropping(int c) {
    auto& sh = co[c];
    if (sh.finished) {
      vrt::Fail("coroutine " + std::to_string(c) + " dropped after it finished");
    }
    sh.dropped = true;
    sh.finished = true;
    sh.actual = Seen{'s', 0};
    Happened(Own(c));
  }
  void LocalDtor(int c) {
    vrt::Event("local~ " + std::to_string(c));
    if (++co[c].local_dtor > 1) {
      vrt::Fail("the local of coroutine " + std::to_string(c) + " destroyed twice");
    }
  }
  void FrameDtor(int c) {
    vrt::Event("frame~ " + std::to_string(c));
    if (++co[c].frame_dtor > 1) {
      vrt::Fail("the frame of coroutine " + std::to_string(c) + " destroyed twice");
    }
  }
};

// auto-name the atomics that live inside a registered coroutine frame (awaiter counters)
void MyAfter(const volatile void* obj, std::size_t size, const char* op) {
  if (vrt::g.active && gCtx != nullptr && vrt::g.locs.find(obj) == vrt::g.locs.end()) {
    auto* a = reinterpret_cast<const char*>(const_cast<const void*>(obj));
    for (auto& f : gCtx->frames) {
      if (a >= f.lo && a < f.hi) {
        vrt::NameLoc(obj, "k" + std::to_string(f.c), FmtDec);
        break;
      }
    }
  }
  vrt::detail::After(obj, size, op);
}

void XExec::Submit(yaclib::Job& job) noexcept {
  auto it = gCtx->jobs.find(&job);
  int c = it == gCtx->jobs.end() ? -1 : it->second;
  vrt::Event("submit " + std::to_string(id) + " " + std::to_string(c));
  if (c >= 0) {
    gCtx->co[c].submit_exec = id;
    if (++gCtx->co[c].submits_since_aw > 1) {
      vrt::Fail("coroutine " + std::to_string(c) + " submitted twice for one co_await");
    }
  } else if (kind == 's' || kind == 'z' || (kind == 'h' && stopped)) {
    // the head of a lazy task dropped by its executor: the task completes with StopError now
    for (std::size_t o = 0; o < gCtx->p.os.size(); ++o) {
      if (gCtx->p.os[o].kind == OK::LT && gCtx->p.os[o].x == id) {
        gCtx->Happened(static_cast<int>(o));
      }
    }
  }
  auto* w = new XJob;
  w->x = this;
  w->inner = &job;
  w->c = c;
  if (kind == 'q' || (kind == 'h' && !stopped)) {
    q.push_back(w);
  } else if (kind == 's' || kind == 'h') {
    w->Drop();
  } else {
    tp->Submit(*w);
  }
}

void XExec::HardStop() {
  stopped = true;
  // what Run / RunShared / Schedule queued here and has not run yet is dropped: those objects complete with StopError
  for (std::size_t o = 0; o < gCtx->p.os.size(); ++o) {
    const OSpec& s = gCtx->p.os[o];
    if ((s.kind == OK::RU || s.kind == OK::RS || s.kind == OK::LT) && s.x == id && !gCtx->happened[o]) {
      gCtx->expect_stop[o] = 1;
      gCtx->Happened(static_cast<int>(o));
    }
  }
  while (!q.empty()) {
    auto* j = q.front();
    q.pop_front();
    j->Drop();
  }
}

void XJob::Call() noexcept {
  vrt::Event("call " + std::to_string(x->id) + " " + std::to_string(c));
  auto* ex = x;
  auto* in = inner;
  int cc = c;
  delete this;
  auto me = yaclib::fault::Scheduler::GetId();
  ex->cur[me].push_back(cc);
  in->Call();
  ex->cur[me].pop_back();
}

void XJob::Drop() noexcept {
  vrt::Event("drop " + std::to_string(x->id) + " " + std::to_string(c));
  if (c >= 0) {
    gCtx->Dropping(c);
  }
  auto* in = inner;
  delete this;
  in->Drop();
}

struct FrameProbe {
  Ctx* cx;
  int c;
  bool await_ready() const noexcept {
    return false;
  }
  template <typename P>
  bool await_suspend(std::coroutine_handle<P> h) noexcept {
    auto* a = static_cast<const char*>(h.address());
    cx->frames.push_back({a, a + malloc_usable_size(h.address()), c});
    auto& promise = h.promise();
    cx->NameWord(cx->Own(c), &promise);
    if constexpr (requires { promise.count; }) {
      vrt::NameLoc(&promise.count, "n" + std::to_string(c), FmtDec);  // the reference counter of a shared core
    }
    cx->jobs[static_cast<yaclib::Job*>(&promise)] = c;
    cx->co[c].started = true;
    vrt::Event("spawn " + std::to_string(c));
    return false;
  }
  void await_resume() const noexcept {
  }
};

struct Local {
  Ctx* cx;
  int c;
  Local(Ctx* x, int cc) : cx{x}, c{cc} {
  }
  Local(const Local&) = delete;
  ~Local() {
    cx->LocalDtor(c);
  }
};

struct FrameTag {
  Ctx* cx;
  int c;
  bool live;
  FrameTag(Ctx* x, int cc) : cx{x}, c{cc}, live{false} {
  }
  FrameTag(FrameTag&& o) noexcept : cx{o.cx}, c{o.c}, live{true} {  // the copy inside the coroutine frame
    o.live = false;
  }
  ~FrameTag() {
    if (live && cx->co[c].started) {
      cx->FrameDtor(c);
    }
  }
};

#define C13_FU(i) cx->fut[st.os[i]]
#define C13_FS(i) cx->sfut[st.os[i]]
#define C13_MULTI(FN, ...)                                                                                             \
  do {                                                                                                                 \
    int code = 0;                                                                                                      \
    for (int o : st.os) {                                                                                              \
      code = code * 2 + (cx->p.os[o].shared ? 1 : 0);                                                                  \
    }                                                                                                                  \
    if (st.os.size() == 1) {                                                                                           \
      if (code == 0) {                                                                                                 \
        co_await FN(__VA_ARGS__ C13_FU(0));                                                                            \
      } else {                                                                                                         \
        co_await FN(__VA_ARGS__ C13_FS(0));                                                                            \
      }                                                                                                                \
    } else if (st.os.size() == 2) {                                                                                    \
      if (code == 0) {                                                                                                 \
        co_await FN(__VA_ARGS__ C13_FU(0), C13_FU(1));                                                                 \
      } else if (code == 1) {                                                                                          \
        co_await FN(__VA_ARGS__ C13_FU(0), C13_FS(1));                                                                 \
      } else if (code == 2) {                                                                                          \
        co_await FN(__VA_ARGS__ C13_FS(0), C13_FU(1));                                                                 \
      } else {                                                                                                         \
        co_await FN(__VA_ARGS__ C13_FS(0), C13_FS(1));                                                                 \
      }                                                                                                                \
    } else {                                                                                                           \
      if (code == 0) {                                                                                                 \
        co_await FN(__VA_ARGS__ C13_FU(0), C13_FU(1), C13_FU(2));                                                      \
      } else if (code == 1) {                                                                                          \
        co_await FN(__VA_ARGS__ C13_FU(0), C13_FU(1), C13_FS(2));                                                      \
      } else if (code == 3) {                                                                                          \
        co_await FN(__VA_ARGS__ C13_FU(0), C13_FS(1), C13_FS(2));                                                      \
      } else if (code == 7) {                                                                                          \
        co_await FN(__VA_ARGS__ C13_FS(0), C13_FS(1), C13_FS(2));                                                      \
      } else {                                                                                                         \
        vrt::Fail("harness: unsupported mix of unique and shared futures (order them unique first)");                  \
      }                                                                                                                \
    }                                                                                                                  \
  } while (false)

// the iterator forms need the futures in one contiguous range: they are moved into a local vector and back
#define C13_DYN(FN, ...)                                                                                               \
  do {                                                                                                                 \
    if (cx->p.os[st.os[0]].shared) {                                                                                   \
      std::vector<yaclib::SharedFuture<Val>> v;                                                                        \
      for (int o : st.os) {                                                                                            \
        v.push_back(cx->sfut[o]);                                                                                      \
      }                                                                                                                \
      co_await FN(__VA_ARGS__ v.begin(), v.size());                                                                    \
    } else {                                                                                                           \
      std::vector<yaclib::Future<Val>> v;                                                                              \
      for (int o : st.os) {                                                                                            \
        v.push_back(std::move(cx->fut[o]));                                                                            \
      }                                                                                                                \
      co_await FN(__VA_ARGS__ v.begin(), v.size());                                                                    \
      for (std::size_t i = 0; i < v.size(); ++i) {                                                                     \
        cx->fut[st.os[i]] = std::move(v[i]);                                                                           \
      }                                                                                                                \
    }                                                                                                                  \
  } while (false)

template <typename Ret>
Ret Body(FrameTag /*lives in the frame*/, Ctx* cx, int c) {
  co_await FrameProbe{cx, c};
  Local loc{cx, c};
  const auto& prog = cx->p.cs[c].prog;
  for (std::size_t k = 0; k < prog.size(); ++k) {
    const Step& st = prog[k];
    Seen seen;
    std::exception_ptr thrown;
    cx->BeforeAwait(c, co_await yaclib::CurrentExecutor());
    try {
      if (st.op == "co" || st.op == "cc") {
        int o = st.os[0];
        if (cx->p.os[o].shared) {
          Val v = co_await cx->sfut[o];
          seen = OfVal(v);
        } else {
          if (cx->p.os[o].kind == OK::Own) {
            cx->co[o - cx->p.next].consumed = true;
          }
          Val v = co_await std::move(cx->fut[o]);
          seen = OfVal(v);
        }
      } else if (st.op == "tk" || st.op == "tc") {
        int o = st.os[0];
        if (cx->p.os[o].kind == OK::Own) {
          cx->co[o - cx->p.next].consumed = true;
        }
        Val v = co_await std::move(cx->task[o]);
        seen = OfVal(v);
      } else if (st.op == "tl") {
        co_await yaclib::Await(cx->task[st.os[0]]);
      } else if (st.op == "ai") {
        C13_MULTI(yaclib::Await, );
      } else if (st.op == "an") {
        C13_MULTI(yaclib::AwaitOn, cx->Exec(st.x), );
      } else if (st.op == "di") {
        C13_DYN(yaclib::Await, );
      } else if (st.op == "dn") {
        C13_DYN(yaclib::AwaitOn, cx->Exec(st.x), );
#ifdef C13_HAVE_STICKY
      } else if (st.op == "as") {
        C13_MULTI(yaclib::AwaitSticky, );
      } else if (st.op == "ds") {
        C13_DYN(yaclib::AwaitSticky, );
#endif
      } else if (st.op == "on") {
        co_await yaclib::On(cx->Exec(st.x));
      } else if (st.op == "y") {
        co_await yaclib::kYield;
      } else if (st.op == "yy") {
        co_await yaclib::Yield();
      } else if (st.op == "cur") {
        yaclib::IExecutor& e = co_await yaclib::CurrentExecutor();
        (void)e;
      } else {
        vrt::Fail("harness: unknown step " + st.op);
      }
    } catch (Boom& b) {
      seen = Seen{'e', b.n};
      thrown = std::current_exception();
    } catch (yaclib::ResultError<yaclib::StopError>&) {
      seen = Seen{'s', 0};
      thrown = std::current_exception();
    } catch (...) {
      seen = Seen{'g', 3};
      thrown = std::current_exception();
    }
    cx->AfterAwait(c, static_cast<int>(k), st, seen, co_await yaclib::CurrentExecutor());
    if (thrown && st.op != "cc" && st.op != "tc") {
      cx->Throwing(c, seen);
      std::rethrow_exception(thrown);
    }
  }
  cx->Returning(c, 100 + c);
  co_return Val{100 + c};
}

void RunPlan(const Plan& plan) {
  Ctx cx{plan};
  gCtx = &cx;
  struct Reset {
    ~Reset() {
      gCtx = nullptr;
    }
  } reset;
  // executors
  cx.xs.resize(plan.xs.size());
  cx.pools.resize(plan.xs.size());
  for (std::size_t i = 1; i < plan.xs.size(); ++i) {
    cx.xs[i] = std::make_unique<XExec>();
    cx.xs[i]->id = static_cast<int>(i);
    cx.xs[i]->kind = plan.xs[i].kind;
    if (plan.xs[i].kind == 'p' || plan.xs[i].kind == 'z') {
      cx.pools[i] = yaclib::MakeFairThreadPool(1);
      cx.xs[i]->tp = cx.pools[i].Get();
      if (plan.xs[i].kind == 'z') {
        cx.pools[i]->Stop();
      }
    }
  }
  // awaited objects
  for (int o = 0; o < plan.next; ++o) {
    const OSpec& s = plan.os[o];
    switch (s.kind) {
      case OK::U: {
        if (s.x != 0) {
          auto [f, p] = yaclib::MakeContractOn<Val>(cx.Exec(s.x));
          cx.NameWord(o, f.GetCore().Get());
          cx.fut[o] = std::move(f).On(nullptr);
          cx.prom[o] = std::move(p);
        } else {
          auto [f, p] = yaclib::MakeContract<Val>();
          cx.NameWord(o, f.GetCore().Get());
          cx.fut[o] = std::move(f);
          cx.prom[o] = std::move(p);
        }
      } break;
      case OK::S: {
        if (s.x != 0) {
          auto [f, p] = yaclib::MakeSharedContractOn<Val>(cx.Exec(s.x));
          cx.NameWord(o, f.GetCore().Get());
          cx.sfut[o] = std::move(f).On(nullptr);
          cx.sprom[o] = std::move(p);
        } else {
          auto [f, p] = yaclib::MakeSharedContract<Val>();
          cx.NameWord(o, f.GetCore().Get());
          cx.sfut[o] = std::move(f);
          cx.sprom[o] = std::move(p);
        }
      } break;
      case OK::RU: {
        Ctx* c = &cx;
        auto f = yaclib::Run(cx.Exec(s.x), [c, o] {
          return c->Produce(o);
        });
        cx.NameWord(o, f.GetCore().Get());
        cx.fut[o] = std::move(f).On(nullptr);
      } break;
      case OK::RS: {
        Ctx* c = &cx;
        auto f = yaclib::RunShared(cx.Exec(s.x), [c, o] {
          return c->Produce(o);
        });
        cx.NameWord(o, f.GetCore().Get());
        cx.sfut[o] = std::move(f).On(nullptr);
      } break;
      case OK::LT: {
        Ctx* c = &cx;
        auto t = yaclib::Schedule(cx.Exec(s.x), [c, o] {
          return c->Produce(o);
        });
        cx.NameWord(o, t.GetCore().Get());
        cx.task[o] = std::move(t);
      } break;
      default:
        break;
    }
  }
  for (int o = 0; o < plan.next; ++o) {
    if ((plan.os[o].kind == OK::U || plan.os[o].kind == OK::S) && plan.os[o].when == 'a') {
      cx.Fulfil(o);
    }
  }
  std::vector<yaclib_std::thread> threads;
  for (int o = 0; o < plan.next; ++o) {
    if ((plan.os[o].kind == OK::U || plan.os[o].kind == OK::S) && plan.os[o].when == 'd') {
      threads.emplace_back([&cx, o] {
        vrt::NameThread("P" + std::to_string(o));
        cx.Fulfil(o);
      });
    }
  }
  // coroutines: lazy ones are only created, the others start running here
  auto start = [&cx](int c) {
    const CSpec& s = cx.p.cs[c];
    int own = cx.Own(c);
    if (s.ret == 'F') {
      cx.fut[own] = Body<yaclib::Future<Val>>(FrameTag{&cx, c}, &cx, c);
    } else if (s.ret == 'S') {
      cx.sfut[own] = Body<yaclib::SharedFuture<Val>>(FrameTag{&cx, c}, &cx, c);
    } else {
      cx.task[own] = Body<yaclib::Task<Val>>(FrameTag{&cx, c}, &cx, c);
      cx.NameWord(own, cx.task[own].GetCore().Get());
      cx.jobs[static_cast<yaclib::Job*>(cx.task[own].GetCore().Get())] = c;
    }
  };
  for (std::size_t c = 0; c < plan.cs.size(); ++c) {
    if (plan.cs[c].ret == 'T') {
      start(static_cast<int>(c));
    }
  }
  auto drain = [&cx](bool main_fiber = false) {
    for (bool again = true; again;) {
      again = false;
      for (std::size_t i = 1; i < cx.xs.size(); ++i) {
        if (cx.xs[i]->kind == 'h') {
          if (main_fiber && !cx.xs[i]->stopped) {
            cx.xs[i]->HardStop();  // a foreign fiber stops the executor: its queued jobs are dropped here
            again = true;
          }
          continue;
        }
        while (cx.xs[i]->DrainOne()) {
          again = true;
        }
      }
    }
  };
  for (std::size_t c = 0; c < plan.cs.size(); ++c) {
    if (plan.cs[c].ret == 'T') {
      continue;
    }
    if (plan.cs[c].starter == 't') {
      threads.emplace_back([&start, &drain, c] {
        vrt::NameThread("C" + std::to_string(c));
        start(static_cast<int>(c));
        drain();
      });
    } else {
      start(static_cast<int>(c));
    }
  }
  if (plan.drain_early) {
    drain(true);
  }
  for (int o = 0; o < plan.next; ++o) {
    if ((plan.os[o].kind == OK::U || plan.os[o].kind == OK::S) && plan.os[o].when == 'l') {
      cx.Fulfil(o);
    }
  }
  for (auto& t : threads) {
    t.join();
  }
  // drain: queues by main, pools by waiting for them
  drain(true);
  for (std::size_t i = 1; i < cx.xs.size(); ++i) {
    if (cx.pools[i]) {
      cx.pools[i]->SoftStop();
      cx.pools[i]->Wait();
    }
  }
  drain(true);  // what the pool's jobs may have submitted to the queues
  for (int o = 0; o < plan.next; ++o) {
    cx.CheckCoreExecutor(o, "at the end");
  }
  // harvest: every started coroutine must be complete by now, with the Result the property says
  for (std::size_t c = 0; c < plan.cs.size(); ++c) {
    auto& sh = cx.co[c];
    int own = cx.Own(static_cast<int>(c));
    std::string who = "coroutine " + std::to_string(c);
    if (!sh.started) {
      continue;
    }
    if (!sh.finished) {
      int k = 0;
      while (k < static_cast<int>(sh.resumes.size()) && sh.resumes[k] > 0) {
        ++k;
      }
      vrt::Fail(who + " never got past co_await #" + std::to_string(k) + " although everything it awaits is complete");
      continue;
    }
    if (!sh.dropped) {
      for (std::size_t k = 0; k < sh.resumes.size(); ++k) {
        if (sh.resumes[k] != 1) {
          vrt::Fail(who + " co_await #" + std::to_string(k) + " resumed " + std::to_string(sh.resumes[k]) + " times");
        }
      }
    }
    if (sh.consumed) {
      continue;  // whoever co_awaited it compared the value
    }
    bool ready = false;
    Seen got;
    if (plan.cs[c].ret == 'S') {
      ready = cx.sfut[own].Valid() && cx.sfut[own].Ready();
      if (ready) {
        got = OfResult(cx.sfut[own].Touch());
      }
    } else if (plan.cs[c].ret == 'F') {
      ready = cx.fut[own].Valid() && cx.fut[own].Ready();
      if (ready) {
        got = OfResult(std::as_const(cx.fut[own]).Touch());
      }
    } else {
      ready = cx.task[own].Valid() && cx.task[own].Ready();
      if (ready) {
        got = OfResult(std::as_const(cx.task[own]).Touch());
      }
    }
    if (!ready) {
      vrt::Fail(who + " finished but its Result is not published");
    } else {
      vrt::Event("result " + std::to_string(c) + " " + got.Str());
      if (!(got == sh.actual)) {
        vrt::Fail(who + " holds " + got.Str() + " but " + (sh.dropped ? "it was dropped (StopError expected)" : "its body produced " + sh.actual.Str()));
      }
    }
  }
  // release the coroutines: frames (and, for dropped ones, their live locals) are destroyed exactly once
  for (std::size_t c = 0; c < plan.cs.size(); ++c) {
    int own = cx.Own(static_cast<int>(c));
    if (!cx.co[c].started) {
      continue;
    }
    cx.fut[own] = {};
    cx.sfut[own] = {};
    cx.task[own] = {};
  }
  for (std::size_t c = 0; c < plan.cs.size(); ++c) {
    auto& sh = cx.co[c];
    if (!sh.started || !sh.finished) {
      continue;
    }
    if (sh.local_dtor != 1) {
      vrt::Fail("the local of coroutine " + std::to_string(c) + " was destroyed " + std::to_string(sh.local_dtor) + " times");
    }
    if (sh.frame_dtor != 1) {
      vrt::Fail("the frame of coroutine " + std::to_string(c) + " was destroyed " + std::to_string(sh.frame_dtor) + " times");
    }
  }
  vrt::Event("end");
}

}  // namespace

int main(int argc, char** argv) {
  vrt::Main m(argc, argv);
  yaclib::verif::gHooks.after = MyAfter;
  // the default fiber stack is 8 pages; resumptions nest (completer -> coroutine -> its completion -> next coroutine ...)
  // and the sanitizer builds have large frames
  yaclib::fiber::SetStackSize(256);
  std::vector<std::pair<std::string, std::string>> plans;
  // plans come from the check (one --param per scenario): name=plan
  for (int i = 1; i + 1 < argc; ++i) {
    if (std::string(argv[i]) == "--plan") {
      std::string a = argv[i + 1];
      auto eq = a.find('=');
      plans.emplace_back(a.substr(0, eq), a.substr(eq + 1));
    } else if (std::string(argv[i]) == "--plans") {
      FILE* f = std::fopen(argv[i + 1], "r");
      char buf[4096];
      while (f != nullptr && std::fgets(buf, sizeof buf, f) != nullptr) {
        std::string a = buf;
        while (!a.empty() && (a.back() == '\n' || a.back() == '\r')) {
          a.pop_back();
        }
        auto eq = a.find('=');
        if (eq != std::string::npos) {
          plans.emplace_back(a.substr(0, eq), a.substr(eq + 1));
        }
      }
      if (f != nullptr) {
        std::fclose(f);
      }
    }
  }
  for (auto& [name, text] : plans) {
    Plan p = Parse(text);
    if (!p.err.empty()) {
      std::fprintf(stderr, "bad plan %s: %s\n", name.c_str(), p.err.c_str());
      return 2;
    }
    m.Scenario(name, [p] {
      RunPlan(p);
    });
  }
  return m.Finish();
}
