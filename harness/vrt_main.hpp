// Command-line driver shared by the harnesses.
//   --mode dfs|random|replay   --only <substring>   --exact <name>   --max <executions per scenario>
//   --seed <n>   --pb <preemption bound>   --weak <spurious weak-CAS failures per execution>
//   --choices a,b,c (replay)   --out <file>   --no-yields   --list   --max-choices <n>
#pragma once

#include "verif_rt.hpp"

namespace vrt {

class Main {
 public:
  Main(int argc, char** argv) {
    for (int i = 1; i < argc; ++i) {
      std::string a = argv[i];
      auto next = [&]() -> std::string {
        return i + 1 < argc ? argv[++i] : "";
      };
      if (a == "--mode") {
        _mode = next();
      } else if (a == "--only") {
        _only = next();
      } else if (a == "--exact") {
        _exact = next();
      } else if (a == "--max") {
        _max = std::strtoull(next().c_str(), nullptr, 10);
      } else if (a == "--seed") {
        _seed = std::strtoull(next().c_str(), nullptr, 10);
      } else if (a == "--pb") {
        g.opt.preemption_bound = std::atoi(next().c_str());
      } else if (a == "--weak") {
        g.opt.weak_fail_budget = std::atoi(next().c_str());
      } else if (a == "--max-choices") {
        g.opt.max_choices = std::atoi(next().c_str());
      } else if (a == "--choices") {
        _choices = next();
      } else if (a == "--out") {
        _out = std::fopen(next().c_str(), "w");
      } else if (a == "--yield-at") {
        const std::string v = next();
        g.opt.yield_at = v == "after" ? 1 : (v == "both" ? 2 : 0);
      } else if (a == "--no-yields") {
        g.opt.yields = false;
      } else if (a == "--trace-unknown") {
        g.trace_unknown = true;
      } else if (a == "--list") {
        _list = true;
      } else if (a == "--param") {
        _params.push_back(next());
      }
    }
    if (_out == nullptr) {
      _out = stdout;
    }
    Install();
  }

  bool Wanted(const std::string& name) const {
    if (!_exact.empty()) {
      return name == _exact;
    }
    return _only.empty() || name.find(_only) != std::string::npos;
  }

  void Scenario(const std::string& name, const std::function<void()>& body) {
    if (_list) {
      std::fprintf(_out, "%s\n", name.c_str());
      return;
    }
    if (!Wanted(name)) {
      return;
    }
    Summary sum;
    g.scenario_name = name;
    Explore(_mode, body, sum, _max, _seed + _count, _choices);
    ++_count;
    Emit(_out, name, _mode, sum);
    std::fflush(_out);
    _failures += sum.failures;
  }

  std::string Param(const std::string& key, const std::string& def = "") const {
    for (auto& p : _params) {
      auto eq = p.find('=');
      if (eq != std::string::npos && p.substr(0, eq) == key) {
        return p.substr(eq + 1);
      }
    }
    return def;
  }

  const std::string& Mode() const {
    return _mode;
  }
  std::uint64_t Seed() const {
    return _seed;
  }

  int Finish() {
    if (_out != stdout) {
      std::fclose(_out);
    }
    return 0;
  }

 private:
  std::string _mode = "dfs";
  std::string _only;
  std::string _exact;
  std::string _choices;
  std::vector<std::string> _params;
  std::uint64_t _max = 1000000;
  std::uint64_t _seed = 1;
  std::uint64_t _count = 0;
  std::uint64_t _failures = 0;
  FILE* _out = nullptr;
  bool _list = false;
};

}  // namespace vrt
