// C01 harness: one producer fiber and one consumer fiber on one Future/Promise pair, every producer kind x
// consumer kind, explored over all interleavings at the granularity of the wrapped atomic operations.
// The oracle is written from the property text only.
#include "vrt_all.hpp"

#include "vrt_main.hpp"

namespace {

struct Err {
  int code = -1;
  Err(yaclib::StopTag) noexcept : code{999} {
  }
  explicit Err(int c) noexcept : code{c} {
  }
  static const char* What() noexcept {
    return "Err";
  }
};

struct Payload {
  long a = 0;
  long chk = 0;
  Payload() = default;
  explicit Payload(long x) : a{x}, chk{x * 31 + 7} {
  }
  bool Ok() const {
    return chk == a * 31 + 7;
  }
};

using R = yaclib::Result<Payload, Err>;

// encoding shared with the model: 1000+v value, 2000+c error (2999 = StopError), 3000+k exception, 9999 garbage
long Code(const R& r) {
  switch (r.State()) {
    case yaclib::ResultState::Value:
      return r.Value().Ok() ? 1000 + r.Value().a : 9999;
    case yaclib::ResultState::Error:
      return 2000 + r.Error().code;
    case yaclib::ResultState::Exception:
      try {
        std::rethrow_exception(r.Exception());
      } catch (int k) {
        return 3000 + k;
      } catch (...) {
        return 9999;
      }
    default:
      return 9999;
  }
}

std::string FmtWord(std::uint64_t v) {
  if (v == 0) {
    return "E";
  }
  if (v == std::numeric_limits<std::uintptr_t>::max()) {
    return "R";
  }
  return "C";
}

class CountingInline final : public yaclib::IExecutor {
 public:
  Type Tag() const noexcept final {
    return Type::Custom;
  }
  bool Alive() const noexcept final {
    return true;
  }
  void Submit(yaclib::Job& job) noexcept final {
    ++submits;
    job.Call();
  }
  void IncRef() noexcept final {
  }
  void DecRef() noexcept final {
  }
  std::size_t GetRef() noexcept final {
    return 1;
  }
  int submits = 0;
};

const char* kProducers[] = {"value", "error", "exception", "drop", "passign"};
const char* kConsumers[] = {"then_inline", "then_e",    "detach",   "detach_inline", "detach_e",
                            "get_move",    "get_const", "wait",     "connect",       "drop",
                            "wait_then",   "peek_get_move",
                            // a timed wait (deadline in virtual ns) that may give up, then the future is consumed
                            "waitfor5_get", "waitfor25_get", "waitfor45_get", "waitfor5_then", "waitfor25_then",
                            "waitfor45_then",
                            // the future is overwritten by move assignment from another contract's future
                            "fassign"};
constexpr int kConsumerCount = 19;

struct Scenario {
  int pk;
  int ck;
  int delay = 0;  // the producer sleeps this many virtual ns before fulfilling (timed-wait scenarios)
};

long Expected(int pk) {
  switch (pk) {
    case 0:
      return 1042;
    case 1:
      return 2005;
    case 2:
      return 3007;
    default:
      return 2999;
  }
}

void Produce(int pk, yaclib::Promise<Payload, Err> p, int delay_ns) {
  if (delay_ns > 0) {
    // lets a timed wait on the other side reach its deadline before, around or after the fulfilment
    yaclib_std::this_thread::sleep_for(std::chrono::nanoseconds(delay_ns));
  }
  vrt::Event("set " + std::to_string(Expected(pk)));
  switch (pk) {
    case 0:
      std::move(p).Set(Payload{42});
      break;
    case 1:
      std::move(p).Set(Err{5});
      break;
    case 2:
      std::move(p).Set(std::make_exception_ptr(7));
      break;
    case 3: {
      auto q = std::move(p);
      break;
    }  // ~Promise
    default: {
      // the promise is overwritten by move assignment while it still owns its unfulfilled state: the old state must be
      // completed with StopError exactly like a dropped promise
      auto [f2, p2] = yaclib::MakeContract<Payload, Err>();
      p = std::move(p2);
      (void)f2;
    }
  }
}

struct Obs {
  int cb_count = 0;
  long cb_code = -1;
  int got_count = 0;
  long got_code = -1;
  bool ready_regressed = false;
  bool ready_seen = false;
};

void Consume(int ck, yaclib::Future<Payload, Err> f, Obs& obs, CountingInline& exe) {
  auto cb = [&obs](R&& r) {
    ++obs.cb_count;
    obs.cb_code = Code(r);
    vrt::Event("cb " + std::to_string(obs.cb_code));
  };
  auto peek = [&obs](const yaclib::Future<Payload, Err>& fut) {
    vrt::Event("peek");
    const R* r = fut.Get();
    if (r != nullptr) {
      obs.ready_seen = true;
      ++obs.got_count;
      obs.got_code = Code(*r);
      vrt::Event("got " + std::to_string(obs.got_code));
    } else {
      if (obs.ready_seen) {
        obs.ready_regressed = true;
      }
      vrt::Event("notready");
    }
  };
  switch (ck) {
    case 0: {  // ThenInline
      auto f2 = std::move(f).ThenInline(cb);
      break;
    }
    case 1: {  // Then(e)
      auto f2 = std::move(f).Then(exe, cb);
      break;
    }
    case 2:  // Detach()
      std::move(f).Detach();
      break;
    case 3:
      std::move(f).DetachInline(cb);
      break;
    case 4:
      std::move(f).Detach(exe, cb);
      break;
    case 5: {  // Get&&
      vrt::Event("wait");
      R r = std::move(f).Get();
      ++obs.got_count;
      obs.got_code = Code(r);
      vrt::Event("got " + std::to_string(obs.got_code));
      break;
    }
    case 6: {  // Get const& polled three times, then the future is dropped
      peek(f);
      peek(f);
      peek(f);
      break;
    }
    case 7: {  // Wait, then read through Get const&, then drop
      vrt::Event("wait");
      yaclib::Wait(f);
      peek(f);
      if (obs.got_count == 0) {
        vrt::Fail("Wait returned but Get const& says not ready");
      }
      break;
    }
    case 8: {  // Connect to a second contract whose future has a continuation
      auto [f2, p2] = yaclib::MakeContract<Payload, Err>();
      std::move(f2).DetachInline(cb);
      yaclib::Connect(std::move(f), std::move(p2));
      break;
    }
    case 9: {  // ~Future
      auto g = std::move(f);
      break;
    }
    case 18: {  // the future is overwritten while pending: like ~Future for the old state
      auto [f2, p2] = yaclib::MakeContract<Payload, Err>();
      f = std::move(f2);
      std::move(p2).Set(Payload{1});
      break;
    }
    case 10: {  // Wait, then attach a continuation
      vrt::Event("wait");
      yaclib::Wait(f);
      std::move(f).DetachInline(cb);
      break;
    }
    case 12:
    case 13:
    case 14:
    case 15:
    case 16:
    case 17: {  // WaitFor(d); whatever it answers, the future must still deliver exactly once afterwards
      const int d = (ck - 12) % 3 == 0 ? 5 : ((ck - 12) % 3 == 1 ? 25 : 45);
      vrt::Event("twait");
      const bool ok = yaclib::WaitFor(std::chrono::nanoseconds(d), f);
      vrt::Event(std::string("twret ") + (ok ? "1" : "0"));
      if (ok) {
        peek(f);  // Ready() / Get const& right after a successful timed wait
        if (obs.got_count == 0) {
          vrt::Fail("WaitFor returned true but the future is not Ready");
        }
        obs.got_count = 0;
      }
      if (ck < 15) {
        vrt::Event("wait");
        R r = std::move(f).Get();
        ++obs.got_count;
        obs.got_code = Code(r);
        vrt::Event("got " + std::to_string(obs.got_code));
      } else {
        std::move(f).DetachInline(cb);
      }
      break;
    }
    case 11: {  // poll once, then Get&&
      peek(f);
      obs.got_count = 0;
      vrt::Event("wait");
      R r = std::move(f).Get();
      ++obs.got_count;
      obs.got_code = Code(r);
      vrt::Event("got " + std::to_string(obs.got_code));
      break;
    }
  }
}

void RunScenario(Scenario sc) {
  auto [f, p] = yaclib::MakeContract<Payload, Err>();
  vrt::NameLoc(&f.GetCore()->_callback, "w", FmtWord);
  Obs obs;
  CountingInline exe;
  yaclib_std::thread tp([&, p = std::move(p)]() mutable {
    vrt::NameThread("P");
    Produce(sc.pk, std::move(p), sc.delay);
  });
  yaclib_std::thread tc([&, f = std::move(f)]() mutable {
    vrt::NameThread("C");
    Consume(sc.ck, std::move(f), obs, exe);
  });
  tp.join();
  tc.join();
  // ---- oracle (property text): exactly once, intact, nothing if dropped
  const long want = Expected(sc.pk);
  const bool attach = sc.ck == 0 || sc.ck == 1 || sc.ck == 3 || sc.ck == 4 || sc.ck == 8 || sc.ck == 10 || (sc.ck >= 15 && sc.ck <= 17);
  const bool silent = sc.ck == 2 || sc.ck == 9 || sc.ck == 18;
  if (attach) {
    if (obs.cb_count != 1) {
      vrt::Fail("continuation invoked " + std::to_string(obs.cb_count) + " times");
    } else if (obs.cb_code != want) {
      vrt::Fail("continuation saw " + std::to_string(obs.cb_code) + " but " + std::to_string(want) + " was set");
    }
  } else if (obs.cb_count != 0) {
    vrt::Fail("a continuation ran although none was attached");
  }
  if (silent && (obs.cb_count != 0 || obs.got_count != 0)) {
    vrt::Fail("something ran although the future was dropped");
  }
  if (sc.ck == 5 || sc.ck == 7 || sc.ck == 11 || (sc.ck >= 12 && sc.ck <= 14)) {
    if (obs.got_count != 1 || obs.got_code != want) {
      vrt::Fail("Get returned " + std::to_string(obs.got_code) + " (" + std::to_string(obs.got_count) +
                " times) but " + std::to_string(want) + " was set");
    }
  }
  if (sc.ck == 6 && obs.got_count != 0 && obs.got_code != want) {
    vrt::Fail("Get const& returned " + std::to_string(obs.got_code) + " but " + std::to_string(want) + " was set");
  }
  if (obs.ready_regressed) {
    vrt::Fail("Ready() went from true back to false");
  }
  if ((sc.ck == 1 || sc.ck == 4) && exe.submits != 1) {
    vrt::Fail("executor saw " + std::to_string(exe.submits) + " submissions");
  }
}

}  // namespace

int main(int argc, char** argv) {
  vrt::Main m(argc, argv);
  for (int pk = 0; pk < 5; ++pk) {
    for (int ck = 0; ck < kConsumerCount; ++ck) {
      std::string name = std::string(kProducers[pk]) + "/" + kConsumers[ck];
      if (ck < 12 || ck == 18) {
        m.Scenario(name, [=] {
          RunScenario(Scenario{pk, ck, 0});
        });
      } else {
        for (int delay : {10, 20, 30, 40}) {
          m.Scenario(name + "@p" + std::to_string(delay), [=] {
            RunScenario(Scenario{pk, ck, delay});
          });
        }
      }
    }
  }
  return m.Finish();
}
