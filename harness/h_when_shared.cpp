// C09 / C10, second family of scenarios: SharedFuture inputs that have OTHER consumers.
//
//   pair : two combinators over three shared states a, b, c of the same value type, sharing one input:
//          layouts  L1 (a,b)+(a,c)   L2 (a,b)+(c,a)   L3 (a,b)+(b,a);  variadic form (the one that picks callback nodes
//          per input) and iterator form (control)
//   sub  : one combinator over (a,b) while a plain continuation (SubscribeInline) is attached to a or to b, before the
//          call (prea / preb) or concurrently from another fiber (conca / concb)
//
// Producers race with the builder(s) as in h_c09 / h_c10.  Oracle: every combinator is judged on its own by the oracle
// of when_h.hpp (set exactly once; content / winner; moment), every plain continuation must have fired exactly once
// with the Result of its input, and every shared state, combinator and output state must be freed exactly once.
//
// A SharedCore keeps its pending callbacks in an intrusive list threaded through the callback objects themselves
// (InlineCore::next), so a callback object that is registered on two inputs corrupts the list of the first one as
// soon as that input has another pending consumer: these scenarios are the ones where that matters.
//
// Scenario names: <set>/<what>/<form>/<layout>/<arrangement>/<pattern>, set = P09 | P10 | S09 | S10 (which check runs it)
//   arrangement  seq : everything on one fiber, the order of {build 1, build 2 / subscribe, set a, set b, set c} is an
//                      explorer decision (all orders)
//                q<o>: fiber B builds, fiber Q completes the inputs in order <o>
//                p   : fiber B builds, one producer fiber per input (and fiber S subscribing, for conc*)
#include "when_h.hpp"

using namespace wh;

namespace {

using V = ValT<0>;
using SF = yaclib::SharedFuture<V, Err>;
using SP = yaclib::SharedPromise<V, Err>;
using SCore = yaclib::detail::SharedCore<V, Err>;
using SHelper = yaclib::detail::Helper<yaclib::detail::AtomicCounter, SCore>;

long g_now = 0;

// allocation hook shared by several builders: an allocation belongs to the builder whose fiber performs it
struct Gate {
  std::uint64_t fiber = 0;
  void (*fn)(void*, void*, std::size_t) = nullptr;
  void* ctx = nullptr;
  bool active = false;
};
Gate g_gates[2];

void Dispatch(void*, void* p, std::size_t size) {
  const auto me = yaclib::fault::Scheduler::GetId();
  for (auto& g : g_gates) {
    if (g.active && g.fiber == me) {
      g.fn(g.ctx, p, size);
    }
  }
}

struct Comb {
  Clock ck;
  Obs obs;
  bool built = false;
};

struct Sub {
  int count = 0;
  long code = -1;
};

struct World {
  std::string pat;  // per physical input a, b, c
  long s[3] = {};
  long c[3] = {};
  Comb comb[2];
  Sub sub;
};

template <Kind K, Form F>
using CfgOf = Cfg<K, F, kS, false, false, 2>;

// builds combinator number `slot` over (x, y) on the calling fiber and attaches the oracle's continuation
template <Kind K, Form F>
void Build(World& w, int slot, SF x, SF y) {
  using C = CfgOf<K, F>;
  using OutF = decltype(CallVar<C>(std::move(x), std::move(y)));
  using OutV = typename FutureArgs<OutF>::Value;
  Comb& cb = w.comb[slot];
  AllocNamer<C, OutV, SCore, SCore> namer{&cb.obs, std::to_string(slot + 1)};
  Gate& gate = g_gates[slot];
  gate = Gate{yaclib::fault::Scheduler::GetId(), &decltype(namer)::OnAlloc, &namer, true};
  g_on_alloc = &Dispatch;
  cb.ck.call_start = ++g_now;
  g_in_call = true;
  auto f = [&] {
    if constexpr (F == kVar) {
      return CallVar<C>(std::move(x), std::move(y));
    } else {
      gate.active = false;
      std::vector<SF> v;
      v.reserve(2);
      v.push_back(std::move(x));
      v.push_back(std::move(y));
      gate.active = true;
      return CallVec<C>(v.begin(), v.size());
    }
  }();
  gate.active = false;
  cb.ck.call_end = ++g_now;
  if (!f.Valid()) {
    cb.obs.invalid = true;
  } else {
    std::move(f).DetachInline([&cb](yaclib::Result<OutV, Err>&& r) {
      ++cb.obs.out_count;
      cb.obs.out_seq = ++g_now;
      cb.obs.codes = Encode(r, IsAny(K));
    });
  }
  cb.ck.attach_done = ++g_now;
  cb.built = true;
}

void Subscribe(World& w, const SF& f) {
  f.SubscribeInline([&w](const yaclib::Result<V, Err>& r) {
    ++w.sub.count;
    w.sub.code = CodeR(r);
  });
}

void SetInput(World& w, int i, SP p) {
  w.s[i] = ++g_now;
  vrt::Event("c" + std::to_string(i) + " " + std::to_string(Expected(w.pat[i], i, false)));
  switch (w.pat[i]) {
    case 'v':
      std::move(p).Set(V{100 + i});
      break;
    case 'e':
      std::move(p).Set(Err{10 + i});
      break;
    default:
      std::move(p).Set(std::make_exception_ptr(20 + i));
      break;
  }
  w.c[i] = ++g_now;
  vrt::Event("r" + std::to_string(i));
}

// which physical inputs combinator `slot` is over, in its own index order
struct Layout {
  int in[2][2];
};
const Layout kLayouts[3] = {{{{0, 1}, {0, 2}}}, {{{0, 1}, {2, 0}}}, {{{0, 1}, {1, 0}}}};

template <Kind K, Form F>
void Judge(const World& w, int slot, const int* in) {
  using C = CfgOf<K, F>;
  const Comb& cb = w.comb[slot];
  Clock ck = cb.ck;
  std::string pat;
  for (int k = 0; k < 2; ++k) {
    ck.s[k] = w.s[in[k]];
    ck.c[k] = w.c[in[k]];
    pat += w.pat[in[k]];
  }
  // the oracle identifies inputs by the code of their outcome: renumber the codes of this combinator's inputs
  Obs obs = cb.obs;
  auto renumber = [&](long code) {
    for (int k = 0; k < 2; ++k) {
      if (code == Expected(w.pat[in[k]], in[k], false)) {
        return Expected(w.pat[in[k]], k, false);
      }
    }
    return code;
  };
  for (auto& c : obs.codes) {
    c = renumber(c);
  }
  std::size_t before = vrt::g.failures.size();
  Oracle<C>(pat, ck, obs);
  for (std::size_t k = before; k < vrt::g.failures.size(); ++k) {
    vrt::g.failures[k] = "combinator " + std::to_string(slot + 1) + ": " + vrt::g.failures[k];
  }
}

void Finish(const World& w, int ncomb, bool with_sub) {
  std::string out = vrt::g.trace;
  for (int k = 0; k < ncomb; ++k) {
    out += "main:!out" + std::to_string(k + 1) + " " + std::to_string(w.comb[k].obs.out_count);
    for (long c : w.comb[k].obs.codes) {
      out += " " + std::to_string(c);
    }
    out += ';';
  }
  if (with_sub) {
    out += "main:!sub " + std::to_string(w.sub.count) + " " + std::to_string(w.sub.code) + ";";
  }
  vrt::g.trace = out;
}

void Reset() {
  g_nblocks = 0;
  g_live_vals = 0;
  g_bad_vals = 0;
  g_in_call = false;
  g_on_alloc = nullptr;
  g_gates[0] = Gate{};
  g_gates[1] = Gate{};
  g_now = 0;
  vrt::g.trace.reserve(1 << 14);
  g_rec = true;
}

struct Inputs {
  SF f[3];
  SP p[3];
};

void MakeInputs(Inputs& in, int n) {
  for (int i = 0; i < n; ++i) {
    auto [f, p] = yaclib::MakeSharedContract<V, Err>();
    auto* core = f.GetCore().Get();
    vrt::NameLoc(&core->_callback, "w" + std::to_string(i), FmtWord);
    vrt::NameLoc(&static_cast<SHelper*>(core)->count, "rc" + std::to_string(i), FmtDec);
    if (Watch(core, "input", i) == nullptr) {
      vrt::Fail("harness: input state not found among the allocations");
    }
    in.f[i] = std::move(f);
    in.p[i] = std::move(p);
  }
}

// after everything has completed: every shared input, read again through the harness's surviving handle, still holds
// the intact Result (a value moved out of the shared state reads as ValT::kMovedFrom)
void CheckIntact(const World& w, Inputs& in, int n) {
  for (int i = 0; i < n; ++i) {
    if (!in.f[i].Valid()) {
      continue;
    }
    const long code = CodeR(in.f[i].Get());
    if (code != Expected(w.pat[i], i, false)) {
      vrt::Fail("shared input " + std::to_string(i) + " read through a surviving handle after the combinators: " +
                std::to_string(code) + " instead of " + std::to_string(Expected(w.pat[i], i, false)));
    }
  }
}

enum Arr { kSeq, kQ, kP };

// ---------------------------------------------------------------------------------------------------- pair scenarios
template <Kind K1, Kind K2, Form F>
void RunPair(const std::string& pat, int layout, Arr arr, const std::vector<int>& order) {
  Reset();
  World w;
  w.pat = pat;
  const Layout& L = kLayouts[layout];
  const int ninputs = layout == 2 ? 2 : 3;
  {
    Inputs in;
    MakeInputs(in, ninputs);
    auto build1 = [&] {
      Build<K1, F>(w, 0, in.f[L.in[0][0]], in.f[L.in[0][1]]);
    };
    auto build2 = [&] {
      Build<K2, F>(w, 1, in.f[L.in[1][0]], in.f[L.in[1][1]]);
    };
    auto drop_futures = [] {
      // the handles in.f survive the combinators: a shared state with other handles must be copied from, never moved
    };
    if (arr == kSeq) {
      // steps: 0 = build 1, 1 = build 2, 2.. = set input; every order with build 1 before build 2
      std::vector<int> steps;
      for (int k = 0; k < 2 + ninputs; ++k) {
        steps.push_back(k);
      }
      std::vector<std::vector<int>> orders;
      do {
        auto p1 = std::find(steps.begin(), steps.end(), 0);
        auto p2 = std::find(steps.begin(), steps.end(), 1);
        if (p1 < p2) {
          orders.push_back(steps);
        }
      } while (std::next_permutation(steps.begin(), steps.end()));
      const auto& chosen = orders[static_cast<std::size_t>(vrt::Next(static_cast<int>(orders.size())))];
      std::string txt = "order";
      for (int st : chosen) {
        txt += " " + std::to_string(st);
      }
      vrt::Event(txt);
      for (int st : chosen) {
        if (st == 0) {
          build1();
        } else if (st == 1) {
          build2();
          drop_futures();
        } else {
          SetInput(w, st - 2, std::move(in.p[st - 2]));
        }
      }
    } else {
      std::vector<yaclib_std::thread> producers;
      if (arr == kQ) {
        producers.emplace_back([&] {
          vrt::NameThread("Q");
          for (int i : order) {
            if (i < ninputs) {
              SetInput(w, i, std::move(in.p[i]));
            }
          }
        });
      } else {
        for (int i = 0; i < ninputs; ++i) {
          producers.emplace_back([&, i] {
            vrt::NameThread("P" + std::to_string(i));
            SetInput(w, i, std::move(in.p[i]));
          });
        }
      }
      yaclib_std::thread builder([&] {
        vrt::NameThread("B");
        build1();
        build2();
        drop_futures();
      });
      for (auto& t : producers) {
        t.join();
      }
      builder.join();
    }
    CheckIntact(w, in, ninputs);
  }
  g_rec = false;
  if (!w.comb[0].obs.comb_named || !w.comb[1].obs.comb_named) {
    vrt::Fail("harness: a combinator block was not identified among the allocations of its call");
  }
  Judge<K1, F>(w, 0, L.in[0]);
  Judge<K2, F>(w, 1, L.in[1]);
  OracleReleased();
  Finish(w, 2, false);
}

// ---------------------------------------------------------------------------------------------------- sub scenarios
// mode: 0 prea, 1 preb, 2 conca, 3 concb
template <Kind K, Form F>
void RunSub(const std::string& pat, int mode, Arr arr, const std::vector<int>& order) {
  Reset();
  World w;
  w.pat = pat;
  const int target = mode % 2;
  const bool pre = mode < 2;
  const int in01[2] = {0, 1};
  {
    Inputs in;
    MakeInputs(in, 2);
    auto build = [&] {
      Build<K, F>(w, 0, in.f[0], in.f[1]);
    };
    auto subscribe = [&] {
      vrt::Event("sub");
      Subscribe(w, in.f[target]);
    };
    auto drop_futures = [] {
      // the handles in.f survive the combinators: a shared state with other handles must be copied from, never moved
    };
    if (arr == kSeq) {
      // steps: 0 = build, 1 = subscribe, 2,3 = set a, b; pre: subscribe before build, conc: any order
      std::vector<int> steps{0, 1, 2, 3};
      std::vector<std::vector<int>> orders;
      do {
        auto pb = std::find(steps.begin(), steps.end(), 0);
        auto ps = std::find(steps.begin(), steps.end(), 1);
        if (!pre || ps < pb) {
          orders.push_back(steps);
        }
      } while (std::next_permutation(steps.begin(), steps.end()));
      const auto& chosen = orders[static_cast<std::size_t>(vrt::Next(static_cast<int>(orders.size())))];
      std::string txt = "order";
      for (int st : chosen) {
        txt += " " + std::to_string(st);
      }
      vrt::Event(txt);
      int done = 0;
      for (int st : chosen) {
        if (st == 0) {
          build();
          ++done;
        } else if (st == 1) {
          subscribe();
          ++done;
        } else {
          SetInput(w, st - 2, std::move(in.p[st - 2]));
        }
        if (done == 2) {
          drop_futures();
          done = 3;
        }
      }
    } else {
      std::vector<yaclib_std::thread> threads;
      if (arr == kQ) {
        threads.emplace_back([&] {
          vrt::NameThread("Q");
          for (int i : order) {
            if (i < 2) {
              SetInput(w, i, std::move(in.p[i]));
            }
          }
        });
      } else {
        for (int i = 0; i < 2; ++i) {
          threads.emplace_back([&, i] {
            vrt::NameThread("P" + std::to_string(i));
            SetInput(w, i, std::move(in.p[i]));
          });
        }
      }
      SF sub_copy = in.f[target];
      if (!pre) {
        threads.emplace_back([&] {
          vrt::NameThread("S");
          vrt::Event("sub");
          Subscribe(w, sub_copy);
          sub_copy = SF{};
        });
      }
      yaclib_std::thread builder([&] {
        vrt::NameThread("B");
        if (pre) {
          subscribe();
          sub_copy = SF{};
        }
        build();
        drop_futures();
      });
      for (auto& t : threads) {
        t.join();
      }
      builder.join();
    }
    CheckIntact(w, in, 2);
  }
  g_rec = false;
  if (!w.comb[0].obs.comb_named) {
    vrt::Fail("harness: the combinator block was not identified among the allocations of the call");
  }
  Judge<K, F>(w, 0, in01);
  if (w.sub.count != 1) {
    vrt::Fail("the plain continuation of input " + std::to_string(target) + " ran " + std::to_string(w.sub.count) + " times");
  } else if (w.sub.code != Expected(pat[target], target, false)) {
    vrt::Fail("the plain continuation of input " + std::to_string(target) + " saw " + std::to_string(w.sub.code));
  }
  OracleReleased();
  Finish(w, 1, true);
}

// ---------------------------------------------------------------------------------------------------- registration
const char* kLayoutNames[3] = {"ab+ac", "ab+ca", "ab+ba"};
const char* kSubNames[4] = {"prea", "preb", "conca", "concb"};

template <Kind K1, Kind K2, Form F>
void RegisterPair(vrt::Main& m, const std::string& set) {
  const std::string base =
    set + "/" + KindName(K1) + "+" + KindName(K2) + "/" + (F == kVar ? "var" : "vec") + "/";
  for (int layout = 0; layout < 3; ++layout) {
    for (auto& pat : Patterns(3)) {
      if (layout == 2 && pat[2] != 'v') {
        continue;  // c is not used
      }
      const std::string l = base + kLayoutNames[layout] + "/";
      m.Scenario(l + "seq/" + pat, [=] {
        RunPair<K1, K2, F>(pat, layout, kSeq, {});
      });
      m.Scenario(l + "qabc/" + pat, [=] {
        RunPair<K1, K2, F>(pat, layout, kQ, {0, 1, 2});
      });
      m.Scenario(l + "qcba/" + pat, [=] {
        RunPair<K1, K2, F>(pat, layout, kQ, {2, 1, 0});
      });
      m.Scenario(l + "p/" + pat, [=] {
        RunPair<K1, K2, F>(pat, layout, kP, {});
      });
    }
  }
}

template <Kind K, Form F>
void RegisterSub(vrt::Main& m, const std::string& set) {
  const std::string base = set + "/" + KindName(K) + "/" + (F == kVar ? "var" : "vec") + "/";
  for (int mode = 0; mode < 4; ++mode) {
    for (auto& pat : Patterns(2)) {
      const std::string l = base + kSubNames[mode] + "/";
      m.Scenario(l + "seq/" + pat, [=] {
        RunSub<K, F>(pat, mode, kSeq, {});
      });
      m.Scenario(l + "qab/" + pat, [=] {
        RunSub<K, F>(pat, mode, kQ, {0, 1});
      });
      m.Scenario(l + "qba/" + pat, [=] {
        RunSub<K, F>(pat, mode, kQ, {1, 0});
      });
      m.Scenario(l + "p/" + pat, [=] {
        RunSub<K, F>(pat, mode, kP, {});
      });
    }
  }
}

template <Kind K1, Kind K2>
void RegisterPairForms(vrt::Main& m, const std::string& set) {
  RegisterPair<K1, K2, kVar>(m, set);
  RegisterPair<K1, K2, kVec>(m, set);
}

template <Kind K>
void RegisterSubForms(vrt::Main& m, const std::string& set) {
  RegisterSub<K, kVar>(m, set);
  RegisterSub<K, kVec>(m, set);
}

}  // namespace

#ifndef WH_PART
#  define WH_PART -1
#endif
#define WH_IN(p) (WH_PART == -1 || WH_PART == (p))

int main(int argc, char** argv) {
  vrt::Main m(argc, argv);
#if WH_IN(0)
  RegisterPairForms<kAllFF, kAllFF>(m, "P09");
  RegisterPairForms<kAllNone, kJoinNone>(m, "P09");
#endif
#if WH_IN(1)
  RegisterPairForms<kJoinFF, kAllFF>(m, "P09");
  RegisterPairForms<kAllFF, kAnyLF>(m, "P09");
#endif
#if WH_IN(2)
  RegisterSubForms<kAllFF>(m, "S09");
  RegisterSubForms<kAllNone>(m, "S09");
  RegisterSubForms<kJoinNone>(m, "S09");
  RegisterSubForms<kJoinFF>(m, "S09");
#endif
#if WH_IN(3)
  RegisterPairForms<kAnyLF, kAnyLF>(m, "P10");
  RegisterPairForms<kAnyFF, kAnyNone>(m, "P10");
#endif
#if WH_IN(4)
  RegisterPairForms<kAnyNone, kAllNone>(m, "P10");
  RegisterPairForms<kAnyLF, kJoinFF>(m, "P10");
#endif
#if WH_IN(5)
  RegisterSubForms<kAnyLF>(m, "S10");
  RegisterSubForms<kAnyFF>(m, "S10");
  RegisterSubForms<kAnyNone>(m, "S10");
#endif
  return m.Finish();
}
