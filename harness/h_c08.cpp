// C08 harness: the real yaclib::FairThreadPool with n fiber workers, submitter fibers, and one stopper fiber that
// calls Stop / SoftStop / HardStop at an explored moment and then Wait.  Every interleaving at the granularity of
// the wrapped mutex / condition-variable operations is explored.  The oracle is written from the property text only.
//
// Trace vocabulary (consumed by checks/c08.py):
//   <fiber>:<op>@m=<jc>|<occ>|<waiters>|<queue>;     op in lock, unlock          (pool mutex, when the op completed)
//   <fiber>:<op>@cv=<jc>|<occ>|<waiters>|<queue>;    op in wait, notify_one, notify_all
//       jc = FairThreadPool::_jobs_count, occ = mutex held (0/1), waiters = fibers parked in the condvar,
//       queue = ids of the jobs in FairThreadPool::_jobs, front first  -- all read at the completion of the op
//   <fiber>:!sub j; !ret j;      around Submit(job j)
//   <fiber>:!call j; !end j;     Job::Call of j begins / ends        <fiber>:!drop j;   Job::Drop of j
//   T:!stop k; !stopped;         around the stop call (k = 0 Stop, 1 SoftStop, 2 HardStop)    T:!waited; after Wait
//   <fiber>:!alive; !alived b;   around a call of pool.Alive() made from a job's Drop()
// Re-entrant jobs (scenario flag d | c | a on job 0): its Drop() submits a child job to the same pool / its Call() does
// (control) / its Drop() calls Alive().  The child is an ordinary recorded job; its !sub/!ret markers are nested inside
// the parent's Drop/Call on whatever fiber runs it (submitter, worker, or the stopper inside HardStop's drop loop).
// Fork kinds (job 0): f | g: its Call() submits two | three children back-to-back; j: fork-join -- Call() submits child 1
// and child 2, then blocks until both are finished (Called or Dropped), and child 1's Call() blocks until child 2 is
// finished (needs three workers: parent, child 1, child 2); k: as j, and the stopper makes its stop call only after the
// parent is finished (no stop racing the fork).  Blocking is a harness mutex + condition variable (fiber-blocking,
// not traced).
#include "vrt_all.hpp"

#include "vrt_main.hpp"

namespace {

// Optional reduction (--param atomic=1): no preemption while the pool mutex is held.  A critical section then runs
// as one step (other fibers can only do lock-free things - notify, markers, job bodies - meanwhile, and those
// commute with the holder's private steps), which makes exhaustive search of the larger configurations feasible.
// The unreduced search (every wrapped operation is a preemption point) is the default.
const bool* gMutexHeld = nullptr;
bool gAtomicSections = false;

// With --yield-at after|both the explorer keeps its "an operation is in progress" flag (g.at_before) up across the
// operation's statement.  condition_variable::wait has InjectFault() calls of its own inside the statement
// (fiber/condition_variable.hpp WaitImpl, before the unlock and after the re-lock), and g.at_before is global: a worker
// that resumes inside its wait while ANOTHER fiber is between the two InjectFault()s of its operation would be offered
// a switch after it re-took the mutex but before the tracer has seen its wait complete.  The mapping of checks/c08.py
// reads "wait completed" as "mutex re-taken", so such a switch is not offered: a decision is only taken by the fiber
// whose operation is the one in progress.  (The same place is covered as "before the worker's next operation".)
std::uint64_t gOpFiber = 0;

void BeforeOwned(const volatile void* obj, const char* op) {
  vrt::detail::Before(obj, op);
  gOpFiber = vrt::g.cur;
}

std::int64_t ChooseReduced(int kind, std::uint64_t n) {
  if (kind == yaclib::verif::kYield && vrt::g.active && vrt::g.cur != gOpFiber) {
    return 0;
  }
  if (kind == yaclib::verif::kYield && gAtomicSections && vrt::g.active && gMutexHeld != nullptr && *gMutexHeld) {
    // no decision at this InjectFault, but keep the explorer's bookkeeping of which of the two InjectFault()s of the
    // current operation this is (--yield-at after|both decide at the second one: after `unlock` the mutex is free again
    // and the switch is offered; after `lock` / around `wait` it is held and nothing is offered)
    if (!vrt::g.at_before) {
      return 0;
    }
    const bool second = vrt::g.inject_second;
    vrt::g.inject_second = true;
    if (second || vrt::g.opt.yield_at == 0) {
      vrt::g.at_before = false;
    }
    return 0;
  }
  return vrt::detail::Choose(kind, n);
}

struct Join {  // "job i is finished" flags with blocking wait
  yaclib_std::mutex m;
  yaclib_std::condition_variable cv;
  bool done[16] = {};
  void Signal(int i) {
    {
      std::lock_guard lock{m};
      done[i] = true;
    }
    cv.notify_all();
  }
  void Wait(int i) {
    std::unique_lock lock{m};
    while (!done[i]) {
      cv.wait(lock);
    }
  }
};

struct Rec {
  int clock = 0;
  int running = 0;
  bool waited = false;
  bool any_drop = false;
  int kind = 0;
  int calls[16] = {};
  int drops[16] = {};
  int sub_begin[16] = {};
  int sub_end[16] = {};
  int call_begin[16] = {};
  int tick() {
    return ++clock;
  }
};

struct TJob final : yaclib::Job {
  int id = 0;
  Rec* rec = nullptr;
  yaclib_std::atomic<int>* yield_at = nullptr;
  int child_on_drop = -1;   // Drop() submits this job to the same pool
  int child_on_call = -1;   // Call() submits this job to the same pool
  int fork_first = -1;      // Call() submits jobs fork_first .. fork_first + fork_count - 1 back-to-back
  int fork_count = 0;
  int wait_for[2] = {-1, -1};  // Call() then blocks until these jobs are finished
  Join* join = nullptr;
  bool alive_on_drop = false;  // Drop() asks the pool whether it is alive
  const std::function<void(int)>* submit = nullptr;
  yaclib::FairThreadPool* pool = nullptr;

  void Call() noexcept final {
    ++rec->calls[id];
    rec->call_begin[id] = rec->tick();
    ++rec->running;
    vrt::Event("call " + std::to_string(id));
    // ---- oracle, clauses "after Wait returns no job is running or will run" and "SoftStop stops only when no job
    // is queued or running" (a rejection proves the pool had stopped; nothing accepted may start after that)
    if (rec->waited) {
      vrt::Fail("job " + std::to_string(id) + " started after Wait returned");
    }
    if (rec->kind == 1 && rec->any_drop) {
      vrt::Fail("SoftStop: job " + std::to_string(id) + " started after the pool had already rejected a job");
    }
    if (yield_at != nullptr) {
      yield_at->fetch_add(1);  // a scheduling point inside the job: other fibers run while this job is "running"
    }
    if (child_on_call >= 0) {
      (*submit)(child_on_call);
    }
    for (int k = 0; k < fork_count; ++k) {
      (*submit)(fork_first + k);
    }
    for (int w : wait_for) {
      if (w >= 0) {
        join->Wait(w);
      }
    }
    vrt::Event("end " + std::to_string(id));
    --rec->running;
    if (join != nullptr) {
      join->Signal(id);
    }
  }
  void Drop() noexcept final {
    ++rec->drops[id];
    vrt::Event("drop " + std::to_string(id));
    if (rec->kind == 1) {
      if (rec->running != 0) {
        vrt::Fail("SoftStop: job " + std::to_string(id) + " rejected (pool stopped) while a job is running");
      }
      rec->any_drop = true;
    }
    if (child_on_drop >= 0) {
      (*submit)(child_on_drop);
    }
    if (alive_on_drop) {
      vrt::Event("alive");
      const bool alive = pool->Alive();
      vrt::Event(alive ? "alived 1" : "alived 0");
    }
    if (join != nullptr) {
      join->Signal(id);
    }
  }
  void IncRef() noexcept final {
  }
  void DecRef() noexcept final {
  }
  std::size_t GetRef() noexcept final {
    return 1;
  }
};

struct Cfg {
  int workers;
  int submitters;
  int per;       // jobs per submitter
  int kind;      // 0 Stop, 1 SoftStop, 2 HardStop
  int pre;       // jobs the stopper submits itself before the stop call
  bool late;     // the stopper submits one more job after Wait returned
  bool yield;    // jobs contain a scheduling point
  char reent = 0;  // 'd': job 0's Drop submits a child job, 'c': job 0's Call does, 'a': job 0's Drop calls Alive(),
                   // 'f' | 'g': job 0's Call forks 2 | 3 children, 'j' | 'k': fork-join (see the header comment)
};

std::string Name(const Cfg& c) {
  static const char* kKinds[] = {"stop", "soft", "hard"};
  return "n" + std::to_string(c.workers) + "/s" + std::to_string(c.submitters) + "x" + std::to_string(c.per) + "/p" +
         std::to_string(c.pre) + (c.late ? "l" : "") + (c.yield ? "y" : "") + (c.reent != 0 ? std::string(1, c.reent) : "") + "/" +
         kKinds[c.kind];
}

// Executions that end with a parked fiber (deadlock) abandon their fiber stacks; on a broken pool thousands of them
// would exhaust the address space and crash the explorer before it can report.  Once 64 executions of this process
// did not run to completion the remaining ones are skipped (their failures have been recorded already).
int gStarted = 0;
int gFinished = 0;

void RunScenario(const Cfg& c) {
  if (gStarted - gFinished >= 64) {
    return;
  }
  ++gStarted;
  struct Done {
    ~Done() {
      ++gFinished;
    }
  } done;
  Rec rec;
  rec.kind = c.kind;
  const int total = c.submitters * c.per + c.pre + (c.late ? 1 : 0);
  const int child = (c.reent == 'd' || c.reent == 'c') ? total : -1;  // the child job's id, after all the others
  const int forks = c.reent == 'f' || c.reent == 'j' || c.reent == 'k' ? 2 : c.reent == 'g' ? 3 : 0;
  const bool joined = c.reent == 'j' || c.reent == 'k';
  const int total_all = total + (child >= 0 ? 1 : 0) + forks;
  Join join;
  std::vector<TJob> jobs(static_cast<std::size_t>(total_all));
  std::function<void(int)> submit;
  yaclib_std::atomic<int> inside{0};
  vrt::NameLoc(&inside, "x");
  for (int i = 0; i < total_all; ++i) {
    jobs[i].id = i;
    jobs[i].rec = &rec;
    jobs[i].yield_at = c.yield ? &inside : nullptr;
    jobs[i].submit = &submit;
  }
  jobs[0].child_on_drop = c.reent == 'd' ? child : -1;
  jobs[0].child_on_call = c.reent == 'c' ? child : -1;
  jobs[0].alive_on_drop = c.reent == 'a';
  if (forks != 0) {
    jobs[0].fork_first = total;
    jobs[0].fork_count = forks;
  }
  if (joined) {
    for (int i = 0; i < total_all; ++i) {
      jobs[i].join = &join;
    }
    jobs[0].wait_for[0] = total;
    jobs[0].wait_for[1] = total + 1;
    jobs[total].wait_for[0] = total + 1;  // child 1 needs child 2
  }
  {
    yaclib::FairThreadPool pool(static_cast<std::uint64_t>(c.workers));
    for (int i = 0; i < c.workers; ++i) {
      vrt::g.fiber_names[pool._workers[static_cast<std::size_t>(i)].get_id()] = "W" + std::to_string(i);
    }
    auto fmt = [&pool](std::uint64_t) {
      std::string s = std::to_string(pool._jobs_count);
      s += '|';
      s += pool._m._occupied ? '1' : '0';
      s += '|';
      auto& q = pool._idle._queue._queue;
      if (!q.Empty()) {
        auto* first = q.GetElement(0, false);
        for (std::size_t i = 0;; ++i) {
          auto* node = q.GetElement(i, false);
          if (i != 0 && node == first) {
            break;
          }
          auto* fiber = static_cast<yaclib::detail::fiber::FiberBase*>(
            static_cast<yaclib::detail::fiber::BiNodeWaitQueue*>(node));
          if (i != 0) {
            s += ',';
          }
          s += vrt::FiberName(fiber->GetId());
        }
      }
      s += '|';
      bool first_job = true;
      for (auto* node = pool._jobs._head.next; node != nullptr; node = node->next) {
        if (!first_job) {
          s += ',';
        }
        first_job = false;
        s += std::to_string(static_cast<TJob*>(static_cast<yaclib::Job*>(node))->id);
      }
      return s;
    };
    gMutexHeld = &pool._m._occupied;
    vrt::NameLoc(&pool._m, "m", fmt);
    vrt::NameLoc(&pool._idle, "cv", fmt);

    jobs[0].pool = &pool;
    submit = [&](int j) {
      rec.sub_begin[j] = rec.tick();
      vrt::Event("sub " + std::to_string(j));
      pool.Submit(jobs[static_cast<std::size_t>(j)]);
      vrt::Event("ret " + std::to_string(j));
      rec.sub_end[j] = rec.tick();
    };

    std::vector<yaclib_std::thread> subs;
    for (int s = 0; s < c.submitters; ++s) {
      subs.emplace_back([&, s] {
        vrt::NameThread("S" + std::to_string(s));
        for (int k = 0; k < c.per; ++k) {
          submit(s * c.per + k);
        }
      });
    }
    int stop_time = 0;
    int wait_time = 0;
    yaclib_std::thread stopper([&] {
      vrt::NameThread("T");
      for (int k = 0; k < c.pre; ++k) {
        submit(c.submitters * c.per + k);
      }
      if (c.reent == 'k') {
        join.Wait(0);
      }
      stop_time = rec.tick();
      vrt::Event("stop " + std::to_string(c.kind));
      switch (c.kind) {
        case 0:
          pool.Stop();
          break;
        case 1:
          pool.SoftStop();
          break;
        default:
          pool.HardStop();
          break;
      }
      vrt::Event("stopped");
      pool.Wait();
      rec.waited = true;
      wait_time = rec.tick();
      vrt::Event("waited");
      if (rec.running != 0) {
        vrt::Fail("Wait returned while a job is running");
      }
      if (c.late) {
        submit(total - 1);
      }
    });
    for (auto& t : subs) {
      t.join();
    }
    stopper.join();

    // ---- oracle (property text)
    for (int j = 0; j < total_all; ++j) {
      if (j >= total && rec.sub_begin[j] == 0) {
        continue;  // the parent was finished the other way: the child was never submitted
      }
      if (rec.calls[j] + rec.drops[j] != 1) {
        vrt::Fail("job " + std::to_string(j) + ": Called " + std::to_string(rec.calls[j]) + " times and Dropped " +
                  std::to_string(rec.drops[j]) + " times");
      }
      // accepted before the stop call began (Submit had returned): Stop and SoftStop must still run it
      if (c.kind != 2 && rec.sub_end[j] != 0 && rec.sub_end[j] < stop_time && rec.calls[j] != 1) {
        vrt::Fail("job " + std::to_string(j) + " was submitted before the stop call and was not Called");
      }
      // submitted after Wait returned: it must not run
      if (rec.sub_begin[j] > wait_time && rec.calls[j] != 0) {
        vrt::Fail("job " + std::to_string(j) + " submitted after Wait returned was Called");
      }
    }
    gMutexHeld = nullptr;
    if (c.workers == 1) {
      for (int a = 0; a < total_all; ++a) {
        for (int b = 0; b < total_all; ++b) {
          if (rec.calls[a] == 1 && rec.calls[b] == 1 && rec.sub_end[a] < rec.sub_begin[b] &&
              rec.call_begin[a] > rec.call_begin[b]) {
            vrt::Fail("single worker: job " + std::to_string(a) + " was submitted before job " + std::to_string(b) +
                      " but started after it");
          }
        }
      }
    }
  }
}

}  // namespace

int main(int argc, char** argv) {
  vrt::Main m(argc, argv);
  // --param set=<name>: scenario families (the check picks per tier)
  const std::string set = m.Param("set", "small");
  gAtomicSections = m.Param("atomic", "0") == "1";
  yaclib::verif::gHooks.choose = ChooseReduced;
  yaclib::verif::gHooks.before = BeforeOwned;
  std::vector<Cfg> cfgs;
  auto add = [&](int n, int s, int per, int pre, bool late, bool y, char reent = 0) {
    for (int kind = 0; kind < 3; ++kind) {
      cfgs.push_back(Cfg{n, s, per, kind, pre, late, y, reent});
    }
  };
  if (set == "small") {
    add(1, 1, 1, 0, false, false);
    add(1, 2, 1, 0, false, false);
    add(1, 1, 1, 1, true, false);
  } else if (set == "reent") {  // a job that talks to the pool again from its Drop() / Call()
    add(1, 1, 1, 0, false, false, 'd');
    add(1, 1, 1, 0, false, false, 'c');
    add(1, 1, 1, 0, false, false, 'a');
    add(1, 1, 2, 0, false, false, 'd');  // a plain job queued behind the re-entrant one
    add(2, 1, 2, 0, false, false, 'd');
    add(1, 1, 1, 1, false, false, 'a');
  } else if (set == "fork") {  // a running job forks children onto its own pool back-to-back
    add(1, 1, 1, 0, false, false, 'f');
    add(2, 1, 1, 0, false, false, 'f');
    add(3, 1, 1, 0, false, false, 'f');
    add(3, 1, 1, 0, false, false, 'g');
    add(3, 1, 1, 0, false, false, 'j');
    add(3, 1, 1, 0, false, false, 'k');
    add(3, 1, 2, 0, false, false, 'j');
    add(3, 0, 0, 1, false, false, 'f');  // no submitter fiber: the stopper submits the parent itself
    add(3, 0, 0, 1, false, false, 'j');
    add(3, 0, 0, 1, false, false, 'k');
  } else if (set == "medium") {
    add(1, 1, 2, 0, false, false);
    add(1, 1, 1, 0, false, true);
    add(2, 1, 1, 0, false, false);
    add(2, 1, 1, 1, false, false);
  } else {  // large: random exploration only
    add(1, 2, 2, 1, true, true);
    add(2, 2, 1, 1, true, false);
    add(2, 2, 2, 0, false, true);
    add(3, 2, 1, 1, false, false);
    add(3, 3, 1, 0, true, true);
  }
  for (const auto& c : cfgs) {
    m.Scenario(Name(c), [c] {
      RunScenario(c);
    });
  }
  return m.Finish();
}
