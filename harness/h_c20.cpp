// C20 — allocation counts of the real library, shipped configurations (B: C++17, BC: C++20 + coroutines), plain main.
//
// Every global allocation function is replaced by a counting one.  A program is read from a file (one per line), built
// from pre-parsed nodes, run to quiescence on the main thread between two reads of the counter, and one JSON line is
// printed per program.  Nothing of the harness allocates inside a measured region (fixed arrays, no std::function, no
// strings); exception_ptr values are made before the region; an exception thrown by a callback is obtained by
// __cxa_allocate_exception (malloc, not operator new) and is the user's in any case.
//
// The C++ type space of pipelines is closed by a table of template instantiations ("cells"):
//   then   (handle type, attach mode, parameter class, return class)
//   detach (handle type, attach mode, parameter class, return class)
//   run    (handle kind, parameter class, return class)
// enumerated at compile time with a constexpr validity predicate; `--cells` prints the table (with the handle type each
// cell produces) for the program generator in checks/c20.py.
//
// Handle types come in two families: light (Future/FutureOn/Task/SharedFuture/SharedFutureOn over int | void, StopError) and
// heavy (Future/FutureOn/Task over HeavyV | void, HeavyE: payloads that own heap memory, whose copies are counted and
// allocate; see h::Heavy).  Wire names of the heavy kinds: HF HO HT.
//
//   h_c20 --cells | --programs <file> | --one '<line>'
//
// Can be compiled as one TU, or in shards: -DC20_NSHARDS=k -DC20_SHARD=i (i = 0..k-1: cells only) and -DC20_SHARD=-1 (main).
#include <algorithm>
#include <array>
#include <atomic>
#include <chrono>
#include <cstddef>
#include <cstdio>
#include <cstdlib>
#include <cstring>
#include <deque>
#include <exception>
#include <fstream>
#include <memory>
#include <new>
#include <string>
#include <thread>
#include <tuple>
#include <type_traits>
#include <utility>
#include <variant>
#include <vector>

#include <yaclib/async/connect.hpp>
#include <yaclib/async/contract.hpp>
#include <yaclib/async/future.hpp>
#include <yaclib/async/join.hpp>
#include <yaclib/async/make.hpp>
#include <yaclib/async/promise.hpp>
#include <yaclib/async/run.hpp>
#include <yaclib/async/share.hpp>
#include <yaclib/async/shared_contract.hpp>
#include <yaclib/async/shared_future.hpp>
#include <yaclib/async/shared_promise.hpp>
#include <yaclib/async/split.hpp>
#include <yaclib/async/wait.hpp>
#include <yaclib/async/wait_for.hpp>
#include <yaclib/async/wait_until.hpp>
#include <yaclib/async/when_all.hpp>
#include <yaclib/async/when_any.hpp>
#include <yaclib/exe/executor.hpp>
#include <yaclib/exe/inline.hpp>
#include <yaclib/exe/job.hpp>
#include <yaclib/exe/manual.hpp>
#include <yaclib/exe/strand.hpp>
#include <yaclib/exe/submit.hpp>
#include <yaclib/lazy/make.hpp>
#include <yaclib/lazy/schedule.hpp>
#include <yaclib/lazy/task.hpp>
#include <yaclib/util/result.hpp>
#if YACLIB_CORO != 0
#  include <yaclib/coro/await.hpp>
#  include <yaclib/coro/await_inline.hpp>
#  include <yaclib/coro/future.hpp>
#  include <yaclib/coro/shared_future.hpp>
#  include <yaclib/coro/task.hpp>
#endif

#ifndef C20_NSHARDS
#  define C20_NSHARDS 1
#  define C20_SINGLE_TU 1
#endif
#ifndef C20_SHARD
#  define C20_SHARD -1
#endif
#ifndef C20_MAXN
#  define C20_MAXN 64
#endif

// ------------------------------------------------------------------------------------------------ the counter

namespace cnt {

struct Frame {
  int kind;
  long count;
};
constexpr int kMaxFrames = 4096;

struct Rec {
  Frame frames[kMaxFrames];
  int n = 0;
  long outside = 0;  // main thread, no API call of the program active
  long other = 0;    // another thread
  long payload = 0;  // requested by the copy constructor of a payload (HeavyV / HeavyE), kept out of every other count
  bool on = false;
};

extern std::atomic<long> g_news;
extern Rec g_rec;
extern thread_local Frame* t_cur;
extern thread_local bool t_main;
extern thread_local bool t_payload;  // a payload copy constructor is running

inline long News() noexcept {
  return g_news.load(std::memory_order_relaxed);
}

// attributes the blocks requested during one API call of the program to that call (innermost one)
struct Scope {
  Frame* prev;
  explicit Scope(int kind) noexcept {
    if (g_rec.n >= kMaxFrames) {
      std::fprintf(stderr, "harness error: too many API calls in one program\n");
      std::_Exit(4);
    }
    auto* f = &g_rec.frames[g_rec.n++];
    f->kind = kind;
    f->count = 0;
    prev = t_cur;
    t_cur = f;
  }
  ~Scope() {
    t_cur = prev;
  }
  Scope(const Scope&) = delete;
};

inline void Begin() noexcept {
  g_rec.n = 0;
  g_rec.outside = 0;
  g_rec.other = 0;
  g_rec.payload = 0;
  g_rec.on = true;
}
inline void End() noexcept {
  g_rec.on = false;
}

}  // namespace cnt

#if C20_SHARD == -1
namespace cnt {
std::atomic<long> g_news{0};
Rec g_rec;
thread_local Frame* t_cur = nullptr;
thread_local bool t_main = false;
thread_local bool t_payload = false;

static void Note() noexcept {
  if (t_payload) {
    ++g_rec.payload;
    return;
  }
  g_news.fetch_add(1, std::memory_order_relaxed);
  if (g_rec.on) {
    if (!t_main) {
      ++g_rec.other;  // only ever the helper thread, which runs while the main thread is blocked
    } else if (t_cur != nullptr) {
      ++t_cur->count;
    } else {
      ++g_rec.outside;
    }
  }
}

static void* Get(std::size_t n, std::size_t al, bool nothrow) {
  Note();
  void* p = nullptr;
  if (n == 0) {
    n = 1;
  }
  if (al <= alignof(std::max_align_t)) {
    p = std::malloc(n);
  } else {
    p = std::aligned_alloc(al, (n + al - 1) / al * al);
  }
  if (p == nullptr && !nothrow) {
    std::fprintf(stderr, "harness error: out of memory\n");
    std::_Exit(4);
  }
  return p;
}
}  // namespace cnt

void* operator new(std::size_t n) {
  return cnt::Get(n, 1, false);
}
void* operator new[](std::size_t n) {
  return cnt::Get(n, 1, false);
}
void* operator new(std::size_t n, const std::nothrow_t&) noexcept {
  return cnt::Get(n, 1, true);
}
void* operator new[](std::size_t n, const std::nothrow_t&) noexcept {
  return cnt::Get(n, 1, true);
}
void* operator new(std::size_t n, std::align_val_t a) {
  return cnt::Get(n, static_cast<std::size_t>(a), false);
}
void* operator new[](std::size_t n, std::align_val_t a) {
  return cnt::Get(n, static_cast<std::size_t>(a), false);
}
void* operator new(std::size_t n, std::align_val_t a, const std::nothrow_t&) noexcept {
  return cnt::Get(n, static_cast<std::size_t>(a), true);
}
void* operator new[](std::size_t n, std::align_val_t a, const std::nothrow_t&) noexcept {
  return cnt::Get(n, static_cast<std::size_t>(a), true);
}
void operator delete(void* p) noexcept {
  std::free(p);
}
void operator delete[](void* p) noexcept {
  std::free(p);
}
void operator delete(void* p, std::size_t) noexcept {
  std::free(p);
}
void operator delete[](void* p, std::size_t) noexcept {
  std::free(p);
}
void operator delete(void* p, const std::nothrow_t&) noexcept {
  std::free(p);
}
void operator delete[](void* p, const std::nothrow_t&) noexcept {
  std::free(p);
}
void operator delete(void* p, std::align_val_t) noexcept {
  std::free(p);
}
void operator delete[](void* p, std::align_val_t) noexcept {
  std::free(p);
}
void operator delete(void* p, std::size_t, std::align_val_t) noexcept {
  std::free(p);
}
void operator delete[](void* p, std::size_t, std::align_val_t) noexcept {
  std::free(p);
}
void operator delete(void* p, std::align_val_t, const std::nothrow_t&) noexcept {
  std::free(p);
}
void operator delete[](void* p, std::align_val_t, const std::nothrow_t&) noexcept {
  std::free(p);
}
#endif

// ------------------------------------------------------------------------------------------------ common types

namespace h {

struct Ex {
  int id;
};

// Payloads that own heap memory.  Constructing one is the USER's business (malloc, not counted); MOVING one costs
// nothing; COPYING one is counted (g_vcopies / g_ecopies) and requests a block through operator new, tallied apart
// (cnt::g_rec.payload) so that the library's own blocks stay comparable with the model.
extern long g_vcopies;
extern long g_ecopies;

template <long* Copies>
struct Heavy {
  static constexpr std::size_t kLen = 120;
  char* buf = nullptr;
  bool by_new = false;

  explicit Heavy(int x) noexcept : buf{static_cast<char*>(std::malloc(kLen))} {
    buf[0] = static_cast<char>(x);
  }
  Heavy(yaclib::StopTag) noexcept : buf{static_cast<char*>(std::malloc(kLen))} {
    buf[0] = 's';
  }
  Heavy(Heavy&& o) noexcept : buf{o.buf}, by_new{o.by_new} {
    o.buf = nullptr;
  }
  Heavy(const Heavy& o) : by_new{true} {
    ++*Copies;
    cnt::t_payload = true;
    buf = static_cast<char*>(::operator new(kLen));
    cnt::t_payload = false;
    buf[0] = o.buf != nullptr ? o.buf[0] : '?';
  }
  Heavy& operator=(Heavy&& o) noexcept {
    if (this != &o) {
      Free();
      buf = o.buf;
      by_new = o.by_new;
      o.buf = nullptr;
    }
    return *this;
  }
  Heavy& operator=(const Heavy& o) {
    if (this != &o) {
      Heavy tmp{o};
      *this = std::move(tmp);
    }
    return *this;
  }
  ~Heavy() {
    Free();
  }
  void Free() noexcept {
    if (buf != nullptr) {
      if (by_new) {
        ::operator delete(buf);
      } else {
        std::free(buf);
      }
      buf = nullptr;
    }
  }
  const char* What() const noexcept {
    return "h::Heavy";
  }
};
using HeavyV = Heavy<&g_vcopies>;
using HeavyE = Heavy<&g_ecopies>;

// the two families of handle types: light (int / void, StopError) and heavy (HeavyV / void, HeavyE)
template <bool H>
using ValOf = std::conditional_t<H, HeavyV, int>;
template <bool H>
using ErrOf = std::conditional_t<H, HeavyE, yaclib::StopError>;
template <bool H, bool Void>
using ValT = std::conditional_t<Void, void, ValOf<H>>;

template <class V>
using Fut = yaclib::Future<V>;
template <class V>
using FutOn = yaclib::FutureOn<V>;
template <class V>
using Tsk = yaclib::Task<V>;
template <class V>
using Sh = yaclib::SharedFuture<V>;
template <class V>
using ShOn = yaclib::SharedFutureOn<V>;
template <class V>
using Rs = yaclib::Result<V>;

// index = 2 * kind + (void ? 1 : 0) + 1;  kind: 0 Future, 1 FutureOn, 2 Task, 3 SharedFuture, 4 SharedFutureOn
//         5 Future<_, HeavyE>, 6 FutureOn<_, HeavyE>, 7 Task<_, HeavyE> with value HeavyV / void
using World = std::variant<std::monostate, Fut<int>, Fut<void>, FutOn<int>, FutOn<void>, Tsk<int>, Tsk<void>, Sh<int>,
                           Sh<void>, ShOn<int>, ShOn<void>, yaclib::Future<HeavyV, HeavyE>, yaclib::Future<void, HeavyE>,
                           yaclib::FutureOn<HeavyV, HeavyE>, yaclib::FutureOn<void, HeavyE>, yaclib::Task<HeavyV, HeavyE>,
                           yaclib::Task<void, HeavyE>>;
enum WKind { kF = 0, kO = 1, kT = 2, kS = 3, kSO = 4, kHF = 5, kHO = 6, kHT = 7, kNW = 8 };
constexpr int kNWorlds = 17;
constexpr bool HeavyKind(int wk) {
  return wk >= kHF;
}
constexpr int BaseKind(int wk) {
  return wk >= kHF ? wk - kHF : wk;
}

template <class H>
constexpr int WorldIndex() {
  return static_cast<int>(World{std::in_place_type<H>}.index());
}
template <class T, std::size_t... I>
constexpr int IndexOfImpl(std::index_sequence<I...>) {
  int r = -1;
  ((std::is_same_v<T, std::variant_alternative_t<I, World>> ? (r = static_cast<int>(I)) : 0), ...);
  return r;
}
template <class T>
constexpr int IndexOf() {
  return IndexOfImpl<T>(std::make_index_sequence<std::variant_size_v<World>>{});
}

enum PClass { pR = 0, pV = 1, pE = 2, pX = 3, pN = 4, pU = 5, kNP = 6 };
enum RClass { rI = 0, rV = 1, rRI = 2, rRV = 3, rFI = 4, rFV = 5, rOI = 6, rOV = 7, rTI = 8, rTV = 9, rSI = 10, rSV = 11, kNR = 12 };
enum Mode { mRet = 0, mThrow = 1, mResVal = 2, mResErr = 3, mResExc = 4, mAsync = 5 };
enum Attach { aInline = 0, aOn = 1, aInherit = 2, kNA = 3 };
enum ResK { sVal = 0, sErr = 1, sExc = 2 };
// frame kinds: the codes of coq/model/AllocObs.v enc_kind
enum Site { kConv = 0, kReady = 1, kContract = 2, kRun = 3, kProm = 4, kCoro = 5, kThen = 6, kDetach = 7, kDetach0 = 8, kSplit = 9, kShare = 10 };

struct Prog;

struct FnSpec {
  int par = 0;
  int ret = 0;
  int mode = 0;
  const Prog* inner = nullptr;
};

struct Src {
  int kind = 0;  // 0 ready, 1 contract, 2 run, 3 prom, 4 coro
  int w = 0;
  int tvoid = 0;
  int exec = 0;  // 0 inline, 1 manual, 2 strand, 3 stopped
  bool late = false;
  int res = 0;
  bool throws = false;
  int amode = 0;  // coro: 0 Await(x), 1 co_await std::move(x)
  FnSpec fn;
  std::vector<const Prog*> inners;
};

struct Op {
  int kind = 0;  // 0 then, 1 detach, 2 detach0, 3 starton, 4 tofuture, 5 onnull, 6 split, 7 share, 8 shareon
  int attach = 0;
  int exec = 0;
  FnSpec fn;
};

struct Prog {
  Src src;
  std::vector<Op> ops;
};

[[noreturn]] inline void Die(const char* what) {
  std::fprintf(stderr, "harness error: %s\n", what);
  std::fflush(stderr);
  std::_Exit(4);
}

using AnyPromise = std::variant<std::monostate, yaclib::Promise<int>, yaclib::Promise<void>, yaclib::SharedPromise<int>,
                                yaclib::SharedPromise<void>, yaclib::Promise<HeavyV, HeavyE>, yaclib::Promise<void, HeavyE>>;

template <class P>
struct PromiseTypes;
template <class V, class E>
struct PromiseTypes<yaclib::Promise<V, E>> {
  using Value = V;
  using Error = E;
};
template <class V, class E>
struct PromiseTypes<yaclib::SharedPromise<V, E>> {
  using Value = V;
  using Error = E;
};

struct Pending {
  AnyPromise p;
  int res = 0;
};

struct Ctx {
  yaclib::IExecutorPtr manual;
  yaclib::IExecutorPtr manual2;
  yaclib::IExecutorPtr strand;
  std::exception_ptr exc;  // made before any region
  static constexpr int kMaxPending = 1024;
  Pending pending[kMaxPending];
  int head = 0;
  int tail = 0;
  long calls = 0;
  long ecalls = 0;  // invocations of callbacks that take the error by value
  long steps = 0;   // API calls that are pipeline steps

  yaclib::IExecutor& Executor(int e) {
    switch (e) {
      case 0:
        return yaclib::MakeInline();
      case 1:
        return *manual;
      case 2:
        return *strand;
      default:
        return yaclib::MakeInline(yaclib::StopTag{});
    }
  }

  template <class P>
  void Push(P&& p, int res) {
    if (tail >= kMaxPending) {
      Die("too many late promises");
    }
    pending[tail].p = std::move(p);
    pending[tail].res = res;
    ++tail;
  }

  template <class P>
  void Set(P&& p, int res) {
    using PT = std::decay_t<P>;
    using V = typename PromiseTypes<PT>::Value;
    using E = typename PromiseTypes<PT>::Error;
    switch (res) {
      case sVal:
        if constexpr (std::is_void_v<V>) {
          std::move(p).Set();
        } else {
          std::move(p).Set(V{1});
        }
        break;
      case sErr:
        std::move(p).Set(E{yaclib::StopTag{}});
        break;
      default:
        std::move(p).Set(exc);
        break;
    }
  }

  void Fulfil(Pending& pe) {
    std::visit(
      [&](auto& pr) {
        if constexpr (!std::is_same_v<std::decay_t<decltype(pr)>, std::monostate>) {
          Set(std::move(pr), pe.res);
        }
      },
      pe.p);
    pe.p = std::monostate{};
  }

  void Quiesce() {
    for (;;) {
      bool progress = false;
      if (static_cast<yaclib::ManualExecutor&>(*manual).Drain() != 0) {
        progress = true;
      }
      if (static_cast<yaclib::ManualExecutor&>(*manual2).Drain() != 0) {
        progress = true;
      }
      if (progress) {
        continue;
      }
      if (head == tail) {
        break;
      }
      Fulfil(pending[head++]);
    }
    head = tail = 0;
  }

  World Build(const Prog& p);
};

extern Ctx* g_ctx;

// ------------------------------------------------------------------------------------------------ functors

constexpr bool RetVoid(int r) {
  return (r & 1) != 0;
}

// return class R in family H: shape R / 2 (0 plain, 1 Result, 2 Future, 3 FutureOn, 4 Task, 5 SharedFuture), value R & 1
template <int Shape, class V, class E>
struct RetShape;
template <class V, class E>
struct RetShape<0, V, E> {
  using type = V;
};
template <class V, class E>
struct RetShape<1, V, E> {
  using type = yaclib::Result<V, E>;
};
template <class V, class E>
struct RetShape<2, V, E> {
  using type = yaclib::Future<V, E>;
};
template <class V, class E>
struct RetShape<3, V, E> {
  using type = yaclib::FutureOn<V, E>;
};
template <class V, class E>
struct RetShape<4, V, E> {
  using type = yaclib::Task<V, E>;
};
template <class V, class E>
struct RetShape<5, V, E> {
  using type = yaclib::SharedFuture<V, E>;
};
template <bool H, int R>
struct RetT {
  using type = typename RetShape<R / 2, ValT<H, RetVoid(R)>, ErrOf<H>>::type;
};

template <class H>
H Take(World&& w) {
  if (auto* x = std::get_if<H>(&w)) {
    return std::move(*x);
  }
  Die("inner program has the wrong handle type for the callback's return type");
}

template <bool Big>
struct Pad {
  char bytes[Big ? 200 : 1];
};

template <bool H, int R, bool Big>
struct FnBase {
  using Ret = typename RetT<H, R>::type;
  using E = ErrOf<H>;
  const FnSpec* spec;
  Pad<Big> pad;

  explicit FnBase(const FnSpec* s) noexcept : spec{s}, pad{} {
  }
  FnBase(FnBase&& o) noexcept : spec{o.spec}, pad{o.pad} {
  }
  FnBase(const FnBase&) = delete;

  Ret Body() {
    ++g_ctx->calls;
    if (spec->mode == mThrow) {
      throw Ex{7};
    }
    if constexpr (R == rI) {
      return ValOf<H>{1};
    } else if constexpr (R == rV) {
      return;
    } else if constexpr (R == rRI) {
      switch (spec->mode) {
        case mResErr:
          return Ret{E{yaclib::StopTag{}}};
        case mResExc:
          return Ret{g_ctx->exc};
        default:
          return Ret{ValOf<H>{1}};
      }
    } else if constexpr (R == rRV) {
      switch (spec->mode) {
        case mResErr:
          return Ret{E{yaclib::StopTag{}}};
        case mResExc:
          return Ret{g_ctx->exc};
        default:
          return Ret{yaclib::Unit{}};
      }
    } else {
      return Take<Ret>(g_ctx->Build(*spec->inner));
    }
  }
};

constexpr bool BigOf(int p, int r) {
  return ((p + r) & 1) != 0;
}

// family H, world value void or not, parameter class P, return class R.  Payloads are taken BY VALUE: the library is
// expected to move them in.
template <bool H, bool Void, int P, int R>
struct Fn;

template <bool H, bool Void, int R>
struct Fn<H, Void, pR, R> : FnBase<H, R, BigOf(pR, R)> {
  using FnBase<H, R, BigOf(pR, R)>::FnBase;
  typename RetT<H, R>::type operator()(yaclib::Result<ValT<H, Void>, ErrOf<H>>) {
    return this->Body();
  }
};
template <bool H, int R>
struct Fn<H, false, pV, R> : FnBase<H, R, BigOf(pV, R)> {
  using FnBase<H, R, BigOf(pV, R)>::FnBase;
  typename RetT<H, R>::type operator()(ValOf<H>) {
    return this->Body();
  }
};
template <bool H, bool Void, int R>
struct Fn<H, Void, pE, R> : FnBase<H, R, BigOf(pE, R)> {
  using FnBase<H, R, BigOf(pE, R)>::FnBase;
  typename RetT<H, R>::type operator()(ErrOf<H>) {
    ++g_ctx->ecalls;
    return this->Body();
  }
};
template <bool H, bool Void, int R>
struct Fn<H, Void, pX, R> : FnBase<H, R, BigOf(pX, R)> {
  using FnBase<H, R, BigOf(pX, R)>::FnBase;
  typename RetT<H, R>::type operator()(std::exception_ptr) {
    return this->Body();
  }
};
template <bool H, int R>
struct Fn<H, true, pN, R> : FnBase<H, R, BigOf(pN, R)> {
  using FnBase<H, R, BigOf(pN, R)>::FnBase;
  typename RetT<H, R>::type operator()() {
    return this->Body();
  }
};
template <bool H, int R>
struct Fn<H, true, pU, R> : FnBase<H, R, BigOf(pU, R)> {
  using FnBase<H, R, BigOf(pU, R)>::FnBase;
  typename RetT<H, R>::type operator()(yaclib::Unit) {
    return this->Body();
  }
};

// ------------------------------------------------------------------------------------------------ the cells

constexpr bool ParOk(int p, bool tvoid) {
  return tvoid ? (p == pR || p == pE || p == pX || p == pN || p == pU) : (p == pR || p == pV || p == pE || p == pX);
}
constexpr bool WorldVoid(int wi) {
  return (wi % 2) == 0;  // wi >= 1: odd = int, even = void
}
constexpr int WorldKind(int wi) {
  return (wi - 1) / 2;
}
constexpr bool AttachOk(int wk, int a) {
  return a != aInherit || BaseKind(wk) == kO || BaseKind(wk) == kT || wk == kSO;
}
constexpr bool ThenValid(int wi, int a, int p, int r) {
  if (wi < 1 || wi >= kNWorlds || !AttachOk(WorldKind(wi), a) || !ParOk(p, WorldVoid(wi))) {
    return false;
  }
  if (HeavyKind(WorldKind(wi)) && r >= rSI) {
    return false;  // the heavy family is plain futures and tasks only
  }
  if ((p == pE || p == pX) && RetVoid(r) != WorldVoid(wi)) {
    return false;  // a recovery callback keeps the value type (core.hpp:232-246)
  }
  return true;
}
constexpr bool DetachValid(int wi, int a, int p, int r) {
  if (wi < 1 || wi >= kNWorlds || BaseKind(WorldKind(wi)) == kT || !AttachOk(WorldKind(wi), a) || !ParOk(p, WorldVoid(wi))) {
    return false;
  }
  if (r != rV && r != rRV) {
    return false;  // core.hpp:366 Detach returns nothing
  }
  if (WorldKind(wi) == kSO && a == aOn) {
    return false;  // SharedFutureOn::Subscribe(f) hides SharedFutureBase::Subscribe(e, f)
  }
  if ((p == pE || p == pX) && !WorldVoid(wi)) {
    return false;
  }
  return true;
}
constexpr bool RunValid(int wk, int p, int r) {
  return wk >= 0 && wk < kNW && (p == pN || p == pU || p == pR) && !(HeavyKind(wk) && r >= rSI);
}

using ThenFn = World (*)(World&&, const FnSpec*, yaclib::IExecutor*);
using RunFn = World (*)(const FnSpec*, yaclib::IExecutor*);

struct Cell {
  ThenFn then = nullptr;
  int out = 0;  // index of the produced handle in World (0 for detach)
};
struct RunCell {
  RunFn run = nullptr;
  int out = 0;
};

struct Table {
  Cell then[kNWorlds][kNA][kNP][kNR];
  Cell detach[kNWorlds][kNA][kNP][kNR];
  RunCell run[kNW][kNP][kNR];
};
extern Table g_table;

template <int WI, int A, int P, int R>
struct ThenCell {
  using H = std::variant_alternative_t<WI, World>;
  using F = Fn<HeavyKind(WorldKind(WI)), WorldVoid(WI), P, R>;
  static auto Do(H& h, const FnSpec* s, yaclib::IExecutor* e) {
    if constexpr (WorldKind(WI) == kS || WorldKind(WI) == kSO) {
      if constexpr (A == aInline) {
        return h.ThenInline(F{s});
      } else if constexpr (A == aOn) {
        return h.Then(*e, F{s});
      } else {
        return h.Then(F{s});
      }
    } else {
      if constexpr (A == aInline) {
        return std::move(h).ThenInline(F{s});
      } else if constexpr (A == aOn) {
        return std::move(h).Then(*e, F{s});
      } else {
        return std::move(h).Then(F{s});
      }
    }
  }
  using Out = decltype(Do(std::declval<H&>(), nullptr, nullptr));
  static World Thunk(World&& w, const FnSpec* s, yaclib::IExecutor* e) {
    H h = std::get<WI>(std::move(w));
    return World{Do(h, s, e)};
  }
};

template <int WI, int A, int P, int R>
struct DetachCell {
  using H = std::variant_alternative_t<WI, World>;
  using F = Fn<HeavyKind(WorldKind(WI)), WorldVoid(WI), P, R>;
  static World Thunk(World&& w, const FnSpec* s, yaclib::IExecutor* e) {
    H h = std::get<WI>(std::move(w));
    if constexpr (WorldKind(WI) == kS || WorldKind(WI) == kSO) {
      if constexpr (A == aInline) {
        h.SubscribeInline(F{s});
      } else if constexpr (A == aOn) {
        h.Subscribe(*e, F{s});
      } else {
        h.Subscribe(F{s});
      }
    } else {
      if constexpr (A == aInline) {
        std::move(h).DetachInline(F{s});
      } else if constexpr (A == aOn) {
        std::move(h).Detach(*e, F{s});
      } else {
        std::move(h).Detach(F{s});
      }
    }
    return World{};
  }
};

template <int WK, int P, int R>
struct RunCellT {
  static constexpr bool kH = HeavyKind(WK);
  using E = ErrOf<kH>;
  using F = Fn<kH, true, P, R>;
  static auto Do(const FnSpec* s, yaclib::IExecutor* e) {
    if constexpr (BaseKind(WK) == kF) {
      return yaclib::Run<E>(F{s});
    } else if constexpr (BaseKind(WK) == kO) {
      return yaclib::Run<E>(*e, F{s});
    } else if constexpr (WK == kS) {
      return yaclib::RunShared<E>(F{s});
    } else if constexpr (WK == kSO) {
      return yaclib::RunShared<E>(*e, F{s});
    } else {
      return yaclib::Schedule<E>(*e, F{s});
    }
  }
  using Out = decltype(Do(nullptr, nullptr));
  static World Thunk(const FnSpec* s, yaclib::IExecutor* e) {
    return World{Do(s, e)};
  }
};

constexpr int kThenCells = kNWorlds * kNA * kNP * kNR;
constexpr int kRunCells = kNW * kNP * kNR;

template <int I>
void RegThen(Table& t) {
  constexpr int wi = I / (kNA * kNP * kNR);
  constexpr int a = I / (kNP * kNR) % kNA;
  constexpr int p = I / kNR % kNP;
  constexpr int r = I % kNR;
  if constexpr (ThenValid(wi, a, p, r)) {
    using C = ThenCell<wi, a, p, r>;
    t.then[wi][a][p][r] = Cell{&C::Thunk, IndexOf<typename C::Out>()};
  }
  if constexpr (DetachValid(wi, a, p, r)) {
    t.detach[wi][a][p][r] = Cell{&DetachCell<wi, a, p, r>::Thunk, 0};
  }
}
template <int I>
void RegRun(Table& t) {
  constexpr int wk = I / (kNP * kNR);
  constexpr int p = I / kNR % kNP;
  constexpr int r = I % kNR;
  if constexpr (RunValid(wk, p, r)) {
    using C = RunCellT<wk, p, r>;
    t.run[wk][p][r] = RunCell{&C::Thunk, IndexOf<typename C::Out>()};
  }
}

template <int Shard, int... I>
void RegThenShard(Table& t, std::integer_sequence<int, I...>) {
  (RegThen<I * C20_NSHARDS + Shard>(t), ...);
}
template <int Shard, int... I>
void RegRunShard(Table& t, std::integer_sequence<int, I...>) {
  (RegRun<I * C20_NSHARDS + Shard>(t), ...);
}
// indices beyond the table decode to wi >= kNWorlds and are rejected by the validity predicates
template <int Shard>
void RegisterCells(Table& t) {
  RegThenShard<Shard>(t, std::make_integer_sequence<int, (kThenCells + C20_NSHARDS - 1) / C20_NSHARDS>{});
  RegRunShard<Shard>(t, std::make_integer_sequence<int, (kRunCells + C20_NSHARDS - 1) / C20_NSHARDS>{});
}

void RegisterShard(int shard, Table& t);  // main part: dispatches to the shard TUs

}  // namespace h

// ------------------------------------------------------------------------------- combinators, waits: inputs

namespace h {

constexpr int kMaxN = C20_MAXN;

struct Inputs {
  Fut<int> fi[kMaxN];
  yaclib::Promise<int> pi[kMaxN];
  Fut<void> fv[kMaxN];
  yaclib::Promise<void> pv[kMaxN];
  Sh<int> si[kMaxN];
  yaclib::SharedPromise<int> spi[kMaxN];
  Sh<void> sv[kMaxN];
  yaclib::SharedPromise<void> spv[kMaxN];
};
extern Inputs g_in;

// input i of a program whose inputs are of kind ik (0 futures, 1 shared futures, 2 both) with values vs (0 int, 1 void, 2 both)
constexpr bool InShared(int ik, int i) {
  return ik == 1 || (ik == 2 && i % 2 == 1);
}
constexpr bool InVoid(int ik, int vs, int i) {
  return vs == 1 || (vs == 2 && (ik == 2 ? (i / 2) % 2 == 1 : i % 2 == 1));
}

template <int IK, int VS, std::size_t I>
auto& Slot() {
  if constexpr (InShared(IK, I)) {
    if constexpr (InVoid(IK, VS, I)) {
      return g_in.sv[I];
    } else {
      return g_in.si[I];
    }
  } else {
    if constexpr (InVoid(IK, VS, I)) {
      return g_in.fv[I];
    } else {
      return g_in.fi[I];
    }
  }
}
// by value, as the variadic combinators take their inputs
template <int IK, int VS, std::size_t I>
auto Arg() {
  return std::move(Slot<IK, VS, I>());
}

void PrepareInputs(int ik, int vs, int n);     // fresh contracts (outside any region)
void FulfilInput(int ik, int vs, int i, int res);
void ClearInputs(int n);

struct WhenSpec {
  int kind = 0;    // 0 WhenAll, 1 WhenAny, 2 Join
  int pol = 0;     // 0 None, 1 FirstFail, 2 LastFail
  int form = 0;    // 0 iterator, 1 variadic
  int ik = 0;
  int vs = 0;
  int oc = 0;      // 0 all ok, 1 first input fails (error, fulfilled first), 2 last input fails (exception, fulfilled last)
  int timing = 0;  // 0 inputs fulfilled before the call, 1 after
  int n = 0;
};
struct WhenResult {
  long build = 0;
  long total = 0;
  int valid = 0;
  int ready = 0;
  int state = -1;
};

inline void FulfilAll(const WhenSpec& s) {
  for (int i = 0; i < s.n; ++i) {
    int res = sVal;
    if (s.oc == 1 && i == 0) {
      res = sErr;
    } else if (s.oc == 2 && i == s.n - 1) {
      res = sExc;
    }
    FulfilInput(s.ik, s.vs, i, res);
  }
}

template <class Call>
void WhenBody(const WhenSpec& s, WhenResult& r, Call call) {
  PrepareInputs(s.ik, s.vs, s.n);
  if (s.timing == 0) {
    FulfilAll(s);
  }
  cnt::Begin();
  const long a = cnt::News();
  {
    auto f = call();
    r.build = cnt::News() - a;
    if (s.timing != 0) {
      FulfilAll(s);
    }
    r.valid = f.Valid() ? 1 : 0;
    if (f.Valid()) {
      r.ready = f.Ready() ? 1 : 0;
      if (f.Ready()) {
        auto res = std::move(f).Touch();
        r.state = static_cast<int>(res.State());
      }
    }
  }
  r.total = cnt::News() - a;
  cnt::End();
  ClearInputs(s.n);
}

constexpr bool WhenValid(int k, int pol) {
  return k == 1 || pol != 2;  // all.hpp:17 join.hpp:15: LastFail is WhenAny's only
}
constexpr yaclib::FailPolicy Pol(int p) {
  return p == 0 ? yaclib::FailPolicy::None : p == 1 ? yaclib::FailPolicy::FirstFail : yaclib::FailPolicy::LastFail;
}

template <int K, int P, class It>
auto CallIter(It begin, std::size_t n) {
  if constexpr (K == 0) {
    return yaclib::WhenAll<Pol(P)>(begin, n);
  } else if constexpr (K == 1) {
    return yaclib::WhenAny<Pol(P)>(begin, n);
  } else {
    return yaclib::Join<Pol(P)>(begin, n);
  }
}
template <int K, int P, int IK, int VS, std::size_t... I>
auto CallVar(std::index_sequence<I...>) {
  if constexpr (K == 0) {
    return yaclib::WhenAll<Pol(P)>(Arg<IK, VS, I>()...);
  } else if constexpr (K == 1) {
    return yaclib::WhenAny<Pol(P)>(Arg<IK, VS, I>()...);
  } else {
    return yaclib::Join<Pol(P)>(Arg<IK, VS, I>()...);
  }
}

using WhenFn = void (*)(const WhenSpec&, WhenResult&);

template <int K, int P, int IK, int VS>
void WhenIter(const WhenSpec& s, WhenResult& r) {
  WhenBody(s, r, [&] {
    return CallIter<K, P>(&Slot<IK, VS, 0>(), static_cast<std::size_t>(s.n));
  });
}
template <int K, int P, int IK, int VS, int N>
void WhenVar(const WhenSpec& s, WhenResult& r) {
  WhenBody(s, r, [&] {
    return CallVar<K, P, IK, VS>(std::make_index_sequence<N>{});
  });
}

// the (inputs, values) combinations of the variadic forms
constexpr bool VarCombo(int k, int ik, int vs) {
  if (ik == 0) {
    return vs != 2 || k != 1;  // WhenAny of int and void futures does not compile (std::variant<void, int>)
  }
  return vs == 0;
}
// n = 1..kMaxN for futures of int (and for the variadic waits / awaits); the other input combinations instantiate
// StaticCombinator / tuples whose compile time grows fast with n, so they are closed over a list of sizes
constexpr int kHeavyN[] = {1, 2, 3, 4, 5, 8, 16, 17, 33};
constexpr int HeavyIndex(int n) {
  for (int j = 0; j < static_cast<int>(sizeof(kHeavyN) / sizeof(kHeavyN[0])); ++j) {
    if (kHeavyN[j] == n) {
      return j;
    }
  }
  return -1;
}
constexpr bool VarN(int ik, int vs, int n) {
  return (ik == 0 && vs == 0) || HeavyIndex(n) >= 0;
}
// which shard TU instantiates the variadic programs of (inputs, values, n)
constexpr int VarShard(int ik, int vs, int n) {
  if (ik == 0 && vs == 0) {
    return n % C20_NSHARDS;
  }
  const int c = ik == 0 ? vs - 1 : ik + 1;  // (0,1) (0,2) (1,0) (2,0) -> 0 1 2 3
  return (HeavyIndex(n) * 4 + c) % C20_NSHARDS;
}

// ------------------------------------------------------------------------------------------------ waits

struct WaitSpec {
  int fn = 0;      // 0 Wait, 1 WaitFor, 2 WaitUntil
  int form = 0;    // 0 iterator, 1 variadic
  int ik = 0;      // 0 futures, 1 shared futures, 2 both (variadic)
  int timing = 0;  // 0 all ready, 1 fulfilled by another thread during the wait, 2 never (timeout), 3 half ready + other thread
  int n = 0;
};
struct WaitResult {
  long news = 0;
  int ret = -1;
  long other = 0;
};

void WaitPrologue(const WaitSpec& s);  // inputs, early fulfilment, helper thread armed (outside the region)
void WaitEpilogue(const WaitSpec& s);

template <class Call>
void WaitBody(const WaitSpec& s, WaitResult& r, Call call) {
  WaitPrologue(s);
  cnt::Begin();
  const long a = cnt::News();
  r.ret = call();
  r.news = cnt::News() - a;
  r.other = cnt::g_rec.other;
  cnt::End();
  WaitEpilogue(s);
}

// 2 ms when the futures are never fulfilled, long when another thread releases the wait (machine load)
extern std::chrono::milliseconds g_timeout;

template <int FN, class... A>
int CallWait(A&&... a) {
  if constexpr (FN == 0) {
    yaclib::Wait(std::forward<A>(a)...);
    return 1;
  } else if constexpr (FN == 1) {
    return yaclib::WaitFor(g_timeout, std::forward<A>(a)...) ? 1 : 0;
  } else {
    return yaclib::WaitUntil(std::chrono::steady_clock::now() + g_timeout, std::forward<A>(a)...) ? 1 : 0;
  }
}

using WaitFn = void (*)(const WaitSpec&, WaitResult&);

template <int FN, int IK>
void WaitIter(const WaitSpec& s, WaitResult& r) {
  WaitBody(s, r, [&] {
    return CallWait<FN>(&Slot<IK, 0, 0>(), static_cast<std::size_t>(s.n));
  });
}
template <int FN, int IK, std::size_t... I>
int CallWaitVar(std::index_sequence<I...>) {
  return CallWait<FN>(Slot<IK, 0, I>()...);
}
template <int FN, int IK, int N>
void WaitVar(const WaitSpec& s, WaitResult& r) {
  WaitBody(s, r, [&] {
    return CallWaitVar<FN, IK>(std::make_index_sequence<N>{});
  });
}
constexpr bool WaitValid(int fn, int ik) {
  return fn == 0 || ik == 0;  // type_traits.hpp: shared futures cannot be waited with a timeout
}

// ------------------------------------------------------------------------------------------------ co_await

struct AwaitSpec {
  int form = 0;    // 0 co_await Await(x), 1 co_await std::move(x), 2 co_await Await(x0, ..., xn-1), 3 co_await Await(begin, n)
  int ik = 0;      // 0 futures, 1 shared futures, 2 both (variadic), 3 a Task (forms 0, 1)
  int timing = 0;  // 0 ready, 1 fulfilled after the coroutine has suspended
  int n = 0;
};
struct AwaitResult {
  long await_news = -1;  // between the two sides of the co_await expression, inside the coroutine
  long call_news = 0;    // the whole coroutine call (frame + awaits), until its future is ready
  int ready = 0;
};
using AwaitFn = void (*)(const AwaitSpec&, AwaitResult&);

#if YACLIB_CORO != 0
void AwaitPrologue(const AwaitSpec& s);
void AwaitFulfil(const AwaitSpec& s);
void AwaitEpilogue(const AwaitSpec& s);
extern Tsk<int> g_task;

template <class Coro>
void AwaitBody(const AwaitSpec& s, AwaitResult& r, Coro coro) {
  AwaitPrologue(s);
  cnt::Begin();
  const long a = cnt::News();
  {
    Fut<int> f = coro(&r);
    if (s.timing != 0) {
      AwaitFulfil(s);
    }
    r.ready = f.Ready() ? 1 : 0;
  }
  r.call_news = cnt::News() - a;
  cnt::End();
  AwaitEpilogue(s);
}

template <int IK, std::size_t... I>
Fut<int> CoAwaitVar(AwaitResult* r, std::index_sequence<I...>) {
  const long a = cnt::News();
  co_await yaclib::Await(Slot<IK, 0, I>()...);
  r->await_news = cnt::News() - a;
  co_return 1;
}
template <int IK, int N>
void AwaitVar(const AwaitSpec& s, AwaitResult& r) {
  AwaitBody(s, r, [](AwaitResult* o) {
    return CoAwaitVar<IK>(o, std::make_index_sequence<N>{});
  });
}
#endif

// ------------------------------------------------------------------------------------------------ tables

struct Tables {
  WhenFn when_iter[3][3][2][2];              // kind, policy, inputs (0, 1), values (0, 1)
  WhenFn when_var[3][3][3][3][kMaxN + 1];    // kind, policy, inputs, values, n
  WaitFn wait_iter[3][2];                    // function, inputs (0, 1)
  WaitFn wait_var[3][3][kMaxN + 1];          // function, inputs, n
  AwaitFn await_var[3][kMaxN + 1];           // inputs, n
};
extern Tables g_tables;

template <int Shard, int N, int I>
void RegVarOne(Tables& t) {
  constexpr int k = I / 27;
  constexpr int p = I / 9 % 3;
  constexpr int ik = I / 3 % 3;
  constexpr int vs = I % 3;
  if constexpr (WhenValid(k, p) && VarCombo(k, ik, vs) && VarN(ik, vs, N)) {
    if constexpr (VarShard(ik, vs, N) == Shard) {
      t.when_var[k][p][ik][vs][N] = &WhenVar<k, p, ik, vs, N>;
    }
  }
  if constexpr (N % C20_NSHARDS == Shard) {
    if constexpr (I < 9) {
      constexpr int fn = I / 3;
      constexpr int wik = I % 3;
      if constexpr (WaitValid(fn, wik)) {
        t.wait_var[fn][wik][N] = &WaitVar<fn, wik, N>;
      }
    }
#if YACLIB_CORO != 0
    if constexpr (I < 3 && N >= 2) {
      t.await_var[I][N] = &AwaitVar<I, N>;
    }
#endif
  }
}
template <int Shard, int N, int... I>
void RegVarN(Tables& t, std::integer_sequence<int, I...>) {
  (RegVarOne<Shard, N, I>(t), ...);
}
template <int Shard, int... J>
void RegVarShard(Tables& t, std::integer_sequence<int, J...>) {
  (RegVarN<Shard, J + 1>(t, std::make_integer_sequence<int, 81>{}), ...);
}
template <int Shard>
void RegisterVariadic(Tables& t) {
  RegVarShard<Shard>(t, std::make_integer_sequence<int, kMaxN>{});
}

// shard TUs announce themselves through static registrars
using ShardFn = void (*)(Table&, Tables&);
extern ShardFn g_shard_fns[64];
extern int g_nshard_fns;
struct ShardReg {
  explicit ShardReg(ShardFn f) noexcept {
    g_shard_fns[g_nshard_fns++] = f;
  }
};
template <int Shard>
void RegisterShardAll(Table& t, Tables& ts) {
#ifndef C20_NO_CELLS
  RegisterCells<Shard>(t);
#endif
#ifndef C20_NO_VAR
  RegisterVariadic<Shard>(ts);
#endif
  (void)t;
  (void)ts;
}

}  // namespace h

#if C20_SHARD >= 0
static h::ShardReg g_reg_shard{&h::RegisterShardAll<C20_SHARD>};
#elif defined(C20_SINGLE_TU)
static h::ShardReg g_reg_shard{&h::RegisterShardAll<0>};
#endif

// =================================================================================================== main part
#if C20_SHARD == -1

namespace h {

long g_vcopies = 0;
long g_ecopies = 0;
Table g_table;
Tables g_tables;
Inputs g_in;
ShardFn g_shard_fns[64];
int g_nshard_fns;
Ctx* g_ctx = nullptr;

// ---------------------------------------------------------------------------------------------------- parser

struct Parser {
  const char* p;
  std::deque<Prog>* arena;
  void Ws() {
    while (*p == ' ' || *p == '\t') {
      ++p;
    }
  }
  bool Peek(char c) {
    Ws();
    return *p == c;
  }
  void Expect(char c) {
    Ws();
    if (*p != c) {
      std::fprintf(stderr, "parse error: expected '%c' at '%.60s'\n", c, p);
      std::_Exit(3);
    }
    ++p;
  }
  std::string Word() {
    Ws();
    std::string w;
    while (*p != 0 && *p != ' ' && *p != '(' && *p != ')' && *p != '\n' && *p != '\t') {
      w.push_back(*p++);
    }
    return w;
  }
  int Int() {
    return std::atoi(Word().c_str());
  }
  static int Find(const std::string& w, std::initializer_list<const char*> names, const char* what) {
    int i = 0;
    for (const char* n : names) {
      if (w == n) {
        return i;
      }
      ++i;
    }
    std::fprintf(stderr, "parse error: bad %s '%s'\n", what, w.c_str());
    std::_Exit(3);
  }
  int W() {
    return Find(Word(), {"F", "O", "T", "S", "SO", "HF", "HO", "HT"}, "handle kind");
  }
  int V() {
    return Find(Word(), {"i", "v"}, "value type");
  }
  int ExecOf(const std::string& w) {
    return Find(w, {"i", "m", "st", "s"}, "executor");
  }
  int Res() {
    return Find(Word(), {"val", "err", "exc"}, "result");
  }
  FnSpec ParseFn() {
    Expect('(');
    if (Word() != "fn") {
      Die("expected fn");
    }
    FnSpec f;
    f.par = Find(Word(), {"R", "V", "E", "X", "N", "U"}, "parameter class");
    f.ret = Find(Word(), {"I", "V", "RI", "RV", "FI", "FV", "OI", "OV", "TI", "TV", "SI", "SV"}, "return class");
    f.mode = Find(Word(), {"ret", "throw", "resval", "reserr", "resexc", "async"}, "behaviour");
    if (f.mode == mAsync) {
      f.inner = ParseProg();
    }
    Expect(')');
    return f;
  }
  const Prog* ParseProg() {
    arena->emplace_back();
    Prog& pr = arena->back();
    Expect('(');
    if (Word() != "P") {
      Die("expected P");
    }
    Expect('(');
    auto w = Word();
    Src& s = pr.src;
    if (w == "ready") {
      s.kind = 0;
      s.w = W();
      s.tvoid = V();
      s.res = Res();
    } else if (w == "contract") {
      s.kind = 1;
      s.w = W();
      s.tvoid = V();
      s.exec = ExecOf(Word());
      s.late = Int() != 0;
      s.res = Res();
    } else if (w == "run") {
      s.kind = 2;
      s.w = W();
      s.exec = ExecOf(Word());
      s.fn = ParseFn();
      s.tvoid = RetVoid(s.fn.ret) ? 1 : 0;
    } else if (w == "prom") {
      s.kind = 3;
      s.w = W();
      s.tvoid = V();
      s.exec = ExecOf(Word());
      s.late = Int() != 0;
      s.res = Res();
      s.throws = Int() != 0;
    } else if (w == "coro") {
      s.kind = 4;
      s.w = W();
      s.tvoid = V();
      s.amode = Find(Word(), {"await", "coawait"}, "await mode");
      s.res = Res();
      while (Peek('(')) {
        s.inners.push_back(ParseProg());
      }
    } else {
      Die("unknown source");
    }
    Expect(')');
    while (Peek('(')) {
      Expect('(');
      auto o = Word();
      Op op;
      if (o == "then" || o == "detach") {
        op.kind = o == "then" ? 0 : 1;
        auto a = Word();
        if (a == "inline") {
          op.attach = aInline;
        } else if (a == "inherit") {
          op.attach = aInherit;
        } else if (a.rfind("on:", 0) == 0) {
          op.attach = aOn;
          op.exec = ExecOf(a.substr(3));
        } else {
          Die("bad attach mode");
        }
        op.fn = ParseFn();
      } else if (o == "detach0") {
        op.kind = 2;
      } else if (o == "starton") {
        op.kind = 3;
        op.exec = ExecOf(Word());
      } else if (o == "tofuture") {
        op.kind = 4;
      } else if (o == "onnull") {
        op.kind = 5;
      } else if (o == "split") {
        op.kind = 6;
      } else if (o == "share") {
        op.kind = 7;
      } else if (o == "shareon") {
        op.kind = 8;
        op.exec = ExecOf(Word());
      } else {
        Die("unknown op");
      }
      Expect(')');
      pr.ops.push_back(op);
    }
    Expect(')');
    return &pr;
  }
};

// ---------------------------------------------------------------------------------------------------- sources

// V = the value type of the source (int / HeavyV / void), E its error type
template <class V, class E>
World Ready(Ctx& c, const Src& s) {
  const int base = BaseKind(s.w);
  if (base == kT) {
    switch (s.res) {
      case sVal:
        if constexpr (std::is_void_v<V>) {
          return World{yaclib::MakeTask<void, E>()};
        } else {
          return World{yaclib::MakeTask<V, E>(V{1})};
        }
      case sErr:
        return World{yaclib::MakeTask<V, E>(E{yaclib::StopTag{}})};
      default:
        return World{yaclib::MakeTask<V, E>(c.exc)};
    }
  }
  if (base != kF) {
    Die("ready source must be a Future or a Task");
  }
  switch (s.res) {
    case sVal:
      if constexpr (std::is_void_v<V>) {
        return World{yaclib::MakeFuture<void, E>()};
      } else {
        return World{yaclib::MakeFuture<V, E>(V{1})};
      }
    case sErr:
      return World{yaclib::MakeFuture<V, E>(E{yaclib::StopTag{}})};
    default:
      return World{yaclib::MakeFuture<V, E>(c.exc)};
  }
}

template <class F, class P>
World FinishContract(Ctx& c, const Src& s, F&& f, P&& p) {
  if (s.late) {
    c.Push(AnyPromise{std::move(p)}, s.res);
  } else {
    c.Set(std::move(p), s.res);
  }
  return World{std::move(f)};
}

template <class V, class E>
World Contract(Ctx& c, const Src& s) {
  switch (s.w) {
    case kF:
    case kHF: {
      auto [f, p] = yaclib::MakeContract<V, E>();
      return FinishContract(c, s, std::move(f), std::move(p));
    }
    case kO:
    case kHO: {
      auto [f, p] = yaclib::MakeContractOn<V, E>(c.Executor(s.exec));
      return FinishContract(c, s, std::move(f), std::move(p));
    }
    case kS:
      if constexpr (std::is_same_v<E, yaclib::StopError>) {
        auto [f, p] = yaclib::MakeSharedContract<V, E>();
        return FinishContract(c, s, std::move(f), std::move(p));
      }
      break;
    case kSO:
      if constexpr (std::is_same_v<E, yaclib::StopError>) {
        auto [f, p] = yaclib::MakeSharedContractOn<V, E>(c.Executor(s.exec));
        return FinishContract(c, s, std::move(f), std::move(p));
      }
      break;
    default:
      break;
  }
  Die("contract source: unsupported handle kind");
}

template <class PromiseT>
struct PromFn {
  const Src* src;
  char pad[48];
  explicit PromFn(const Src* s) noexcept : src{s}, pad{} {
  }
  PromFn(PromFn&& o) noexcept : src{o.src}, pad{} {
  }
  void operator()(PromiseT&& p) {
    ++g_ctx->calls;
    if (src->throws) {
      throw Ex{3};
    }
    if (src->late) {
      g_ctx->Push(AnyPromise{std::move(p)}, src->res);
    } else {
      g_ctx->Set(std::move(p), src->res);
    }
  }
};

template <class V, class E>
World Prom(Ctx& c, const Src& s) {
  auto& e = c.Executor(s.exec);
  switch (s.w) {
    case kF:
    case kHF:
      return World{yaclib::AsyncContract<V, E>(PromFn<yaclib::Promise<V, E>>{&s})};
    case kO:
    case kHO:
      return World{yaclib::AsyncContract<V, E>(e, PromFn<yaclib::Promise<V, E>>{&s})};
    case kSO:
      if constexpr (std::is_same_v<E, yaclib::StopError>) {
        return World{yaclib::AsyncSharedContract<V, E>(e, PromFn<yaclib::SharedPromise<V, E>>{&s})};
      }
      break;
    case kT:
    case kHT:
      return World{yaclib::LazyContract<V, E>(e, PromFn<yaclib::Promise<V, E>>{&s})};
    default:
      break;
  }
  Die("prom source: unsupported handle kind");
}

// dispatch a source template on (family, value type)
#define C20_SRC_DISPATCH(Fun, c, s)                                                         \
  (HeavyKind((s).w) ? ((s).tvoid ? Fun<void, HeavyE>(c, s) : Fun<HeavyV, HeavyE>(c, s))    \
                    : ((s).tvoid ? Fun<void, yaclib::StopError>(c, s) : Fun<int, yaclib::StopError>(c, s)))

#if YACLIB_CORO != 0
// operand of `co_await x`: futures and tasks are consumed, shared futures are not
template <class V, class E>
yaclib::Future<V, E>&& CoArg(yaclib::Future<V, E>& x) {
  return std::move(x);
}
template <class V, class E>
yaclib::FutureOn<V, E>&& CoArg(yaclib::FutureOn<V, E>& x) {
  return std::move(x);
}
template <class V, class E>
yaclib::Task<V, E>&& CoArg(yaclib::Task<V, E>& x) {
  return std::move(x);
}
template <class V, class E>
const yaclib::SharedFuture<V, E>& CoArg(yaclib::SharedFuture<V, E>& x) {
  return x;
}
template <class V, class E>
const yaclib::SharedFutureOn<V, E>& CoArg(yaclib::SharedFutureOn<V, E>& x) {
  return x;
}
// awaits world alternative I of w (built just before) in the given mode; a macro because co_await must be in the body
#  define C20_AWAIT_ALT(I)                 \
    case I: {                              \
      auto& x = *std::get_if<I>(&w);       \
      if (s->amode == 0) {                 \
        co_await yaclib::Await(x);         \
      } else {                             \
        (void)co_await CoArg(x);           \
      }                                    \
      break;                               \
    }

#  define C20_CORO_BODY()                         \
    for (const Prog* in : s->inners) {            \
      World w = c->Build(*in);                    \
      switch (w.index()) {                        \
        C20_AWAIT_ALT(1)                          \
        C20_AWAIT_ALT(2)                          \
        C20_AWAIT_ALT(3)                          \
        C20_AWAIT_ALT(4)                          \
        C20_AWAIT_ALT(5)                          \
        C20_AWAIT_ALT(6)                          \
        C20_AWAIT_ALT(7)                          \
        C20_AWAIT_ALT(8)                          \
        C20_AWAIT_ALT(9)                          \
        C20_AWAIT_ALT(10)                         \
        C20_AWAIT_ALT(11)                         \
        C20_AWAIT_ALT(12)                         \
        C20_AWAIT_ALT(13)                         \
        C20_AWAIT_ALT(14)                         \
        C20_AWAIT_ALT(15)                         \
        C20_AWAIT_ALT(16)                         \
        default:                                  \
          Die("coroutine: nothing to await");     \
      }                                           \
    }                                             \
    if (s->res == sErr) {                         \
      co_return yaclib::StopTag{};                \
    }                                             \
    if (s->res == sExc) {                         \
      co_return c->exc;                           \
    }

#  define C20_CORO(Name, Handle, Value) \
    Handle Name(Ctx* c, const Src* s) { \
      C20_CORO_BODY()                   \
      co_return Value;                  \
    }
C20_CORO(CoroFI, Fut<int>, 1)
C20_CORO(CoroFV, Fut<void>, yaclib::Unit{})
C20_CORO(CoroTI, Tsk<int>, 1)
C20_CORO(CoroTV, Tsk<void>, yaclib::Unit{})
C20_CORO(CoroSI, Sh<int>, 1)
C20_CORO(CoroSV, Sh<void>, yaclib::Unit{})
using HFI = yaclib::Future<HeavyV, HeavyE>;
using HFV = yaclib::Future<void, HeavyE>;
using HTI = yaclib::Task<HeavyV, HeavyE>;
using HTV = yaclib::Task<void, HeavyE>;
C20_CORO(CoroHFI, HFI, HeavyV{1})
C20_CORO(CoroHFV, HFV, yaclib::Unit{})
C20_CORO(CoroHTI, HTI, HeavyV{1})
C20_CORO(CoroHTV, HTV, yaclib::Unit{})
#endif

World Coro(Ctx& c, const Src& s) {
#if YACLIB_CORO != 0
  switch (s.w * 2 + s.tvoid) {
    case kF * 2:
      return World{CoroFI(&c, &s)};
    case kF * 2 + 1:
      return World{CoroFV(&c, &s)};
    case kT * 2:
      return World{CoroTI(&c, &s)};
    case kT * 2 + 1:
      return World{CoroTV(&c, &s)};
    case kS * 2:
      return World{CoroSI(&c, &s)};
    case kS * 2 + 1:
      return World{CoroSV(&c, &s)};
    case kHF * 2:
      return World{CoroHFI(&c, &s)};
    case kHF * 2 + 1:
      return World{CoroHFV(&c, &s)};
    case kHT * 2:
      return World{CoroHTI(&c, &s)};
    case kHT * 2 + 1:
      return World{CoroHTV(&c, &s)};
    default:
      Die("coroutine source: unsupported handle kind");
  }
#else
  (void)c;
  (void)s;
  Die("coroutine source in a build without coroutines");
#endif
}

// ------------------------------------------------------------------------------------------------ interpreter

World BuildSrc(Ctx& c, const Src& s) {
  switch (s.kind) {
    case 0: {
      cnt::Scope sc{kReady};
      ++c.steps;
      return C20_SRC_DISPATCH(Ready, c, s);
    }
    case 1: {
      cnt::Scope sc{kContract};
      ++c.steps;
      return C20_SRC_DISPATCH(Contract, c, s);
    }
    case 2: {
      cnt::Scope sc{kRun};
      ++c.steps;
      const auto& cell = g_table.run[s.w][s.fn.par][s.fn.ret];
      if (cell.run == nullptr) {
        Die("no run cell for this program");
      }
      return cell.run(&s.fn, &c.Executor(s.exec));
    }
    case 3: {
      cnt::Scope sc{kProm};
      ++c.steps;
      return C20_SRC_DISPATCH(Prom, c, s);
    }
    default: {
      cnt::Scope sc{kCoro};
      ++c.steps;
      return Coro(c, s);
    }
  }
}

template <class F>
World VisitWorld(World&& w, F&& f) {
  return std::visit(
    [&](auto&& h) -> World {
      if constexpr (std::is_same_v<std::decay_t<decltype(h)>, std::monostate>) {
        Die("operation on a detached pipeline");
      } else {
        return f(std::move(h));
      }
    },
    std::move(w));
}

// conversions, by overload on the handle type
template <class V, class E>
World DoToFuture(Ctx&, yaclib::Task<V, E>&& t, const Op&) {
  return World{std::move(t).ToFuture()};
}
template <class T>
World DoToFuture(Ctx&, T&&, const Op&) {
  Die("tofuture needs a Task");
}
template <class V, class E>
World DoStartOn(Ctx& c, yaclib::Task<V, E>&& t, const Op& op) {
  return World{std::move(t).ToFuture(c.Executor(op.exec))};
}
template <class T>
World DoStartOn(Ctx&, T&&, const Op&) {
  Die("starton needs a Task");
}
template <class V, class E>
World DoOnNull(Ctx&, yaclib::FutureOn<V, E>&& f, const Op&) {
  return World{std::move(f).On(nullptr)};
}
template <class V, class E>
World DoOnNull(Ctx&, yaclib::Task<V, E>&& f, const Op&) {
  return World{std::move(f).On(nullptr)};
}
template <class V, class E>
World DoOnNull(Ctx&, yaclib::SharedFutureOn<V, E>&& f, const Op&) {
  return World{std::move(f).On(nullptr)};
}
template <class T>
World DoOnNull(Ctx&, T&&, const Op&) {
  Die("onnull needs a FutureOn, Task or SharedFutureOn");
}
template <class V>
World DoSplit(Ctx&, yaclib::Future<V, yaclib::StopError>&& f, const Op&) {
  return World{yaclib::Split(std::move(f))};
}
template <class V>
World DoSplit(Ctx&, yaclib::FutureOn<V, yaclib::StopError>&& f, const Op&) {
  return World{yaclib::Split(std::move(f))};
}
template <class T>
World DoSplit(Ctx&, T&&, const Op&) {
  Die("split needs a (light) Future or FutureOn");
}
template <class SF>
World ShareImpl(Ctx& c, SF& sf, const Op& op) {
  if (op.kind == 7) {
    return World{yaclib::Share(sf)};
  }
  return World{yaclib::Share(sf, c.Executor(op.exec))};
}
template <class V, class E>
World DoShare(Ctx& c, yaclib::SharedFuture<V, E>&& sf, const Op& op) {
  return ShareImpl(c, sf, op);
}
template <class V, class E>
World DoShare(Ctx& c, yaclib::SharedFutureOn<V, E>&& sf, const Op& op) {
  return ShareImpl(c, sf, op);
}
template <class T>
World DoShare(Ctx&, T&&, const Op&) {
  Die("share needs a SharedFuture");
}

World Apply(Ctx& c, World&& w, const Op& op) {
  const int wi = static_cast<int>(w.index());
  if (wi == 0) {
    Die("operation on a detached pipeline");
  }
  switch (op.kind) {
    case 0:
    case 1: {
      const auto& cell = (op.kind == 0 ? g_table.then : g_table.detach)[wi][op.attach][op.fn.par][op.fn.ret];
      if (cell.then == nullptr) {
        Die("no then/detach cell for this program");
      }
      cnt::Scope sc{op.kind == 0 ? kThen : kDetach};
      ++c.steps;
      return cell.then(std::move(w), &op.fn, &c.Executor(op.exec));
    }
    case 2: {  // Detach()
      cnt::Scope sc{kDetach0};
      ++c.steps;
      return VisitWorld(std::move(w), [&](auto h) -> World {
        std::move(h).Detach();
        return World{};
      });
    }
    case 3: {  // Task::ToFuture(e)
      cnt::Scope sc{kConv};
      return VisitWorld(std::move(w), [&](auto h) -> World {
        return DoStartOn(c, std::move(h), op);
      });
    }
    case 4: {  // Task::ToFuture()
      cnt::Scope sc{kConv};
      return VisitWorld(std::move(w), [&](auto h) -> World {
        return DoToFuture(c, std::move(h), op);
      });
    }
    case 5: {  // On(nullptr)
      cnt::Scope sc{kConv};
      return VisitWorld(std::move(w), [&](auto h) -> World {
        return DoOnNull(c, std::move(h), op);
      });
    }
    case 6: {  // Split
      cnt::Scope sc{kSplit};
      ++c.steps;
      return VisitWorld(std::move(w), [&](auto h) -> World {
        return DoSplit(c, std::move(h), op);
      });
    }
    case 7:
    case 8: {  // Share
      cnt::Scope sc{kShare};
      ++c.steps;
      return VisitWorld(std::move(w), [&](auto h) -> World {
        return DoShare(c, std::move(h), op);
      });
    }
    default:
      Die("unknown op kind");
  }
}

World Ctx::Build(const Prog& p) {
  World w = BuildSrc(*this, p.src);
  for (const auto& op : p.ops) {
    w = Apply(*this, std::move(w), op);
  }
  return w;
}

// final state of the top-level handle: 0 value, 1 error, 2 exception, 3 detached, 4 not ready, 5 unstarted task
int Final(World& w) {
  return std::visit(
    [&](auto& h) -> int {
      using H = std::decay_t<decltype(h)>;
      if constexpr (std::is_same_v<H, std::monostate>) {
        return 3;
      } else if constexpr (yaclib::is_task_v<H>) {
        return 5;
      } else {
        if (!h.Ready()) {
          return 4;
        }
        switch (std::as_const(h).Touch().State()) {
          case yaclib::ResultState::Value:
            return 0;
          case yaclib::ResultState::Error:
            return 1;
          case yaclib::ResultState::Exception:
            return 2;
          default:
            return 6;
        }
      }
    },
    w);
}

struct PipeResult {
  long news = 0;
  long steps = 0;
  long calls = 0;
  int final = 0;
  long outside = 0;
  long other = 0;
  long vcopies = 0;  // copy constructions of the value payload during the program
  long ecopies = 0;  // of the error payload
  long ecalls = 0;   // invocations of callbacks taking the error by value
  long payload = 0;  // blocks requested by those copies (kept out of news)
};

void RunPipe(Ctx& c, const Prog& p, PipeResult& r) {
  c.calls = 0;
  c.ecalls = 0;
  c.steps = 0;
  g_vcopies = 0;
  g_ecopies = 0;
  cnt::Begin();
  const long a = cnt::News();
  {
    World w = c.Build(p);
    c.Quiesce();
    r.final = Final(w);
  }
  c.Quiesce();  // a dropped unstarted Task cancels its chain through the stopped inline executor: nothing is queued
  r.news = cnt::News() - a;
  cnt::End();
  r.steps = c.steps;
  r.calls = c.calls;
  r.outside = cnt::g_rec.outside;
  r.other = cnt::g_rec.other;
  r.vcopies = g_vcopies;
  r.ecopies = g_ecopies;
  r.ecalls = c.ecalls;
  r.payload = cnt::g_rec.payload;
}

}  // namespace h
#endif

#if C20_SHARD == -1
namespace h {

// ------------------------------------------------------------------------------------------------ inputs

void PrepareInputs(int ik, int vs, int n) {
  for (int i = 0; i < n; ++i) {
    if (InShared(ik, i)) {
      if (InVoid(ik, vs, i)) {
        auto [f, p] = yaclib::MakeSharedContract<void>();
        g_in.sv[i] = std::move(f);
        g_in.spv[i] = std::move(p);
      } else {
        auto [f, p] = yaclib::MakeSharedContract<int>();
        g_in.si[i] = std::move(f);
        g_in.spi[i] = std::move(p);
      }
    } else {
      if (InVoid(ik, vs, i)) {
        auto [f, p] = yaclib::MakeContract<void>();
        g_in.fv[i] = std::move(f);
        g_in.pv[i] = std::move(p);
      } else {
        auto [f, p] = yaclib::MakeContract<int>();
        g_in.fi[i] = std::move(f);
        g_in.pi[i] = std::move(p);
      }
    }
  }
}

void FulfilInput(int ik, int vs, int i, int res) {
  if (InShared(ik, i)) {
    if (InVoid(ik, vs, i)) {
      if (g_in.spv[i].Valid()) {
        g_ctx->Set(std::move(g_in.spv[i]), res);
      }
    } else if (g_in.spi[i].Valid()) {
      g_ctx->Set(std::move(g_in.spi[i]), res);
    }
  } else {
    if (InVoid(ik, vs, i)) {
      if (g_in.pv[i].Valid()) {
        g_ctx->Set(std::move(g_in.pv[i]), res);
      }
    } else if (g_in.pi[i].Valid()) {
      g_ctx->Set(std::move(g_in.pi[i]), res);
    }
  }
}

void ClearInputs(int n) {
  for (int i = 0; i < n && i < kMaxN; ++i) {
    g_in.pi[i] = {};
    g_in.pv[i] = {};
    g_in.spi[i] = {};
    g_in.spv[i] = {};
    g_in.fi[i] = {};
    g_in.fv[i] = {};
    g_in.si[i] = {};
    g_in.sv[i] = {};
  }
}

// ------------------------------------------------------------------------------------------------ helper thread

struct Helper {
  std::thread th;
  std::atomic<int> state{0};  // 0 idle, 1 armed, 2 quit
  void (*fn)(void*) = nullptr;
  void* arg = nullptr;
  bool started = false;

  void Start() {
    if (!started) {
      started = true;
      th = std::thread([this] {
        for (;;) {
          int s = state.load(std::memory_order_acquire);
          if (s == 2) {
            return;
          }
          if (s == 1) {
            std::this_thread::sleep_for(std::chrono::microseconds(300));
            fn(arg);
            state.store(0, std::memory_order_release);
            continue;
          }
          std::this_thread::sleep_for(std::chrono::microseconds(20));
        }
      });
    }
  }
  void Arm(void (*f)(void*), void* a) {
    Start();
    fn = f;
    arg = a;
    state.store(1, std::memory_order_release);
  }
  void Join() {
    while (state.load(std::memory_order_acquire) == 1) {
      std::this_thread::yield();
    }
  }
  void Quit() {
    if (started) {
      Join();
      state.store(2, std::memory_order_release);
      th.join();
    }
  }
};
Helper g_helper;

struct LateSet {
  int ik = 0;
  int n = 0;
  int first = 0;
  int stride = 1;
};
LateSet g_late;

void FulfilLate(void* p) {
  auto* l = static_cast<LateSet*>(p);
  for (int i = l->first; i < l->n; i += l->stride) {
    FulfilInput(l->ik, 0, i, sVal);
  }
}

std::chrono::milliseconds g_timeout{2};

void WaitPrologue(const WaitSpec& s) {
  g_timeout = std::chrono::milliseconds{s.timing == 2 ? 2 : 20000};
  PrepareInputs(s.ik, 0, s.n);
  switch (s.timing) {
    case 0:
      for (int i = 0; i < s.n; ++i) {
        FulfilInput(s.ik, 0, i, sVal);
      }
      break;
    case 1:
      g_late = LateSet{s.ik, s.n, 0, 1};
      g_helper.Arm(&FulfilLate, &g_late);
      break;
    case 3:
      for (int i = 0; i < s.n; i += 2) {
        FulfilInput(s.ik, 0, i, sVal);
      }
      g_late = LateSet{s.ik, s.n, 1, 2};
      g_helper.Arm(&FulfilLate, &g_late);
      break;
    default:
      break;
  }
}
void WaitEpilogue(const WaitSpec& s) {
  g_helper.Join();
  for (int i = 0; i < s.n; ++i) {
    FulfilInput(s.ik, 0, i, sVal);
  }
  ClearInputs(s.n);
}

// ------------------------------------------------------------------------------------------------ Get

struct GetSpec {
  int w = 0;       // F, O, T, S
  int tvoid = 0;
  int timing = 0;  // 0 ready, 1 fulfilled by another thread while Get blocks
  int how = 0;     // 0 std::move(x).Get(), 1 x.Get() (const&)
};
struct GetResult {
  long news = 0;
  int state = -1;
  long other = 0;
};

yaclib::Promise<int> g_gp_i;
yaclib::Promise<void> g_gp_v;
yaclib::SharedPromise<int> g_gsp_i;
yaclib::SharedPromise<void> g_gsp_v;

std::atomic<bool> g_parked{false};  // the lazy function has stored its promise

void FulfilGet(void*) {
  if (g_gp_i.Valid()) {
    std::move(g_gp_i).Set(1);
  }
  if (g_gp_v.Valid()) {
    std::move(g_gp_v).Set();
  }
  if (g_gsp_i.Valid()) {
    std::move(g_gsp_i).Set(1);
  }
  if (g_gsp_v.Valid()) {
    std::move(g_gsp_v).Set();
  }
}

template <class H>
void GetBody(const GetSpec& s, GetResult& r, H h) {
  if (s.timing == 0) {
    FulfilGet(nullptr);
  } else {
    g_helper.Arm(&FulfilGet, nullptr);
  }
  cnt::Begin();
  const long a = cnt::News();
  {
    if constexpr (std::is_same_v<H, Sh<int>> || std::is_same_v<H, Sh<void>>) {
      if (s.how == 1) {
        const auto& res = std::as_const(h).Get();
        r.state = static_cast<int>(res.State());
      } else {
        auto res = std::move(h).Get();
        r.state = static_cast<int>(res.State());
      }
    } else {
      auto res = std::move(h).Get();
      r.state = static_cast<int>(res.State());
    }
  }
  r.news = cnt::News() - a;
  r.other = cnt::g_rec.other;
  cnt::End();
  g_helper.Join();
}

template <class V>
void RunGetV(const GetSpec& s, GetResult& r) {
  switch (s.w) {
    case kF: {
      auto [f, p] = yaclib::MakeContract<V>();
      if constexpr (std::is_void_v<V>) {
        g_gp_v = std::move(p);
      } else {
        g_gp_i = std::move(p);
      }
      GetBody(s, r, std::move(f));
      break;
    }
    case kO: {
      auto [f, p] = yaclib::MakeContractOn<V>(*g_ctx->manual);
      if constexpr (std::is_void_v<V>) {
        g_gp_v = std::move(p);
      } else {
        g_gp_i = std::move(p);
      }
      GetBody(s, r, std::move(f));
      break;
    }
    case kT: {
      // Task::Get = ToFuture().Get(): the lazy contract's function runs inside Get and parks or sets the promise
      auto t = yaclib::LazyContract<V>([timing = s.timing](yaclib::Promise<V>&& p) {
        if constexpr (std::is_void_v<V>) {
          g_gp_v = std::move(p);
        } else {
          g_gp_i = std::move(p);
        }
        if (timing == 0) {
          FulfilGet(nullptr);
        }
        g_parked.store(true, std::memory_order_release);
      });
      g_parked.store(false, std::memory_order_relaxed);
      GetSpec s2 = s;
      if (s.timing == 0) {
        // nothing to fulfil before the call
        cnt::Begin();
        const long a = cnt::News();
        {
          auto res = std::move(t).Get();
          r.state = static_cast<int>(res.State());
        }
        r.news = cnt::News() - a;
        r.other = cnt::g_rec.other;
        cnt::End();
      } else {
        // the promise only exists once Get has started the task: the helper polls for it
        g_helper.Arm(
          [](void*) {
            while (!g_parked.load(std::memory_order_acquire)) {
              std::this_thread::yield();
            }
            std::this_thread::sleep_for(std::chrono::microseconds(200));
            FulfilGet(nullptr);
          },
          nullptr);
        cnt::Begin();
        const long a = cnt::News();
        {
          auto res = std::move(t).Get();
          r.state = static_cast<int>(res.State());
        }
        r.news = cnt::News() - a;
        r.other = cnt::g_rec.other;
        cnt::End();
        g_helper.Join();
      }
      (void)s2;
      break;
    }
    default: {
      auto [f, p] = yaclib::MakeSharedContract<V>();
      if constexpr (std::is_void_v<V>) {
        g_gsp_v = std::move(p);
      } else {
        g_gsp_i = std::move(p);
      }
      GetBody(s, r, std::move(f));
      break;
    }
  }
}

// ------------------------------------------------------------------------------------------------ Strand

struct CountJob final : yaclib::Job {
  int* ran = nullptr;
  void Call() noexcept final {
    ++*ran;
  }
  void Drop() noexcept final {
  }
};

struct StrandSpec {
  int existing = 1;
  int n = 0;
  int under = 1;  // executor under the strand: 0 inline, 1 manual
};
struct StrandResult {
  long news = 0;
  int ran = 0;
};

void RunStrand(Ctx& c, const StrandSpec& s, StrandResult& r) {
  static CountJob jobs[kMaxN];
  static yaclib::IExecutorPtr inline_strand = yaclib::MakeStrand(&yaclib::MakeInline());
  int ran = 0;
  for (int i = 0; i < s.n; ++i) {
    jobs[i].ran = &ran;
  }
  yaclib::IExecutor& strand = s.under == 0 ? *inline_strand : *c.strand;
  cnt::Begin();
  const long a = cnt::News();
  for (int i = 0; i < s.n; ++i) {
    if (s.existing != 0) {
      strand.Submit(jobs[i]);
    } else {
      yaclib::Submit(strand, [&ran] {
        ++ran;
      });
    }
  }
  c.Quiesce();
  r.news = cnt::News() - a;
  cnt::End();
  r.ran = ran;
}

// ------------------------------------------------------------------------------------------------ co_await

#if YACLIB_CORO != 0
Tsk<int> g_task;

void AwaitPrologue(const AwaitSpec& s) {
  if (s.ik == 3) {
    g_task = yaclib::LazyContract<int>([timing = s.timing](yaclib::Promise<int>&& p) {
      if (timing == 0) {
        std::move(p).Set(1);
      } else {
        g_gp_i = std::move(p);
      }
    });
    return;
  }
  PrepareInputs(s.ik, 0, s.n);
  if (s.timing == 0) {
    for (int i = 0; i < s.n; ++i) {
      FulfilInput(s.ik, 0, i, sVal);
    }
  }
}
void AwaitFulfil(const AwaitSpec& s) {
  if (s.ik == 3) {
    FulfilGet(nullptr);
    return;
  }
  for (int i = 0; i < s.n; ++i) {
    FulfilInput(s.ik, 0, i, sVal);
  }
}
void AwaitEpilogue(const AwaitSpec& s) {
  if (s.ik == 3) {
    g_task = {};
    FulfilGet(nullptr);
    return;
  }
  ClearInputs(s.n);
}

template <int IK>
Fut<int> CoAwaitSingle(AwaitResult* r) {
  const long a = cnt::News();
  co_await yaclib::Await(Slot<IK, 0, 0>());
  r->await_news = cnt::News() - a;
  co_return 1;
}
Fut<int> CoAwaitSingleTask(AwaitResult* r) {
  const long a = cnt::News();
  co_await yaclib::Await(g_task);
  r->await_news = cnt::News() - a;
  co_return 1;
}
Fut<int> CoAwaitMoveU(AwaitResult* r) {
  const long a = cnt::News();
  int v = co_await std::move(g_in.fi[0]);
  r->await_news = cnt::News() - a;
  co_return v;
}
Fut<int> CoAwaitMoveS(AwaitResult* r) {
  const long a = cnt::News();
  int v = co_await g_in.si[0];
  r->await_news = cnt::News() - a;
  co_return v;
}
Fut<int> CoAwaitMoveT(AwaitResult* r) {
  const long a = cnt::News();
  int v = co_await std::move(g_task);
  r->await_news = cnt::News() - a;
  co_return v;
}
template <int IK>
Fut<int> CoAwaitIter(AwaitResult* r, std::size_t n) {
  const long a = cnt::News();
  co_await yaclib::Await(&Slot<IK, 0, 0>(), n);
  r->await_news = cnt::News() - a;
  co_return 1;
}

bool RunAwait(const AwaitSpec& s, AwaitResult& r) {
  switch (s.form) {
    case 0:
      if (s.ik == 0) {
        AwaitBody(s, r, [](AwaitResult* o) { return CoAwaitSingle<0>(o); });
      } else if (s.ik == 1) {
        AwaitBody(s, r, [](AwaitResult* o) { return CoAwaitSingle<1>(o); });
      } else if (s.ik == 3) {
        AwaitBody(s, r, [](AwaitResult* o) { return CoAwaitSingleTask(o); });
      } else {
        return false;
      }
      return true;
    case 1:
      if (s.ik == 0) {
        AwaitBody(s, r, [](AwaitResult* o) { return CoAwaitMoveU(o); });
      } else if (s.ik == 1) {
        AwaitBody(s, r, [](AwaitResult* o) { return CoAwaitMoveS(o); });
      } else if (s.ik == 3) {
        AwaitBody(s, r, [](AwaitResult* o) { return CoAwaitMoveT(o); });
      } else {
        return false;
      }
      return true;
    case 2: {
      if (s.ik < 0 || s.ik > 2 || s.n < 2 || s.n > kMaxN || g_tables.await_var[s.ik][s.n] == nullptr) {
        return false;
      }
      g_tables.await_var[s.ik][s.n](s, r);
      return true;
    }
    default: {
      const auto n = static_cast<std::size_t>(s.n);
      if (s.ik == 0) {
        AwaitBody(s, r, [n](AwaitResult* o) { return CoAwaitIter<0>(o, n); });
      } else if (s.ik == 1) {
        AwaitBody(s, r, [n](AwaitResult* o) { return CoAwaitIter<1>(o, n); });
      } else {
        return false;
      }
      return true;
    }
  }
}
#endif

}  // namespace h
#endif

#if C20_SHARD == -1
namespace h {

template <int I>
void RegIterOne(Tables& t) {
  constexpr int k = I / 12;
  constexpr int p = I / 4 % 3;
  constexpr int ik = I / 2 % 2;
  constexpr int vs = I % 2;
  if constexpr (WhenValid(k, p)) {
    t.when_iter[k][p][ik][vs] = &WhenIter<k, p, ik, vs>;
  }
  if constexpr (I < 6) {
    constexpr int fn = I / 2;
    constexpr int wik = I % 2;
    if constexpr (WaitValid(fn, wik)) {
      t.wait_iter[fn][wik] = &WaitIter<fn, wik>;
    }
  }
}
template <int... I>
void RegIter(Tables& t, std::integer_sequence<int, I...>) {
  (RegIterOne<I>(t), ...);
}

void RegisterEverything() {
  RegIter(g_tables, std::make_integer_sequence<int, 36>{});
  for (int i = 0; i < g_nshard_fns; ++i) {
    g_shard_fns[i](g_table, g_tables);
  }
}

void PrintCells() {
  static const char* par[] = {"R", "V", "E", "X", "N", "U"};
  static const char* ret[] = {"I", "V", "RI", "RV", "FI", "FV", "OI", "OV", "TI", "TV", "SI", "SV"};
  static const char* att[] = {"inline", "on", "inherit"};
  int nthen = 0, ndetach = 0, nrun = 0;
  for (int wi = 1; wi < kNWorlds; ++wi) {
    for (int a = 0; a < kNA; ++a) {
      for (int p = 0; p < kNP; ++p) {
        for (int r = 0; r < kNR; ++r) {
          if (g_table.then[wi][a][p][r].then != nullptr) {
            std::printf("then %d %s %s %s %d\n", wi, att[a], par[p], ret[r], g_table.then[wi][a][p][r].out);
            ++nthen;
          }
          if (g_table.detach[wi][a][p][r].then != nullptr) {
            std::printf("detach %d %s %s %s 0\n", wi, att[a], par[p], ret[r]);
            ++ndetach;
          }
        }
      }
    }
  }
  for (int wk = 0; wk < kNW; ++wk) {
    for (int p = 0; p < kNP; ++p) {
      for (int r = 0; r < kNR; ++r) {
        if (g_table.run[wk][p][r].run != nullptr) {
          std::printf("run %d %s %s %d\n", wk, par[p], ret[r], g_table.run[wk][p][r].out);
          ++nrun;
        }
      }
    }
  }
  int nvar = 0;
  for (int k = 0; k < 3; ++k) {
    for (int p = 0; p < 3; ++p) {
      for (int ik = 0; ik < 3; ++ik) {
        for (int vs = 0; vs < 3; ++vs) {
          for (int n = 0; n <= kMaxN; ++n) {
            if (g_tables.when_var[k][p][ik][vs][n] != nullptr) {
              std::printf("whenvar %d %d %d %d %d\n", k, p, ik, vs, n);
              ++nvar;
            }
          }
        }
      }
    }
  }
  for (int fn = 0; fn < 3; ++fn) {
    for (int ik = 0; ik < 3; ++ik) {
      for (int n = 0; n <= kMaxN; ++n) {
        if (g_tables.wait_var[fn][ik][n] != nullptr) {
          std::printf("waitvar %d %d %d\n", fn, ik, n);
        }
      }
    }
  }
  for (int ik = 0; ik < 3; ++ik) {
    for (int n = 0; n <= kMaxN; ++n) {
      if (g_tables.await_var[ik][n] != nullptr) {
        std::printf("awaitvar %d %d\n", ik, n);
      }
    }
  }
  std::printf("config coro=%d maxn=%d cells then=%d detach=%d run=%d whenvar=%d shards=%d\n", YACLIB_CORO != 0 ? 1 : 0, kMaxN,
              nthen, ndetach, nrun, nvar, g_nshard_fns);
}

void RunLine(Ctx& c, long idx, const std::string& line) {
  const char* p = line.c_str();
  while (*p == ' ') {
    ++p;
  }
  std::string head;
  while (*p != 0 && *p != ' ') {
    head.push_back(*p++);
  }
  if (head == "pipe") {
    std::deque<Prog> arena;
    Parser ps{p, &arena};
    const Prog* prog = ps.ParseProg();
    PipeResult r;
    RunPipe(c, *prog, r);
    std::string frames;
    for (int i = 0; i < cnt::g_rec.n; ++i) {
      if (i != 0) {
        frames.push_back(',');
      }
      frames += std::to_string(cnt::g_rec.frames[i].kind) + ":" + std::to_string(cnt::g_rec.frames[i].count);
    }
    std::printf("{\"i\":%ld,\"t\":\"pipe\",\"news\":%ld,\"steps\":%ld,\"calls\":%ld,\"final\":%d,\"outside\":%ld,\"other\":%ld,"
                "\"vcopies\":%ld,\"ecopies\":%ld,\"ecalls\":%ld,\"payload\":%ld,\"frames\":\"%s\"}\n",
                idx, r.news, r.steps, r.calls, r.final, r.outside, r.other, r.vcopies, r.ecopies, r.ecalls, r.payload, frames.c_str());
    return;
  }
  int a[8] = {0, 0, 0, 0, 0, 0, 0, 0};
  int na = 0;
  while (*p != 0 && na < 8) {
    while (*p == ' ') {
      ++p;
    }
    if (*p == 0) {
      break;
    }
    a[na++] = std::atoi(p);
    while (*p != 0 && *p != ' ') {
      ++p;
    }
  }
  if (head == "when") {
    WhenSpec s{a[0], a[1], a[2], a[3], a[4], a[5], a[6], a[7]};
    WhenFn f = nullptr;
    if (s.n >= 0 && s.n <= kMaxN && s.kind >= 0 && s.kind < 3 && s.pol >= 0 && s.pol < 3 && s.ik >= 0 && s.ik < 3 && s.vs >= 0 && s.vs < 3) {
      if (s.form == 0) {
        if (s.ik < 2 && s.vs < 2) {
          f = g_tables.when_iter[s.kind][s.pol][s.ik][s.vs];
        }
      } else {
        f = g_tables.when_var[s.kind][s.pol][s.ik][s.vs][s.n];
      }
    }
    if (f == nullptr) {
      std::printf("{\"i\":%ld,\"t\":\"when\",\"skip\":1}\n", idx);
      return;
    }
    WhenResult r;
    f(s, r);
    std::printf("{\"i\":%ld,\"t\":\"when\",\"build\":%ld,\"total\":%ld,\"valid\":%d,\"ready\":%d,\"state\":%d}\n", idx, r.build, r.total,
                r.valid, r.ready, r.state);
    return;
  }
  if (head == "wait") {
    WaitSpec s{a[0], a[1], a[2], a[3], a[4]};
    WaitFn f = nullptr;
    if (s.n >= 1 && s.n <= kMaxN && s.fn >= 0 && s.fn < 3 && s.ik >= 0 && s.ik < 3) {
      if (s.form == 0) {
        if (s.ik < 2) {
          f = g_tables.wait_iter[s.fn][s.ik];
        }
      } else {
        f = g_tables.wait_var[s.fn][s.ik][s.n];
      }
    }
    if (f == nullptr) {
      std::printf("{\"i\":%ld,\"t\":\"wait\",\"skip\":1}\n", idx);
      return;
    }
    WaitResult r;
    f(s, r);
    std::printf("{\"i\":%ld,\"t\":\"wait\",\"news\":%ld,\"ret\":%d,\"other\":%ld}\n", idx, r.news, r.ret, r.other);
    return;
  }
  if (head == "get") {
    GetSpec s{a[0], a[1], a[2], a[3]};
    GetResult r;
    if (s.tvoid != 0) {
      RunGetV<void>(s, r);
    } else {
      RunGetV<int>(s, r);
    }
    std::printf("{\"i\":%ld,\"t\":\"get\",\"news\":%ld,\"state\":%d,\"other\":%ld}\n", idx, r.news, r.state, r.other);
    return;
  }
  if (head == "strand") {
    StrandSpec s{a[0], a[1], a[2]};
    if (s.n < 0 || s.n > kMaxN) {
      std::printf("{\"i\":%ld,\"t\":\"strand\",\"skip\":1}\n", idx);
      return;
    }
    StrandResult r;
    RunStrand(c, s, r);
    std::printf("{\"i\":%ld,\"t\":\"strand\",\"news\":%ld,\"ran\":%d}\n", idx, r.news, r.ran);
    return;
  }
  if (head == "await") {
#if YACLIB_CORO != 0
    AwaitSpec s{a[0], a[1], a[2], a[3]};
    AwaitResult r;
    if (s.n >= 1 && s.n <= kMaxN && RunAwait(s, r)) {
      std::printf("{\"i\":%ld,\"t\":\"await\",\"await\":%ld,\"call\":%ld,\"ready\":%d}\n", idx, r.await_news, r.call_news, r.ready);
      return;
    }
#endif
    std::printf("{\"i\":%ld,\"t\":\"await\",\"skip\":1}\n", idx);
    return;
  }
  std::fprintf(stderr, "unknown program line: %s\n", line.c_str());
  std::_Exit(3);
}

}  // namespace h

int main(int argc, char** argv) {
  cnt::t_main = true;
  h::RegisterEverything();
  std::string file;
  std::string one;
  bool cells = false;
  for (int i = 1; i < argc; ++i) {
    std::string a = argv[i];
    if (a == "--cells") {
      cells = true;
    } else if (a == "--programs" && i + 1 < argc) {
      file = argv[++i];
    } else if (a == "--one" && i + 1 < argc) {
      one = argv[++i];
    }
  }
  if (cells) {
    h::PrintCells();
    return 0;
  }
  static h::Ctx ctx;
  ctx.manual = yaclib::MakeManual();
  ctx.manual2 = yaclib::MakeManual();
  ctx.strand = yaclib::MakeStrand(ctx.manual2);
  ctx.exc = std::make_exception_ptr(h::Ex{1});
  h::g_ctx = &ctx;
  // stdio buffers and locale data are set up before anything is measured
  std::printf("{\"hello\":1,\"coro\":%d}\n", YACLIB_CORO != 0 ? 1 : 0);
  std::fflush(stdout);
  if (!one.empty()) {
    h::RunLine(ctx, 0, one);
  } else if (!file.empty()) {
    std::ifstream in{file};
    std::string line;
    long idx = 0;
    while (std::getline(in, line)) {
      if (!line.empty()) {
        h::RunLine(ctx, idx, line);
      }
      ++idx;
    }
  }
  std::fflush(stdout);
  h::g_helper.Quit();
  ctx.strand = nullptr;
  ctx.manual = nullptr;
  ctx.manual2 = nullptr;
  return 0;
}
#endif
