// C15 harness: the real yaclib::SharedMutex<FIFO, ReadersFIFO> (all four instantiations) under the schedule explorer.
//
// k coroutines (yaclib::Future<> coroutine functions) `co_await On(executor)` and then run their rounds: lock in one of
// the forms (LockShared / GuardShared / TryLockShared / TryGuardShared / Lock / Guard / TryLock / TryGuard), enter the
// critical section, leave, unlock in one of the forms (UnlockHereShared / UnlockHere / guard.UnlockHere() / guard
// destructor).  Executor: yaclib::FairThreadPool(n) behind a forwarding wrapper that only reports Submit, or an
// instrumented manual executor whose n worker fibers pick any queued job (the explorer chooses which).  An optional
// bystander fiber (a plain thread, no coroutine) calls TryLock / TryLockShared and UnlockHere / UnlockHereShared.
//
// ORACLE (property text only):
//   * overlap counters: writers_inside <= 1, writers_inside = 1 => readers_inside = 0 (checked at every entry);
//   * TryLock / TryGuard succeed only when nobody is inside; TryLockShared / TryGuardShared only when no writer is;
//   * every request is granted exactly once: a coroutine passes each of its suspension points once (phase check), every
//     coroutine completes all its rounds, grants = requests; the run does not end with the main fiber still waiting
//     (the explorer's deadlock detection = a reader or writer parked forever).
//
// TRACE (for the correspondence, no influence on the oracle): operations on `_state` ("s", value after as W.R),
// `_readers_wait` ("w", as a signed 32 bit number) and the spinlock word ("l"), and markers
//   cfg F=<FIFO> R=<ReadersFIFO> K=<coroutines> Y=<bystander rounds>
//   sub <id>          Submit of coroutine <id> (by Run(node), or by `co_await On`)
//   subi <id>         Submit of coroutine <id> to the INLINE executor: it runs inside this call, on this thread, until it
//                     suspends or finishes (programs: a coroutine written "i:<rounds>" switches to the inline executor
//                     after it has been started, so Run(node) resumes it synchronously inside the unlocker)
//   st<id>            coroutine runs for the first time on its executor
//   q<id> <S|W>       blocking request begins (shared / exclusive)          t<id> <S|W>   Try form begins
//   ty<id> / tn<id>   the Try form answered true / false
//   in<id> <S|W>      critical section entered
//   h<id>             resumed after a reschedule inside the critical section
//   x<id>             critical section left, the unlock call begins          o<id>   the unlock call has returned
//   f<id>             coroutine finished
//   z <p> <s> <w>     at every release of the spinlock: `_readers_pass`, `_readers_size`, `_writers_prio` as the section
//                     left them (read by the tracing hook; compared with the model section by section)
//   end <p> <s> <w>   everybody has finished; the same three fields
//
// EXPLORER REDUCTIONS (this harness only, see MyChoose / MyPick):
//   * a fiber about to spin on the held spinlock is not offered as a choice: it yields at once and is not scheduled
//     again until the lock is free (a spinning fiber makes no progress until the holder runs; the operations it would
//     repeat are reads of the lock word);
//   * --param sections=atomic: while a fiber holds the spinlock a switch is offered only before its operations on
//     `_readers_wait` (the second shared atomic of a section; everything else in a section is protected by the lock or
//     is the section's single access to `_state`, which is where the model places the section's event);
//   * --param yields=named: a switch is offered only before operations on the three named words and the harness' tick.
//   With --yield-at after|both the same rules are applied at the InjectFault() behind the operation ("before" reads
//   "behind"): the switch behind the releasing store of the spinlock is offered (the lock is free there), the one behind
//   the acquiring exchange is not under sections=atomic; a fiber is parked in front of the held lock only at the
//   InjectFault() in front of its exchange / load.
#include <deque>
#include <set>

#include "vrt_all.hpp"

#include "vrt_main.hpp"

namespace {

enum LockForm {
  kLockShared = 0,
  kGuardShared = 1,
  kTryLockShared = 2,
  kTryGuardShared = 3,
  kLock = 4,
  kGuard = 5,
  kTryLock = 6,
  kTryGuard = 7
};
enum UnlockForm { kHere = 0, kGuardHere = 1, kDtor = 2 };

bool IsWriter(int lf) {
  return lf >= kLock;
}
bool IsTry(int lf) {
  return lf == kTryLockShared || lf == kTryGuardShared || lf == kTryLock || lf == kTryGuard;
}
bool IsGuardForm(int lf) {
  return lf == kGuardShared || lf == kTryGuardShared || lf == kGuard || lf == kTryGuard;
}

struct Round {
  int lock = kLockShared;
  int unlock = kHere;
  bool hop = false;  // reschedule (`co_await On(executor)`) inside the critical section
};

struct CoSpec {
  std::vector<Round> rounds;
  bool inl = false;  // after it has been started its executor is the inline one: Run(node) resumes it synchronously
};

struct Cfg {
  bool fifo = true;
  bool rfifo = false;
  bool pool = false;  // FairThreadPool behind a wrapper; otherwise the instrumented manual executor
  int workers = 1;
  std::vector<CoSpec> cos;
  std::vector<Round> bystander;  // Try forms only
};

struct Ctx;

void Verdict(const std::string& what) {
  vrt::Fail(what);
  std::fprintf(stderr, "ORACLE %s\n", what.c_str());
}

struct ExecBase : yaclib::IExecutor {
  Ctx* c = nullptr;
  Type Tag() const noexcept final {
    return Type::Custom;
  }
  bool Alive() const noexcept final {
    return true;
  }
  void IncRef() noexcept final {
  }
  void DecRef() noexcept final {
  }
  std::size_t GetRef() noexcept final {
    return 1;
  }
};

struct Ctx {
  Cfg cfg;
  std::unique_ptr<ExecBase> exe;
  std::unique_ptr<ExecBase> inl;  // what yaclib::MakeInline() does, behind a wrapper that reports Submit
  std::map<std::uintptr_t, int> core2id;  // address of the coroutine's Node (what executors see) -> id
  yaclib_std::atomic<int> tick{0};        // a wrapped operation = an explored preemption point inside the section
  yaclib::detail::fiber::FiberQueue all_done;
  // shadow state of the oracle
  int writers_inside = 0;
  int readers_inside = 0;
  int done = 0;
  std::vector<int> phase;           // per party: 0 outside, 1 requested, 2 inside, 3 unlocking
  std::vector<int> grants, wanted;  // per party: critical sections entered / requests that must be granted
  int Id(yaclib::Job& job) {
    auto it = core2id.find(reinterpret_cast<std::uintptr_t>(static_cast<yaclib::detail::Node*>(&job)));
    return it == core2id.end() ? -1 : it->second;
  }
  void Tick() {
    (void)tick.load(std::memory_order_relaxed);
  }
  static std::string S(int v) {
    return std::to_string(v);
  }
  int Parties() const {
    return static_cast<int>(cfg.cos.size()) + (cfg.bystander.empty() ? 0 : 1);
  }
  void Req(int id, bool w) {
    vrt::Event("q" + S(id) + (w ? " W" : " S"));
    if (phase[id] != 0) {
      Verdict("coroutine " + S(id) + " passed a suspension point twice (request)");
    }
    phase[id] = 1;
    ++wanted[id];
  }
  void Enter(int id, bool w) {
    vrt::Event("in" + S(id) + (w ? " W" : " S"));
    if (phase[id] != 1) {
      Verdict("request of coroutine " + S(id) + " granted " + (phase[id] == 2 ? "twice" : "without a request"));
    }
    phase[id] = 2;
    ++grants[id];
    if (w) {
      ++writers_inside;
    } else {
      ++readers_inside;
    }
    if (writers_inside > 1) {
      Verdict("two writers are inside the critical section");
    }
    if (writers_inside >= 1 && readers_inside != 0) {
      Verdict("a writer and a reader are inside the critical section");
    }
  }
  void Leave(int id, bool w) {
    if (phase[id] != 2) {
      Verdict("coroutine " + S(id) + " passed a suspension point twice (inside)");
    }
    phase[id] = 3;
    if (w) {
      --writers_inside;
    } else {
      --readers_inside;
    }
    vrt::Event("x" + S(id));
  }
  void Out(int id) {
    vrt::Event("o" + S(id));
    if (phase[id] != 3) {
      Verdict("coroutine " + S(id) + " passed a suspension point twice (unlock)");
    }
    phase[id] = 0;
  }
  bool TryResult(int id, bool w, bool ok) {
    vrt::Event(std::string(ok ? "ty" : "tn") + S(id));
    if (ok && w && (writers_inside != 0 || readers_inside != 0)) {
      Verdict("TryLock succeeded while somebody is inside the critical section");
    }
    if (ok && !w && writers_inside != 0) {
      Verdict("TryLockShared succeeded while a writer is inside the critical section");
    }
    if (ok) {
      phase[id] = 1;
      ++wanted[id];
    }
    return ok;
  }
  void Finished(int id) {
    vrt::Event("f" + S(id));
    if (++done == Parties()) {
      all_done.NotifyAll();
    }
  }
};

// Instrumented manual executor: Submit enqueues; worker fibers pick any queued job (explorer's choice: a bag).
struct ManualExec final : ExecBase {
  std::vector<yaclib::Job*> q;
  yaclib::detail::fiber::FiberQueue park;
  bool stop = false;
  void Submit(yaclib::Job& job) noexcept final {
    vrt::Event("sub " + Ctx::S(c->Id(job)));
    job.next = nullptr;  // what an intrusive queue does to the node
    q.push_back(&job);
    park.NotifyAll();
  }
  void Worker() {
    while (true) {
      while (q.empty()) {
        if (stop) {
          return;
        }
        park.Wait(yaclib::detail::fiber::NoTimeoutTag{});
      }
      auto i = static_cast<std::size_t>(vrt::Next(static_cast<int>(q.size())));
      auto* job = q[i];
      q.erase(q.begin() + static_cast<std::ptrdiff_t>(i));
      job->Call();
    }
  }
  void Finish() {
    stop = true;
    park.NotifyAll();
  }
};

// The real FairThreadPool; the wrapper only reports Submit (the coroutine itself is the pool's intrusive job).
struct PoolExec final : ExecBase {
  yaclib::IntrusivePtr<yaclib::FairThreadPool> tp;
  void Submit(yaclib::Job& job) noexcept final {
    vrt::Event("sub " + Ctx::S(c->Id(job)));
    tp->Submit(job);
  }
};

// An executor that runs the job inside Submit, like yaclib::MakeInline() (the default executor of every Future<>
// coroutine): a coroutine parked in the mutex is resumed on the unlocker's thread, inside its Run(node).
struct InlineExec final : ExecBase {
  void Submit(yaclib::Job& job) noexcept final {
    vrt::Event("subi " + Ctx::S(c->Id(job)));
    job.Call();
  }
};

struct Self {
  void* p = nullptr;
  bool await_ready() const noexcept {
    return false;
  }
  template <typename P>
  bool await_suspend(yaclib_std::coroutine_handle<P> h) noexcept {
    auto* base = static_cast<yaclib::detail::BaseCore*>(&h.promise());
    p = static_cast<yaclib::detail::Node*>(base);
    return false;
  }
  void* await_resume() const noexcept {
    return p;
  }
};

template <typename M>
yaclib::Future<> Co(Ctx* c, M* m, int id) {
  auto self = co_await Self{};
  c->core2id[reinterpret_cast<std::uintptr_t>(self)] = id;
  const CoSpec& spec = c->cfg.cos[static_cast<std::size_t>(id)];
  co_await yaclib::On(*c->exe);
  vrt::Event("st" + Ctx::S(id));
  if (spec.inl) {
    co_await yaclib::On(*c->inl);  // continues at once, on this thread; from now on every resumption is synchronous
  }
  for (const Round& rd : spec.rounds) {
    const bool w = IsWriter(rd.lock);
    if (!IsGuardForm(rd.lock)) {
      if (IsTry(rd.lock)) {
        vrt::Event("t" + Ctx::S(id) + (w ? " W" : " S"));
        if (!c->TryResult(id, w, w ? m->TryLock() : m->TryLockShared())) {
          continue;
        }
      } else {
        c->Req(id, w);
        if (w) {
          co_await m->Lock();
        } else {
          co_await m->LockShared();
        }
      }
      c->Enter(id, w);
      c->Tick();
      if (rd.hop) {
        co_await yaclib::On(*c->exe);
        if (spec.inl) {
          co_await yaclib::On(*c->inl);
        }
        vrt::Event("h" + Ctx::S(id));
      }
      c->Leave(id, w);
      if (w) {
        m->UnlockHere();
      } else {
        m->UnlockHereShared();
      }
      c->Out(id);
    } else if (w) {
      {
        yaclib::UniqueGuard<M> g;
        if (rd.lock == kGuard) {
          c->Req(id, true);
          g = co_await m->Guard();
        } else {
          vrt::Event("t" + Ctx::S(id) + " W");
          g = m->TryGuard();
          if (!c->TryResult(id, true, g.OwnsLock())) {
            continue;
          }
        }
        c->Enter(id, true);
        c->Tick();
        if (rd.hop) {
          co_await yaclib::On(*c->exe);
          if (spec.inl) {
            co_await yaclib::On(*c->inl);
          }
          vrt::Event("h" + Ctx::S(id));
        }
        c->Leave(id, true);
        if (rd.unlock != kDtor) {
          g.UnlockHere();
        }
      }  // kDtor: ~UniqueGuard unlocks here
      c->Out(id);
    } else {
      {
        yaclib::SharedGuard<M> g;
        if (rd.lock == kGuardShared) {
          c->Req(id, false);
          g = co_await m->GuardShared();
        } else {
          vrt::Event("t" + Ctx::S(id) + " S");
          g = m->TryGuardShared();
          if (!c->TryResult(id, false, g.OwnsLock())) {
            continue;
          }
        }
        c->Enter(id, false);
        c->Tick();
        if (rd.hop) {
          co_await yaclib::On(*c->exe);
          if (spec.inl) {
            co_await yaclib::On(*c->inl);
          }
          vrt::Event("h" + Ctx::S(id));
        }
        c->Leave(id, false);
        if (rd.unlock != kDtor) {
          g.UnlockHere();
        }
      }
      c->Out(id);
    }
  }
  c->Finished(id);
  co_return{};
}

// ---- explorer reductions ---------------------------------------------------------------------------------------
struct Red {
  const volatile void* spin = nullptr;   // the spinlock word of the mutex under test
  const volatile void* rwait = nullptr;  // _readers_wait
  const volatile void* tickp = nullptr;
  const std::uint32_t* pass = nullptr;   // the plain fields protected by the spinlock (read at every release)
  const std::uint32_t* size = nullptr;
  const std::uint32_t* prio = nullptr;
  std::uint64_t holder = 0;              // fiber that holds the spinlock (valid while the word is 1)
  bool locked = false;                   // shadow of the spinlock word, maintained by the after-hook
  const volatile void* obj = nullptr;    // object / name of the operation the running fiber is at (set by both hooks)
  std::string op;
  std::set<std::uint64_t> blocked;       // fibers parked by the explorer in front of the held spinlock
  bool atomic_sections = false;
  bool named_only = false;
  std::uint64_t forced = 0;
  std::uint64_t alone = 0;
  bool Held() const {
    if (spin == nullptr) {
      return false;
    }
    std::uint32_t v = 0;
    std::memcpy(&v, const_cast<const void*>(spin), sizeof v);
    return v != 0;
  }
};
Red gR;
Ctx* gC = nullptr;

void MyBefore(const volatile void* obj, const char* op) {
  vrt::detail::Before(obj, op);
  if (vrt::g.active) {
    gR.obj = obj;
    gR.op = op;
  }
}

void MyAfter(const volatile void* obj, std::size_t size, const char* op) {
  auto& g = vrt::g;
  if (g.active) {
    if (obj == gR.spin) {
      // [locked] is the value of the word before this operation: it is only updated here, and no other fiber runs
      // between an operation and its after-hook
      if (std::strcmp(op, "exchange") == 0) {
        if (!gR.locked) {
          gR.holder = g.cur;
        }
        gR.locked = true;
      } else if (std::strcmp(op, "store") == 0) {
        gR.locked = false;
      }
    }
    // The InjectFault() that follows belongs to THIS operation of THIS fiber.  The explorer's at_before / inject_second are
    // global: if this fiber was switched out in front of the operation (a decision of --yield-at both, or parked in front
    // of the held spinlock) they hold what the fiber that ran last left behind.  Re-establish "operation done, second
    // InjectFault next" so that the switch after the operation is offered (or not) by the same rule every time.
    gR.obj = obj;
    gR.op = op;
    if (g.opt.yield_at != 0) {
      g.at_before = true;
      g.inject_second = true;
    }
  }
  if (gC == nullptr || obj != &gC->tick) {
    vrt::detail::After(obj, size, op);
  }
  if (g.active && obj == gR.spin && gR.pass != nullptr && std::strcmp(op, "store") == 0) {
    // the section is over: what it left in the plain fields (nobody else has run since the store)
    vrt::Event("z " + std::to_string(*gR.pass) + " " + std::to_string(*gR.size) + " " + std::to_string(*gR.prio));
  }
}

[[noreturn]] void Livelock(const char* why) {
  std::fprintf(stdout, "CRASH signal=0 choices=%s\n", vrt::ChoicesToString(vrt::g.taken).c_str());
  std::fprintf(stderr, "ORACLE the spinlock is never released (livelock): %s\n", why);
  std::fflush(stdout);
  _exit(70);
}

std::int64_t MyChoose(int kind, std::uint64_t n) {
  auto& g = vrt::g;
  if (kind == yaclib::verif::kYield && g.active && g.at_before) {
    const bool second = g.inject_second;  // the InjectFault() after the operation (only with --yield-at after|both)
    const bool held = gR.Held();
    if (!second && held && gR.obj == gR.spin && gR.op != "store") {
      // about to spin on the held lock: not a decision; come back when it is free
      if (gR.holder == g.cur) {
        Livelock("the thread that holds the spinlock tries to take it again (a coroutine resumed inside the section)");
      }
      if (vrt::detail::QueueEmpty() && ++gR.alone > 100000) {
        Livelock("a thread spins on the held spinlock and nobody else can run");
      }
      if (!vrt::detail::QueueEmpty()) {
        g.at_before = false;
        g.yielding = true;
        gR.blocked.insert(g.cur);
        if (++gR.forced > 200000) {
          Livelock("every runnable thread spins on it");
        }
        return 1;
      }
      return vrt::detail::Choose(kind, n);
    }
    // no switch is offered at this point (evaluated separately in front of and behind the operation: behind the
    // releasing store the lock is free, behind the acquiring exchange it is held)
    const bool suppress = (gR.atomic_sections && held && gR.holder == g.cur && gR.obj != gR.rwait) ||
                          (gR.named_only && g.locs.find(gR.obj) == g.locs.end());
    if (suppress) {
      if (second || g.opt.yield_at == 0) {
        g.at_before = false;
      } else {
        g.inject_second = true;
      }
      return 0;
    }
  }
  return vrt::detail::Choose(kind, n);
}

std::int64_t MyPick(const std::uint64_t* ids, std::size_t n, std::int64_t self) {
  auto& g = vrt::g;
  if (!g.active) {
    return 0;
  }
  if (!gR.Held()) {
    gR.blocked.clear();
  }
  if (gR.blocked.empty()) {
    return vrt::detail::PickFiber(ids, n, self);
  }
  std::vector<std::int64_t> ok;
  const bool excl = g.yielding && self >= 0 && n > 1;
  for (std::size_t i = 0; i < n; ++i) {
    if (gR.blocked.count(ids[i]) != 0) {
      continue;
    }
    if (excl && static_cast<std::int64_t>(i) == self) {
      continue;
    }
    ok.push_back(static_cast<std::int64_t>(i));
  }
  if (ok.empty()) {
    return vrt::detail::PickFiber(ids, n, self);
  }
  g.yielding = false;
  return ok[static_cast<std::size_t>(vrt::Next(static_cast<int>(ok.size())))];
}

template <typename M>
void RunWith(const Cfg& cfg) {
  Ctx c;
  c.cfg = cfg;
  gC = &c;
  const auto k = cfg.cos.size();
  const bool by = !cfg.bystander.empty();
  c.phase.assign(k + 1, 0);
  c.grants.assign(k + 1, 0);
  c.wanted.assign(k + 1, 0);
  M m;
  constexpr std::uint64_t kW = M::Base::kWriter;
  vrt::NameLoc(&m._state, "s", [](std::uint64_t v) {
    return std::to_string(v / kW) + "." + std::to_string(v % kW);
  });
  vrt::NameLoc(&m._readers_wait, "w", [](std::uint64_t v) {
    return std::to_string(static_cast<std::int32_t>(static_cast<std::uint32_t>(v)));
  });
  vrt::NameLoc(&m._lock._state, "l");
  vrt::NameLoc(&c.tick, "t");  // a preemption point also under yields=named; not traced (see MyAfter)
  gR.spin = &m._lock._state;
  gR.rwait = &m._readers_wait;
  gR.pass = &m._readers_pass;
  gR.size = &m._readers_size;
  gR.prio = &m._writers_prio;
  gR.blocked.clear();
  gR.holder = 0;
  gR.forced = 0;
  gR.alone = 0;
  gR.locked = false;
  vrt::Event("cfg F=" + std::to_string(cfg.fifo) + " R=" + std::to_string(cfg.rfifo) + " K=" + std::to_string(k) +
             " Y=" + std::to_string(cfg.bystander.size()));
  ManualExec* manual = nullptr;
  PoolExec* pool = nullptr;
  if (cfg.pool) {
    auto p = std::make_unique<PoolExec>();
    p->tp = yaclib::MakeFairThreadPool(static_cast<std::uint64_t>(cfg.workers));
    pool = p.get();
    c.exe = std::move(p);
  } else {
    auto p = std::make_unique<ManualExec>();
    manual = p.get();
    c.exe = std::move(p);
  }
  c.exe->c = &c;
  c.inl = std::make_unique<InlineExec>();
  c.inl->c = &c;
  std::vector<yaclib_std::thread> ts;
  std::vector<yaclib::Future<>> fs;
  for (std::size_t i = 0; i < k; ++i) {
    fs.push_back(Co<M>(&c, &m, static_cast<int>(i)));
  }
  // the manual executor's workers start after every coroutine has been submitted (the model starts with all queued)
  if (manual != nullptr) {
    for (int w = 0; w < cfg.workers; ++w) {
      ts.emplace_back([manual, w] {
        vrt::NameThread("w" + std::to_string(w));
        manual->Worker();
      });
    }
  }
  if (by) {
    const int id = static_cast<int>(k);
    ts.emplace_back([&c, &m, id] {
      vrt::NameThread("Y");
      vrt::Event("st" + Ctx::S(id));
      for (const Round& rd : c.cfg.bystander) {
        const bool w = IsWriter(rd.lock);
        vrt::Event("t" + Ctx::S(id) + (w ? " W" : " S"));
        if (c.TryResult(id, w, w ? m.TryLock() : m.TryLockShared())) {
          c.Enter(id, w);
          c.Tick();
          c.Leave(id, w);
          if (w) {
            m.UnlockHere();
          } else {
            m.UnlockHereShared();
          }
          c.Out(id);
        }
      }
      c.Finished(id);
    });
  }
  while (c.done < c.Parties()) {
    c.all_done.Wait(yaclib::detail::fiber::NoTimeoutTag{});
  }
  vrt::Event("end " + std::to_string(m._readers_pass) + " " + std::to_string(m._readers_size) + " " +
             std::to_string(m._writers_prio));
  if (manual != nullptr) {
    manual->Finish();
  }
  if (pool != nullptr) {
    pool->tp->Stop();
    pool->tp->Wait();
  }
  for (auto& t : ts) {
    t.join();
  }
  // ---- oracle at the end of the run
  for (std::size_t i = 0; i < k + (by ? 1 : 0); ++i) {
    if (c.grants[i] != c.wanted[i]) {
      vrt::Fail("coroutine " + std::to_string(i) + ": " + std::to_string(c.wanted[i]) + " requests but " +
                std::to_string(c.grants[i]) + " grants");
    }
  }
  if (c.writers_inside != 0 || c.readers_inside != 0) {
    vrt::Fail("a critical section never ended");
  }
  // everybody has unlocked: a Try form of either kind must succeed now ("succeed only when compatible" read the other
  // way is not demanded by the property; this only reports through the trace)
  fs.clear();
  gR.spin = nullptr;
  gR.rwait = nullptr;
  gR.pass = gR.size = gR.prio = nullptr;
  gC = nullptr;
}

void Run(const Cfg& cfg) {
  if (cfg.fifo) {
    if (cfg.rfifo) {
      RunWith<yaclib::SharedMutex<true, true>>(cfg);
    } else {
      RunWith<yaclib::SharedMutex<true, false>>(cfg);
    }
  } else {
    if (cfg.rfifo) {
      RunWith<yaclib::SharedMutex<false, true>>(cfg);
    } else {
      RunWith<yaclib::SharedMutex<false, false>>(cfg);
    }
  }
}

const char* kLockNames[] = {"s", "gs", "ts", "tgs", "w", "gw", "tw", "tgw"};
const char* kUnlockNames[] = {"h", "u", "d"};

std::string Describe(const std::vector<Round>& rounds) {
  std::string s;
  for (auto& r : rounds) {
    s += std::string(s.empty() ? "" : "+") + kLockNames[r.lock];
    if (IsGuardForm(r.lock)) {
      s += kUnlockNames[r.unlock];
    }
    if (r.hop) {
      s += "^";
    }
  }
  return s;
}

std::string Describe(const Cfg& cfg) {
  std::string s;
  for (auto& co : cfg.cos) {
    s += std::string(" ") + (co.inl ? "i:" : "") + Describe(co.rounds);
  }
  if (!cfg.bystander.empty()) {
    s += " Y:" + Describe(cfg.bystander);
  }
  return s;
}

// parse "s,gw:d,ts" style programs: rounds separated by '+', form[:unlock]
bool ParseRounds(const std::string& text, std::vector<Round>& out) {
  std::stringstream ss(text);
  std::string tok;
  while (std::getline(ss, tok, '+')) {
    Round rd;
    if (!tok.empty() && tok.back() == '^') {
      rd.hop = true;
      tok.pop_back();
    }
    std::string lf = tok, uf = "h";
    auto colon = tok.find(':');
    if (colon != std::string::npos) {
      lf = tok.substr(0, colon);
      uf = tok.substr(colon + 1);
    }
    int l = -1;
    for (int i = 0; i < 8; ++i) {
      if (lf == kLockNames[i]) {
        l = i;
      }
    }
    if (l < 0) {
      return false;
    }
    rd.lock = l;
    rd.unlock = uf == "d" ? kDtor : uf == "u" ? kGuardHere : kHere;
    out.push_back(rd);
  }
  return true;
}

// a random program: r readers + w writers (each mostly of its kind) x up to `rmax` rounds, mixed forms
Cfg Mixed(std::uint64_t seed, int rmaxr, int wmax, int rounds, bool pool) {
  std::mt19937_64 rng(seed * 0x9E3779B97F4A7C15ull + 1515);
  auto pick = [&](int n) {
    return static_cast<int>(rng() % static_cast<std::uint64_t>(n));
  };
  Cfg cfg;
  cfg.fifo = pick(2) != 0;
  cfg.rfifo = pick(2) != 0;
  cfg.pool = pool;
  cfg.workers = 1 + pick(2);
  int nr = 1 + pick(rmaxr);
  int nw = 1 + pick(wmax);
  for (int i = 0; i < nr + nw; ++i) {
    CoSpec co;
    bool writer = i >= nr;
    int r = 1 + pick(rounds);
    for (int j = 0; j < r; ++j) {
      Round rd;
      bool w = pick(8) == 0 ? !writer : writer;  // now and then a coroutine changes sides
      int f = pick(10);
      int form = f < 4 ? 0 : f < 7 ? 1 : f < 9 ? 2 : 3;  // Lock*, Guard*, TryLock*, TryGuard*
      rd.lock = (w ? 4 : 0) + form;
      rd.unlock = pick(3);
      rd.hop = pick(4) == 0;
      co.rounds.push_back(rd);
    }
    cfg.cos.push_back(std::move(co));
  }
  if (pick(3) == 0) {
    int r = 1 + pick(2);
    for (int j = 0; j < r; ++j) {
      Round rd;
      rd.lock = pick(2) != 0 ? kTryLock : kTryLockShared;
      cfg.bystander.push_back(rd);
    }
  }
  return cfg;
}

}  // namespace

int main(int argc, char** argv) {
  vrt::Main m(argc, argv);
  gR.named_only = m.Param("yields") == "named";
  gR.atomic_sections = m.Param("sections") == "atomic";
  yaclib::verif::gHooks.before = MyBefore;
  yaclib::verif::gHooks.after = MyAfter;
  yaclib::verif::gHooks.choose = MyChoose;
  yaclib::verif::gHooks.pick_fiber = MyPick;
  const char* opt_names[] = {"f0r0", "f0r1", "f1r0", "f1r1"};
  // ---- fixed programs: name = <program>/<options>/<executor><workers>; program = coroutines separated by ','
  //      --param progs="s,w;s,s,w;..." adds programs; a trailing "/Y:<rounds>" adds a bystander
  std::vector<std::string> progs = {
      // 1 reader + 1 writer, every pair of blocking forms
      "s,w", "gs:d,gw:d", "gs:u,gw:u", "s,gw:d", "gs:d,w",
      // Try forms against a blocking partner of the other kind
      "ts,w", "tgs:d,w", "s,tw", "s,tgw:d", "tw,w", "ts,s",
      // 2 readers + 1 writer
      "s,s,w", "gs:d,s,gw:d", "s,ts,w", "s,s,tw",
      // 1 reader + 2 writers, 2 + 2
      "s,w,w", "s,w,gw:u", "s,s,w,w",
      // two rounds: the same coroutine comes back (stale _writers_first, credits of an earlier round)
      "s+s,w", "s,w+w", "s+s,w+w", "s+w,w+s", "s+s,s,w+w",
      // 3 readers + 2 writers
      "s,s,s,w,w",
      // the holder is rescheduled inside its critical section: contention also on ONE worker
      "s^,w", "s,w^", "s^,w^", "gs:d^,gw:d^", "s^,s,w", "s^,s^,w", "s,s,w^", "s^,s^,w^", "s^,w,w", "s,w^,w", "s^,w^,w",
      "ts,w^", "s^,tw", "tw,w^", "s^+s,w^", "s^,w^+w", "s^+s^,w^+w^", "s^,s^,w^,w",
      // inline executor (what MakeInline() does): coroutines parked behind an exclusive / shared holder are resumed
      // synchronously inside the unlocker's Run(node), unlock (slow path when somebody else still waits) or lock again
      "w^,i:w", "w^,i:s", "w^,i:w,i:s", "w^,i:s,i:s", "w^,i:w,i:w", "s^,i:w", "s^,i:w,i:s", "s^,i:w,i:w",
      "w^,i:w,i:w,i:s", "w^,i:w,i:s,i:s", "w^,i:w,i:w,i:s,i:s",
      "w^,i:w+w,i:s", "w^,i:s+s,i:w", "w^,i:s+w,i:w+s", "w^,i:gw:d+gs:d,i:gs:u+w",
      "i:w^,i:w,i:s", "i:w^,i:w,i:w,i:s", "i:s^,i:w,i:s", "i:w^,i:w+s,i:s+w",
      "w^,i:w,s", "w^,w,i:s", "i:w^,w,s", "w^,i:w,i:s,w,s", "i:w^,i:s,w,s",
      // bystanders
      "s,w/Y:tw", "s,w/Y:ts", "s,w/Y:tw+ts", "s,s,w/Y:ts+tw", "w,w/Y:ts",
  };
  {
    std::stringstream ss(m.Param("progs"));
    std::string p;
    while (std::getline(ss, p, ';')) {
      if (!p.empty()) {
        progs.push_back(p);
      }
    }
  }
  for (auto& prog : progs) {
    Cfg base;
    std::string body = prog;
    auto y = prog.find("/Y:");
    if (y != std::string::npos) {
      body = prog.substr(0, y);
      if (!ParseRounds(prog.substr(y + 3), base.bystander)) {
        std::fprintf(stderr, "bad program %s\n", prog.c_str());
        return 2;
      }
    }
    std::stringstream ss(body);
    std::string co;
    bool ok = true;
    while (std::getline(ss, co, ',')) {
      CoSpec spec;
      if (co.rfind("i:", 0) == 0) {
        spec.inl = true;
        co = co.substr(2);
      }
      ok = ok && ParseRounds(co, spec.rounds);
      base.cos.push_back(spec);
    }
    if (!ok) {
      std::fprintf(stderr, "bad program %s\n", prog.c_str());
      return 2;
    }
    for (int opt = 0; opt < 4; ++opt) {
      for (int pool = 0; pool < 2; ++pool) {
        for (int n = 1; n <= 2; ++n) {
          Cfg cfg = base;
          cfg.fifo = (opt & 2) != 0;
          cfg.rfifo = (opt & 1) != 0;
          cfg.pool = pool != 0;
          cfg.workers = n;
          std::string name = "p/" + prog + "/" + opt_names[opt] + (pool ? "/pool" : "/man") + std::to_string(n);
          m.Scenario(name, [cfg] {
            Run(cfg);
          });
        }
      }
    }
  }
  // ---- random mixes: --param mixes=<count> --param pseed=<seed> --param rmax= --param wmax= --param rounds=
  int mixes = std::atoi(m.Param("mixes", "0").c_str());
  std::uint64_t pseed = std::strtoull(m.Param("pseed", "1").c_str(), nullptr, 10);
  int rmax = std::atoi(m.Param("rmax", "3").c_str());
  int wmax = std::atoi(m.Param("wmax", "2").c_str());
  int rounds = std::atoi(m.Param("rounds", "2").c_str());
  for (int i = 0; i < mixes; ++i) {
    bool pool = i % 2 == 1;
    Cfg cfg = Mixed(pseed * 1000 + static_cast<std::uint64_t>(i), rmax, wmax, rounds, pool);
    std::string name = std::string("mix/") + std::to_string(i) + (pool ? " pool" : " man") + std::to_string(cfg.workers) +
                       " F" + std::to_string(cfg.fifo) + "R" + std::to_string(cfg.rfifo) + Describe(cfg);
    m.Scenario(name, [cfg] {
      Run(cfg);
    });
  }
  return m.Finish();
}
