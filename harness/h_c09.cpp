// C09 harness: WhenAll / Join through the public entry points, n <= 4 producers completing the inputs while a
// builder fiber calls the combinator, every form (iterator / variadic, Future / SharedFuture / mixed, value / void /
// heterogeneous = tuple), both fail policies, every success / error / exception pattern.
// Scenario names: <kind>/<form><inputs><type>/<n>/<arrangement>/<pattern>   (see when_h.hpp)
// The oracle (when_h.hpp: Oracle, OracleReleased) is written from the property text only.
//
// Compiled in parts (-DWH_PART=0..7) so that the parts build in parallel; without WH_PART everything is in.
#include "when_h.hpp"

using namespace wh;

#ifndef WH_PART
#  define WH_PART -1
#endif

template <Kind K>
void RegisterKind2(vrt::Main& m) {
  // n = 2: every form
  Register<Cfg<K, kVec, kU, false, false, 2>>(m, true);
  Register<Cfg<K, kVar, kU, false, false, 2>>(m, true);
  Register<Cfg<K, kVec, kS, false, false, 2>>(m, true);
  Register<Cfg<K, kVar, kS, false, false, 2>>(m, true);
  Register<Cfg<K, kVar, kM, false, false, 2>>(m, true);
  Register<Cfg<K, kVec, kU, true, false, 2>>(m, true);
  Register<Cfg<K, kVar, kU, true, false, 2>>(m, true);
  Register<Cfg<K, kVar, kM, true, false, 2>>(m, true);
  // n = 1, n = 0
  Register<Cfg<K, kVec, kU, false, false, 1>>(m, true);
  Register<Cfg<K, kVar, kU, false, false, 1>>(m, true);
  Register<Cfg<K, kVec, kU, false, false, 0>>(m, true);
}

template <Kind K>
void RegisterKind34(vrt::Main& m) {
  Register<Cfg<K, kVec, kU, false, false, 3>>(m, false);
  Register<Cfg<K, kVar, kU, false, false, 3>>(m, false);
  Register<Cfg<K, kVec, kS, false, false, 3>>(m, false);
  Register<Cfg<K, kVar, kM, false, false, 3>>(m, false);
  Register<Cfg<K, kVar, kU, true, false, 3>>(m, false);
  Register<Cfg<K, kVec, kU, false, false, 4>>(m, false);
  Register<Cfg<K, kVar, kM, false, false, 4>>(m, false);
}

template <Kind K>
void RegisterTuple(vrt::Main& m) {
  Register<Cfg<K, kVar, kU, false, true, 2>>(m, true);
  Register<Cfg<K, kVar, kM, false, true, 2>>(m, true);
  Register<Cfg<K, kVar, kU, false, true, 3>>(m, false);
  Register<Cfg<K, kVar, kM, false, true, 3>>(m, false);
  Register<Cfg<K, kVar, kU, false, true, 4>>(m, false);
}

#define WH_IN(p) (WH_PART == -1 || WH_PART == (p))

int main(int argc, char** argv) {
  vrt::Main m(argc, argv);
#if WH_IN(0)
  RegisterKind2<kAllFF>(m);
#endif
#if WH_IN(1)
  RegisterKind34<kAllFF>(m);
#endif
#if WH_IN(2)
  RegisterKind2<kAllNone>(m);
#endif
#if WH_IN(3)
  RegisterKind34<kAllNone>(m);
#endif
#if WH_IN(4)
  RegisterKind2<kJoinNone>(m);
  RegisterTuple<kAllFF>(m);
#endif
#if WH_IN(5)
  RegisterKind34<kJoinNone>(m);
#endif
#if WH_IN(6)
  RegisterKind2<kJoinFF>(m);
  RegisterTuple<kAllNone>(m);
#endif
#if WH_IN(7)
  RegisterKind34<kJoinFF>(m);
#endif
  return m.Finish();
}
