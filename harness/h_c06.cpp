// C06 harness: one fulfilling fiber and 1..4 observer fibers on one shared state (SharedFuture copies), every observer
// running a generated list of operations on its own copy.  Explored over all interleavings (DFS) or seeded random
// walks at the granularity of the wrapped atomic operations.  The oracle is written from the property text only:
//   * every attached callback / awaiter fires exactly once, only after the value was set, with that value;
//   * Ready()==true implies the value can be read (it has been set, and Touch() returns it);
//   * every Get/Touch/callback sees the value that was set: never an unset, moved-from or destroyed one.
//
// A plan is "<fulfil>/<ops>.<ops>...": fulfil in {set, err, drop, split, nofut, thrd, thrs}, one op string per observer
// (thrd / thrs: the first Set(const Val&) throws from Val's copy constructor; then the promise is dropped / Set again):
//   r Ready            p if (Ready()) Touch() const&   T if (Ready()) Touch()&&       w Wait
//   g Get() const&     m Get() &&                       i ThenInline    e Then(inline-like executor)
//   d Then(deferred executor, drained by the observer after it destroyed its copy)
//   s SubscribeInline  u Subscribe(executor)            k Share(f) + DetachInline      K Connect(f, SharedPromise)
//   a co_await f       c copy kept until the end        x copy destroyed at once       z destroy the copy now
//   U V W Y  a continuation of ANOTHER (unique) future returns this SharedFuture, the library flattens it (Core::
//      CallResolveAsync -> SharedCore::SetInline -> async_done copies the Result into the outer step); the outer step's
//      continuation is attached first, then the outer source is fulfilled:
//      U ThenInline, by this observer           V Then(executor), by this observer
//      W ThenInline, callback owns a copy, the outer source is fulfilled by the fulfilling fiber AFTER the shared Set
//      Y the same, fulfilled by the fulfilling fiber BEFORE the shared Set   (leftovers: by the main fiber at the end)
//   A B L D  a combinator over this copy and an auxiliary SharedFuture of the same type (its own shared state `aux`;
//      operations on aux are not traced), the combinator's output detached with a recording callback.  ORACLE ONLY: these
//      plans are not replayed through the model (the combinator consumes through SharedCore::Retire).
//      A WhenAny(f, aux), aux fulfilled by the fulfilling fiber after the shared Set     B WhenAny(aux, f), aux never
//      L WhenAll(f, aux), aux fulfilled by the fulfilling fiber after the shared Set     D WhenAny(f, f2), f2 a copy of f
#include <deque>

#include "vrt_all.hpp"

#include "vrt_main.hpp"

namespace {

// ---- the shared state under test: address range (to recognise reads of its slot) and a few global facts
struct Under {
  const char* lo = nullptr;
  const char* hi = nullptr;
  bool throw_next_copy = false;  // the next copy construction of a payload throws (once)
  bool set_started = false;  // the fulfiller entered Set (cooperative fibers: the Store is done before anyone else runs)
  long expected = 0;
  int next_ptr = 0;
  std::unordered_map<std::uint64_t, int> ptr_ids;
};
Under U;
struct CopyFailed {};

bool InSlot(const void* p) {
  auto* c = static_cast<const char*>(p);
  return U.lo != nullptr && c >= U.lo && c < U.hi;
}

// A value whose states are detectable: 1 live, 2 moved-from, 3 destroyed; anything else is garbage.
template <int Base>
struct Tracked {
  long a = 0;
  long chk = 0;
  int st = 0;
  Tracked() = default;
  explicit Tracked(long x) noexcept : a{x}, chk{x * 31 + 7}, st{1} {
  }
  long CodeOf() const noexcept {
    if (st == 1 && chk == a * 31 + 7) {
      return Base + a;
    }
    if (st == 2) {
      return 77;  // moved-from
    }
    if (st == 3) {
      return 88;  // destroyed
    }
    return 99;  // never constructed / torn
  }
  Tracked(const Tracked& o) : a{o.a}, chk{o.chk}, st{o.st} {  // may throw once when asked to (Under::throw_next_copy)
    if (U.throw_next_copy) {
      U.throw_next_copy = false;
      throw CopyFailed{};
    }
    if (InSlot(&o)) {
      long c = o.CodeOf();
      vrt::Event("scopy " + std::to_string(c));
      if (c != U.expected) {
        vrt::Fail("a copy out of the shared state read " + std::to_string(c) + " but " + std::to_string(U.expected) +
                  " was set");
      }
    }
  }
  Tracked(Tracked&& o) noexcept : a{o.a}, chk{o.chk}, st{o.st} {
    if (InSlot(&o)) {
      long c = o.CodeOf();
      vrt::Event("smove " + std::to_string(c));
      if (c != U.expected) {
        vrt::Fail("a move out of the shared state read " + std::to_string(c) + " but " + std::to_string(U.expected) +
                  " was set");
      }
    }
    o.st = 2;
    o.a = -1;
    o.chk = 0;
  }
  Tracked& operator=(const Tracked& o) noexcept {
    a = o.a;
    chk = o.chk;
    st = o.st;
    return *this;
  }
  Tracked& operator=(Tracked&& o) noexcept {
    a = o.a;
    chk = o.chk;
    st = o.st;
    o.st = 2;
    return *this;
  }
  ~Tracked() {
    *const_cast<volatile int*>(&st) = 3;  // (a plain store would be a dead store to the optimiser)
  }
};

struct Val : Tracked<10> {
  using Tracked<10>::Tracked;
};
struct Err : Tracked<20> {
  using Tracked<20>::Tracked;
  Err(yaclib::StopTag) noexcept : Tracked<20>{9} {
  }
  static const char* What() noexcept {
    return "Err";
  }
};

using R = yaclib::Result<Val, Err>;
using SF = yaclib::SharedFuture<Val, Err>;
using SP = yaclib::SharedPromise<Val, Err>;
using CoreT = yaclib::detail::SharedCore<Val, Err>;

// reading a Result through a const reference (no copy is made): the harness itself is the reader
long Code(const R& r) {
  switch (r.State()) {
    case yaclib::ResultState::Value:
      return r.Value().CodeOf();
    case yaclib::ResultState::Error:
      return r.Error().CodeOf();
    default:
      return 99;
  }
}

std::string FmtWord(std::uint64_t v) {
  if (v == 0) {
    return "E";
  }
  if (v == std::numeric_limits<std::uintptr_t>::max()) {
    return "R";
  }
  auto it = U.ptr_ids.find(v);
  if (it == U.ptr_ids.end()) {
    it = U.ptr_ids.emplace(v, U.next_ptr++).first;
  }
  return "L" + std::to_string(it->second);
}

std::string FmtCount(std::uint64_t v) {
  return std::to_string(static_cast<long long>(v));
}

class CountingInline final : public yaclib::IExecutor {
 public:
  Type Tag() const noexcept final {
    return Type::Custom;
  }
  bool Alive() const noexcept final {
    return true;
  }
  void Submit(yaclib::Job& job) noexcept final {
    ++submits;
    job.Call();
  }
  void IncRef() noexcept final {
  }
  void DecRef() noexcept final {
  }
  std::size_t GetRef() noexcept final {
    return 1;
  }
  int submits = 0;
};

class Deferred final : public yaclib::IExecutor {
 public:
  Type Tag() const noexcept final {
    return Type::Custom;
  }
  bool Alive() const noexcept final {
    return true;
  }
  void Submit(yaclib::Job& job) noexcept final {
    jobs.push_back(&job);
  }
  void Drain() {
    while (!jobs.empty()) {
      auto* j = jobs.front();
      jobs.erase(jobs.begin());
      j->Call();
    }
  }
  void IncRef() noexcept final {
  }
  void DecRef() noexcept final {
  }
  std::size_t GetRef() noexcept final {
    return 1;
  }
  std::vector<yaclib::Job*> jobs;
};

struct CbRec {
  std::string name;
  int count = 0;
  long code = -1;
  bool before_set = false;
};

struct CombRec {
  std::string name;
  char op = 0;
  int count = 0;
  long code = -1;
};

struct Run {
  std::deque<CbRec> cbs;  // stable addresses
  std::deque<CombRec> combs;
  int gets = 0;
  CbRec& NewCb(const std::string& name) {
    cbs.push_back(CbRec{name});
    return cbs.back();
  }
};

void Fired(CbRec& rec, long code) {
  ++rec.count;
  rec.code = code;
  if (!U.set_started) {
    rec.before_set = true;
  }
}

void CheckGot(const char* what, long code) {
  if (!U.set_started) {
    vrt::Fail(std::string(what) + " returned before the value was set");
  } else if (code != U.expected) {
    vrt::Fail(std::string(what) + " returned " + std::to_string(code) + " but " + std::to_string(U.expected) +
              " was set");
  }
}

// what Ready()/await_ready() would answer right now, asked outside the explored execution (no switch point, no
// trace entry): used only to avoid running undefined behaviour after a violation has been established
bool PeekReady(const SF& f) {
  bool was = vrt::g.active;
  vrt::g.active = false;
  bool b = f.Ready();
  vrt::g.active = was;
  return b;
}

#if YACLIB_CORO != 0
yaclib::Future<> Awaiter(const SF& f, CbRec* rec, std::string src, std::string hname) {
  // the awaiter object holds its own copy of the shared state for the duration of the co_await expression
  vrt::Event("await " + src + " " + hname + " " + rec->name);
  long code = 99;
  try {
    Val v = co_await f;  // AwaitSingleAwaiter<true>: await_resume = as_const(result).Ok()  (copies the value out)
    code = v.CodeOf();
  } catch (const yaclib::ResultError<Err>& e) {
    code = const_cast<yaclib::ResultError<Err>&>(e).Get().CodeOf();
  } catch (...) {
    code = 99;
  }
  Fired(*rec, code);
  vrt::Event("cb " + rec->name + " " + std::to_string(code));
  co_return{};
}
#endif

// sources of outer pipelines that somebody else fulfils
struct Outer {
  std::deque<yaclib::Promise<int, Err>> early;  // by the fulfilling fiber before the shared Set
  std::deque<yaclib::Promise<int, Err>> late;   // by the fulfilling fiber after it
  std::deque<SP> aux_late;                      // auxiliary shared states fulfilled by the fulfilling fiber after it
  std::deque<SP> aux_never;                     // ... and never (dropped when the scenario is over)
  static void SetAux(std::deque<SP>& q) {
    while (!q.empty()) {
      auto pr = std::move(q.front());
      q.pop_front();
      std::move(pr).Set(Val{3});
    }
  }
  static void SetAll(std::deque<yaclib::Promise<int, Err>>& q) {
    while (!q.empty()) {
      auto pr = std::move(q.front());
      q.pop_front();
      std::move(pr).Set(1);
    }
  }
};

// a SharedFuture copy owned by a callback object; its release is announced to the trace
struct Cap {
  SF g;
  std::string name;
  Cap(SF x, std::string n) : g{std::move(x)}, name{std::move(n)} {
  }
  Cap(Cap&&) = default;
  Cap(const Cap&) = delete;
  ~Cap() {
    if (g.Valid()) {
      vrt::Event("destroy " + name);
      std::move(g).Detach();
      vrt::Event("destroyed");
    }
  }
};

void Observer(int oi, SF f, const std::string& ops, Run& run, CountingInline& exe, Deferred& deferred, Outer& outer) {
  const std::string h = "h" + std::to_string(oi);
  std::vector<std::pair<std::string, SF>> copies;
  bool have = true;
  bool spent = false;  // Get()&& / Touch()&& consumed the future: only its destruction may follow
  int n = 0;
  auto cbname = [&] {
    return "c" + std::to_string(oi) + "_" + std::to_string(n++);
  };
  bool early = false;  // the last Ready() answered true although nothing was set yet
  auto ready = [&](bool report) {
    vrt::Event("ready " + h);
    bool b = f.Ready();
    vrt::Event(std::string("ready=") + (b ? "1" : "0"));
    early = b && !U.set_started;
    if (early && report) {
      vrt::Fail("Ready()==true before the value was set");
    }
    return b;
  };
  for (char op : ops) {
    if (!have || spent) {
      break;
    }
    switch (op) {
      case 'r':
        (void)ready(true);
        break;
      case 'p':  // the documented idiom on a copy that attaches nothing itself: if (f.Ready()) use(f.Touch())
        if (ready(false)) {
          vrt::Event("touch " + h);
          const R& r = f.Touch();
          long code = Code(r);
          vrt::Event("got " + std::to_string(code));
          if (early) {
            vrt::Fail("Ready()==true before the value was set, then Touch() read " + std::to_string(code) +
                      (code == U.expected ? "" : " (garbage; " + std::to_string(U.expected) + " is set later)"));
          } else if (code != U.expected) {
            vrt::Fail("Ready()==true but Touch() read " + std::to_string(code) + " (" + std::to_string(U.expected) +
                      " was set)");
          }
        }
        break;
      case 'T':
        if (ready(true) && !early) {  // (copying an unconstructed Result out would be undefined behaviour)
          vrt::Event("touchmv " + h);
          R r = std::move(f).Touch();
          long code = Code(r);
          vrt::Event("got " + std::to_string(code));
          CheckGot("Touch()&&", code);
          spent = true;
        }
        break;
      case 'w':
        vrt::Event("wait " + h);
        yaclib::Wait(f);
        vrt::Event("woke");
        if (!U.set_started) {
          vrt::Fail("Wait returned before the value was set");
        }
        break;
      case 'g': {
        vrt::Event("get " + h);
        const R& r = f.Get();
        long code = Code(r);
        vrt::Event("got " + std::to_string(code));
        CheckGot("Get() const&", code);
        break;
      }
      case 'm': {
        vrt::Event("getmv " + h);
        R r = std::move(f).Get();
        long code = Code(r);
        vrt::Event("got " + std::to_string(code));
        CheckGot("Get()&&", code);
        spent = true;
        break;
      }
      case 'i':
      case 'e':
      case 'd':
      case 's':
      case 'u': {
        auto& rec = run.NewCb(cbname());
        auto cb = [&rec](const R& r) {
          long code = Code(r);
          Fired(rec, code);
          vrt::Event("cb " + rec.name + " " + std::to_string(code));
        };
        vrt::Event(std::string("attach ") + h + " " + op + " " + rec.name);
        if (op == 'i') {
          auto f2 = f.ThenInline(cb);
        } else if (op == 'e') {
          auto f2 = f.Then(exe, cb);
        } else if (op == 'd') {
          auto f2 = f.Then(deferred, cb);
        } else if (op == 's') {
          f.SubscribeInline(cb);
        } else {
          f.Subscribe(exe, cb);
        }
        vrt::Event("attached");
        break;
      }
      case 'k': {  // Share: a unique Future fed from the shared state
        auto& rec = run.NewCb(cbname());
        vrt::Event(std::string("attach ") + h + " k " + rec.name);
        auto uf = yaclib::Share(f);
        vrt::Event("attached");
        std::move(uf).DetachInline([&rec](R&& r) {
          long code = Code(r);
          Fired(rec, code);
          vrt::Event("cbk " + rec.name + " " + std::to_string(code));
        });
        break;
      }
      case 'K': {  // Connect the shared state to another shared promise that already has a continuation
        auto& rec = run.NewCb(cbname());
        auto [f2, p2] = yaclib::MakeSharedContract<Val, Err>();
        f2.SubscribeInline([&rec](const R& r) {
          long code = Code(r);
          Fired(rec, code);
          vrt::Event("cbk " + rec.name + " " + std::to_string(code));
        });
        vrt::Event(std::string("attach ") + h + " k " + rec.name);
        yaclib::Connect(f, std::move(p2));
        vrt::Event("attached");
        break;
      }
#if YACLIB_CORO != 0
      case 'a': {
        if (!U.set_started && PeekReady(f)) {  // await_resume would copy an unconstructed Result: report, do not run it
          vrt::Fail("await_ready()==true before the value was set");
          break;
        }
        auto& rec = run.NewCb(cbname());
        auto co = Awaiter(f, &rec, h, h + "a" + std::to_string(n));
        vrt::Event("attached");
        std::move(co).Detach();
        break;
      }
#endif
      case 'U':
      case 'V':
      case 'W':
      case 'Y': {
        auto& rec = run.NewCb(cbname());
        const std::string tmp = h + "u" + std::to_string(n++);
        auto [uf0, up0] = yaclib::MakeContract<int, Err>();
        yaclib::Future<Val, Err> uf;
        if (op == 'U' || op == 'V') {
          // the copy returned by the callback is the temporary handle the library attaches through and releases
          auto body = [&f, h, tmp, &rec](int) {
            vrt::Event("unwrap " + h + " " + tmp + " " + rec.name);
            return f;
          };
          if (op == 'U') {
            uf = std::move(uf0).ThenInline(std::move(body));
          } else {
            uf = std::move(uf0).Then(exe, std::move(body)).On(nullptr);
          }
        } else {
          const std::string cap = h + "v" + std::to_string(n++);
          vrt::Event("copy " + h + " " + cap);
          Cap owned{f, cap};
          uf = std::move(uf0).ThenInline([owned = std::move(owned), tmp, &rec](int) {
            vrt::Event("unwrap " + owned.name + " " + tmp + " " + rec.name);
            return owned.g;
          });
        }
        std::move(uf).DetachInline([&rec](R&& r) {  // the outer step's result
          long code = Code(r);
          Fired(rec, code);
          vrt::Event("cb " + rec.name + " " + std::to_string(code));
        });
        if (op == 'U' || op == 'V') {
          std::move(up0).Set(1);
          vrt::Event("attached");
        } else if (op == 'W') {
          outer.late.push_back(std::move(up0));
        } else {
          outer.early.push_back(std::move(up0));
        }
        break;
      }
      case 'A':
      case 'B':
      case 'L':
      case 'D': {
        run.combs.push_back(CombRec{"w" + std::to_string(oi) + "_" + std::to_string(n++), op});
        auto& rec = run.combs.back();
        auto [aux, auxp] = yaclib::MakeSharedContract<Val, Err>();
        vrt::Event(std::string("when ") + op + " " + h + " " + rec.name);
        if (op == 'L') {
          auto out = yaclib::WhenAll(f, aux);
          std::move(out).DetachInline([&rec](yaclib::Result<std::vector<Val>, Err>&& r) {
            ++rec.count;
            const auto& cr = r;
            rec.code = (cr.State() == yaclib::ResultState::Value && !cr.Value().empty()) ? cr.Value().front().CodeOf() : -2;
            vrt::Event("whencb " + rec.name + " " + std::to_string(rec.code));
          });
        } else {
          yaclib::Future<Val, Err> out;
          if (op == 'A') {
            out = yaclib::WhenAny(f, aux);
          } else if (op == 'B') {
            out = yaclib::WhenAny(aux, f);
          } else {
            vrt::Event("copy " + h + " " + h + "w" + std::to_string(n));
            SF f2 = f;
            out = yaclib::WhenAny(f, f2);
            vrt::Event("destroy " + h + "w" + std::to_string(n++));
          }
          std::move(out).DetachInline([&rec](R&& r) {
            ++rec.count;
            rec.code = Code(r);
            vrt::Event("whencb " + rec.name + " " + std::to_string(rec.code));
          });
        }
        vrt::Event("whendone");
        if (op == 'A' || op == 'L') {
          outer.aux_late.push_back(std::move(auxp));
        } else {
          outer.aux_never.push_back(std::move(auxp));
        }
        break;
      }
      case 'c': {
        std::string name = h + "c" + std::to_string(copies.size());
        vrt::Event("copy " + h + " " + name);
        copies.emplace_back(name, f);
        break;
      }
      case 'x': {
        std::string name = h + "x" + std::to_string(n++);
        vrt::Event("copy " + h + " " + name);
        {
          SF g = f;
          vrt::Event("destroy " + name);
        }
        vrt::Event("destroyed");
        break;
      }
      case 'z':
        vrt::Event("destroy " + h);
        std::move(f).Detach();
        vrt::Event("destroyed");
        have = false;
        break;
      default:
        vrt::Fail(std::string("unknown op ") + op);
    }
  }
  while (!copies.empty()) {
    vrt::Event("destroy " + copies.back().first);
    copies.pop_back();
    vrt::Event("destroyed");
  }
  if (have) {
    vrt::Event("destroy " + h);
    std::move(f).Detach();
    vrt::Event("destroyed");
  }
  // a continuation submitted to an executor may outlive every SharedFuture (whatever was submitted after this
  // point is run by the main fiber when every thread has finished)
  deferred.Drain();
}

struct Plan {
  std::string fulfil;
  std::vector<std::string> obs;
};

Plan Parse(const std::string& name) {
  Plan p;
  auto slash = name.find('/');
  p.fulfil = name.substr(0, slash);
  std::string rest = slash == std::string::npos ? "" : name.substr(slash + 1);
  std::stringstream ss(rest);
  std::string tok;
  while (std::getline(ss, tok, '.')) {
    p.obs.push_back(tok);
  }
  return p;
}

void RunPlan(const Plan& plan) {
  U = Under{};
  const std::string& fk = plan.fulfil;
  // small numbers: the model replays them in unary
  U.expected = (fk == "err") ? 25 : (fk == "drop" || fk == "thrd") ? 29 : 12;
  std::optional<SF> f0;
  std::optional<SP> p;
  std::optional<yaclib::Promise<Val, Err>> up;
  if (fk == "split") {
    auto [uf, upr] = yaclib::MakeContract<Val, Err>();
    up.emplace(std::move(upr));
    f0.emplace(yaclib::Split(std::move(uf)));  // MakeSharedContract + Connect(unique future, shared promise)
  } else if (fk == "nofut") {
    p.emplace(yaclib::MakeSharedPromise<Val, Err>());
  } else {
    auto [f, pr] = yaclib::MakeSharedContract<Val, Err>();
    f0.emplace(std::move(f));
    p.emplace(std::move(pr));
  }
  CoreT* core = f0 ? f0->GetCore().Get() : p->GetCore().Get();
  using Counter = yaclib::detail::AtomicCounter<CoreT, yaclib::detail::DefaultDeleter>;
  auto* counter = static_cast<Counter*>(core);
  U.lo = reinterpret_cast<const char*>(counter);
  U.hi = U.lo + sizeof(yaclib::detail::Helper<yaclib::detail::AtomicCounter, CoreT>);
  // the slot is a union member, unconstructed until Store: make "unconstructed" recognisable (the allocator hands
  // back the block of the previous execution, which still holds the previous value)
  std::memset(static_cast<void*>(&core->_result), 0xEE, sizeof(core->_result));
  vrt::NameLoc(&core->_callback, "w", FmtWord);
  vrt::NameLoc(&counter->count, "rc", FmtCount);
  vrt::Event(std::string("init ") + (f0 ? "1" : "0") + " " + std::to_string(U.expected));

  // one copy per observer, made by the main fiber before anything runs
  std::vector<SF> handles;
  for (std::size_t i = 0; i < plan.obs.size(); ++i) {
    std::string name = "h" + std::to_string(i);
    if (fk == "nofut") {
      vrt::Event("splitp " + name);
      handles.push_back(yaclib::Split(*p));  // SharedFuture{promise.GetCore()}: a copy taken from the promise side
    } else if (i == 0) {
      handles.push_back(std::move(*f0));
      f0.reset();
    } else {
      vrt::Event("copy h0 " + name);
      handles.push_back(handles[0]);
    }
  }
  if (f0) {  // no observers at all
    vrt::Event("destroy h0");
    f0.reset();
  }

  Run run;
  CountingInline exe;
  std::deque<Deferred> deferred(plan.obs.size());
  Outer outer;
  yaclib_std::thread tf([&] {
    vrt::NameThread("F");
    Outer::SetAll(outer.early);
    bool lost = false;
    if (fk == "thrd" || fk == "thrs") {
      // the first Set(const Val&) throws out of Val's copy constructor while the Result is being constructed in the
      // state: nothing was stored, nothing was published (for the model: no event at all), the promise must still be
      // able to deliver a result - by a second Set (thrs) or by its destructor's StopTag (thrd)
      const Val v{2};
      U.throw_next_copy = true;
      vrt::Event("setthrow");
      try {
        std::move(*p).Set(v);
        vrt::Fail("harness: the copy constructor was asked to throw and did not");
      } catch (const CopyFailed&) {
      }
      U.throw_next_copy = false;
      if (!p->Valid()) {
        lost = true;
        vrt::Fail("Set threw while constructing the value and left the promise invalid: the shared state can never be "
                  "fulfilled, every observer attached through a SharedFuture copy fires zero times");
      }
    }
    U.set_started = true;
    vrt::Event("set " + std::to_string(U.expected));
    if (lost) {
      p.reset();
    } else if (fk == "thrd") {
      p.reset();  // ~SharedPromise: Set(StopTag)
    } else if (fk == "set" || fk == "nofut" || fk == "thrs") {
      std::move(*p).Set(Val{2});
    } else if (fk == "err") {
      std::move(*p).Set(Err{5});
    } else if (fk == "drop") {
      p.reset();  // ~SharedPromise: Set(StopTag)
    } else {
      std::move(*up).Set(Val{2});  // reaches the shared state through SharedCore::Here (Impl<false, true>)
    }
    vrt::Event("setdone");
    Outer::SetAll(outer.late);
    Outer::SetAux(outer.aux_late);
  });
  std::vector<yaclib_std::thread> ts;
  ts.reserve(plan.obs.size());
  for (std::size_t i = 0; i < plan.obs.size(); ++i) {
    ts.emplace_back([&, i, f = std::move(handles[i])]() mutable {
      vrt::NameThread("O" + std::to_string(i));
      Observer(static_cast<int>(i), std::move(f), plan.obs[i], run, exe, deferred[i], outer);
    });
  }
  tf.join();
  for (auto& t : ts) {
    t.join();
  }
  Outer::SetAll(outer.early);  // whatever was queued after the fulfilling fiber had passed
  Outer::SetAll(outer.late);
  Outer::SetAux(outer.aux_late);
  for (auto& d : deferred) {
    d.Drain();
  }
  // ---- combinators are C09's / C10's subject; here only: the output is set at most once, and exactly once with the
  // value of this shared state where nothing else can have produced it
  for (auto& rec : run.combs) {
    if (rec.count > 1) {
      vrt::Fail("the output of combinator " + rec.name + " was set " + std::to_string(rec.count) + " times");
    } else if ((rec.op == 'B' || rec.op == 'D') && U.expected == 12 && (rec.count != 1 || rec.code != U.expected)) {
      // (a value; with a failure WhenAny<LastFail> keeps waiting for the auxiliary input, which is C10's business)
      vrt::Fail("WhenAny over this shared state (" + rec.name + ") produced " + std::to_string(rec.code) + " (" +
                std::to_string(rec.count) + " times) but " + std::to_string(U.expected) + " was set");
    }
  }
  // ---- oracle (property text): every attached callback/awaiter fired exactly once, after Set, with the value
  for (auto& rec : run.cbs) {
    if (rec.count != 1) {
      vrt::Fail("continuation " + rec.name + " invoked " + std::to_string(rec.count) + " times");
    } else if (rec.before_set) {
      vrt::Fail("continuation " + rec.name + " ran before the value was set");
    } else if (rec.code != U.expected) {
      vrt::Fail("continuation " + rec.name + " saw " + std::to_string(rec.code) + " but " +
                std::to_string(U.expected) + " was set");
    }
  }
}

// Explorer reduction (this harness only): a fiber switch is offered only before operations on the two NAMED
// locations (the callback word and the reference counter) and wherever a fiber blocks or exits.  Everything the model
// and the oracle look at is an operation on one of the two locations or a harness marker glued to it; a switch before
// an un-named operation (thread start/join, the mutex/condvar inside a Wait event, executor internals) only moves
// un-observed work of that fiber relative to the others, and the same relative order of the observed operations is
// reached by not scheduling the affected fiber.  Spinning fibers are still preempted.
bool g_named_only = true;
std::int64_t ChooseNamedOnly(int kind, std::uint64_t n) {
  auto& g = vrt::g;
  if (g_named_only && kind == yaclib::verif::kYield && g.active && g.at_before && g.repeat < g.opt.spin_limit &&
      g.locs.find(g.last_obj) == g.locs.end()) {
    g.at_before = false;
    return 0;
  }
  return vrt::detail::Choose(kind, n);
}

}  // namespace

int main(int argc, char** argv) {
  vrt::Main m(argc, argv);
  g_named_only = m.Param("named_only", "1") == "1";
  yaclib::verif::gHooks.choose = ChooseNamedOnly;
  std::string plans = m.Param("plans");
  std::stringstream ss(plans);
  std::string name;
  while (std::getline(ss, name, ';')) {
    if (name.empty()) {
      continue;
    }
    Plan plan = Parse(name);
    m.Scenario(name, [plan] {
      RunPlan(plan);
    });
  }
  return m.Finish();
}
