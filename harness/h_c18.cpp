// C18 harness: k fibers run small well-formed programs over ONE real yaclib_std synchronisation object
// (mutex, timed_mutex, recursive_mutex, recursive_timed_mutex, shared_mutex, shared_timed_mutex,
// condition_variable + mutex, thread, thread-local pointer) on the FIBER backend; every scheduling decision
// belongs to the explorer.  The oracle below is written from the property text only.
//
// A scenario is its own name:  <class>/<prog 1>|<prog 2>|...      (thread class: thread/<main prog>/<progs>)
// Lock programs are sequences of blocks; a block is an acquisition attempt, an optional parenthesised body that
// runs only if the attempt succeeded, and the matching release (so every successful lock is followed by its
// unlock and a run that ends with a parked fiber is a lost wake-up, never a client bug; one lock per scenario):
//   L lock            T try_lock            F try_lock_for(15ns)        G try_lock_for(3us)     U try_lock_until(45ns)
//   Z try_lock_for(0ns)   z try_lock_shared_for(0ns)
//   l lock_shared     t try_lock_shared     f try_lock_shared_for(15ns) g try_lock_shared_for(3us) u try_lock_shared_until(45ns)
//   Y this_thread::yield   S sleep_for(25ns)
// Condition variable programs (one mutex, one flag, one condvar):
//   W {lock; while(!flag) cv.wait; unlock}     w {lock; if(!flag) cv.wait_for(15ns) once; unlock}   x same with 3us
//   u same with wait_until(200ns)
//   N {lock; flag=true; unlock; notify_one}    A {...; notify_all}     n notify_one    a notify_all     Y S as above
// Thread programs: J(<prog>) spawn a thread running <prog> and join it, D(<prog>) spawn and detach, Y, S.
// Thread-local programs over five pointers: a, b (int*, null initialiser), c (long*, null initialiser),
//   d (int*, initialiser &cell[3]), e (long*, initialiser &lcell[1]):
//   0..3 a = &cell[k]     4..7 b = &cell[k-4]    8..9 c = &lcell[k-8]    A,B d = &cell[0|1]    C,D e = &lcell[0|1]
//   x a = nullptr   y b = nullptr   z c = nullptr   v d = nullptr   w e = nullptr
//   p q r s t  read a b c d e (through Get(), operator bool, operator->, == nullptr: all must agree)
//   Y yield     J(<prog>) spawn a fiber running <prog> (a fiber created after the stores of its parent) and join it
//
// Trace vocabulary (besides the runtime's "<fiber>:<op>@m=..;"):
//   ">f@t;"    the scheduler resumes fiber f, virtual time t (after the tick)
//   "f:^;"     f yields at the injection point in front of its next wrapped operation
//   "f:?i/n;"  a notify_one inside f's current operation removes element i of a queue of n parked fibers
//   "f:$c;"    SharedMutex::unlock inside f's current operation drew c from GetRandNumber(2)
//   "f:!c <op> [arg];"  f is about to call <op>          "f:!r <op> <result> <now>;"   <op> returned
#include <cstddef>
#include <cstdint>
#include <unordered_map>
// the slot number of a thread-local pointer proxy is a private member; the harness reports it
#define private public
#include <yaclib_std/thread_local>
#undef private

#include "vrt_all.hpp"

#include "vrt_main.hpp"

#include <fstream>

#include <yaclib_std/shared_mutex>
#include <yaclib_std/thread_local>

namespace {

using Ns = std::chrono::nanoseconds;
using Clock = yaclib_std::chrono::steady_clock;

constexpr std::int64_t kShort = 15;
constexpr std::int64_t kLong = 3000;
constexpr std::int64_t kAbs = 45;
constexpr std::int64_t kSleep = 25;
constexpr std::int64_t kAbsLong = 200;

std::int64_t Now() {
  return Clock::now().time_since_epoch().count();
}

// ---------------------------------------------------------------- hook chaining (markers for the mapping)
std::int64_t (*gOldChoose)(int, std::uint64_t) = nullptr;
void (*gOldResume)(std::uint64_t) = nullptr;

std::int64_t MyChoose(int kind, std::uint64_t n) {
  if (kind == yaclib::verif::kRand && n == 2 && vrt::g.active) {
    // the only two-way draw in the fiber lock sources is SharedMutex::unlock's coin (shared_mutex.cpp:23): it is a
    // decision of the explorer like every other one (the runtime alone would always answer 0)
    const int c = vrt::Next(2);
    vrt::g.trace += vrt::FiberName(vrt::g.cur) + ":$" + std::to_string(c) + ";";
    return c;
  }
  auto r = gOldChoose(kind, n);
  if (vrt::g.active) {
    if (kind == yaclib::verif::kYield && r == 1) {
      vrt::g.trace += vrt::FiberName(vrt::g.cur) + ":^;";
    } else if (kind == yaclib::verif::kPick) {
      vrt::g.trace += vrt::FiberName(vrt::g.cur) + ":?" + std::to_string(r) + "/" + std::to_string(n) + ";";
    }
  }
  return r;
}

std::string gScenario;
std::uint64_t gResumes = 0;
constexpr std::uint64_t kMaxResumes = 50000;  // a well-formed scenario needs a few hundred scheduler steps

void MyResume(std::uint64_t id) {
  gOldResume(id);
  if (vrt::g.active && vrt::g.sched != nullptr) {
    gResumes = vrt::g.trace.empty() ? 1 : gResumes + 1;
    if (gResumes > kMaxResumes) {
      // fibers keep waking each other (or a timed wait keeps re-arming) without any decision left to cut the
      // execution: report it like a crash, with the replay, instead of hanging the check
      std::printf("CRASH signal=0 choices=%s scenario=%s (livelock: more than %llu scheduler steps in one execution)\n",
                  vrt::ChoicesToString(vrt::g.taken).c_str(), gScenario.c_str(),
                  static_cast<unsigned long long>(kMaxResumes));
      std::fflush(stdout);
      _exit(70);
    }
    // the first resume of an execution is the root fiber (its id is not known to the runtime yet)
    std::string name = vrt::g.trace.empty() ? std::string{"main"} : vrt::FiberName(id);
    vrt::g.trace += ">" + name + "@" + std::to_string(vrt::g.sched->GetTimeNs()) + ";";
  }
}

void Call(const std::string& op) {
  vrt::Event("c " + op);
}
void Ret(const std::string& op, long result) {
  vrt::Event("r " + op + " " + std::to_string(result) + " " + std::to_string(Now()));
}

// ---------------------------------------------------------------- programs
struct Node {
  char op = 0;
  std::vector<Node> body;
};

std::vector<Node> Parse(const std::string& s, std::size_t& i) {
  std::vector<Node> out;
  while (i < s.size() && s[i] != ')') {
    Node n;
    n.op = s[i++];
    if (i < s.size() && s[i] == '(') {
      ++i;
      n.body = Parse(s, i);
      if (i < s.size() && s[i] == ')') {
        ++i;
      }
    }
    out.push_back(std::move(n));
  }
  return out;
}

std::vector<std::string> Split(const std::string& s, char sep) {
  std::vector<std::string> out;
  std::string cur;
  for (char c : s) {
    if (c == sep) {
      out.push_back(cur);
      cur.clear();
    } else {
      cur += c;
    }
  }
  out.push_back(cur);
  return out;
}

// ---------------------------------------------------------------- lock classes
struct ILock {
  virtual ~ILock() = default;
  virtual void* Addr() = 0;
  virtual void Lock() = 0;
  virtual bool Try() = 0;
  virtual void Unlock() = 0;
  virtual bool TryFor(std::int64_t) {
    std::abort();
  }
  virtual bool TryUntil(std::int64_t) {
    std::abort();
  }
  virtual void LockShared() {
    std::abort();
  }
  virtual bool TryShared() {
    std::abort();
  }
  virtual void UnlockShared() {
    std::abort();
  }
  virtual bool TrySharedFor(std::int64_t) {
    std::abort();
  }
  virtual bool TrySharedUntil(std::int64_t) {
    std::abort();
  }
};

template <typename M>
struct LockOf final : ILock {
  M m;
  void* Addr() final {
    return &m;
  }
  void Lock() final {
    m.lock();
  }
  bool Try() final {
    return m.try_lock();
  }
  void Unlock() final {
    m.unlock();
  }
  bool TryFor(std::int64_t d) final {
    if constexpr (requires { m.try_lock_for(Ns{d}); }) {
      return m.try_lock_for(Ns{d});
    } else {
      std::abort();
    }
  }
  bool TryUntil(std::int64_t t) final {
    if constexpr (requires { m.try_lock_until(Clock::time_point{Ns{t}}); }) {
      return m.try_lock_until(Clock::time_point{Ns{t}});
    } else {
      std::abort();
    }
  }
  void LockShared() final {
    if constexpr (requires { m.lock_shared(); }) {
      m.lock_shared();
    } else {
      std::abort();
    }
  }
  bool TryShared() final {
    if constexpr (requires { m.try_lock_shared(); }) {
      return m.try_lock_shared();
    } else {
      std::abort();
    }
  }
  void UnlockShared() final {
    if constexpr (requires { m.unlock_shared(); }) {
      m.unlock_shared();
    } else {
      std::abort();
    }
  }
  bool TrySharedFor(std::int64_t d) final {
    if constexpr (requires { m.try_lock_shared_for(Ns{d}); }) {
      return m.try_lock_shared_for(Ns{d});
    } else {
      std::abort();
    }
  }
  bool TrySharedUntil(std::int64_t t) final {
    if constexpr (requires { m.try_lock_shared_until(Clock::time_point{Ns{t}}); }) {
      return m.try_lock_shared_until(Clock::time_point{Ns{t}});
    } else {
      std::abort();
    }
  }
};

std::unique_ptr<ILock> MakeLock(const std::string& cls) {
  if (cls == "mutex") {
    return std::make_unique<LockOf<yaclib_std::mutex>>();
  }
  if (cls == "timed_mutex") {
    return std::make_unique<LockOf<yaclib_std::timed_mutex>>();
  }
  if (cls == "recursive_mutex") {
    return std::make_unique<LockOf<yaclib_std::recursive_mutex>>();
  }
  if (cls == "recursive_timed_mutex") {
    return std::make_unique<LockOf<yaclib_std::recursive_timed_mutex>>();
  }
  if (cls == "shared_mutex") {
    return std::make_unique<LockOf<yaclib_std::shared_mutex>>();
  }
  if (cls == "shared_timed_mutex") {
    return std::make_unique<LockOf<yaclib_std::shared_timed_mutex>>();
  }
  return nullptr;
}

constexpr int kMaxFibers = 8;

struct LockCtx {
  ILock* lock = nullptr;
  // what the clients believe they hold (the oracle's only knowledge)
  int x[kMaxFibers] = {};
  int s[kMaxFibers] = {};

  bool OtherX(int me) const {
    for (int i = 0; i < kMaxFibers; ++i) {
      if (i != me && x[i] > 0) {
        return true;
      }
    }
    return false;
  }
  bool OtherS(int me) const {
    for (int i = 0; i < kMaxFibers; ++i) {
      if (i != me && s[i] > 0) {
        return true;
      }
    }
    return false;
  }
  bool Incompatible(int me, bool shared) const {
    return OtherX(me) || (!shared && OtherS(me));
  }
};

void Sleep25() {
  std::int64_t t0 = Now();
  Call("sleep " + std::to_string(kSleep));
  yaclib_std::this_thread::sleep_for(Ns{kSleep});
  Ret("sleep", 1);
  if (Now() < t0 + kSleep) {
    vrt::Fail("sleep_for(25ns) called at " + std::to_string(t0) + " returned at " + std::to_string(Now()));
  }
}

void Yield() {
  Call("yield");
  yaclib_std::this_thread::yield();
  Ret("yield", 1);
}

void RunLock(LockCtx& c, int me, const std::vector<Node>& prog) {
  for (const auto& n : prog) {
    if (n.op == 'Y') {
      Yield();
      continue;
    }
    if (n.op == 'S') {
      Sleep25();
      continue;
    }
    const bool shared = std::islower(static_cast<unsigned char>(n.op)) != 0;
    const char k = static_cast<char>(std::toupper(static_cast<unsigned char>(n.op)));
    const std::string mode = shared ? "s" : "x";
    bool ok = true;
    bool timed = false;
    std::int64_t deadline = 0;
    const std::int64_t t0 = Now();
    std::string name;
    switch (k) {
      case 'L':
        name = "lock" + mode;
        Call(name);
        shared ? c.lock->LockShared() : c.lock->Lock();
        break;
      case 'T':
        name = "try" + mode;
        Call(name);
        ok = shared ? c.lock->TryShared() : c.lock->Try();
        break;
      case 'F':
      case 'G':
      case 'Z': {
        const std::int64_t d = k == 'F' ? kShort : k == 'G' ? kLong : 0;
        name = "for" + mode;
        timed = true;
        deadline = t0 + d;
        Call(name + " " + std::to_string(d));
        ok = shared ? c.lock->TrySharedFor(d) : c.lock->TryFor(d);
        break;
      }
      case 'U':
        name = "until" + mode;
        timed = true;
        deadline = kAbs;
        Call(name + " " + std::to_string(kAbs));
        ok = shared ? c.lock->TrySharedUntil(kAbs) : c.lock->TryUntil(kAbs);
        break;
      default:
        vrt::Fail(std::string("bad program token ") + n.op);
        return;
    }
    Ret(name, ok ? 1 : 0);
    // ---- oracle (property text)
    if (ok) {
      if (c.Incompatible(me, shared)) {
        vrt::Fail("incompatible holders: " + name + " succeeded for f" + std::to_string(me) +
                  " while another fiber holds the lock " + (c.OtherX(me) ? "exclusively" : "shared"));
      }
    } else if (!timed) {
      if (!c.Incompatible(me, shared)) {
        vrt::Fail("unjustified failure: " + name + " failed although no other fiber holds the lock incompatibly");
      }
    } else if (Now() < deadline && !c.Incompatible(me, shared)) {
      vrt::Fail("unjustified failure: " + name + " failed at " + std::to_string(Now()) + " before its deadline " +
                std::to_string(deadline) + " on a compatible lock");
    }
    if (!ok) {
      continue;
    }
    (shared ? c.s : c.x)[me]++;
    RunLock(c, me, n.body);
    Call("unlock" + mode);
    shared ? c.lock->UnlockShared() : c.lock->Unlock();
    // the release is complete here and nothing can run between it and this line (switches happen only in
    // front of wrapped operations), so the client-side books change atomically with the release
    (shared ? c.s : c.x)[me]--;
    Ret("unlock" + mode, 1);
  }
}

// Spawn the fibers of a scenario and join them; the join clause of the property is checked on every scenario.
void SpawnAndJoin(int k, const std::function<void(int)>& body) {
  std::vector<yaclib_std::thread> ts;
  std::vector<char> done(static_cast<std::size_t>(k) + 1, 0);
  for (int i = 1; i <= k; ++i) {
    Call("spawn " + std::to_string(i));
    ts.emplace_back([&, i] {
      body(i);
      done[static_cast<std::size_t>(i)] = 1;
      vrt::Event("exit");
    });
  }
  for (int i = 1; i <= k; ++i) {
    Call("join " + std::to_string(i));
    ts[static_cast<std::size_t>(i - 1)].join();
    Ret("join", done[static_cast<std::size_t>(i)]);
    if (!done[static_cast<std::size_t>(i)]) {
      vrt::Fail("join returned before the thread function finished (f" + std::to_string(i) + ")");
    }
  }
}

void LockScenario(const std::string& cls, const std::vector<std::string>& progs) {
  auto lock = MakeLock(cls);
  vrt::NameLoc(lock->Addr(), "m");
  LockCtx c;
  c.lock = lock.get();
  std::vector<std::vector<Node>> parsed;
  for (auto& p : progs) {
    std::size_t i = 0;
    parsed.push_back(Parse(p, i));
  }
  SpawnAndJoin(static_cast<int>(progs.size()), [&](int me) {
    RunLock(c, me, parsed[static_cast<std::size_t>(me - 1)]);
  });
}

// ---------------------------------------------------------------- condition variable
struct CvCtx {
  yaclib_std::mutex m;
  yaclib_std::condition_variable cv;
  bool flag = false;
  int holders = 0;
};

// one primitive timed wait through the only timed overload that links (the predicate one): the predicate
// answers false exactly once, so the library performs exactly one WaitImpl; it is consulted twice after a
// timeout and three times after a notification.
bool TimedWaitOnce(CvCtx& c, std::unique_lock<yaclib_std::mutex>& lk, std::int64_t d, bool absolute) {
  int calls = 0;
  auto once = [&] {
    return ++calls > 1;
  };
  if (absolute) {
    (void)c.cv.wait_until(lk, Clock::time_point{Ns{d}}, once);
  } else {
    (void)c.cv.wait_for(lk, Ns{d}, once);
  }
  return calls == 3;  // true = notified, false = timeout
}

void RunCv(CvCtx& c, int me, const std::vector<Node>& prog) {
  auto lock = [&](std::unique_lock<yaclib_std::mutex>& lk) {
    Call("lockx");
    lk.lock();
    Ret("lockx", 1);
    if (++c.holders > 1) {
      vrt::Fail("incompatible holders: two fibers inside the mutex used with the condition variable");
    }
  };
  auto unlock = [&](std::unique_lock<yaclib_std::mutex>& lk) {
    --c.holders;
    Call("unlockx");
    lk.unlock();
    Ret("unlockx", 1);
  };
  for (const auto& n : prog) {
    switch (n.op) {
      case 'Y':
        Yield();
        break;
      case 'S':
        Sleep25();
        break;
      case 'W': {
        std::unique_lock lk{c.m, std::defer_lock};
        lock(lk);
        while (!c.flag) {
          --c.holders;
          Call("cvwait");
          c.cv.wait(lk);
          Ret("cvwait", 1);
          if (++c.holders > 1) {
            vrt::Fail("incompatible holders: cv.wait returned while another fiber holds the mutex");
          }
        }
        unlock(lk);
        break;
      }
      case 'w':
      case 'x':
      case 'u': {
        const bool absolute = n.op == 'u';
        const std::int64_t d = n.op == 'w' ? kShort : n.op == 'x' ? kLong : kAbsLong;
        std::unique_lock lk{c.m, std::defer_lock};
        lock(lk);
        if (!c.flag) {
          const std::int64_t deadline = absolute ? d : Now() + d;
          --c.holders;
          Call(std::string(absolute ? "cvuntil " : "cvfor ") + std::to_string(d));
          const bool notified = TimedWaitOnce(c, lk, d, absolute);
          Ret(absolute ? "cvuntil" : "cvfor", notified ? 1 : 0);
          if (++c.holders > 1) {
            vrt::Fail("incompatible holders: a timed cv wait returned while another fiber holds the mutex");
          }
          if (!notified && Now() < deadline) {
            vrt::Fail("timed wait ended early: deadline " + std::to_string(deadline) + " but timed out at " +
                      std::to_string(Now()));
          }
        }
        unlock(lk);
        break;
      }
      case 'N':
      case 'A': {
        {
          std::unique_lock lk{c.m, std::defer_lock};
          lock(lk);
          c.flag = true;
          unlock(lk);
        }
        Call(n.op == 'N' ? "notify1" : "notifyall");
        n.op == 'N' ? c.cv.notify_one() : c.cv.notify_all();
        Ret(n.op == 'N' ? "notify1" : "notifyall", 1);
        break;
      }
      case 'n':
        Call("notify1");
        c.cv.notify_one();
        Ret("notify1", 1);
        break;
      case 'a':
        Call("notifyall");
        c.cv.notify_all();
        Ret("notifyall", 1);
        break;
      default:
        vrt::Fail(std::string("bad program token ") + n.op);
        return;
    }
  }
  (void)me;
}

void CvScenario(const std::vector<std::string>& progs) {
  CvCtx c;
  vrt::NameLoc(&c.m, "m");
  vrt::NameLoc(&c.cv, "cv");
  std::vector<std::vector<Node>> parsed;
  for (auto& p : progs) {
    std::size_t i = 0;
    parsed.push_back(Parse(p, i));
  }
  SpawnAndJoin(static_cast<int>(progs.size()), [&](int me) {
    RunCv(c, me, parsed[static_cast<std::size_t>(me - 1)]);
  });
}

// ---------------------------------------------------------------- threads
struct ThreadCtx {
  int next = 0;
  std::vector<Node> prog;  // owned here: detached threads may outlive the scenario body
};

void RunThread(const std::shared_ptr<ThreadCtx>& c, const std::vector<Node>& prog) {
  for (const auto& n : prog) {
    switch (n.op) {
      case 'Y':
        Yield();
        break;
      case 'S':
        Sleep25();
        break;
      case 'J':
      case 'D': {
        const int id = ++c->next;
        auto done = std::make_shared<char>(0);
        const Node* node = &n;
        Call("spawn " + std::to_string(id));
        yaclib_std::thread t{[c, node, done] {
          RunThread(c, node->body);
          *done = 1;
          vrt::Event("exit");
        }};
        if (n.op == 'J') {
          Call("join " + std::to_string(id));
          t.join();
          Ret("join", *done);
          if (!*done) {
            vrt::Fail("join returned before the thread function finished");
          }
        } else {
          Call("detach " + std::to_string(id));
          t.detach();
          Ret("detach", 1);
        }
        break;
      }
      default:
        vrt::Fail(std::string("bad program token ") + n.op);
        return;
    }
  }
}

// ---------------------------------------------------------------- thread-local pointers
int gCells[4];
long gLongCells[2];
YACLIB_THREAD_LOCAL_PTR(int) gTlA;
YACLIB_THREAD_LOCAL_PTR(int) gTlB;
YACLIB_THREAD_LOCAL_PTR(long) gTlC;                    // another pointee type: must still be another variable
YACLIB_THREAD_LOCAL_PTR(int) gTlD = &gCells[3];        // non-null initialiser: every fiber starts with it
YACLIB_THREAD_LOCAL_PTR(long) gTlE = &gLongCells[1];

// cells are numbered 1..4 (int) and 11..12 (long); 0 = nullptr, 99 = a pointer that is none of ours
constexpr long kDefault[5] = {0, 0, 0, 4, 12};

long CellIndex(const void* p) {
  if (p == nullptr) {
    return 0;
  }
  auto* c = static_cast<const char*>(p);
  if (c >= reinterpret_cast<const char*>(gCells) && c < reinterpret_cast<const char*>(gCells + 4)) {
    return 1 + (static_cast<const int*>(p) - gCells);
  }
  if (c >= reinterpret_cast<const char*>(gLongCells) && c < reinterpret_cast<const char*>(gLongCells + 2)) {
    return 11 + (static_cast<const long*>(p) - gLongCells);
  }
  return 99;
}

// one read through every accessor; they must agree with each other
template <typename Proxy>
long ReadAll(Proxy& proxy, bool& consistent) {
  auto* raw = proxy.Get();
  const bool as_bool = static_cast<bool>(proxy);
  auto* arrow = proxy.operator->();
  const bool eq_null = proxy == nullptr;
  const bool ne_null = proxy != nullptr;
  consistent = (as_bool == (raw != nullptr)) && arrow == raw && eq_null == (raw == nullptr) && ne_null == (raw != nullptr);
  return CellIndex(raw);
}

struct TlsCtx {
  int next_fiber = 0;
};

void RunTls(TlsCtx& ctx, const std::vector<Node>& prog) {
  // what this fiber must read: its own last store (a stored nullptr included), else the variable's initialiser
  long mine[5] = {kDefault[0], kDefault[1], kDefault[2], kDefault[3], kDefault[4]};
  const char* names[5] = {"a", "b", "c", "d", "e"};
  auto store = [&](int var, long cell) {
    int* ip = cell >= 1 && cell <= 4 ? &gCells[cell - 1] : nullptr;
    long* lp = cell >= 11 && cell <= 12 ? &gLongCells[cell - 11] : nullptr;
    switch (var) {
      case 0:
        gTlA = ip;
        break;
      case 1:
        gTlB = ip;
        break;
      case 2:
        gTlC = lp;
        break;
      case 3:
        gTlD = ip;
        break;
      default:
        gTlE = lp;
        break;
    }
    mine[var] = cell;
    vrt::Event(std::string("set") + names[var] + " " + std::to_string(cell));
  };
  for (const auto& n : prog) {
    int var = -1;
    switch (n.op) {
      case 'Y':
        Yield();
        break;
      case '0': case '1': case '2': case '3':
        store(0, 1 + (n.op - '0'));
        break;
      case '4': case '5': case '6': case '7':
        store(1, 1 + (n.op - '4'));
        break;
      case '8': case '9':
        store(2, 11 + (n.op - '8'));
        break;
      case 'A': case 'B':
        store(3, 1 + (n.op - 'A'));
        break;
      case 'C': case 'D':
        store(4, 11 + (n.op - 'C'));
        break;
      case 'x':
        store(0, 0);
        break;
      case 'y':
        store(1, 0);
        break;
      case 'z':
        store(2, 0);
        break;
      case 'v':
        store(3, 0);
        break;
      case 'w':
        store(4, 0);
        break;
      case 'p':
        var = 0;
        break;
      case 'q':
        var = 1;
        break;
      case 'r':
        var = 2;
        break;
      case 's':
        var = 3;
        break;
      case 't':
        var = 4;
        break;
      case 'J': {
        const int id = ++ctx.next_fiber;
        char done = 0;
        Call("spawn " + std::to_string(id));
        yaclib_std::thread child{[&ctx, &n, &done] {
          RunTls(ctx, n.body);
          done = 1;
          vrt::Event("exit");
        }};
        Call("join " + std::to_string(id));
        child.join();
        Ret("join", done);
        if (!done) {
          vrt::Fail("join returned before the thread function finished");
        }
        break;
      }
      default:
        vrt::Fail(std::string("bad program token ") + n.op);
        return;
    }
    if (var >= 0) {
      bool consistent = true;
      long got = 0;
      switch (var) {
        case 0:
          got = ReadAll(gTlA, consistent);
          break;
        case 1:
          got = ReadAll(gTlB, consistent);
          break;
        case 2:
          got = ReadAll(gTlC, consistent);
          break;
        case 3:
          got = ReadAll(gTlD, consistent);
          break;
        default:
          got = ReadAll(gTlE, consistent);
          break;
      }
      vrt::Event(std::string("get") + names[var] + " " + std::to_string(got));
      if (!consistent) {
        vrt::Fail(std::string("thread-local pointer ") + names[var] + ": Get(), operator bool, operator-> and == nullptr disagree");
      }
      if (got != mine[var]) {
        vrt::Fail(std::string("thread-local pointer ") + names[var] + " is not this fiber's own variable: read cell " +
                  std::to_string(got) + " but this fiber " +
                  (mine[var] == kDefault[var] && got != 0 ? "should see cell " : "last stored cell ") +
                  std::to_string(mine[var]) + " (0 = nullptr)");
      }
    }
  }
}

// wall-clock watchdog: an execution takes milliseconds; if no new execution has started for a whole period, the
// library is spinning inside one operation without reaching the scheduler (e.g. a timed wait that keeps
// re-arming an expired deadline).  Report it like a crash, with the replay.
volatile std::uint64_t gExecs = 0;
std::uint64_t gExecsSeen = ~0ULL;
char gHangBuf[8192];

void OnAlarm(int) {
  if (gExecs == gExecsSeen) {
    int n = std::snprintf(gHangBuf, sizeof(gHangBuf), "CRASH signal=14 choices=");
    for (std::size_t i = 0; i < vrt::g.taken.size() && n < static_cast<int>(sizeof(gHangBuf)) - 300; ++i) {
      n += std::snprintf(gHangBuf + n, sizeof(gHangBuf) - n, "%d,", vrt::g.taken[i]);
    }
    n += std::snprintf(gHangBuf + n, sizeof(gHangBuf) - n,
                       " scenario=%s (hang: one execution made no progress for 20 s of wall-clock time)\n",
                       gScenario.c_str());
    (void)!write(1, gHangBuf, static_cast<std::size_t>(n));
    _exit(70);
  }
  gExecsSeen = gExecs;
  alarm(20);
}

void RunNamed(const std::string& name) {
  gScenario = name;
  gExecs = gExecs + 1;
  auto parts = Split(name, '/');
  const std::string& cls = parts[0];
  if (cls == "thread" && parts.size() == 2) {
    auto c = std::make_shared<ThreadCtx>();
    std::size_t i = 0;
    c->prog = Parse(parts[1], i);
    RunThread(c, c->prog);
    return;
  }
  if (parts.size() != 2) {
    vrt::Fail("bad scenario name " + name);
    return;
  }
  auto progs = Split(parts[1], '|');
  if (cls == "cv") {
    CvScenario(progs);
  } else if (cls == "tls") {
    std::vector<std::vector<Node>> parsed;
    for (auto& p : progs) {
      std::size_t i = 0;
      parsed.push_back(Parse(p, i));
    }
    vrt::Event("slots " + std::to_string(gTlA._i) + " " + std::to_string(gTlB._i) + " " + std::to_string(gTlC._i) + " " +
               std::to_string(gTlD._i) + " " + std::to_string(gTlE._i));
    // the initialisers, as the library recorded them (the defaults map is process-wide)
    vrt::Event("dflt " + std::to_string(gTlD._i) + " " + std::to_string(kDefault[3]));
    vrt::Event("dflt " + std::to_string(gTlE._i) + " " + std::to_string(kDefault[4]));
    TlsCtx ctx;
    ctx.next_fiber = static_cast<int>(progs.size());
    SpawnAndJoin(static_cast<int>(progs.size()), [&](int me) {
      RunTls(ctx, parsed[static_cast<std::size_t>(me - 1)]);
    });
  } else if (MakeLock(cls) != nullptr) {
    LockScenario(cls, progs);
  } else {
    vrt::Fail("bad scenario class " + cls);
  }
}

}  // namespace

int main(int argc, char** argv) {
  vrt::Main m(argc, argv);
  gOldChoose = yaclib::verif::gHooks.choose;
  gOldResume = yaclib::verif::gHooks.resume;
  yaclib::verif::gHooks.choose = MyChoose;
  yaclib::verif::gHooks.resume = MyResume;
  std::signal(SIGALRM, OnAlarm);
  alarm(20);
  std::vector<std::string> names;
  std::string list = m.Param("list");
  if (!list.empty()) {
    std::ifstream in(list);
    std::string line;
    while (std::getline(in, line)) {
      if (!line.empty()) {
        names.push_back(line);
      }
    }
  }
  for (int i = 1; i + 1 < argc; ++i) {
    if (std::string(argv[i]) == "--exact") {
      names.assign(1, argv[i + 1]);
    }
  }
  for (auto& name : names) {
    m.Scenario(name, [name] {
      RunNamed(name);
    });
  }
  return m.Finish();
}
