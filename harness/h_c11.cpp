// C11 harness: n producer fibers and one waiter fiber calling Wait / WaitFor / WaitUntil (single-future fast path,
// variadic form, iterator form; unique, shared and mixed futures), explored over the interleavings of the wrapped
// atomic / mutex / condvar operations.  The deadline is a scenario parameter in virtual nanoseconds (the FIBER
// scheduler's clock advances 10 ns per fiber resume), so the explorer places the timeout before / between / after the
// completions and inside the reset loop.  After the call returned, a later consumer is put on every future.
//
// The oracle is written from the property text only:
//   * a call that returned true (or an untimed Wait that returned) => every listed future is Ready();
//   * false only if the virtual clock has passed the deadline;
//   * afterwards each future delivers its result exactly once, intact, to the later Wait / Get / continuation;
//   * no completion touches the waiter after the call returned: checked on the trace (checks/c11.py: the stack event's
//     counter / mutex / condvar are traced as u0,u1,.. through trace_unknown and the marker "ret" is recorded right after
//     the call) and by AddressSanitizer (config FA, detect_stack_use_after_return).
#include "vrt_all.hpp"

#include "vrt_main.hpp"

namespace {

struct Payload {
  long a = 0;
  long chk = 0;
  Payload() = default;
  explicit Payload(long x) : a{x}, chk{x * 31 + 7} {
  }
  bool Ok() const {
    return chk == a * 31 + 7;
  }
};

using R = yaclib::Result<Payload>;

long Code(const R& r) {
  switch (r.State()) {
    case yaclib::ResultState::Value:
      return r.Value().Ok() ? 1000 + r.Value().a : 9999;
    case yaclib::ResultState::Error:
      return 2000;
    case yaclib::ResultState::Exception:
      return 3000;
    default:
      return 9999;
  }
}

std::string FmtWord(std::uint64_t v) {
  if (v == 0) {
    return "E";
  }
  if (v == std::numeric_limits<std::uintptr_t>::max()) {
    return "R";
  }
  return "C";
}

std::uint64_t Now() {
  return yaclib::fault::Scheduler::GetScheduler()->GetTimeNs();
}

enum Form { kW, kWI, kWF, kWFI, kWU, kWUI, kSW, kSWI, kMW, kForms };
const char* kFormNames[] = {"w", "wi", "wf", "wfi", "wu", "wui", "sw", "swi", "mw"};

bool Timed(int form) {
  return form == kWF || form == kWFI || form == kWU || form == kWUI;
}

struct Obs {
  int cb_count = 0;
  long cb_code = -1;
  int got_count = 0;
  long got_code = -1;
};

struct Scenario {
  int form;
  int n;
  long d;  // deadline in virtual ns (timed forms)
  int l;   // rotation of the later-consumer kinds
};

using UF = yaclib::Future<Payload>;
using SF = yaclib::SharedFuture<Payload>;

// is future i of a mixed call a shared one?
bool MixedShared(int n, int i) {
  return n == 2 ? i == 1 : i != 1;
}

void RunScenario(Scenario sc) {
  vrt::g.trace_unknown = true;
  const int n = sc.n;
  std::vector<UF> uf(n);
  std::vector<SF> sf(n);
  std::vector<yaclib::Promise<Payload>> up(n);
  std::vector<yaclib::SharedPromise<Payload>> sp(n);
  std::vector<char> shared(n, 0);
  for (int i = 0; i < n; ++i) {
    shared[i] = sc.form == kSW || sc.form == kSWI || (sc.form == kMW && MixedShared(n, i));
    if (shared[i]) {
      auto [f, p] = yaclib::MakeSharedContract<Payload>();
      vrt::NameLoc(&f.GetCore()->_callback, "w" + std::to_string(i), FmtWord);
      // the shared state's reference count (a fetch_sub counter like the event's): named so that it is not mistaken for it
      using Counted = yaclib::detail::Helper<yaclib::detail::AtomicCounter, SF::Core>;
      vrt::NameLoc(&static_cast<Counted*>(f.GetCore().Get())->count, "r" + std::to_string(i));
      sf[i] = std::move(f);
      sp[i] = std::move(p);
    } else {
      auto [f, p] = yaclib::MakeContract<Payload>();
      vrt::NameLoc(&f.GetCore()->_callback, "w" + std::to_string(i), FmtWord);
      uf[i] = std::move(f);
      up[i] = std::move(p);
    }
  }
  std::vector<Obs> obs(n);
  std::vector<yaclib_std::thread> producers;
  for (int i = 0; i < n; ++i) {
    producers.emplace_back([&, i]() mutable {
      vrt::NameThread("P" + std::to_string(i));
      vrt::Event("set " + std::to_string(i) + " " + std::to_string(1100 + i));
      if (shared[i]) {
        std::move(sp[i]).Set(Payload{100 + i});
      } else {
        std::move(up[i]).Set(Payload{100 + i});
      }
    });
  }
  // With a single producer nothing else is runnable while the waiter sleeps, so the virtual clock would never reach a
  // deadline that lies in the future: a ticker fiber that only yields lets the explorer advance the clock.
  const bool ticking = n == 1 && Timed(sc.form) && sc.d > 0 && sc.d < 1000;
  std::optional<yaclib_std::thread> ticker;
  if (ticking) {
    ticker.emplace([&] {
      vrt::NameThread("T");
      yaclib_std::this_thread::yield();
    });
  }
  yaclib_std::thread waiter([&] {
    vrt::NameThread("W");
    const std::chrono::nanoseconds d{sc.d};
    const std::uint64_t t_call = Now();
    const auto tp = yaclib_std::chrono::steady_clock::time_point{std::chrono::nanoseconds{t_call}} + d;
    bool r = true;
    vrt::Event("call");
    switch (sc.form) {
      case kW:
        n == 1 ? yaclib::Wait(uf[0]) : n == 2 ? yaclib::Wait(uf[0], uf[1]) : yaclib::Wait(uf[0], uf[1], uf[2]);
        break;
      case kWI:
        yaclib::Wait(uf.begin(), static_cast<std::size_t>(n));
        break;
      case kWF:
        r = n == 1   ? yaclib::WaitFor(d, uf[0])
            : n == 2 ? yaclib::WaitFor(d, uf[0], uf[1])
                     : yaclib::WaitFor(d, uf[0], uf[1], uf[2]);
        break;
      case kWFI:
        r = yaclib::WaitFor(d, uf.begin(), uf.end());
        break;
      case kWU:
        r = n == 1   ? yaclib::WaitUntil(tp, uf[0])
            : n == 2 ? yaclib::WaitUntil(tp, uf[0], uf[1])
                     : yaclib::WaitUntil(tp, uf[0], uf[1], uf[2]);
        break;
      case kWUI:
        r = yaclib::WaitUntil(tp, uf.begin(), static_cast<std::size_t>(n));
        break;
      case kSW:
        n == 1 ? yaclib::Wait(sf[0]) : n == 2 ? yaclib::Wait(sf[0], sf[1]) : yaclib::Wait(sf[0], sf[1], sf[2]);
        break;
      case kSWI:
        yaclib::Wait(sf.begin(), sf.end());
        break;
      case kMW:
        n == 2 ? yaclib::Wait(uf[0], sf[1]) : yaclib::Wait(sf[0], uf[1], sf[2]);
        break;
    }
    vrt::Event(r ? "ret 1" : "ret 0");
    const std::uint64_t t_ret = Now();
    // ---- oracle at the return
    vrt::Event("chk");
    bool all_ready = true;
    for (int i = 0; i < n; ++i) {
      all_ready = (shared[i] ? sf[i].Ready() : uf[i].Ready()) && all_ready;
    }
    vrt::Event("endchk");
    if (r && !all_ready) {
      vrt::Fail(std::string(Timed(sc.form) ? "timed wait returned true" : "Wait returned") +
                " but a listed future is not Ready");
    }
    if (!r && static_cast<long>(t_ret) < static_cast<long>(t_call) + sc.d) {
      vrt::Fail("timed wait returned false before the deadline has passed");
    }
    // ---- a later consumer on every future
    for (int i = 0; i < n; ++i) {
      const int kind = (i + sc.l) % 3;
      const std::string si = std::to_string(i);
      vrt::Event("later " + si + " " + std::to_string(kind));
      auto cb = [&obs, i, si](R&& res) {
        ++obs[i].cb_count;
        obs[i].cb_code = Code(res);
        vrt::Event("cb " + si + " " + std::to_string(obs[i].cb_code));
      };
      auto got = [&obs, i, si](const R& res) {
        ++obs[i].got_count;
        obs[i].got_code = Code(res);
        vrt::Event("got " + si + " " + std::to_string(obs[i].got_code));
      };
      if (!shared[i]) {
        // markers as in h_c01.cpp: the per-future suffix of the trace is also replayed through the C01 model
        if (kind == 0) {
          vrt::Event("lwait " + si);
          R res = std::move(uf[i]).Get();
          got(res);
        } else if (kind == 1) {
          std::move(uf[i]).DetachInline(cb);
        } else {
          vrt::Event("lwait " + si);
          yaclib::Wait(uf[i]);
          vrt::Event("peek " + si);
          const R* res = std::as_const(uf[i]).Get();
          if (res == nullptr) {
            vrt::Event("notready " + si);
            vrt::Fail("a later Wait returned but Get const& says not ready");
          } else {
            got(*res);
          }
          UF drop = std::move(uf[i]);
        }
      } else {
        if (kind == 0) {
          const R& res = std::as_const(sf[i]).Get();
          got(res);
        } else if (kind == 1) {
          sf[i].SubscribeInline([cb](const R& res) mutable {
            R copy = res;
            cb(std::move(copy));
          });
        } else {
          yaclib::Wait(sf[i]);
          if (!sf[i].Ready()) {
            vrt::Fail("a later Wait returned but the shared future is not Ready");
          } else {
            got(std::as_const(sf[i]).Touch());
          }
        }
        SF drop = std::move(sf[i]);
      }
      vrt::Event("endlater " + si);
    }
  });
  for (auto& t : producers) {
    t.join();
  }
  waiter.join();
  if (ticker) {
    ticker->join();
  }
  // ---- oracle at the end: delivered exactly once, intact
  for (int i = 0; i < n; ++i) {
    const int kind = (i + sc.l) % 3;
    const long want = 1100 + i;
    const std::string si = std::to_string(i);
    if (kind == 1) {
      if (obs[i].cb_count != 1) {
        vrt::Fail("later continuation on future " + si + " invoked " + std::to_string(obs[i].cb_count) + " times");
      } else if (obs[i].cb_code != want) {
        vrt::Fail("later continuation on future " + si + " saw " + std::to_string(obs[i].cb_code) + " but " +
                  std::to_string(want) + " was set");
      }
      if (obs[i].got_count != 0) {
        vrt::Fail("a Get observation on a future that had a continuation");
      }
    } else {
      if (obs[i].got_count != 1 || obs[i].got_code != want) {
        vrt::Fail("later Get on future " + si + " returned " + std::to_string(obs[i].got_code) + " (" +
                  std::to_string(obs[i].got_count) + " times) but " + std::to_string(want) + " was set");
      }
      if (obs[i].cb_count != 0) {
        vrt::Fail("a continuation ran on a future that had none");
      }
    }
  }
}

}  // namespace

int main(int argc, char** argv) {
  vrt::Main m(argc, argv);
  // Deadlines are kept off the scheduler's 10 ns grid (chosen while Scheduler::SleepPreemptive, fault layer, still looked
  // up _sleep_list.end() for a deadline equal to the current virtual time; fixed in /repo by 8621598).
  // -5: already passed when the wait starts.
  const long deadlines[] = {-5, 15, 55, 1000005};
  const bool light = m.Param("light") == "1";
  for (int form = 0; form < kForms; ++form) {
    for (int n = 1; n <= 3; ++n) {
      if (form == kMW && n == 1) {
        continue;
      }
      for (long d : deadlines) {
        if (!Timed(form) && d != -5) {
          continue;
        }
        for (int l = 0; l < 3; ++l) {
          // --param light=1 (quick tier): the ticker scenarios (n = 1, deadline in the near future) only with one
          // rotation of the later consumers and not for the iterator forms (count == 1 delegates to WaitCore)
          if (light && n == 1 && Timed(form) && d > 0 && d < 1000 && (l != 0 || form == kWFI || form == kWUI)) {
            continue;
          }
          std::string name = std::string(kFormNames[form]) + "/n" + std::to_string(n) + "/d" + std::to_string(d) +
                             "/l" + std::to_string(l);
          m.Scenario(name, [=] {
            RunScenario(Scenario{form, n, d, l});
          });
        }
      }
    }
  }
  return m.Finish();
}
