"""C12 — a Task does nothing until started, then behaves like the same eager pipeline; destroying it.
Proof: coq/props/Properties_C12.v over model/Lazy.v (Task object machine: attach / start / await / destroy) and Pipe.v.
Tie:   C02's table and interpreter.  Every lazy program x every way of starting or abandoning it is run on the real
       library (harness/h_c12.cpp: ToFuture, ToFuture(e), Get, Detach, Detach(e), returned from a continuation, co_await,
       Await, Await followed by ~Task of the completed object, ~Task of the unstarted object) and replayed through
       Lazy.trun inside Coq: callbacks before the start (none), final Result, ordered (id, argument) list, functor
       destruction accounting.
Oracle: harness/h_c12.cpp (property text: nothing before start; started = eager twin; drop = StopError through the chain,
       every functor released exactly once; dropping a completed Task adds nothing)."""
import json, os, random, re, time
import vlib, runner
from checks import pipelib as L
import gen_pipeline_table as T

HARNESS = os.path.join(vlib.VERIF, "harness", "h_c12.cpp")

KINDS = ["tofuture", "tofuture_on", "get", "detach", "detach_on", "inner", "coawait", "await", "await_destroy", "drop"]
FEW = ["tofuture", "inner", "drop", "await_destroy"]
HAS_FINAL = {"tofuture", "tofuture_on", "get", "inner", "coawait", "await", "await_destroy"}


def ops_of(kind, ex):
    if kind in ("tofuture_on", "detach_on"):
        return "[TStart (SOn %s)]" % L.g_exec(ex)
    if kind == "drop":
        return "[TDestroy]"
    if kind == "await_destroy":
        return "[TAwait; TDestroy]"
    return "[TStart SOwn]"


def heads(tv, full):
    if full:
        return [s for s in L.sources(tv, True) if s["src"][1] == "T"]
    st = [L.res_of(s, tv) for s in L.STATES]
    nf = lambda b: L.mkfn("N", "V" if tv else "I", b)
    # ordered so that a prefix still has every kind of head
    return [{"src": ("run", "T", "i", nf(("ret", 2))), "ops": []},
            {"src": ("prom", "T", tv, "m1", 0, ("set", 1, st[0])), "ops": []},
            {"src": ("coro", "T", tv, 0, st[0]), "ops": []},
            {"src": ("ready", "T", tv, st[0]), "ops": []},
            {"src": ("run", "T", "s", nf(("ret", 2))), "ops": []},
            {"src": ("ready", "T", tv, st[1]), "ops": []},
            {"src": ("run", "T", "i", L.mkfn("R", "RV" if tv else "RI", ("reserr", 4))), "ops": []},
            {"src": ("prom", "T", tv, "s", 0, ("set", 0, st[0])), "ops": []},
            {"src": ("run", "T", "m0", nf(("ret", 2))), "ops": []},
            {"src": ("ready", "T", tv, st[2]), "ops": []},
            {"src": ("run", "T", "i", nf(("throw", 3))), "ops": []},
            {"src": ("prom", "T", tv, "i", 0, ("set", 0, st[0])), "ops": []},
            {"src": ("coro", "T", tv, 0, st[1]), "ops": []}]


def enumerate_lazy(plan, pick):
    """plan = [(steps, full heads?, alphabet level, start kinds, max heads or None)]"""
    out = []
    for (n, full, lvl, kinds, maxh) in plan:
        frontier = []
        for tv in (0, 1):
            hs = heads(tv, full)
            frontier += hs if maxh is None else hs[:maxh]
        cache = {}
        for _ in range(n):
            nxt = []
            for p in frontier:
                w = L.world(p)
                if w not in cache:
                    cache[w] = L.steps(w[0], w[1], lvl, pick)
                for st in cache[w]:
                    nxt.append({"src": p["src"], "ops": p["ops"] + [st]})
            frontier = nxt
        for p in frontier:
            q = L.number(L.clone(p))
            for k in kinds:
                exs = (["m1", "s", "i"] if n == 0 else ["s", "m1"]) if k in ("tofuture_on", "detach_on") else ["i"]
                for ex in exs:
                    out.append((k, ex, q))
    return out


def random_lazy(rng):
    tv = rng.randrange(2)
    p = L.clone(rng.choice(heads(tv, True)))
    for _ in range(rng.randint(3, 6)):
        wk, tv = L.world(p)
        par = rng.choice(T.PAR_OF_TY[tv])
        rets = [r for r in T.RET if T.step_ok(tv, par, r)]
        ret = rng.choices(rets, [3 if r[0] in ("T", "S", "F", "O") else 1 for r in rets])[0]
        if T.ret_shape(ret) == "async":
            beh = ("async", L.clone(rng.choice(L.inner_catalogue(T.ret_akind(ret), T.ret_ty(ret)))))
        else:
            b = rng.choice(L.plain_behs(ret))
            beh = (b[0], rng.randrange(10))
        p["ops"].append(("then", rng.choice(L.attaches("T", True)), L.mkfn(par, ret, beh)))
    k = rng.choice(KINDS)
    ex = rng.choice(["m1", "s", "i", "m0"]) if k in ("tofuture_on", "detach_on") else "i"
    return (k, ex, L.number(p))


def chain_ids(p):
    """functor ids of the Task's own cores, head first"""
    s = p["src"]
    head = [s[4]] if s[0] == "prom" else [s[3]] if s[0] == "coro" else []
    return head + [f["id"] for f in L.fns(p, top_only=True)]


def blocks(p):
    """would a blocking Get() on this program wait for something only the harness loop provides?"""
    w = L.wire(p)
    return bool(re.search(r"[ (]m\d[ )]", w) or re.search(r"\(set 1 ", w) or re.search(r"\(contract \S+ \S+ \S+ 1 ", w))


MID = ["tofuture", "tofuture_on", "inner", "coawait", "detach_on", "drop", "await_destroy"]


def plans(tier):
    """(steps, full head catalogue?, alphabet level, start kinds, heads per value type or None)"""
    if tier == "thorough":
        return [(0, True, 0, KINDS, None), (1, True, 0, FEW, None), (1, False, 2, MID, 8),
                (2, False, 0, MID, None), (3, False, 0, ["inner", "drop", "await_destroy"], 2)], 20000
    return [(0, True, 0, KINDS, None), (1, False, 1, KINDS, 8), (2, False, 0, FEW, 6)], 3000


def decode(o):
    if o is None:
        return None
    if o[0] == 0:
        return dict(built=0)
    if o[1] == 0:
        return dict(built=1, ran=0)
    i = 3
    nres = o[i]; i += 1
    results = []
    for _ in range(nres):
        results.append((o[i], o[i + 1])); i += 2
    nev = o[i]; i += 1
    evs = []
    for _ in range(nev):
        evs.append((o[i], o[i + 1], o[i + 2], o[i + 3])); i += 4
    nfr = o[i]; i += 1
    freed = o[i:i + nfr]
    return dict(built=1, ran=1, twin=o[2], results=results, events=evs, freed=freed)


def coq_lazy(cases, name, batch=30, per_file=1500):
    hdr = ("From Coq Require Import List ZArith. Import ListNotations.\nFrom YV Require Import model.Pipe model.PipeObs "
           "model.Lazy model.LazyObs.\nLocal Open Scope Z_scope.\nSet Printing Depth 10000000.\nSet Printing Width 1000000.\n")
    import concurrent.futures
    n = len(cases)
    files = [(k, cases[k:k + per_file]) for k in range(0, n, per_file)]

    def one(job):
        k, cs = job
        body = [hdr]
        for j in range(0, len(cs), batch):
            body.append("Eval vm_compute in (lazy_many [%s])." % "; ".join("(%s, %s)" % c for c in cs[j:j + batch]))
        nm = "%s_%d_%d" % (name, os.getpid(), k)
        ok, out = vlib.coqc_eval("\n".join(body) + "\n", nm, timeout=1500)
        try:
            os.remove(os.path.join(vlib.COQ, "cases", nm + ".v"))
        except OSError:
            pass
        res = []
        for m in re.finditer(r"=\s*(\[[^\]]*\]|nil)\s*:\s*list Z", out.replace("\n", " ")):
            nums = [int(x) for x in re.findall(r"-?\d+", m.group(1))]
            i = 0
            while i < len(nums):
                res.append(nums[i + 1:i + 1 + nums[i]])
                i += 1 + nums[i]
        if not ok or len(res) != len(cs):
            return k, [None] * len(cs), out[-3000:]
        return k, res, ""

    results, logs = [None] * n, []
    with concurrent.futures.ThreadPoolExecutor(max_workers=vlib.NPROC) as ex:
        for k, res, log in ex.map(one, files):
            results[k:k + len(res)] = res
            if log:
                logs.append(log)
    return results, logs


def main(ck):
    ck.assumptions = [
        "as C02: callback bodies are total functions; every alive executor eventually runs what is submitted (the harness drains "
        "its manual executors until quiescent); one thread, configuration BC",
        "a completed-but-valid Task is obtained with co_await Await(task) only; coroutine bodies other than the start wrappers of "
        "harness/h_c12.cpp are C13's subject",
        "functor release is observed by construction/destruction counters inside every callback object (harness Token)",
    ]
    ck.cov["trusted_base"] = [
        "Coq 8.16.1 kernel + vm_compute (replay of every explored case through Lazy.trun, Example witnesses)",
        "Print Assumptions of every theorem in Properties_C12.v (recorded below)",
        "checks/pipelib.py printers (wire / Gallina) of one program AST; checks/c12.py mapping start kind -> Task operations",
        "harness/h_c12.cpp + h_c02_lib.hpp (interpreter, start wrappers, counters, oracle), tools/gen_pipeline_table.py",
    ]
    ck.prove("props/Properties_C12.v", ["model/LazyObs.vo"])
    exe, b = L.build_harness(HARNESS, "c12")
    rng = random.Random(ck.seed)
    pick = lambda n, k: sorted(rng.sample(range(n), min(k, n)))
    plan, nrandom = plans(ck.tier)
    cases = enumerate_lazy(plan, pick)
    n_enum = len(cases)
    cases += [random_lazy(rng) for _ in range(nrandom)]
    seen, uniq = set(), []
    for (k, ex, p) in cases:
        if k == "get" and blocks(p):
            continue
        line = "%s %s %s" % (k, ex, L.wire(p))
        if line not in seen:
            seen.add(line)
            uniq.append((k, ex, p, line))
    t0 = time.time()
    rows, errs = L.run_programs(exe, [u[3] for u in uniq], "c12")
    t_impl = time.time() - t0
    t0 = time.time()
    obs, logs = coq_lazy([(ops_of(k, ex), L.gallina(p)) for (k, ex, p, _) in uniq], "c12")
    t_coq = time.time() - t0
    ck.notes.append("%d cases (%d enumerated, %d sampled, %d distinct); implementation %.1fs, Coq %.1fs" % (
        len(cases), n_enum, nrandom, len(uniq), t_impl, t_coq))
    validated, bad, nontriv, per_kind, value_after_recovery = 0, [], 0, {}, 0
    for (k, ex, p, line), row, o in zip(uniq, rows, obs):
        d = decode(o)
        if row is None:
            bad.append((line, "harness produced no result (%s)" % "; ".join(errs)[:300]))
            continue
        if row.get("fail"):
            key = "drop-completed-core" if k == "await_destroy" else "%s:%s" % (k, row.get("key"))
            ck.hits.append(dict(what="%s [%s]" % (row["fail"], line), key=key,
                                replay=dict(harness="h_c12", case=line, key=key, observed=row)))
            continue
        if d is None:
            bad.append((line, "model evaluation failed: %s" % (logs[0][-600:] if logs else "")))
            continue
        final, evs = L.parse_row(row)
        if not d.get("built") or not d.get("ran"):
            bad.append((line, "Lazy.build / Lazy.trun rejects a case the library ran"))
        elif not d["twin"]:
            bad.append((line, "run_task SOwn and core_run (eager p) disagree"))
        elif d["events"] != evs:
            bad.append((line, "model predicts calls %s, implementation showed %s" % (d["events"], evs)))
        elif k in HAS_FINAL and (len(d["results"]) != 1 or d["results"][0] != final):
            bad.append((line, "model predicts result %s, implementation showed %s" % (d["results"], final)))
        elif k in ("drop",) and d["results"]:
            bad.append((line, "model delivers a result for a dropped Task"))
        elif list(d["freed"]) != chain_ids(p):
            bad.append((line, "model's released functors %s are not the chain's" % d["freed"]))
        else:
            validated += 1
            per_kind[k] = per_kind.get(k, 0) + 1
            top = [f["id"] for f in L.fns(p, top_only=True)]
            called = set(e[0] for e in evs)
            skipped = any(i not in called for i in top)
            failure = any(e[2] >= 2 for e in evs) or (final is not None and final[0] >= 2)
            if k not in ("tofuture", "get") or skipped or failure:
                nontriv += 1
            if k == "drop" and any(e[1] in (1, 4, 5) for e in evs):
                value_after_recovery += 1
    ck.cov["evaluations"] = len(uniq)
    ck.cov["traces_validated_against_impl"] = validated
    ck.cov["distinct_nontrivial"] = nontriv
    ck.cov["exhaustive"] = False
    ck.cov["rule"] = ("cases = (lazy program, start kind, executor); programs: every Task source of the catalogue alone and every program "
                      "over the alphabets in `plan` (steps, full head catalogue?, alphabet level of C02, start kinds, head limit) plus "
                      "seeded random chains of 3-6 steps; exhaustive over those alphabets only.  non-trivial = the Task is not simply "
                      "started with ToFuture()/Get(), or a chain callback was skipped, or a failure was seen")
    ck.cov["plan"] = [[a, b_, c, len(d_), e] for (a, b_, c, d_, e) in plan]
    ck.cov["sampled"] = nrandom
    ck.cov["per_start_kind"] = per_kind
    ck.cov["dropped_chains_where_a_value_callback_ran_after_a_recovery"] = value_after_recovery
    ck.cov["samples"] = [dict(case=u[3], final=row.get("final"), events=row.get("events"))
                         for u, row in list(zip(uniq, rows))[:2] + list(zip(uniq, rows))[-3:] if row]
    for line, why in bad[:10]:
        ck.broken.append(dict(name="correspondence Lazy.trun vs implementation", detail="%s\ncase: %s" % (why, line)))
    if bad:
        ck.notes.append("%d cases do not correspond" % len(bad))


def replay(ck, path):
    d = json.load(open(path))
    rp = d.get("replay") or {}
    if not rp.get("case"):
        print("nothing to replay: %s" % json.dumps(d)[:2000])
        return 0
    exe, b = L.build_harness(HARNESS, "c12")
    rows, errs = L.run_programs(exe, [rp["case"]], "c12r")
    print(json.dumps(rows[0]))
    return 1 if rows[0] is None or rows[0].get("fail") else 0
