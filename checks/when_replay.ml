(* Driver around the OCaml extraction of coq/model/WhenObs.v (obs_nat): reads one trace per line
     <strategy> <n> <token> <token> ...
   and prints the numbers of WhenObs.obs_nat, one line per trace.  Tokens (see checks/when_common.py: to_tokens):
     C:i:k:p  EComplete i (k = 0 value / 1 error / 2 exception, payload p)      X:i:w  EXchg i (w = 0 E / 1 C / 2 R)
     R:i:b    EReg          F:i  EFree       LD:i:b ELdDone    XD:i:b EXchgDone    LS:i:v ELdState   XS:i:v EXchgState
     CS:i:b   ECasState     SS:i:v ESubState SO:i ESetOut      D:i:o EDec          DF:i:k EDFree     P:i    EPublish *)
open When_model

let rec nat_of_int i = if i <= 0 then O else S (nat_of_int (i - 1))
let rec int_of_nat = function O -> 0 | S m -> 1 + int_of_nat m

let rec pos_of_u64 v =
  if Int64.equal v 1L then XH
  else
    let p = pos_of_u64 (Int64.shift_right_logical v 1) in
    if Int64.equal (Int64.logand v 1L) 1L then XI p else XO p

let n_of_string s =
  let v = Int64.of_string ("0u" ^ s) in
  if Int64.equal v 0L then N0 else Npos (pos_of_u64 v)

let bool_of s = s = "1"
let strat_of = function
  | "SAllNone" -> SAllNone | "SAllFF" -> SAllFF | "STupNone" -> STupNone | "STupFF" -> STupFF
  | "SJoinNone" -> SJoinNone | "SJoinFF" -> SJoinFF | "SAnyNone" -> SAnyNone | "SAnyFF" -> SAnyFF
  | "SAnyLF" -> SAnyLF | s -> failwith ("strategy " ^ s)

let ev_of tok =
  match String.split_on_char ':' tok with
  | ["C"; i; k; p] ->
      let p = nat_of_int (int_of_string p) in
      let r = (match k with "0" -> RVal p | "1" -> RErr p | _ -> RExc p) in
      EComplete (nat_of_int (int_of_string i), r)
  | ["X"; i; w] -> EXchg (nat_of_int (int_of_string i), (match w with "0" -> WE | "1" -> WC | _ -> WR))
  | ["R"; i; b] -> EReg (nat_of_int (int_of_string i), bool_of b)
  | ["F"; i] -> EFree (nat_of_int (int_of_string i))
  | ["LD"; i; b] -> ELdDone (nat_of_int (int_of_string i), bool_of b)
  | ["XD"; i; b] -> EXchgDone (nat_of_int (int_of_string i), bool_of b)
  | ["LS"; i; v] -> ELdState (nat_of_int (int_of_string i), n_of_string v)
  | ["XS"; i; v] -> EXchgState (nat_of_int (int_of_string i), n_of_string v)
  | ["CS"; i; b] -> ECasState (nat_of_int (int_of_string i), bool_of b)
  | ["SS"; i; v] -> ESubState (nat_of_int (int_of_string i), n_of_string v)
  | ["SO"; i] -> ESetOut (nat_of_int (int_of_string i))
  | ["D"; i; o] -> EDec (nat_of_int (int_of_string i), nat_of_int (int_of_string o))
  | ["DF"; i; k] -> EDFree (nat_of_int (int_of_string i), nat_of_int (int_of_string k))
  | ["P"; i] -> EPublish (nat_of_int (int_of_string i))
  | _ -> failwith ("token " ^ tok)

let () =
  try
    while true do
      let line = input_line stdin in
      match List.filter (fun s -> s <> "") (String.split_on_char ' ' line) with
      | g :: k :: toks ->
          let r = obs_nat (strat_of g) (nat_of_int (int_of_string k)) (List.map ev_of toks) in
          print_endline (String.concat " " (List.map (fun x -> string_of_int (int_of_nat x)) r))
      | _ -> print_endline ""
    done
  with End_of_file -> ()
